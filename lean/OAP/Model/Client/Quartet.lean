/-
Prototype for L5/L6 of the Lifecycle view (DESIGN.md Appendix B): one user `Close`, one reader
goroutine that hits a read error and runs `conn.Close` → close callback → `reconnecting`, and the
retry goroutine it spawns.  Three kinds of blocking meet here: the client RWMutex, the connection's
sync.Once, and the wait for the retry goroutine.  Proved: an invariant that excludes the
lock/Once/wait cycle, and PROGRESS — in every reachable state some thread can step unless all
three have finished.
(view of the repaired client; model and its invariant proofs; imported from the round-0 prototype)
-/
import OAP.Base
namespace OAP.Quartet
open OAP

inductive Who | closer | reader | rc
deriving DecidableEq, Repr

inductive Once | free | held (w : Who) | done
deriving DecidableEq, Repr

inductive CPc    -- user Close (repaired): signal, RLock, conn.Close(cur), RUnlock, callback
  | start | wantR | testClosed | wantOnce | body | checkSig | release | runlock | cb | fin
deriving DecidableEq, Repr

inductive RPc    -- reader: conn.Close(err) → DispatchClose → onConnClose → reconnecting(conn)
  | run | testClosed | wantOnce | body | checkSig | rcvCheckSig | wantW | locked | spawn | waitRC
  | wantW2 | locked2 | release | fin
deriving DecidableEq, Repr

inductive KPc    -- retry goroutine: closed-check, dial under the write lock (with its own closed-check)
  | none | top | wantW | check | dialing | unlock | fin
deriving DecidableEq, Repr

structure St where
  sig : Bool                -- client close signal
  cclosed : Bool            -- connection's closeCh closed
  once : Once               -- connection's closeOnce
  readers : Nat             -- client mu: read holders (only the closer can be one here)
  writer : Option Who       -- client mu: write holder
  reconn : Bool             -- doReconnectting
  c : CPc
  r : RPc
  k : KPc
  closerReconnects : Bool   -- ghost: Close's nested conn.Close entered reconnecting (must never happen)

inductive Act | c | r | k
deriving DecidableEq, Repr

def step (s : St) : Act → Option St
  | .c =>
    match s.c with
    | .start => some { s with sig := true, c := .wantR }
    | .wantR => if s.writer.isSome then none else some { s with readers := s.readers + 1, c := .testClosed }
    | .testClosed => if s.cclosed then some { s with c := .runlock } else some { s with c := .wantOnce }
    | .wantOnce =>
        match s.once with
        | .free => some { s with once := .held .closer, c := .body }
        | .done => some { s with c := .runlock }
        | .held _ => none
    | .body => some { s with cclosed := true, c := .checkSig }
    | .checkSig => if s.sig then some { s with c := .release } else some { s with closerReconnects := true, c := .release }
    | .release => some { s with once := .done, c := .runlock }
    | .runlock => some { s with readers := s.readers - 1, c := .cb }
    | .cb => some { s with c := .fin }
    | .fin => none
  | .r =>
    match s.r with
    | .run => some { s with r := .testClosed }                         -- read error (peer drop or local close)
    | .testClosed => if s.cclosed then some { s with r := .fin } else some { s with r := .wantOnce }
    | .wantOnce =>
        match s.once with
        | .free => some { s with once := .held .reader, r := .body }
        | .done => some { s with r := .fin }
        | .held _ => none
    | .body => some { s with cclosed := true, r := .checkSig }
    | .checkSig => if s.sig then some { s with r := .release } else some { s with r := .rcvCheckSig }
    | .rcvCheckSig => if s.sig then some { s with r := .release } else some { s with r := .wantW }
    | .wantW => if s.writer.isSome || s.readers != 0 then none else some { s with writer := some .reader, r := .locked }
    | .locked => if s.reconn then some { s with writer := none, r := .release }
                 else some { s with reconn := true, writer := none, r := .spawn }
    | .spawn => some { s with k := .top, r := .waitRC }
    | .waitRC => if s.k = .fin then some { s with r := .wantW2 } else none
    | .wantW2 => if s.writer.isSome || s.readers != 0 then none else some { s with writer := some .reader, r := .locked2 }
    | .locked2 => some { s with reconn := false, writer := none, r := .release }
    | .release => some { s with once := .done, r := .fin }
    | .fin => none
  | .k =>
    match s.k with
    | .none => none
    | .top => if s.sig then some { s with k := .fin } else some { s with k := .wantW }
    | .wantW => if s.writer.isSome || s.readers != 0 then none else some { s with writer := some .rc, k := .check }
    | .check => if s.sig then some { s with k := .unlock } else some { s with k := .dialing }
    | .dialing => some { s with k := .unlock }
    | .unlock => some { s with writer := none, k := .fin }
    | .fin => none

def init : St :=
  { sig := false, cclosed := false, once := .free, readers := 0, writer := none, reconn := false,
    c := .start, r := .run, k := .none, closerReconnects := false }

def run : St → List Act → Option St
  | s, [] => some s
  | s, a :: as => (step s a).bind (fun s' => run s' as)

def cHoldsR : CPc → Prop
  | .testClosed | .wantOnce | .body | .checkSig | .release | .runlock => True
  | _ => False

def cInOnce : CPc → Prop
  | .body | .checkSig | .release => True
  | _ => False

def rInOnce : RPc → Prop
  | .body | .checkSig | .rcvCheckSig | .wantW | .locked | .spawn | .waitRC | .wantW2 | .locked2 | .release => True
  | _ => False

def rPastSigOpen : RPc → Prop            -- the reader decided to reconnect (it saw the signal open)
  | .wantW | .locked | .spawn | .waitRC | .wantW2 | .locked2 => True
  | _ => False

def rHoldsW : RPc → Prop
  | .locked | .locked2 => True
  | _ => False

def kHoldsW : KPc → Prop
  | .check | .dialing | .unlock => True
  | _ => False

def cPastStart : CPc → Prop
  | .start => False
  | _ => True

structure QInv (s : St) : Prop where
  sigC : s.sig = true ↔ cPastStart s.c
  rdC1 : cHoldsR s.c → s.readers = 1
  rdC0 : ¬ cHoldsR s.c → s.readers = 0
  onceC : s.once = .held .closer ↔ cInOnce s.c
  onceR : s.once = .held .reader ↔ rInOnce s.r
  onceRc : s.once ≠ .held .rc
  closedAfterBodyR : (rInOnce s.r ∧ s.r ≠ .body) → s.cclosed = true
  closedAfterBodyC : (cInOnce s.c ∧ s.c ≠ .body) → s.cclosed = true
  wR : s.writer = some .reader ↔ rHoldsW s.r
  wK : s.writer = some .rc ↔ kHoldsW s.k
  wC : s.writer ≠ some .closer
  excl : s.writer.isSome = true → s.readers = 0
  kAlive : (s.k ≠ .none) → (s.r = .waitRC ∨ (s.k = .fin ∧ (s.r = .wantW2 ∨ s.r = .locked2 ∨ s.r = .release ∨ s.r = .fin)))
  -- L5: the closer waits for the Once (holding the read lock) only if the reader, if it holds the
  -- Once, has not decided — and will not decide — to reconnect
  noCycle : s.c = .wantOnce → ¬ rPastSigOpen s.r ∧ s.r ≠ .rcvCheckSig ∧ (s.r = .checkSig → s.sig = true)
  noCycle2 : (s.c = .testClosed ∧ s.cclosed = false) → ¬ rPastSigOpen s.r ∧ s.r ≠ .rcvCheckSig ∧ s.r ≠ .checkSig ∧ s.r ≠ .release
  waitK : s.r = .waitRC → s.k ≠ .none
  ghost : s.closerReconnects = false

theorem past_in (p : RPc) (h : rPastSigOpen p) : rInOnce p ∧ p ≠ .body := by
  cases p <;> simp_all [rPastSigOpen, rInOnce]

theorem inv_init : QInv init := by
  constructor <;> simp [init, cPastStart, cHoldsR, cInOnce, rInOnce, rHoldsW, kHoldsW, rPastSigOpen]

macro "qclose" : tactic => `(tactic|
  (constructor <;> intros <;>
    grind [cPastStart, cHoldsR, cInOnce, rInOnce, rHoldsW, kHoldsW, rPastSigOpen, past_in]))

theorem pres_c_start (s : St) (h : QInv s) (hp : s.c = .start) :
    QInv { s with sig := true, c := .wantR } := by
  obtain ⟨h1, h2a, h2b, h3, h4, h5, h6, h7, h8, h9, h10, h11, h12, h13, h14, h14b, h15⟩ := h
  qclose

theorem pres_c_wantR (s : St) (h : QInv s) (hp : s.c = .wantR) (hw : s.writer.isSome = false) :
    QInv { s with readers := s.readers + 1, c := .testClosed } := by
  obtain ⟨h1, h2a, h2b, h3, h4, h5, h6, h7, h8, h9, h10, h11, h12, h13, h14, h14b, h15⟩ := h
  qclose

theorem pres_c_test_closed (s : St) (h : QInv s) (hp : s.c = .testClosed) (hc : s.cclosed = true) :
    QInv { s with c := .runlock } := by
  obtain ⟨h1, h2a, h2b, h3, h4, h5, h6, h7, h8, h9, h10, h11, h12, h13, h14, h14b, h15⟩ := h
  qclose

theorem pres_c_test_open (s : St) (h : QInv s) (hp : s.c = .testClosed) (hc : s.cclosed = false) :
    QInv { s with c := .wantOnce } := by
  obtain ⟨h1, h2a, h2b, h3, h4, h5, h6, h7, h8, h9, h10, h11, h12, h13, h14, h14b, h15⟩ := h
  qclose

theorem pres_c_once_free (s : St) (h : QInv s) (hp : s.c = .wantOnce) (ho : s.once = .free) :
    QInv { s with once := .held .closer, c := .body } := by
  obtain ⟨h1, h2a, h2b, h3, h4, h5, h6, h7, h8, h9, h10, h11, h12, h13, h14, h14b, h15⟩ := h
  qclose

theorem pres_c_once_done (s : St) (h : QInv s) (hp : s.c = .wantOnce) (ho : s.once = .done) :
    QInv { s with c := .runlock } := by
  obtain ⟨h1, h2a, h2b, h3, h4, h5, h6, h7, h8, h9, h10, h11, h12, h13, h14, h14b, h15⟩ := h
  qclose

theorem pres_c_body (s : St) (h : QInv s) (hp : s.c = .body) :
    QInv { s with cclosed := true, c := .checkSig } := by
  obtain ⟨h1, h2a, h2b, h3, h4, h5, h6, h7, h8, h9, h10, h11, h12, h13, h14, h14b, h15⟩ := h
  qclose

theorem pres_c_checkSig (s : St) (h : QInv s) (hp : s.c = .checkSig) (hs : s.sig = true) :
    QInv { s with c := .release } := by
  obtain ⟨h1, h2a, h2b, h3, h4, h5, h6, h7, h8, h9, h10, h11, h12, h13, h14, h14b, h15⟩ := h
  qclose

theorem pres_c_release (s : St) (h : QInv s) (hp : s.c = .release) :
    QInv { s with once := .done, c := .runlock } := by
  obtain ⟨h1, h2a, h2b, h3, h4, h5, h6, h7, h8, h9, h10, h11, h12, h13, h14, h14b, h15⟩ := h
  qclose

theorem pres_c_runlock (s : St) (h : QInv s) (hp : s.c = .runlock) :
    QInv { s with readers := s.readers - 1, c := .cb } := by
  obtain ⟨h1, h2a, h2b, h3, h4, h5, h6, h7, h8, h9, h10, h11, h12, h13, h14, h14b, h15⟩ := h
  qclose

theorem pres_c_cb (s : St) (h : QInv s) (hp : s.c = .cb) :
    QInv { s with c := .fin } := by
  obtain ⟨h1, h2a, h2b, h3, h4, h5, h6, h7, h8, h9, h10, h11, h12, h13, h14, h14b, h15⟩ := h
  qclose

theorem pres_r_run (s : St) (h : QInv s) (hp : s.r = .run) :
    QInv { s with r := .testClosed } := by
  obtain ⟨h1, h2a, h2b, h3, h4, h5, h6, h7, h8, h9, h10, h11, h12, h13, h14, h14b, h15⟩ := h
  qclose

theorem pres_r_test_closed (s : St) (h : QInv s) (hp : s.r = .testClosed) (hc : s.cclosed = true) :
    QInv { s with r := .fin } := by
  obtain ⟨h1, h2a, h2b, h3, h4, h5, h6, h7, h8, h9, h10, h11, h12, h13, h14, h14b, h15⟩ := h
  qclose

theorem pres_r_test_open (s : St) (h : QInv s) (hp : s.r = .testClosed) (hc : s.cclosed = false) :
    QInv { s with r := .wantOnce } := by
  obtain ⟨h1, h2a, h2b, h3, h4, h5, h6, h7, h8, h9, h10, h11, h12, h13, h14, h14b, h15⟩ := h
  qclose

theorem pres_r_once_free (s : St) (h : QInv s) (hp : s.r = .wantOnce) (ho : s.once = .free) :
    QInv { s with once := .held .reader, r := .body } := by
  obtain ⟨h1, h2a, h2b, h3, h4, h5, h6, h7, h8, h9, h10, h11, h12, h13, h14, h14b, h15⟩ := h
  qclose

theorem pres_r_once_done (s : St) (h : QInv s) (hp : s.r = .wantOnce) (ho : s.once = .done) :
    QInv { s with r := .fin } := by
  obtain ⟨h1, h2a, h2b, h3, h4, h5, h6, h7, h8, h9, h10, h11, h12, h13, h14, h14b, h15⟩ := h
  qclose

theorem pres_r_body (s : St) (h : QInv s) (hp : s.r = .body) :
    QInv { s with cclosed := true, r := .checkSig } := by
  obtain ⟨h1, h2a, h2b, h3, h4, h5, h6, h7, h8, h9, h10, h11, h12, h13, h14, h14b, h15⟩ := h
  qclose

theorem pres_r_checkSig_closed (s : St) (h : QInv s) (hp : s.r = .checkSig) (hs : s.sig = true) :
    QInv { s with r := .release } := by
  obtain ⟨h1, h2a, h2b, h3, h4, h5, h6, h7, h8, h9, h10, h11, h12, h13, h14, h14b, h15⟩ := h
  qclose

theorem pres_r_checkSig_open (s : St) (h : QInv s) (hp : s.r = .checkSig) (hs : s.sig = false) :
    QInv { s with r := .rcvCheckSig } := by
  obtain ⟨h1, h2a, h2b, h3, h4, h5, h6, h7, h8, h9, h10, h11, h12, h13, h14, h14b, h15⟩ := h
  qclose

theorem pres_r_rcv_closed (s : St) (h : QInv s) (hp : s.r = .rcvCheckSig) (hs : s.sig = true) :
    QInv { s with r := .release } := by
  obtain ⟨h1, h2a, h2b, h3, h4, h5, h6, h7, h8, h9, h10, h11, h12, h13, h14, h14b, h15⟩ := h
  qclose

theorem pres_r_rcv_open (s : St) (h : QInv s) (hp : s.r = .rcvCheckSig) (hs : s.sig = false) :
    QInv { s with r := .wantW } := by
  obtain ⟨h1, h2a, h2b, h3, h4, h5, h6, h7, h8, h9, h10, h11, h12, h13, h14, h14b, h15⟩ := h
  qclose

theorem pres_r_wantW (s : St) (h : QInv s) (hp : s.r = .wantW) (hw : s.writer.isSome = false) (hr : s.readers = 0) :
    QInv { s with writer := some .reader, r := .locked } := by
  obtain ⟨h1, h2a, h2b, h3, h4, h5, h6, h7, h8, h9, h10, h11, h12, h13, h14, h14b, h15⟩ := h
  qclose

theorem pres_r_locked_skip (s : St) (h : QInv s) (hp : s.r = .locked) (hc : s.reconn = true) :
    QInv { s with writer := none, r := .release } := by
  obtain ⟨h1, h2a, h2b, h3, h4, h5, h6, h7, h8, h9, h10, h11, h12, h13, h14, h14b, h15⟩ := h
  qclose

theorem pres_r_locked_win (s : St) (h : QInv s) (hp : s.r = .locked) (hc : s.reconn = false) :
    QInv { s with reconn := true, writer := none, r := .spawn } := by
  obtain ⟨h1, h2a, h2b, h3, h4, h5, h6, h7, h8, h9, h10, h11, h12, h13, h14, h14b, h15⟩ := h
  qclose

theorem pres_r_spawn (s : St) (h : QInv s) (hp : s.r = .spawn) :
    QInv { s with k := .top, r := .waitRC } := by
  obtain ⟨h1, h2a, h2b, h3, h4, h5, h6, h7, h8, h9, h10, h11, h12, h13, h14, h14b, h15⟩ := h
  qclose

theorem pres_r_waitRC (s : St) (h : QInv s) (hp : s.r = .waitRC) (hk : s.k = .fin) :
    QInv { s with r := .wantW2 } := by
  obtain ⟨h1, h2a, h2b, h3, h4, h5, h6, h7, h8, h9, h10, h11, h12, h13, h14, h14b, h15⟩ := h
  qclose

theorem pres_r_wantW2 (s : St) (h : QInv s) (hp : s.r = .wantW2) (hw : s.writer.isSome = false) (hr : s.readers = 0) :
    QInv { s with writer := some .reader, r := .locked2 } := by
  obtain ⟨h1, h2a, h2b, h3, h4, h5, h6, h7, h8, h9, h10, h11, h12, h13, h14, h14b, h15⟩ := h
  qclose

theorem pres_r_locked2 (s : St) (h : QInv s) (hp : s.r = .locked2) :
    QInv { s with reconn := false, writer := none, r := .release } := by
  obtain ⟨h1, h2a, h2b, h3, h4, h5, h6, h7, h8, h9, h10, h11, h12, h13, h14, h14b, h15⟩ := h
  qclose

theorem pres_r_release (s : St) (h : QInv s) (hp : s.r = .release) :
    QInv { s with once := .done, r := .fin } := by
  obtain ⟨h1, h2a, h2b, h3, h4, h5, h6, h7, h8, h9, h10, h11, h12, h13, h14, h14b, h15⟩ := h
  qclose

theorem pres_k_top_closed (s : St) (h : QInv s) (hp : s.k = .top) (hs : s.sig = true) :
    QInv { s with k := .fin } := by
  obtain ⟨h1, h2a, h2b, h3, h4, h5, h6, h7, h8, h9, h10, h11, h12, h13, h14, h14b, h15⟩ := h
  qclose

theorem pres_k_top_open (s : St) (h : QInv s) (hp : s.k = .top) (hs : s.sig = false) :
    QInv { s with k := .wantW } := by
  obtain ⟨h1, h2a, h2b, h3, h4, h5, h6, h7, h8, h9, h10, h11, h12, h13, h14, h14b, h15⟩ := h
  qclose

theorem pres_k_wantW (s : St) (h : QInv s) (hp : s.k = .wantW) (hw : s.writer.isSome = false) (hr : s.readers = 0) :
    QInv { s with writer := some .rc, k := .check } := by
  obtain ⟨h1, h2a, h2b, h3, h4, h5, h6, h7, h8, h9, h10, h11, h12, h13, h14, h14b, h15⟩ := h
  qclose

theorem pres_k_check_closed (s : St) (h : QInv s) (hp : s.k = .check) (hs : s.sig = true) :
    QInv { s with k := .unlock } := by
  obtain ⟨h1, h2a, h2b, h3, h4, h5, h6, h7, h8, h9, h10, h11, h12, h13, h14, h14b, h15⟩ := h
  qclose

theorem pres_k_check_open (s : St) (h : QInv s) (hp : s.k = .check) (hs : s.sig = false) :
    QInv { s with k := .dialing } := by
  obtain ⟨h1, h2a, h2b, h3, h4, h5, h6, h7, h8, h9, h10, h11, h12, h13, h14, h14b, h15⟩ := h
  qclose

theorem pres_k_dialing (s : St) (h : QInv s) (hp : s.k = .dialing) :
    QInv { s with k := .unlock } := by
  obtain ⟨h1, h2a, h2b, h3, h4, h5, h6, h7, h8, h9, h10, h11, h12, h13, h14, h14b, h15⟩ := h
  qclose

theorem pres_k_unlock (s : St) (h : QInv s) (hp : s.k = .unlock) :
    QInv { s with writer := none, k := .fin } := by
  obtain ⟨h1, h2a, h2b, h3, h4, h5, h6, h7, h8, h9, h10, h11, h12, h13, h14, h14b, h15⟩ := h
  qclose

def cActive (s : St) : Prop := s.c ≠ .fin
def rActive (s : St) : Prop := s.r ≠ .run ∧ s.r ≠ .fin
def kActive (s : St) : Prop := s.k ≠ .none ∧ s.k ≠ .fin

def onceHeld (s : St) : Prop := s.once = .held .closer ∨ s.once = .held .reader ∨ s.once = .held .rc
def lockBusy (s : St) : Prop := s.writer.isSome = true ∨ s.readers ≠ 0

/-- the only pcs at which a thread can be unable to step, with the blocking condition -/
def cBlocked (s : St) : Prop := (s.c = .wantR ∧ s.writer.isSome = true) ∨ (s.c = .wantOnce ∧ onceHeld s)
def rBlocked (s : St) : Prop :=
  (s.r = .wantOnce ∧ onceHeld s) ∨ (s.r = .wantW ∧ lockBusy s) ∨ (s.r = .wantW2 ∧ lockBusy s) ∨ (s.r = .waitRC ∧ s.k ≠ .fin)
def kBlocked (s : St) : Prop := s.k = .wantW ∧ lockBusy s

/-- L6 for the quartet: no reachable state has all unfinished threads blocked — in particular the
    cycle "Close holds the read lock and waits for the Once; the Once holder waits for the retry
    goroutine; the retry goroutine waits for the write lock" cannot occur -/
theorem rIn_active (p : RPc) (h : rInOnce p) : p ≠ .run ∧ p ≠ .fin ∧ p ≠ .wantOnce ∧ p ≠ .testClosed := by
  cases p <;> simp_all [rInOnce]
theorem rHolds_pcs (p : RPc) (h : rHoldsW p) : p = .locked ∨ p = .locked2 := by
  cases p <;> simp_all [rHoldsW]
theorem kHolds_pcs (p : KPc) (h : kHoldsW p) : p = .check ∨ p = .dialing ∨ p = .unlock := by
  cases p <;> simp_all [kHoldsW]
theorem cIn_pcs (p : CPc) (h : cInOnce p) : p = .body ∨ p = .checkSig ∨ p = .release := by
  cases p <;> simp_all [cInOnce]
theorem who_cases (w : Who) : w = .closer ∨ w = .reader ∨ w = .rc := by cases w <;> simp
theorem isSome_cases (o : Option Who) (h : o.isSome = true) : o = some .closer ∨ o = some .reader ∨ o = some .rc := by
  cases o with
  | none => simp at h
  | some w => cases w <;> simp

theorem no_deadlock (s : St) (h : QInv s) (hany : cActive s ∨ rActive s ∨ kActive s) :
    ¬ ((cActive s → cBlocked s) ∧ (rActive s → rBlocked s) ∧ (kActive s → kBlocked s)) := by
  obtain ⟨h1, h2a, h2b, h3, h4, h5, h6, h7, h8, h9, h10, h11, h12, h13, h14, h14b, h15⟩ := h
  unfold cActive rActive kActive cBlocked rBlocked kBlocked onceHeld lockBusy at *
  intro ⟨bc, br, bk⟩
  have wc := isSome_cases s.writer
  grind [cPastStart, cHoldsR, rPastSigOpen, rIn_active, rHolds_pcs, kHolds_pcs, cIn_pcs]

theorem inv_step (s s' : St) (a : Act) (h : QInv s) (hs : step s a = some s') : QInv s' := by
  have hsig : s.c = .checkSig → s.sig = true := fun hc => h.sigC.mpr (by simp [hc, cPastStart])
  cases a <;> simp only [step] at hs <;> split at hs <;>
    (try (split at hs)) <;> (try (simp at hs; done)) <;>
    (try (simp only [Option.some.injEq] at hs; subst hs))
  all_goals (first | (exact pres_c_start _ h (by assumption)) | (exact pres_c_wantR _ h (by assumption)) | (exact pres_c_test_closed _ h (by assumption)) | (exact pres_c_test_open _ h (by assumption)) | (exact pres_c_once_free _ h (by assumption)) | (exact pres_c_once_done _ h (by assumption)) | (exact pres_c_body _ h (by assumption)) | (exact pres_c_checkSig _ h (by assumption)) | (exact pres_c_release _ h (by assumption)) | (exact pres_c_runlock _ h (by assumption)) | (exact pres_c_cb _ h (by assumption)) | (exact pres_r_run _ h (by assumption)) | (exact pres_r_test_closed _ h (by assumption)) | (exact pres_r_test_open _ h (by assumption)) | (exact pres_r_once_free _ h (by assumption)) | (exact pres_r_once_done _ h (by assumption)) | (exact pres_r_body _ h (by assumption)) | (exact pres_r_checkSig_closed _ h (by assumption)) | (exact pres_r_checkSig_open _ h (by assumption)) | (exact pres_r_rcv_closed _ h (by assumption)) | (exact pres_r_rcv_open _ h (by assumption)) | (exact pres_r_wantW _ h (by assumption)) | (exact pres_r_locked_skip _ h (by assumption)) | (exact pres_r_locked_win _ h (by assumption)) | (exact pres_r_spawn _ h (by assumption)) | (exact pres_r_waitRC _ h (by assumption)) | (exact pres_r_wantW2 _ h (by assumption)) | (exact pres_r_locked2 _ h (by assumption)) | (exact pres_r_release _ h (by assumption)) | (exact pres_k_top_closed _ h (by assumption)) | (exact pres_k_top_open _ h (by assumption)) | (exact pres_k_wantW _ h (by assumption)) | (exact pres_k_check_closed _ h (by assumption)) | (exact pres_k_check_open _ h (by assumption)) | (exact pres_k_dialing _ h (by assumption)) | (exact pres_k_unlock _ h (by assumption)) | (exact pres_c_start _ h (by assumption) (by simp_all)) | (exact pres_c_wantR _ h (by assumption) (by simp_all)) | (exact pres_c_test_closed _ h (by assumption) (by simp_all)) | (exact pres_c_test_open _ h (by assumption) (by simp_all)) | (exact pres_c_once_free _ h (by assumption) (by simp_all)) | (exact pres_c_once_done _ h (by assumption) (by simp_all)) | (exact pres_c_body _ h (by assumption) (by simp_all)) | (exact pres_c_checkSig _ h (by assumption) (by simp_all)) | (exact pres_c_release _ h (by assumption) (by simp_all)) | (exact pres_c_runlock _ h (by assumption) (by simp_all)) | (exact pres_c_cb _ h (by assumption) (by simp_all)) | (exact pres_r_run _ h (by assumption) (by simp_all)) | (exact pres_r_test_closed _ h (by assumption) (by simp_all)) | (exact pres_r_test_open _ h (by assumption) (by simp_all)) | (exact pres_r_once_free _ h (by assumption) (by simp_all)) | (exact pres_r_once_done _ h (by assumption) (by simp_all)) | (exact pres_r_body _ h (by assumption) (by simp_all)) | (exact pres_r_checkSig_closed _ h (by assumption) (by simp_all)) | (exact pres_r_checkSig_open _ h (by assumption) (by simp_all)) | (exact pres_r_rcv_closed _ h (by assumption) (by simp_all)) | (exact pres_r_rcv_open _ h (by assumption) (by simp_all)) | (exact pres_r_wantW _ h (by assumption) (by simp_all)) | (exact pres_r_locked_skip _ h (by assumption) (by simp_all)) | (exact pres_r_locked_win _ h (by assumption) (by simp_all)) | (exact pres_r_spawn _ h (by assumption) (by simp_all)) | (exact pres_r_waitRC _ h (by assumption) (by simp_all)) | (exact pres_r_wantW2 _ h (by assumption) (by simp_all)) | (exact pres_r_locked2 _ h (by assumption) (by simp_all)) | (exact pres_r_release _ h (by assumption) (by simp_all)) | (exact pres_k_top_closed _ h (by assumption) (by simp_all)) | (exact pres_k_top_open _ h (by assumption) (by simp_all)) | (exact pres_k_wantW _ h (by assumption) (by simp_all)) | (exact pres_k_check_closed _ h (by assumption) (by simp_all)) | (exact pres_k_check_open _ h (by assumption) (by simp_all)) | (exact pres_k_dialing _ h (by assumption) (by simp_all)) | (exact pres_k_unlock _ h (by assumption) (by simp_all)) | (exact pres_c_start _ h (by assumption) (by simp_all) (by simp_all)) | (exact pres_c_wantR _ h (by assumption) (by simp_all) (by simp_all)) | (exact pres_c_test_closed _ h (by assumption) (by simp_all) (by simp_all)) | (exact pres_c_test_open _ h (by assumption) (by simp_all) (by simp_all)) | (exact pres_c_once_free _ h (by assumption) (by simp_all) (by simp_all)) | (exact pres_c_once_done _ h (by assumption) (by simp_all) (by simp_all)) | (exact pres_c_body _ h (by assumption) (by simp_all) (by simp_all)) | (exact pres_c_checkSig _ h (by assumption) (by simp_all) (by simp_all)) | (exact pres_c_release _ h (by assumption) (by simp_all) (by simp_all)) | (exact pres_c_runlock _ h (by assumption) (by simp_all) (by simp_all)) | (exact pres_c_cb _ h (by assumption) (by simp_all) (by simp_all)) | (exact pres_r_run _ h (by assumption) (by simp_all) (by simp_all)) | (exact pres_r_test_closed _ h (by assumption) (by simp_all) (by simp_all)) | (exact pres_r_test_open _ h (by assumption) (by simp_all) (by simp_all)) | (exact pres_r_once_free _ h (by assumption) (by simp_all) (by simp_all)) | (exact pres_r_once_done _ h (by assumption) (by simp_all) (by simp_all)) | (exact pres_r_body _ h (by assumption) (by simp_all) (by simp_all)) | (exact pres_r_checkSig_closed _ h (by assumption) (by simp_all) (by simp_all)) | (exact pres_r_checkSig_open _ h (by assumption) (by simp_all) (by simp_all)) | (exact pres_r_rcv_closed _ h (by assumption) (by simp_all) (by simp_all)) | (exact pres_r_rcv_open _ h (by assumption) (by simp_all) (by simp_all)) | (exact pres_r_wantW _ h (by assumption) (by simp_all) (by simp_all)) | (exact pres_r_locked_skip _ h (by assumption) (by simp_all) (by simp_all)) | (exact pres_r_locked_win _ h (by assumption) (by simp_all) (by simp_all)) | (exact pres_r_spawn _ h (by assumption) (by simp_all) (by simp_all)) | (exact pres_r_waitRC _ h (by assumption) (by simp_all) (by simp_all)) | (exact pres_r_wantW2 _ h (by assumption) (by simp_all) (by simp_all)) | (exact pres_r_locked2 _ h (by assumption) (by simp_all) (by simp_all)) | (exact pres_r_release _ h (by assumption) (by simp_all) (by simp_all)) | (exact pres_k_top_closed _ h (by assumption) (by simp_all) (by simp_all)) | (exact pres_k_top_open _ h (by assumption) (by simp_all) (by simp_all)) | (exact pres_k_wantW _ h (by assumption) (by simp_all) (by simp_all)) | (exact pres_k_check_closed _ h (by assumption) (by simp_all) (by simp_all)) | (exact pres_k_check_open _ h (by assumption) (by simp_all) (by simp_all)) | (exact pres_k_dialing _ h (by assumption) (by simp_all) (by simp_all)) | (exact pres_k_unlock _ h (by assumption) (by simp_all) (by simp_all)) | (exfalso; simp_all))

theorem inv_run (acts : List Act) : ∀ s s', QInv s → run s acts = some s' → QInv s' := by
  induction acts with
  | nil => intro s s' h hr; simp [run] at hr; subst hr; exact h
  | cons a as ih =>
    intro s s' h hr
    simp only [run] at hr
    cases hst : step s a with
    | none => simp [hst] at hr
    | some s1 => simp [hst] at hr; exact ih s1 s' (inv_step s s1 a h hst) hr

/-- for every interleaving: Close's nested conn.Close never enters reconnecting (so Close never asks
    for the write lock while holding the read lock), and no reachable state is a deadlock -/
theorem quartet_safe (acts : List Act) (s : St) (h : run init acts = some s) :
    s.closerReconnects = false ∧
    ((cActive s ∨ rActive s ∨ kActive s) →
      ¬ ((cActive s → cBlocked s) ∧ (rActive s → rBlocked s) ∧ (kActive s → kBlocked s))) := by
  have i := inv_run acts init s inv_init h
  exact ⟨i.ghost, no_deadlock s i⟩


/-- non-vacuity: the reader loses the connection and starts a recovery; Close arrives while the retry
    goroutine holds the write lock for its dial; the goroutine sees the signal, gives up; everything
    terminates, the Once is done, the lock is free -/
def demo : List Act :=
  [.r, .r, .r, .r, .r, .r, .r, .r, .r,      -- read error … Once taken … decided to reconnect … spawned, waiting
   .k, .k,                                   -- retry goroutine: signal open, takes the write lock
   .c,                                       -- Close: signal
   .k, .k,                                   -- dial's own check sees the signal: unlock, finished
   .r, .r, .r, .r,                           -- reader clears the flag, releases the Once, exits
   .c, .c, .c, .c]                           -- Close: RLock, conn already closed, RUnlock, callback

example : (run init demo).map (fun s => (s.c, s.r, s.k)) = some (.fin, .fin, .fin) := by decide
example : (run init demo).map (fun s => (s.once, s.writer.isSome, s.readers)) = some (.done, false, 0) := by decide

end OAP.Quartet
