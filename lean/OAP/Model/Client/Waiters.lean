/-
View *Waiters* of the client (go/client/client.go: Do / register / unregister / recv /
handleResponse / reconnect's fail-all), as a labelled transition system over any number of
concurrent calls. Each call owns a 1-slot channel; the table maps request id ↦ (call, connection);
the dispatcher of a connection delivers a response only to a waiter registered for that
connection; fail-all closes every registered channel and replaces the table; a new connection
restarts the ids. Environment actions (`dispatch` of ANY packet from ANY connection at ANY time,
`failAll`, `newConn`) over-approximate the rest of the client and the peer.
-/
import OAP.Base
namespace OAP.Waiters

def upd {α} (f : Nat → α) (k : Nat) (v : α) : Nat → α := fun x => if x = k then v else f x

structure Pkt where
  conn : Nat      -- connection the packet arrived on (its dispatcher knows it)
  rid : Nat
  tag : Nat       -- stands for the rest of the packet
  deriving DecidableEq, Repr

inductive Chan where | unused | empty | full (p : Pkt) | closed
  deriving DecidableEq, Repr

inductive CallPc where
  | idle
  | registered (conn rid : Nat)                     -- waiter in the table, request not yet handed over
  | written (conn rid : Nat)                        -- request accepted by the transport, waiting
  | returning (conn rid : Nat) (res : Option Pkt)   -- recv has decided (response taken / closed / deadline / write error);
                                                    -- the deferred unregister has not run yet: the entry is still in the table
  | done (conn rid : Nat) (res : Option Pkt)        -- returned; none = error (write error / closed / deadline)
  deriving DecidableEq, Repr

structure St where
  cur : Nat                         -- current connection (`c.conn`)
  issued : Nat → Bool               -- request ids already handed out on the current connection (atomic counter: each id once)
  recvs : Nat → Option (Nat × Nat)  -- rid ↦ (call, connection)
  chan : Nat → Chan                 -- the channel each call owns
  call : Nat → CallPc

inductive Act where
  | start (i : Nat) (rid : Nat)     -- Do: read conn, take a FRESH id (C19: the generator hands out each id once), register(rid, conn)
  | write (i : Nat) (ok : Bool)     -- conn.Write
  | dispatch (p : Pkt)              -- handleResponse(conn, p): any packet from any connection's dispatcher, any time
  | wake (i : Nat)                  -- recv: the select takes the slot (response or closed)
  | giveUp (i : Nat)                -- recv: the deadline branch
  | finish (i : Nat)                -- the deferred unregister(rid, w), then Do returns
  | failAll                         -- reconnect(): close every registered channel, replace the table
  | newConn                         -- dial installs a fresh connection: ids restart
  deriving DecidableEq, Repr

/-- `unregister(rid, w)`: delete the entry only if it still belongs to this call -/
def unregister (s : St) (i r : Nat) : Nat → Option (Nat × Nat) := fun x =>
  if x = r then
    (match s.recvs r with
     | some (i', c) => if i' = i then none else some (i', c)
     | none => none)
  else s.recvs x

def closeRegistered (s : St) : Nat → Chan := fun i =>
  match s.chan i, s.call i with
  | .empty, .registered _ _ => .closed
  | .empty, .written _ _ => .closed
  | x, _ => x

def step (s : St) : Act → Option St
  | .start i rid =>
    match s.call i with
    | .idle => if s.issued rid then none else
               some { s with issued := upd s.issued rid true,
                             recvs := upd s.recvs rid (some (i, s.cur)),
                             chan := upd s.chan i .empty,
                             call := upd s.call i (.registered s.cur rid) }
    | _ => none
  | .write i ok =>
    match s.call i with
    | .registered c r => if ok then some { s with call := upd s.call i (.written c r) }
                         else some { s with call := upd s.call i (.returning c r none) }
    | _ => none
  | .dispatch p =>
    match s.recvs p.rid with
    | some (i, c) =>
        if c = p.conn then
          (match s.chan i with
           | .empty => some { s with chan := upd s.chan i (.full p) }   -- also when the caller has already left recv: nobody reads it
           | _ => some s)                                   -- duplicate: dropped with a warning
        else some s                                         -- waiter of another connection: dropped
    | none => some s                                        -- no receiver: dropped
  | .wake i =>
    match s.call i with
    | .written c r =>
      match s.chan i with
      | .full p => some { s with call := upd s.call i (.returning c r (some p)), chan := upd s.chan i .empty }
      | .closed => some { s with call := upd s.call i (.returning c r none) }
      | _ => none
    | _ => none
  | .giveUp i =>
    match s.call i with
    | .written c r => some { s with call := upd s.call i (.returning c r none) }
    | _ => none
  | .finish i =>
    match s.call i with
    | .returning c r res => some { s with call := upd s.call i (.done c r res), recvs := unregister s i r }
    | _ => none
  | .failAll => some { s with recvs := fun _ => none, chan := closeRegistered s }
  | .newConn => some { s with cur := s.cur + 1, issued := fun _ => false }

def init : St := { cur := 0, issued := fun _ => false, recvs := fun _ => none, chan := fun _ => .unused, call := fun _ => .idle }

def run : St → List Act → Option St
  | s, [] => some s
  | s, a :: as => (step s a).bind (fun s' => run s' as)

def Reachable (s : St) : Prop := ∃ acts, run init acts = some s

/-! the PINNED order (before the repair), kept as a regression witness: `Do` wrote first and registered afterwards,
and the table knew nothing about connections. One call suffices to show the loss. -/
namespace Pinned
inductive Pc where | idle | written (r : Nat) | registered (r : Nat) | done (res : Option Nat)
  deriving DecidableEq, Repr
structure St where
  tab : Nat → Bool        -- rid registered?
  slot : Option Nat       -- the call's 1-slot channel
  pc : Pc
  lost : List Nat         -- responses that found no receiver although their call was in flight
inductive Act where | write (r : Nat) | dispatch (r tag : Nat) | register | wake | giveUp
  deriving DecidableEq, Repr
def step (s : St) : Act → Option St
  | .write r => match s.pc with | .idle => some { s with pc := .written r } | _ => none
  | .register => match s.pc with | .written r => some { s with pc := .registered r, tab := upd s.tab r true } | _ => none
  | .dispatch r tag =>
    if s.tab r then some { s with slot := s.slot.or (some tag) }
    else some { s with lost := match s.pc with | .written r' => if r' = r then s.lost ++ [r] else s.lost | _ => s.lost }
  | .wake => match s.pc, s.slot with | .registered _, some t => some { s with pc := .done (some t) } | _, _ => none
  | .giveUp => match s.pc with | .registered _ => some { s with pc := .done none } | _ => none
def init : St := { tab := fun _ => false, slot := none, pc := .idle, lost := [] }
def run : St → List Act → Option St
  | s, [] => some s
  | s, a :: as => (step s a).bind (fun s' => run s' as)
end Pinned

end OAP.Waiters
