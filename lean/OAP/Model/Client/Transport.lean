/-
Prototype for C12: the TCP write path.  Any number of callers enqueue packed frames with a
non-blocking send (error when the queue is full); one writer goroutine dequeues and writes each
frame whole, with partial socket writes re-buffered in front of the next write.
(view of the repaired client; model and its invariant proofs; imported from the round-0 prototype)
-/
import OAP.Base
namespace OAP.Transport
open OAP

structure St where
  queue : List Bytes          -- writeCh, oldest first (the handshake is the first element put in)
  pending : Bytes             -- remainder of a partial socket write (the writer's ring buffer)
  sock : Bytes                -- everything the socket has accepted so far
  accepted : List Bytes       -- ghost: frames accepted by enqueue, in order
  rejected : Nat              -- "write queue full" errors returned

inductive Act
  | enqueue (f : Bytes)       -- some goroutine's Write: Pack already done (thread-local), now the send
  | write (n : Nat)           -- writer: take next frame, prepend the remainder, socket accepts n bytes of it
  | flush (n : Nat)           -- writer's ticker: socket accepts n bytes of the remainder

def step (cap : Nat) (s : St) : Act → Option St
  | .enqueue f =>
      if s.queue.length < cap then some { s with queue := s.queue ++ [f], accepted := s.accepted ++ [f] }
      else some { s with rejected := s.rejected + 1 }          -- never blocks
  | .write n =>
      match s.queue with
      | [] => none
      | f :: q =>
        let b := s.pending ++ f
        some { s with queue := q, sock := s.sock ++ b.take n, pending := b.drop n }
  | .flush n =>
      some { s with sock := s.sock ++ s.pending.take n, pending := s.pending.drop n }

def init (handshake : Bytes) : St :=
  { queue := [handshake], pending := [], sock := [], accepted := [handshake], rejected := 0 }

def run (cap : Nat) : St → List Act → Option St
  | s, [] => some s
  | s, a :: as => (step cap s a).bind (fun s' => run cap s' as)

/-- the stream invariant: socket bytes ++ remainder ++ queued frames = all accepted frames, in order -/
def TInv (s : St) : Prop := s.sock ++ s.pending ++ s.queue.flatten = s.accepted.flatten

theorem inv_step (cap : Nat) (s s' : St) (a : Act) (h : TInv s) (hs : step cap s a = some s') : TInv s' := by
  unfold TInv at *
  cases a with
  | enqueue f =>
    simp only [step] at hs
    split at hs <;> simp only [Option.some.injEq] at hs <;> subst hs
    · simp [← h, List.append_assoc]
    · exact h
  | write n =>
    simp only [step] at hs
    split at hs
    · simp at hs
    · rename_i f q hq
      simp only [Option.some.injEq] at hs; subst hs
      rw [← h, hq]
      simp only [List.flatten_cons, List.append_assoc]
      rw [← List.append_assoc ((s.pending ++ f).take n), List.take_append_drop]
      simp [List.append_assoc]
  | flush n =>
    simp only [step, Option.some.injEq] at hs; subst hs
    rw [← h]
    simp only [List.append_assoc]
    rw [← List.append_assoc (s.pending.take n), List.take_append_drop]

theorem inv_run (cap : Nat) (acts : List Act) : ∀ s s', TInv s → run cap s acts = some s' → TInv s' := by
  induction acts with
  | nil => intro s s' h hr; simp [run] at hr; subst hr; exact h
  | cons a as ih =>
    intro s s' h hr
    simp only [run] at hr
    cases hst : step cap s a with
    | none => simp [hst] at hr
    | some s1 => simp [hst] at hr; exact ih s1 s' (inv_step cap s s1 a h hst) hr

/-- C12 `stream_shape`: for any number of concurrent writers and any pattern of partial socket
    writes, the bytes on the socket are always a prefix of handshake ++ accepted frames in acceptance
    order — nothing interleaved, torn, re-ordered or repeated; and once queue and remainder are empty
    they are exactly that. -/
theorem stream_shape (cap : Nat) (hs : Bytes) (acts : List Act) (s : St)
    (h : run cap (init hs) acts = some s) :
    s.sock <+: s.accepted.flatten ∧ (∃ rest, s.accepted = hs :: rest) ∧
    (s.queue = [] → s.pending = [] → s.sock = s.accepted.flatten) := by
  have i : TInv s := inv_run cap acts (init hs) s (by simp [TInv, init]) h
  unfold TInv at i
  refine ⟨⟨s.pending ++ s.queue.flatten, by rw [← i, List.append_assoc]⟩, ?_, ?_⟩
  · -- the handshake is, and stays, the first accepted frame
    have : ∀ (acts : List Act) (s0 s1 : St), (∃ r, s0.accepted = hs :: r) → run cap s0 acts = some s1 →
        ∃ r, s1.accepted = hs :: r := by
      intro acts
      induction acts with
      | nil => intro s0 s1 h0 hr; simp [run] at hr; subst hr; exact h0
      | cons a as ih =>
        intro s0 s1 h0 hr
        simp only [run] at hr
        cases hst : step cap s0 a with
        | none => simp [hst] at hr
        | some s2 =>
          simp [hst] at hr
          apply ih s2 s1 _ hr
          obtain ⟨r, hr0⟩ := h0
          cases a with
          | enqueue f =>
            simp only [step] at hst
            split at hst <;> simp only [Option.some.injEq] at hst <;> subst hst
            · exact ⟨r ++ [f], by simp [hr0]⟩
            · exact ⟨r, hr0⟩
          | write n =>
            simp only [step] at hst
            split at hst
            · simp at hst
            · simp only [Option.some.injEq] at hst; subst hst; exact ⟨r, hr0⟩
          | flush n =>
            simp only [step, Option.some.injEq] at hst; subst hst; exact ⟨r, hr0⟩
    exact this acts (init hs) s ⟨[], rfl⟩ h
  · intro hq hp
    rw [hq, hp] at i
    simpa using i

end OAP.Transport
