/-
Prototype for C15: the keepalive bookkeeping of the repaired client as a timed sequential model.
Times are natural numbers (ms), carried by the events.
(view of the repaired client; model and its invariant proofs; imported from the round-0 prototype)
-/
import OAP.Base
namespace OAP.Keepalive
open OAP

structure Cfg where
  interval : Nat
  timeout : Nat
deriving Repr

structure K where
  lastId : Nat          -- id of the last ping sent, 0 = none outstanding since the last recovery
  lastPong : Nat        -- time of the last pong (initially the start time)
  nextId : Nat          -- request-id generator of the connection
deriving Repr

inductive Ev
  | tick (t : Nat)
  | pong (t : Nat)
  | recovered (t : Nat)     -- a successful re-dial (any path: resume, re-auth, no auth)
deriving Repr

inductive Act
  | ping (id : Nat)
  | recycle
deriving DecidableEq, Repr

/-- `check()` of keepalive -/
def checkFails (cfg : Cfg) (k : K) (t : Nat) : Bool := k.lastId != 0 && decide (t - k.lastPong > cfg.timeout)

def step (cfg : Cfg) (k : K) : Ev → K × List Act
  | .tick t =>
      if checkFails cfg k t then (k, [.recycle])
      else ({ k with lastId := k.nextId, nextId := k.nextId + 1 }, [.ping k.nextId])
  | .pong t => ({ k with lastPong := t }, [])
  | .recovered t => ({ k with lastId := 0, lastPong := t, nextId := 1 }, [])   -- fresh connection: ids restart, bookkeeping cleared, the pong clock restarts

def runK (cfg : Cfg) : K → List Ev → K × List Act
  | k, [] => (k, [])
  | k, e :: es =>
    let (k', a) := step cfg k e
    let (k'', a') := runK cfg k' es
    (k'', a ++ a')

/-- a healthy peer: every tick at time t is followed by its pong at t' with t ≤ t' and the next tick
    comes no later than one interval after t -/
inductive Healthy (cfg : Cfg) : Nat → List Ev → Prop      -- first argument: time of the last pong
  | nil {p} : Healthy cfg p []
  | round {p t t' es} : t ≤ p + cfg.interval → t ≤ t' → Healthy cfg t' es → Healthy cfg p (.tick t :: .pong t' :: es)
  | recovered {p t es} : Healthy cfg t es → Healthy cfg p (.recovered t :: es)

/-- C15 `no_false_positive`: with timeout ≥ interval a peer that answers every heartbeat is never
    recycled by keepalive — whatever recoveries happen in between -/
theorem no_false_positive (cfg : Cfg) (hc : cfg.interval ≤ cfg.timeout) (p : Nat) (es : List Ev)
    (h : Healthy cfg p es) : ∀ (k : K), k.lastPong = p → Act.recycle ∉ (runK cfg k es).2 := by
  induction h with
  | nil => intro k _; simp [runK]
  | @round p t t' es' h1 h2 _ ih =>
    intro k hk
    have hchk : checkFails cfg k t = false := by
      simp only [checkFails, Bool.and_eq_false_iff, decide_eq_false_iff_not]
      right; rw [hk]; omega
    simp only [runK, step, hchk, Bool.false_eq_true, ↓reduceIte]
    have := ih { lastId := k.nextId, lastPong := t', nextId := k.nextId + 1 } rfl
    simpa using this
  | @recovered p t es' _ ih =>
    intro k hk
    simp only [runK, step]
    have := ih { k with lastId := 0, lastPong := t, nextId := 1 } rfl
    simpa using this

/-- C15 `detects_dead`: once a ping is outstanding and no pong arrives any more, the first tick later
    than lastPong + timeout recycles the connection — so detection takes at most timeout + one
    tick spacing after the last pong -/
theorem detects_dead (cfg : Cfg) (k : K) (t : Nat) (hid : k.lastId ≠ 0) (ht : k.lastPong + cfg.timeout < t) :
    (step cfg k (.tick t)).2 = [.recycle] := by
  have : checkFails cfg k t = true := by
    simp only [checkFails, Bool.and_eq_true, bne_iff_ne, ne_eq, decide_eq_true_eq]
    exact ⟨hid, by omega⟩
  simp [step, this]

/-- the check fails exactly when a ping is outstanding and the last pong (or the (re)start of the connection) is more than the
    timeout ago — so ANY peer whose pongs keep arriving at most `timeout` apart is never recycled, whatever its latency -/
theorem check_fails_iff (cfg : Cfg) (k : K) (t : Nat) :
    checkFails cfg k t = true ↔ (k.lastId ≠ 0 ∧ k.lastPong + cfg.timeout < t) := by
  simp only [checkFails, Bool.and_eq_true, bne_iff_ne, ne_eq, decide_eq_true_eq]
  constructor
  · intro ⟨h1, h2⟩; exact ⟨h1, by omega⟩
  · intro ⟨h1, h2⟩; exact ⟨h1, by omega⟩

/-- after EVERY recovery the clock restarts: no tick within `timeout` of the re-dial can recycle the fresh connection,
    however slowly its first pong arrives (defect D21 of the tree before the repair: the stale clock of the dead connection
    was kept, so a peer answering slower than one interval was declared dead at the second tick, again and again) -/
theorem after_recovery_grace (cfg : Cfg) (k : K) (r t : Nat) (ht : t ≤ r + cfg.timeout) (acts : List Ev)
    (hq : ∀ e ∈ acts, ∃ u, e = .tick u ∧ u ≤ r + cfg.timeout) :
    Act.recycle ∉ (runK cfg (step cfg k (.recovered r)).1 (acts ++ [.tick t])).2 := by
  have key : ∀ (acts : List Ev) (k' : K), k'.lastPong = r →
      (∀ e ∈ acts, ∃ u, e = .tick u ∧ u ≤ r + cfg.timeout) →
      Act.recycle ∉ (runK cfg k' (acts ++ [.tick t])).2 := by
    intro acts
    induction acts with
    | nil =>
      intro k' hk _
      have : checkFails cfg k' t = false := by
        cases h : checkFails cfg k' t with
        | false => rfl
        | true => have := (check_fails_iff cfg k' t).mp h; omega
      simp [runK, step, this]
    | cons e es ih =>
      intro k' hk hq
      obtain ⟨u, rfl, hu⟩ := hq e (by simp)
      have : checkFails cfg k' u = false := by
        cases h : checkFails cfg k' u with
        | false => rfl
        | true => have := (check_fails_iff cfg k' u).mp h; omega
      simp only [List.cons_append, runK, step, this, Bool.false_eq_true, ↓reduceIte]
      have := ih { k' with lastId := k'.nextId, nextId := k'.nextId + 1 } hk (fun e he => hq e (by simp [he]))
      simpa using this
  exact key acts _ rfl hq

/-- every ping carries a fresh id (ids strictly increase between recoveries) -/
theorem ping_fresh (cfg : Cfg) (k : K) (t : Nat) (h : checkFails cfg k t = false) :
    (step cfg k (.tick t)).2 = [.ping k.nextId] ∧ (step cfg k (.tick t)).1.nextId = k.nextId + 1 ∧
    (step cfg k (.tick t)).1.lastId = k.nextId := by
  simp [step, h]

/-- the pinned tree's defect, as a decided counter-example of the un-repaired rule (recovery leaves
    lastId in place): a healthy peer is recycled at the first tick after a recovery -/
def stepPinned (cfg : Cfg) (k : K) : Ev → K × List Act
  | .recovered _ => ({ k with nextId := 1 }, [])       -- non-resume path: bookkeeping NOT cleared
  | e => step cfg k e

example : (stepPinned ⟨100, 200⟩ (stepPinned ⟨100, 200⟩ ⟨5, 1000, 6⟩ (.recovered 5000)).1 (.tick 5100)).2 = [.recycle] := by
  decide

end OAP.Keepalive
