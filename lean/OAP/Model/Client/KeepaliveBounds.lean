/-
C15, quantitative part: detection latency and absence of false positives of the keepalive bookkeeping under
scheduling slack (late ticks) and slow pongs. Same model as `OAP.Model.Client.Keepalive` (`step`/`runK`, explicit
event times); nothing of that file is changed.

Go code mirrored (client.go, `keepalive()`): a ticker with period `Keepalive`; on every tick `check()` — if a ping is
outstanding (`lastKeepaliveId != 0`) and `time.Since(lastPongAt) > KeepaliveTimeout` the connection is recycled —
otherwise `ping()` (fresh request id, recorded in `lastKeepaliveId`); `handlePong` sets `lastPongAt = time.Now()`.
The id generator of a connection counts 1, 2, 3, … (`GetRequestIDGen` in context.go: `atomic.AddUint32(&id, 1)`
from 0): hypothesis `k.nextId ≠ 0` below. (The model's counter is a `Nat`; the uint32 wrap-around to 0 after 2^32 − 1
requests on one connection is outside this view.)
-/
import OAP.Model.Client.Keepalive
namespace OAP.Keepalive
open OAP

/-! ### the run of a tick, unfolded -/

theorem runK_tick_ok (cfg : Cfg) (k : K) (t : Nat) (es : List Ev) (h : checkFails cfg k t = false) :
    (runK cfg k (.tick t :: es)).2 =
      .ping k.nextId :: (runK cfg { k with lastId := k.nextId, nextId := k.nextId + 1 } es).2 := by
  simp [runK, step, h]

theorem runK_tick_fail (cfg : Cfg) (k : K) (t : Nat) (es : List Ev) (h : checkFails cfg k t = true) :
    (runK cfg k (.tick t :: es)).2 = .recycle :: (runK cfg k es).2 := by
  simp [runK, step, h]

theorem runK_pong (cfg : Cfg) (k : K) (t : Nat) (es : List Ev) :
    (runK cfg k (.pong t :: es)).2 = (runK cfg { k with lastPong := t } es).2 := by
  simp [runK, step]

theorem runK_recovered (cfg : Cfg) (k : K) (t : Nat) (es : List Ev) :
    (runK cfg k (.recovered t :: es)).2 = (runK cfg { k with lastId := 0, lastPong := t, nextId := 1 } es).2 := by
  simp [runK, step]

theorem checkFails_eq_false (cfg : Cfg) (k : K) (t : Nat) (h : t ≤ k.lastPong + cfg.timeout) :
    checkFails cfg k t = false := by
  cases hc : checkFails cfg k t with
  | false => rfl
  | true => have := (check_fails_iff cfg k t).mp hc; omega

/-! ### A1: detection bound -/

/-- a tick schedule with spacing at most `d`: the first tick comes at most `d` after `p`, every further tick at most
`d` after its predecessor (`d = interval + J`, `J` = scheduling slack of the ticker/goroutine). No lower bound on the
spacing and no monotonicity is assumed. -/
def Spaced (d : Nat) : Nat → List Nat → Prop
  | _, [] => True
  | p, t :: ts => t ≤ p + d ∧ Spaced d t ts

instance Spaced.dec (d : Nat) : ∀ (p : Nat) (ts : List Nat), Decidable (Spaced d p ts)
  | _, [] => isTrue trivial
  | p, t :: ts => by
      unfold Spaced
      exact @instDecidableAnd _ _ _ (Spaced.dec d t ts)

/-- while no pong arrives, no tick at a time ≤ lastPong + timeout recycles — for ANY tick list and any state -/
theorem no_early_recycle (cfg : Cfg) (ticks : List Nat) : ∀ (k : K) (i t : Nat),
    ticks[i]? = some t → t ≤ k.lastPong + cfg.timeout →
    (runK cfg k (ticks.map .tick)).2[i]? ≠ some Act.recycle := by
  induction ticks with
  | nil => intro k i t h; simp at h
  | cons t0 ts ih =>
    intro k i t hi ht
    cases hc : checkFails cfg k t0 with
    | true =>
      have hlate := ((check_fails_iff cfg k t0).mp hc).2
      rw [List.map_cons, runK_tick_fail cfg k t0 _ hc]
      cases i with
      | zero => simp at hi; omega
      | succ i =>
        simp only [List.getElem?_cons_succ] at hi ⊢
        exact ih k i t hi ht
    | false =>
      rw [List.map_cons, runK_tick_ok cfg k t0 _ hc]
      cases i with
      | zero => simp
      | succ i =>
        simp only [List.getElem?_cons_succ] at hi ⊢
        exact ih { k with lastId := k.nextId, nextId := k.nextId + 1 } i t hi ht

/-- core of the bound: a ping is outstanding, the ticks are spaced by at most `d` starting from `q` (the previous
tick, or the last pong), and some tick lies beyond lastPong + timeout. Then the FIRST `.recycle` is produced by a tick
in (lastPong + timeout, max q (lastPong + timeout) + d]. -/
theorem detect_core (cfg : Cfg) (d p : Nat) (ticks : List Nat) : ∀ (k : K) (q : Nat),
    k.lastPong = p → k.lastId ≠ 0 → k.nextId ≠ 0 → Spaced d q ticks →
    (∃ t ∈ ticks, p + cfg.timeout < t) →
    ∃ (i t : Nat), ticks[i]? = some t ∧ (runK cfg k (ticks.map .tick)).2[i]? = some Act.recycle ∧
      (∀ j : Nat, j < i → (runK cfg k (ticks.map .tick)).2[j]? ≠ some Act.recycle) ∧
      p + cfg.timeout < t ∧ t ≤ max q (p + cfg.timeout) + d := by
  induction ticks with
  | nil => intro k q _ _ _ _ h; simp at h
  | cons t0 ts ih =>
    intro k q hp hid hgen hsp hlong
    obtain ⟨hsp0, hsp'⟩ := hsp
    by_cases ht : p + cfg.timeout < t0
    · have hc : checkFails cfg k t0 = true := (check_fails_iff cfg k t0).mpr ⟨hid, by omega⟩
      rw [List.map_cons, runK_tick_fail cfg k t0 _ hc]
      exact ⟨0, t0, by simp, by simp, by intro j hj; omega, ht, by omega⟩
    · have hc : checkFails cfg k t0 = false := checkFails_eq_false cfg k t0 (by omega)
      rw [List.map_cons, runK_tick_ok cfg k t0 _ hc]
      have hlong' : ∃ t ∈ ts, p + cfg.timeout < t := by
        obtain ⟨t, hm, hl⟩ := hlong
        rcases List.mem_cons.mp hm with rfl | hm
        · exact absurd hl ht
        · exact ⟨t, hm, hl⟩
      obtain ⟨i, t, h1, h2, h3, h4, h5⟩ :=
        ih { k with lastId := k.nextId, nextId := k.nextId + 1 } t0 hp hgen (by simp) hsp' hlong'
      refine ⟨i + 1, t, by simpa using h1, by simpa using h2, ?_, h4, by omega⟩
      intro j hj
      cases j with
      | zero => simp
      | succ j => simpa using h3 j (by omega)

/-- a FRESH connection (no ping sent yet: `lastId = 0`, the state in which `keepalive()` starts and in which every
recovery leaves the bookkeeping), no hypothesis relating timeout and interval: the first tick only sends the first
ping, whatever its time; the first `.recycle` comes at a time in
(lastPong + timeout, lastPong + max timeout (interval + J) + interval + J]. -/
theorem detection_bound_fresh (cfg : Cfg) (J : Nat) (k : K) (t0 : Nat) (ts : List Nat)
    (hgen : k.nextId ≠ 0) (hid : k.lastId = 0)
    (hsp : Spaced (cfg.interval + J) k.lastPong (t0 :: ts))
    (hlong : ∃ t ∈ ts, k.lastPong + cfg.timeout < t) :
    ∃ (i t : Nat), (t0 :: ts)[i]? = some t ∧ (runK cfg k ((t0 :: ts).map .tick)).2[i]? = some Act.recycle ∧
      (∀ j : Nat, j < i → (runK cfg k ((t0 :: ts).map .tick)).2[j]? ≠ some Act.recycle) ∧
      k.lastPong + cfg.timeout < t ∧ t ≤ k.lastPong + max cfg.timeout (cfg.interval + J) + cfg.interval + J := by
  obtain ⟨hsp0, hsp'⟩ := hsp
  have hc : checkFails cfg k t0 = false := by simp [checkFails, hid]
  rw [List.map_cons, runK_tick_ok cfg k t0 _ hc]
  obtain ⟨i, t, h1, h2, h3, h4, h5⟩ :=
    detect_core cfg (cfg.interval + J) k.lastPong ts
      { k with lastId := k.nextId, nextId := k.nextId + 1 } t0 rfl hgen (by simp) hsp' hlong
  refine ⟨i + 1, t, by simpa using h1, by simpa using h2, ?_, h4, by omega⟩
  intro j hj
  cases j with
  | zero => simp
  | succ j => simpa using h3 j (by omega)

/-- C15 `detection_bound`. `J` = scheduling slack: the first tick comes at most `interval + J` after the last pong
and consecutive ticks are at most `interval + J` apart (`hsp`). No pong arrives any more (the event list consists of
ticks only). The id generator does not yield 0 (`hgen`: ids count from 1). A ping is outstanding, or the
first tick comes within the timeout of the last pong, so that it sends one (`hout`; automatically true when
`interval + J ≤ timeout`, see `detection_bound_of_slack`; NOT droppable, see `fresh_late_first_tick_exceeds_bound`).
The tick list is long enough to reach beyond lastPong + timeout (`hlong`).

Then the action list contains `.recycle`; the FIRST `.recycle` is produced by a tick at a time `t` with
`lastPong + timeout < t ≤ lastPong + timeout + interval + J`; and no tick at a time ≤ lastPong + timeout recycles. -/
theorem detection_bound (cfg : Cfg) (J : Nat) (k : K) (ticks : List Nat)
    (hgen : k.nextId ≠ 0)
    (hout : k.lastId ≠ 0 ∨ ∃ t ts, ticks = t :: ts ∧ t ≤ k.lastPong + cfg.timeout)
    (hsp : Spaced (cfg.interval + J) k.lastPong ticks)
    (hlong : ∃ t ∈ ticks, k.lastPong + cfg.timeout < t) :
    Act.recycle ∈ (runK cfg k (ticks.map .tick)).2 ∧
    (∃ (i t : Nat), ticks[i]? = some t ∧ (runK cfg k (ticks.map .tick)).2[i]? = some Act.recycle ∧
      (∀ j : Nat, j < i → (runK cfg k (ticks.map .tick)).2[j]? ≠ some Act.recycle) ∧
      k.lastPong + cfg.timeout < t ∧ t ≤ k.lastPong + cfg.timeout + cfg.interval + J) ∧
    (∀ (i t : Nat), ticks[i]? = some t → t ≤ k.lastPong + cfg.timeout →
      (runK cfg k (ticks.map .tick)).2[i]? ≠ some Act.recycle) := by
  have main : ∃ (i t : Nat), ticks[i]? = some t ∧ (runK cfg k (ticks.map .tick)).2[i]? = some Act.recycle ∧
      (∀ j : Nat, j < i → (runK cfg k (ticks.map .tick)).2[j]? ≠ some Act.recycle) ∧
      k.lastPong + cfg.timeout < t ∧ t ≤ k.lastPong + cfg.timeout + cfg.interval + J := by
    by_cases hid : k.lastId ≠ 0
    · obtain ⟨i, t, h1, h2, h3, h4, h5⟩ :=
        detect_core cfg (cfg.interval + J) k.lastPong ticks k k.lastPong rfl hid hgen hsp hlong
      exact ⟨i, t, h1, h2, h3, h4, by omega⟩
    · -- no ping outstanding: the first tick (within the timeout) sends one
      rcases hout with h | ⟨t0, ts, rfl, ht0⟩
      · exact absurd h hid
      · obtain ⟨_, hsp'⟩ := hsp
        have hc : checkFails cfg k t0 = false := checkFails_eq_false cfg k t0 ht0
        have hlong' : ∃ t ∈ ts, k.lastPong + cfg.timeout < t := by
          obtain ⟨t, hm, hl⟩ := hlong
          rcases List.mem_cons.mp hm with rfl | hm
          · omega
          · exact ⟨t, hm, hl⟩
        rw [List.map_cons, runK_tick_ok cfg k t0 _ hc]
        obtain ⟨i, t, h1, h2, h3, h4, h5⟩ :=
          detect_core cfg (cfg.interval + J) k.lastPong ts
            { k with lastId := k.nextId, nextId := k.nextId + 1 } t0 rfl hgen (by simp) hsp' hlong'
        refine ⟨i + 1, t, by simpa using h1, by simpa using h2, ?_, h4, by omega⟩
        intro j hj
        cases j with
        | zero => simp
        | succ j => simpa using h3 j (by omega)
  refine ⟨?_, main, no_early_recycle cfg ticks k⟩
  obtain ⟨i, _, _, h2, _⟩ := main
  exact List.mem_of_getElem? h2

/-- the usual configuration `interval + J ≤ timeout`: hypothesis `hout` of `detection_bound` holds by itself, also
for a fresh connection on which no ping has been sent yet -/
theorem detection_bound_of_slack (cfg : Cfg) (J : Nat) (k : K) (ticks : List Nat)
    (hgen : k.nextId ≠ 0) (hslack : cfg.interval + J ≤ cfg.timeout)
    (hsp : Spaced (cfg.interval + J) k.lastPong ticks)
    (hlong : ∃ t ∈ ticks, k.lastPong + cfg.timeout < t) :
    Act.recycle ∈ (runK cfg k (ticks.map .tick)).2 ∧
    (∃ (i t : Nat), ticks[i]? = some t ∧ (runK cfg k (ticks.map .tick)).2[i]? = some Act.recycle ∧
      (∀ j : Nat, j < i → (runK cfg k (ticks.map .tick)).2[j]? ≠ some Act.recycle) ∧
      k.lastPong + cfg.timeout < t ∧ t ≤ k.lastPong + cfg.timeout + cfg.interval + J) ∧
    (∀ (i t : Nat), ticks[i]? = some t → t ≤ k.lastPong + cfg.timeout →
      (runK cfg k (ticks.map .tick)).2[i]? ≠ some Act.recycle) := by
  refine detection_bound cfg J k ticks hgen ?_ hsp hlong
  right
  cases ticks with
  | nil => obtain ⟨t, hm, _⟩ := hlong; simp at hm
  | cons t0 ts => exact ⟨t0, ts, rfl, by have := hsp.1; omega⟩

/-- non-vacuity, interval 200, timeout 500, J 30, last pong at 1000, no ping outstanding at the start: the ticks
1230, 1460 send pings, the tick 1690 ∈ (1500, 1730] is the first to recycle -/
example : (runK ⟨200, 500⟩ ⟨0, 1000, 1⟩ ([1230, 1460, 1690, 1920].map .tick)).2 =
    [.ping 1, .ping 2, .recycle, .recycle] := by decide

example : Spaced (200 + 30) 1000 [1230, 1460, 1690, 1920] := by decide

/-- the hypotheses of `detection_bound` are satisfiable together (the instance above) -/
example : Act.recycle ∈ (runK ⟨200, 500⟩ ⟨0, 1000, 1⟩ ([1230, 1460, 1690, 1920].map .tick)).2 :=
  (detection_bound ⟨200, 500⟩ 30 ⟨0, 1000, 1⟩ [1230, 1460, 1690, 1920] (by decide)
    (Or.inr ⟨1230, _, rfl, by decide⟩) (by decide) ⟨1690, by decide, by decide⟩).1

/-- `hout` cannot be dropped: timeout 100 < interval 200, fresh connection (no ping outstanding), J = 0. The first
tick (200) is already beyond lastPong + timeout but only sends the first ping; the recycle comes at 400, later than
lastPong + timeout + interval + J = 300 (and within the bound 400 of `detection_bound_fresh`). -/
theorem fresh_late_first_tick_exceeds_bound :
    Spaced (200 + 0) 0 [200, 400] ∧
    (runK ⟨200, 100⟩ ⟨0, 0, 1⟩ ([200, 400].map .tick)).2 = [.ping 1, .recycle] ∧ 0 + 100 + 200 + 0 < 400 := by
  decide

/-! ### A2: no false positive under late ticks and slow pongs -/

/-- A healthy peer observed with slack. `HealthyJ cfg J L r u es`:
* `r` = time of the latest event so far (tick, pong, recovery; initially the start of the pong clock);
* `u` = time of the OLDEST tick whose ping was sent since the last pong/recovery (`none`: no ping since then);
* every tick comes at most `interval + J` after the latest event — in particular every real schedule whose ticks are
  at most `interval + J` apart qualifies, since the events between two ticks are not earlier than the first of them;
* `L`: at every tick the oldest ping sent since the last pong is at most `L` old. Every peer that answers each ping
  within `L` qualifies (the pong of that ping is still to come, at a time ≥ the tick and ≤ ping time + L). A pong MAY
  arrive after the next tick(s): the event list may contain several ticks in a row. A peer whose pongs always arrive
  before the next tick qualifies with `L = 0`, whatever its latency.
No assumption that the times in the list are monotone is needed. -/
def HealthyJ (cfg : Cfg) (J L : Nat) : Nat → Option Nat → List Ev → Prop
  | _, _, [] => True
  | r, u, .tick t :: es =>
      t ≤ r + cfg.interval + J ∧ (∀ u0, u = some u0 → t ≤ u0 + L) ∧ HealthyJ cfg J L t (u.or (some t)) es
  | _, _, .pong t :: es => HealthyJ cfg J L t none es
  | _, _, .recovered t :: es => HealthyJ cfg J L t none es

/-- invariant form: `r` is not later than the last pong while no ping is pending; the oldest pending ping was sent at
most `interval + J` after the last pong -/
theorem no_false_positive_jitter_gen (cfg : Cfg) (J L : Nat) (hc : cfg.interval + J + L ≤ cfg.timeout)
    (es : List Ev) : ∀ (k : K) (r : Nat) (u : Option Nat),
    (u = none → r ≤ k.lastPong) → (∀ u0, u = some u0 → u0 ≤ k.lastPong + cfg.interval + J) →
    HealthyJ cfg J L r u es → Act.recycle ∉ (runK cfg k es).2 := by
  induction es with
  | nil => intro k r u _ _ _; simp [runK]
  | cons e es ih =>
    intro k r u hn hs h
    cases e with
    | tick t =>
      obtain ⟨h1, h2, h3⟩ := h
      have hle : t ≤ k.lastPong + cfg.timeout := by
        cases u with
        | none => have := hn rfl; omega
        | some u0 => have := hs u0 rfl; have := h2 u0 rfl; omega
      rw [runK_tick_ok cfg k t es (checkFails_eq_false cfg k t hle)]
      have := ih { k with lastId := k.nextId, nextId := k.nextId + 1 } t (u.or (some t))
        (by cases u <;> simp)
        (by
          intro u0 hu0
          cases u with
          | none => simp at hu0; subst hu0; have := hn rfl; simp; omega
          | some u1 => simp at hu0; subst hu0; exact hs u1 rfl)
        h3
      simpa using this
    | pong t =>
      rw [runK_pong]
      exact ih { k with lastPong := t } t none (fun _ => Nat.le_refl _) (by simp) h
    | recovered t =>
      rw [runK_recovered]
      exact ih { k with lastId := 0, lastPong := t, nextId := 1 } t none (fun _ => Nat.le_refl _) (by simp) h

/-- C15 `no_false_positive_jitter`: if `interval + J + L ≤ timeout` — tick slack `J`, and at no tick a ping older
than `L` is still unanswered — a healthy peer is NEVER recycled, whatever recoveries happen in between, also when
pongs arrive after the next tick. For a peer that answers before the next tick (`L = 0`) the condition is
`interval + J ≤ timeout`: the configured timeout must exceed the interval by the scheduling slack. -/
theorem no_false_positive_jitter (cfg : Cfg) (J L : Nat) (hc : cfg.interval + J + L ≤ cfg.timeout)
    (k : K) (es : List Ev) (h : HealthyJ cfg J L k.lastPong none es) : Act.recycle ∉ (runK cfg k es).2 :=
  no_false_positive_jitter_gen cfg J L hc es k k.lastPong none (fun _ => Nat.le_refl _) (by simp) h

/-- `HealthyJ` generalises `Healthy` (J = 0, L = 0: on-time ticks, every pong before the next tick): so
`no_false_positive` is the instance J = L = 0 of `no_false_positive_jitter` -/
theorem healthy_healthyJ (cfg : Cfg) (p : Nat) (es : List Ev) (h : Healthy cfg p es) :
    HealthyJ cfg 0 0 p none es := by
  induction h with
  | nil => simp [HealthyJ]
  | @round p t t' es' h1 _ _ ih => exact ⟨by omega, by simp, ih⟩
  | @recovered p t es' _ ih => exact ih

/-- non-vacuity with latency ABOVE the interval (interval 200, J 30, L 250, timeout 500 ≥ 480): ping 1 (tick 200) is
answered at 450, after tick 420; ping 2 at 660, after tick 640; ping 3 at 700 -/
example : HealthyJ ⟨200, 500⟩ 30 250 0 none
    [.tick 200, .tick 420, .pong 450, .tick 640, .pong 660, .pong 700, .tick 860] := by
  simp [HealthyJ]

example : (runK ⟨200, 500⟩ ⟨0, 0, 1⟩
    [.tick 200, .tick 420, .pong 450, .tick 640, .pong 660, .pong 700, .tick 860]).2 =
    [.ping 1, .ping 2, .ping 3, .ping 4] := by decide

/-- SHARPNESS, the premise "timeout ≥ interval" of C15 is not enough under jitter: timeout = interval = 200; the peer
answers the ping of tick 200 after 5 ms; the next tick is 10 ms late (410). The peer is healthy with slack J = 10
(`HealthyJ … 10 0`), yet `check()` sees 410 − 205 = 205 > 200 and recycles. True of the Go code: `time.Since(lastPongAt)`
at a late tick exceeds `Keepalive` as soon as the tick is later than the pong latency. -/
theorem timeout_eq_interval_needs_slack :
    HealthyJ ⟨200, 200⟩ 10 0 0 none [.tick 200, .pong 205, .tick 410] ∧
    (runK ⟨200, 200⟩ ⟨0, 0, 1⟩ [.tick 200, .pong 205, .tick 410]).2 = [.ping 1, .recycle] := by
  refine ⟨by simp [HealthyJ], by decide⟩

/-- the condition `interval + J + L ≤ timeout` is tight for `HealthyJ`: interval 200, J 30, L 50,
timeout 279 = 200 + 30 + 50 − 1. Ping 1 (tick 230) is answered at once, tick 460 sends ping 2, the tick 510 sees ping 2
unanswered for 50 ≤ L — and recycles, because the last pong is 280 > 279 old. -/
theorem jitter_condition_tight :
    HealthyJ ⟨200, 279⟩ 30 50 0 none [.tick 230, .pong 230, .tick 460, .tick 510] ∧
    (runK ⟨200, 279⟩ ⟨0, 0, 1⟩ [.tick 230, .pong 230, .tick 460, .tick 510]).2 = [.ping 1, .ping 2, .recycle] := by
  refine ⟨by simp [HealthyJ], by decide⟩

end OAP.Keepalive
