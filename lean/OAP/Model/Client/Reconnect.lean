/-
Prototype for C08: the recovery decision logic of the repaired client as a pure function
over per-attempt environment outcomes, and its theorems for all outcome sequences.
(view of the repaired client; model and its invariant proofs; imported from the round-0 prototype)
-/
import OAP.Base
namespace OAP.Reconnect
open OAP

inductive Req          -- what happens to one auth/resume request
  | ok (expires : Nat)       -- status 0 with a session expiring at `expires` (ms)
  | unauthenticated
  | otherStatus
  | noAnswer                 -- silence or connection dropped before the answer
deriving DecidableEq, Repr

structure Env where          -- the environment's choices for one attempt
  now : Nat                  -- clock (ms) when the attempt decides expiry
  dialOk : Bool
  first : Req                -- answer to the first request of the attempt (resume or auth)
  second : Req               -- answer to the fallback auth after an unauthenticated resume
deriving DecidableEq, Repr

structure Cfg where
  maxReconnect : Nat         -- 0 = unlimited
  hasToken : Bool
deriving DecidableEq, Repr

structure RS where
  session : Option Nat       -- stored session's expiry (ms), none = never authenticated
  count : Nat
deriving DecidableEq, Repr

inductive Act
  | closeOld | failWaiters | dial | resetKeepalive
  | sendReconnect | sendAuth | setAuth (expires : Nat) | resetCount
  | afterReconnected | sleep | closeClientHitMax
deriving DecidableEq, Repr

inductive Result | success | fail | hitMax
deriving DecidableEq, Repr

/-- isAuthExpired: ten seconds of safety margin -/
def expired (now expires : Nat) : Bool := decide (expires ≤ now + 10000)

def doAuth (cfg : Cfg) (st : RS) (r : Req) : RS × List Act × Result :=
  if !cfg.hasToken then (st, [], .success)
  else match r with
    | .ok e => ({ st with session := some e }, [.sendAuth, .setAuth e], .success)
    | _ => (st, [.sendAuth], .fail)

/-- one iteration of the retry loop: `reconnect()` -/
def attempt (cfg : Cfg) (st : RS) (env : Env) : RS × List Act × Result :=
  if cfg.maxReconnect > 0 ∧ st.count ≥ cfg.maxReconnect then (st, [], .hitMax)
  else
    let st := { st with count := st.count + 1 }
    let pre := [Act.closeOld, .failWaiters, .dial]
    if !env.dialOk then (st, pre, .fail)
    else
      let pre := pre ++ [.resetKeepalive]
      match st.session with
      | none => (st, pre, .success)
      | some exp =>
        if expired env.now exp then
          let (st', a, r) := doAuth cfg st env.first
          (st', pre ++ a, r)
        else
          match env.first with
          | .ok e => ({ session := some e, count := 0 }, pre ++ [.sendReconnect, .setAuth e, .resetCount], .success)
          | .unauthenticated =>
              let (st', a, r) := doAuth cfg st env.second
              (st', pre ++ [.sendReconnect] ++ a, r)
          | _ => (st, pre ++ [.sendReconnect], .fail)

/-- the retry loop over the environment's outcome sequence -/
def recover (cfg : Cfg) : RS → List Env → RS × List Act × Option Result
  | st, [] => (st, [], none)                       -- still retrying when the script ends
  | st, e :: es =>
    match attempt cfg st e with
    | (st', a, .success) => (st', a ++ [.afterReconnected], some .success)
    | (st', a, .hitMax) => (st', a ++ [.closeClientHitMax], some .hitMax)
    | (st', a, .fail) =>
      let (st'', a', r) := recover cfg st' es
      (st'', a ++ [.sleep] ++ a', r)

/-! ### theorems (all outcome sequences, all configurations) -/

theorem uses_session_iff_unexpired (cfg : Cfg) (st : RS) (env : Env) :
    Act.sendReconnect ∈ (attempt cfg st env).2.1 ↔
      (¬ (cfg.maxReconnect > 0 ∧ st.count ≥ cfg.maxReconnect)) ∧ env.dialOk = true ∧
      ∃ exp, st.session = some exp ∧ expired env.now exp = false := by
  unfold attempt doAuth
  by_cases hm : cfg.maxReconnect > 0 ∧ st.count ≥ cfg.maxReconnect
  · simp [hm]
  · cases hd : env.dialOk <;> cases hs : st.session <;> simp [hm]
    rename_i exp
    cases he : expired env.now exp <;> cases hf : env.first <;> cases ht : cfg.hasToken <;>
      cases h2 : env.second <;> simp

theorem fallback_on_unauthenticated (cfg : Cfg) (st : RS) (env : Env) (exp : Nat)
    (hm : ¬ (cfg.maxReconnect > 0 ∧ st.count ≥ cfg.maxReconnect)) (hd : env.dialOk = true)
    (hs : st.session = some exp) (he : expired env.now exp = false)
    (hu : env.first = .unauthenticated) (ht : cfg.hasToken = true) :
    Act.sendAuth ∈ (attempt cfg st env).2.1 ∧
    ((attempt cfg st env).2.2 = .success ↔ ∃ e, env.second = .ok e) := by
  unfold attempt doAuth
  cases h2 : env.second <;> simp [hm, hd, hs, he, hu, ht]

theorem hitmax_iff (cfg : Cfg) (st : RS) (env : Env) :
    (attempt cfg st env).2.2 = .hitMax ↔ (cfg.maxReconnect > 0 ∧ st.count ≥ cfg.maxReconnect) := by
  unfold attempt doAuth
  by_cases hm : cfg.maxReconnect > 0 ∧ st.count ≥ cfg.maxReconnect
  · simp [hm]
  · cases hd : env.dialOk <;> cases hs : st.session <;> simp [hm]
    rename_i exp
    cases he : expired env.now exp <;> cases hf : env.first <;> cases ht : cfg.hasToken <;>
      cases h2 : env.second <;> simp

theorem old_closed_first (cfg : Cfg) (st : RS) (env : Env)
    (hm : ¬ (cfg.maxReconnect > 0 ∧ st.count ≥ cfg.maxReconnect)) :
    ∃ rest, (attempt cfg st env).2.1 = [.closeOld, .failWaiters, .dial] ++ rest := by
  unfold attempt doAuth
  cases hd : env.dialOk <;> cases hs : st.session <;> simp [hm]
  rename_i exp
  cases he : expired env.now exp <;> cases hf : env.first <;> cases ht : cfg.hasToken <;>
    cases h2 : env.second <;> simp

/-- an attempt never reports the callback itself -/
theorem attempt_no_cb (cfg : Cfg) (st : RS) (env : Env) :
    Act.afterReconnected ∉ (attempt cfg st env).2.1 ∧ Act.closeClientHitMax ∉ (attempt cfg st env).2.1 := by
  unfold attempt doAuth
  by_cases hm : cfg.maxReconnect > 0 ∧ st.count ≥ cfg.maxReconnect
  · simp [hm]
  · cases hd : env.dialOk <;> cases hs : st.session <;> simp [hm]
    rename_i exp
    cases he : expired env.now exp <;> cases hf : env.first <;> cases ht : cfg.hasToken <;>
      cases h2 : env.second <;> simp

/-- the after-reconnect callback is reported exactly when the loop ended with a successful attempt,
    and then it is the last action; hit-max ends with the close and never reports a reconnect -/
theorem after_cb_only_on_success (cfg : Cfg) : ∀ (es : List Env) (st : RS),
    ((recover cfg st es).2.2 = some .success → (recover cfg st es).2.1.getLast? = some .afterReconnected) ∧
    ((recover cfg st es).2.2 = some .hitMax → (recover cfg st es).2.1.getLast? = some .closeClientHitMax) ∧
    ((recover cfg st es).2.2 ≠ some .success → Act.afterReconnected ∉ (recover cfg st es).2.1) := by
  intro es
  induction es with
  | nil => intro st; simp [recover]
  | cons e es ih =>
    intro st
    have hno := attempt_no_cb cfg st e
    unfold recover
    rcases hat : attempt cfg st e with ⟨st', a, r⟩
    rw [hat] at hno
    cases r with
    | success => simp
    | hitMax => simp; exact hno.1
    | fail =>
      simp only
      have := ih st'
      rcases hrec : recover cfg st' es with ⟨st'', a', r'⟩
      rw [hrec] at this
      simp only at this ⊢
      obtain ⟨t1, t2, t3⟩ := this
      refine ⟨?_, ?_, ?_⟩
      · intro h
        have := t1 h
        cases a' with
        | nil => simp at this
        | cons x xs => simp [List.getLast?_append, this]
      · intro h
        have := t2 h
        cases a' with
        | nil => simp at this
        | cons x xs => simp [List.getLast?_append, this]
      · intro h
        simp only [List.mem_append, List.mem_cons, reduceCtorEq, List.not_mem_nil, or_false, not_or]
        exact ⟨hno.1, t3 h⟩

end OAP.Reconnect
