/-
C20 (WebSocket transport): the connection's reader goroutine and the three control-frame handlers that
gorilla/websocket runs inside it.

Go code mirrored (go/client/ws_conn.go):

  func (conn *wsConn) reading() {                             func (conn *wsConn) readPacket(data []byte) error {
    for {                                                       packet, err := conn.p.UnpackBytes(conn.qctx, data)
      if conn.closed() { return }                               if err != nil { return err }
      t, r, err := conn.conn.NextReader()                       conn.addPacket(packet)
      if err != nil { conn.Close(err); return }                 return nil
      data, err := io.ReadAll(r)                              }
      if err != nil { conn.Close(err); return }
      switch t {                                              func (conn *wsConn) onPing(data string) error {
      case websocket.BinaryMessage, websocket.TextMessage:      if err := conn.conn.WriteControl(PongMessage, []byte(data), …); err != nil {
        if err = conn.readPacket(data); err != nil {              return err }
          conn.Close(err); return } } } }                       p := protocol.MustNewRequest(conn.qctx, CMD_HEARTBEAT, []byte(data))
                                                                conn.addPacket(&p); return nil }
  func (conn *wsConn) onClose(code int, message string) error {
    p := protocol.MustNewPush(conn.qctx, CMD_CLOSE,           func (conn *wsConn) onPong(data string) error {
           &control.Close{Code: Close_Code(code), Reason: message})     p := protocol.MustNewResponse(conn.qctx, CMD_HEARTBEAT, 0, []byte(data))
    conn.addPacket(&p); return nil }                            var beat control.Heartbeat
                                                                if err := proto.Unmarshal([]byte(data), &beat); err == nil {
                                                                  if beat.HeartbeatId != nil { p.Metadata.RequestId = uint32(beat.GetHeartbeatId()) } }
                                                                conn.addPacket(&p); return nil }

How gorilla/websocket (v1.5.0, conn.go) drives this — TRUSTED, not modelled:
* `NextReader` loops over `advanceFrame` and returns only for the first frame of a TEXT or BINARY message; PING, PONG
  and CLOSE frames are consumed inside it (and inside `Read` of the message reader, when they arrive between the
  fragments of a message) by calling the handlers installed with `SetPingHandler` / `SetPongHandler` / `SetCloseHandler`
  — i.e. the handlers run ON THE READER GOROUTINE, in arrival order with the data messages.
* a handler that returns an error makes `NextReader` return that error (`onPing` when the pong cannot be written);
  after the close handler returned nil, `advanceFrame` returns `&CloseError{code, text}`: the reader sees an error
  from `NextReader` right after `onClose` delivered the close packet.
* the close code is validated and the close reason is checked to be valid UTF-8 before the handler is called.
* fragmentation, masking, per-message compression: one event here = one complete message / control frame.

What the model fixes:
* a data message is decoded ONCE with the ONE-SHOT decoder `UnpackBytes` on the whole payload, with the connection's
  context (`conn.qctx`: only its `Codec` reaches the packet; one-shot decoding takes a fresh pooled header and does not
  touch the header a streaming decode parks in the context). TEXT and BINARY take the same branch. Whatever follows the
  first frame inside the payload is not looked at by the reader (the decoder ignores it, or — verify bit set — takes it
  into the signature); an incomplete frame and an empty payload are decode errors.
* a decode error closes the connection and the goroutine returns (the repair of defect D17: before it the error was
  logged and the loop went on).
* `addPacket` is the non-blocking send of tcp_conn.go (same code): the model records what is HANDED to it.
* `MustNewRequest` draws the request id from `conn.qctx.NextReqId()` — a counter shared with every request the client
  sends on this connection. The id the reader gets for its k-th ping is the parameter `reqId k`.
* `MustNewPush` marshals `&control.Close{…}` with `conn.qctx.Codec` and PANICS when that fails (`marshal` returns an
  error for a codec that is neither protobuf nor JSON; `handshake.Codec` is the caller's). The parameter
  `closeBody code reason : Res Bytes` is that marshalling; `.err` ↦ the reader goroutine panics.
* `hbId` is `proto.Unmarshal` of the payload as `control.Heartbeat` followed by the `HeartbeatId != nil` test and the
  `int32 → uint32` conversion (the same parameter as in WsMap.lean).
-/
import OAP.Model.Frame
import OAP.Model.Client.WsMap
namespace OAP.WsReading
open OAP OAP.Frame

/-- what `NextReader` / `ReadAll` and the handlers are given, one complete item at a time -/
inductive WsEvent where
  | binary (payload : Bytes)
  | text (payload : Bytes)
  | ping (payload : Bytes)
  | pong (payload : Bytes)
  | close (code : Nat) (reason : Bytes)
  | readError                                   -- `NextReader` or `io.ReadAll` returns an error (drop, protocol error, local Close)
  deriving DecidableEq, Repr

/-- the parameters that are not part of the frame codec -/
structure Env where
  /-- `proto.Unmarshal(payload, &beat)` succeeded and `beat.HeartbeatId != nil`: `uint32(beat.GetHeartbeatId())` -/
  hbId : Bytes → Option UInt32
  /-- `marshal(ctx.Codec, &control.Close{Code: code, Reason: reason})` inside `MustNewPush` -/
  closeBody : Nat → Bytes → Res Bytes
  /-- the value `conn.qctx.NextReqId()` returns to the reader while it handles its k-th ping (k = 0, 1, …) -/
  reqId : Nat → UInt32
  /-- whether `WriteControl(PongMessage, …)` of the k-th ping succeeds -/
  pongOk : Nat → Bool

/-- why the goroutine returned -/
inductive Stop where
  | decode (e : String)                         -- `readPacket` returned `e`: `conn.Close(e)`
  | readErr                                     -- `NextReader` / `ReadAll` error: `conn.Close(err)`
  | peerClose (code : Nat) (reason : Bytes)     -- `*websocket.CloseError` out of `NextReader` after `onClose`
  | pongWrite                                   -- `onPing` could not write the pong; `NextReader` returns that error
  | panic (w : String)                          -- the goroutine panics (no `recover` anywhere above it)
  deriving DecidableEq, Repr

def cmdClose : UInt32 := WsMap.cmdClose
def cmdHeartbeat : UInt32 := WsMap.cmdHeartbeat

/-- `protocol.MustNewRequest(conn.qctx, CMD_HEARTBEAT, []byte(data))` with `NextReqId() = rid` -/
def pingPacket (codec : UInt8) (rid : UInt32) (data : Bytes) : Packet :=
  { type := .request, cmd := cmdHeartbeat, rid := rid, codec := codec, body := data }

/-- `onPong`: `MustNewResponse(conn.qctx, CMD_HEARTBEAT, 0, []byte(data))`, request id overwritten by the
heartbeat id when the payload decodes and carries one, else left 0 -/
def pongPacket (codec : UInt8) (hbId : Bytes → Option UInt32) (data : Bytes) : Packet :=
  { type := .response, cmd := cmdHeartbeat, rid := (hbId data).getD 0, status := 0, codec := codec, body := data }

/-- `protocol.MustNewPush(conn.qctx, CMD_CLOSE, &control.Close{…})` with the marshalled body `b` -/
def closePacket (codec : UInt8) (b : Bytes) : Packet :=
  { type := .push, cmd := cmdClose, codec := codec, body := b }

/-- the reader goroutine's state -/
structure WSt where
  /-- the packets handed to `addPacket` so far, oldest first -/
  pkts : List Packet := []
  /-- the pong control frames `onPing` wrote, oldest first -/
  pongs : List Bytes := []
  /-- number of ping frames handled -/
  pings : Nat := 0
  /-- `some r`: `conn.Close(err)` was called (or the goroutine panicked) and the goroutine is gone -/
  stopped : Option Stop := none
  deriving DecidableEq, Repr

/-- `conn.readPacket(data)` and the `if err != nil { conn.Close(err); return }` around it -/
def readMessage (v : Ver) (gz : GzOracle) (codec : UInt8) (s : WSt) (data : Bytes) : WSt :=
  match unpackBytes v gz codec data with
  | .ok p => { s with pkts := s.pkts ++ [p] }                    -- conn.addPacket(packet)
  | .err e => { s with stopped := some (.decode e) }             -- conn.Close(err); return
  | .panic w => { s with stopped := some (.panic w) }            -- unreachable: `unpackBytes_noPanic`

/-- one item arrives while the goroutine is inside `NextReader` / `ReadAll` -/
def step (v : Ver) (gz : GzOracle) (codec : UInt8) (env : Env) (s : WSt) (ev : WsEvent) : WSt :=
  match s.stopped with
  | some _ => s                                                  -- the goroutine has returned
  | none =>
    match ev with
    | .binary d => readMessage v gz codec s d                    -- case websocket.BinaryMessage, websocket.TextMessage:
    | .text d => readMessage v gz codec s d
    | .ping d =>
      if env.pongOk s.pings then                                 -- WriteControl(PongMessage, data) ok
        { s with pongs := s.pongs ++ [d],
                 pkts := s.pkts ++ [pingPacket codec (env.reqId s.pings) d],
                 pings := s.pings + 1 }
      else { s with pings := s.pings + 1, stopped := some .pongWrite }
    | .pong d => { s with pkts := s.pkts ++ [pongPacket codec env.hbId d] }
    | .close code reason =>
      match env.closeBody code reason with
      | .ok b => { s with pkts := s.pkts ++ [closePacket codec b],        -- onClose returns nil …
                          stopped := some (.peerClose code reason) }       -- … NextReader returns the CloseError
      | .err e => { s with stopped := some (.panic e) }                    -- MustNewPush: panic(e)
      | .panic w => { s with stopped := some (.panic w) }
    | .readError => { s with stopped := some .readErr }

/-- the reader goroutine over the successive items, from a freshly dialled connection -/
def reading (v : Ver) (gz : GzOracle) (codec : UInt8) (env : Env) (evs : List WsEvent) : WSt :=
  evs.foldl (step v gz codec env) {}

/-- what the rest of the client sees: the packets delivered, in order, and why the reader ended (`none`: still open) -/
def WSt.obs (s : WSt) : List Packet × Option Stop := (s.pkts, s.stopped)

/-- the verdict as a Go outcome: still reading / closed with an error / panicked -/
def WSt.verdict (s : WSt) : Res Unit :=
  match s.stopped with
  | none => .ok ()
  | some (.panic w) => .panic w
  | some (.decode e) => .err e
  | some .readErr => .err "read error"
  | some (.peerClose _ _) => .err "websocket: close"
  | some .pongWrite => .err "write pong"

end OAP.WsReading
