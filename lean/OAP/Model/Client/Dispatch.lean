/-
Prototype for C13: routing and the bounded receive queue.
The reader enqueues (dropping with a warning when full), the single dispatcher dequeues in FIFO
order and routes; proved for every interleaving of enqueue/dequeue steps.
(view of the repaired client; model and its invariant proofs; imported from the round-0 prototype)
-/
import OAP.Base
namespace OAP.Dispatch
open OAP

inductive PType | request | response | push
deriving DecidableEq, Repr

structure Pkt where
  type : PType
  cmd : Nat
  tag : Nat
deriving DecidableEq, Repr

/-- `IsControl`: heartbeat/auth/reconnect/close command numbers -/
def isControl (p : Pkt) : Bool := p.cmd ≤ 3

/-- handler invocations caused by one packet: (handler index, packet), subscription order -/
def invocations (subs : Nat → List Nat) (p : Pkt) : List (Nat × Pkt) :=
  if isControl p then []
  else if p.type = .push then (subs p.cmd).map (fun h => (h, p))
  else []

structure St where
  queue : List Pkt            -- packetCh, oldest first
  log : List (Nat × Pkt)      -- handler invocations so far
  accepted : List Pkt         -- ghost: packets that entered the queue, in order
  warnings : Nat              -- "drop packet for channel full"
  dropped : List Pkt          -- ghost
  received : List Pkt         -- ghost: everything the reader decoded, in order

inductive Act
  | recv (p : Pkt)            -- reader decoded p: addPacket
  | dispatch                  -- dispatcher takes the next packet and routes it

def step (cap : Nat) (subs : Nat → List Nat) (s : St) : Act → Option St
  | .recv p =>
      if s.queue.length < cap then
        some { s with queue := s.queue ++ [p], accepted := s.accepted ++ [p], received := s.received ++ [p] }
      else some { s with warnings := s.warnings + 1, dropped := s.dropped ++ [p], received := s.received ++ [p] }
  | .dispatch =>
      match s.queue with
      | [] => none
      | p :: q => some { s with queue := q, log := s.log ++ invocations subs p }

def init : St := { queue := [], log := [], accepted := [], warnings := 0, dropped := [], received := [] }

def run (cap : Nat) (subs : Nat → List Nat) : St → List Act → Option St
  | s, [] => some s
  | s, a :: as => (step cap subs s a).bind (fun s' => run cap subs s' as)

structure DInv (subs : Nat → List Nat) (s : St) : Prop where
  /-- everything accepted is either already dispatched (in order) or still queued (in order) -/
  split : ∃ done, s.accepted = done ++ s.queue ∧ s.log = done.flatMap (invocations subs)
  warn : s.warnings = s.dropped.length
  acct : s.received.length = s.accepted.length + s.dropped.length

theorem inv_step (cap : Nat) (subs : Nat → List Nat) (s s' : St) (a : Act)
    (h : DInv subs s) (hs : step cap subs s a = some s') : DInv subs s' := by
  obtain ⟨⟨done, h1, h2⟩, h3, h4⟩ := h
  cases a with
  | recv p =>
    simp only [step] at hs
    split at hs <;> simp only [Option.some.injEq] at hs <;> subst hs
    · exact ⟨⟨done, by simp [h1], h2⟩, h3, by simp; omega⟩
    · exact ⟨⟨done, h1, h2⟩, by simp [h3], by simp; omega⟩
  | dispatch =>
    simp only [step] at hs
    split at hs
    · simp at hs
    · rename_i p q hq
      simp only [Option.some.injEq] at hs; subst hs
      exact ⟨⟨done ++ [p], by simp [h1, hq], by simp [h2]⟩, h3, h4⟩

theorem inv_run (cap : Nat) (subs : Nat → List Nat) (acts : List Act) :
    ∀ s s', DInv subs s → run cap subs s acts = some s' → DInv subs s' := by
  induction acts with
  | nil => intro s s' h hr; simp [run] at hr; subst hr; exact h
  | cons a as ih =>
    intro s s' h hr
    simp only [run] at hr
    cases hst : step cap subs s a with
    | none => simp [hst] at hr
    | some s1 => simp [hst] at hr; exact ih s1 s' (inv_step cap subs s s1 a h hst) hr

/-- C13 `dispatch_spec` + `loss_accounting`: in every interleaving of reader and dispatcher, once the
    queue is drained the handler log is exactly the routing of the accepted packets, in arrival
    order; losses are exactly the counted overflow drops. -/
theorem dispatch_spec (cap : Nat) (subs : Nat → List Nat) (acts : List Act) (s : St)
    (h : run cap subs init acts = some s) (hq : s.queue = []) :
    s.log = s.accepted.flatMap (invocations subs) ∧ s.warnings = s.dropped.length ∧
    s.received.length = s.accepted.length + s.warnings := by
  have i := inv_run cap subs acts init s ⟨⟨[], by simp [init], by simp [init]⟩, by simp [init], by simp [init]⟩ h
  obtain ⟨⟨done, h1, h2⟩, h3, h4⟩ := i
  rw [hq, List.append_nil] at h1
  exact ⟨by rw [h2, h1], h3, by rw [h3]; exact h4⟩

/-- routing facts: exactly once per subscribed handler in subscription order, never for another
    command, never for a control command -/
theorem invocations_push (subs : Nat → List Nat) (p : Pkt) (hc : isControl p = false) (hp : p.type = .push) :
    invocations subs p = (subs p.cmd).map (fun h => (h, p)) := by simp [invocations, hc, hp]

theorem control_never_to_subscribers (subs : Nat → List Nat) (p : Pkt) (hc : p.cmd ≤ 3) :
    invocations subs p = [] := by simp [invocations, isControl, hc]

theorem response_not_to_subscribers (subs : Nat → List Nat) (p : Pkt) (hp : p.type ≠ .push) :
    invocations subs p = [] := by
  simp only [invocations]; split <;> simp [hp]

end OAP.Dispatch
