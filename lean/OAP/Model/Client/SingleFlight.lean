/-
Prototype slice of the Lifecycle view: single flight and one recovery per lost connection.
Any number of notifier goroutines call `reconnecting(c)` for arbitrary connections c
(close callback, dispatcher's final error, keepalive, close packet …); the one that wins
spawns the retry goroutine, which re-dials (retrying on failure) and installs a fresh connection.
Proved for every interleaving: at most one retry goroutine is alive, and each connection
is recovered at most once.
(view of the repaired client; model and its invariant proofs; imported from the round-0 prototype)
-/
import OAP.Base
namespace OAP.SingleFlight
open OAP

def upd {α} (f : Nat → α) (k : Nat) (v : α) : Nat → α := fun x => if x = k then v else f x

/-- notifier inside `reconnecting(c)` -/
inductive NPc
  | idle
  | wantW (c : Nat)      -- about to Lock
  | locked (c : Nat)     -- holding the lock: test `doReconnectting || c.conn != conn`
  | spawn (c : Nat)      -- flag set, lock released: about to start the retry goroutine
  | waitRC (c : Nat)     -- waiting for the retry goroutine
  | wantW2 (c : Nat)     -- about to Lock again
  | locked2 (c : Nat)    -- holding the lock: clear the flag
  | done
deriving DecidableEq, Repr

/-- retry goroutine (one slot per spawner) -/
inductive RPc
  | none
  | wantW                -- dial: about to Lock
  | dialing              -- holding the lock, dialer running
  | unlock (ok : Bool)   -- about to Unlock
  | finished
deriving DecidableEq, Repr

structure St where
  cur : Nat              -- current connection id
  nconn : Nat            -- next fresh id
  reconn : Bool          -- doReconnectting
  writer : Bool          -- c.mu held for writing
  notif : Nat → NPc
  rc : Nat → RPc
  spawns : Nat → Nat     -- ghost: retry goroutines ever started for connection c

inductive Act
  | n (t : Nat) (c : Nat)       -- notifier step (c = which connection it reports, used at idle)
  | r (t : Nat) (ok : Bool)     -- retry goroutine of spawner t steps (ok = dial outcome)

def step (s : St) : Act → Option St
  | .n t c =>
    match s.notif t with
    | .idle => some { s with notif := upd s.notif t (.wantW c) }
    | .wantW c => if s.writer then none else some { s with writer := true, notif := upd s.notif t (.locked c) }
    | .locked c =>
        if s.reconn || s.cur != c then some { s with writer := false, notif := upd s.notif t .done }
        else some { s with reconn := true, writer := false, notif := upd s.notif t (.spawn c) }
    | .spawn c => some { s with rc := upd s.rc t .wantW, spawns := upd s.spawns c (s.spawns c + 1),
                                notif := upd s.notif t (.waitRC c) }
    | .waitRC c => if s.rc t = .finished then some { s with rc := upd s.rc t .none, notif := upd s.notif t (.wantW2 c) } else none
    | .wantW2 c => if s.writer then none else some { s with writer := true, notif := upd s.notif t (.locked2 c) }
    | .locked2 _ => some { s with reconn := false, writer := false, notif := upd s.notif t .done }
    | .done => none
  | .r t ok =>
    match s.rc t with
    | .none => none
    | .wantW => if s.writer then none else some { s with writer := true, rc := upd s.rc t .dialing }
    | .dialing =>
        if ok then some { s with cur := s.nconn, nconn := s.nconn + 1, rc := upd s.rc t (.unlock true) }
        else some { s with rc := upd s.rc t (.unlock false) }
    | .unlock ok => some { s with writer := false, rc := upd s.rc t (if ok then .finished else .wantW) }
    | .finished => none

def init : St :=
  { cur := 0, nconn := 1, reconn := false, writer := false,
    notif := fun _ => .idle, rc := fun _ => .none, spawns := fun _ => 0 }

def run : St → List Act → Option St
  | s, [] => some s
  | s, a :: as => (step s a).bind (fun s' => run s' as)

/-- the notifier owns the flag (between setting and clearing it), for connection c -/
def owns : NPc → Nat → Prop
  | .spawn c, d | .waitRC c, d | .wantW2 c, d | .locked2 c, d => c = d
  | _, _ => False

def ownsAny : NPc → Prop
  | .spawn _ | .waitRC _ | .wantW2 _ | .locked2 _ => True
  | _ => False

theorem owns_any (p : NPc) (c : Nat) (h : owns p c) : ownsAny p := by
  cases p <;> simp_all [owns, ownsAny]

theorem owns_fun (p : NPc) (c d : Nat) (h : owns p c) (h' : owns p d) : c = d := by
  cases p <;> simp_all [owns]

def isWaitRC : NPc → Prop
  | .waitRC _ => True
  | _ => False

theorem wait_any (p : NPc) (h : isWaitRC p) : ownsAny p := by
  cases p <;> simp_all [isWaitRC, ownsAny]

def nHoldsW : NPc → Prop
  | .locked _ | .locked2 _ => True
  | _ => False

def rHoldsW : RPc → Prop
  | .dialing | .unlock _ => True
  | _ => False

def rAlive : RPc → Prop
  | .wantW | .dialing | .unlock _ => True
  | _ => False

structure FInv (s : St) : Prop where
  fresh : s.cur < s.nconn
  flag : s.reconn = true ↔ ∃ t, ownsAny (s.notif t)
  ownUniq : ∀ t u, ownsAny (s.notif t) → ownsAny (s.notif u) → t = u
  rcOwner : ∀ t, s.rc t ≠ .none → isWaitRC (s.notif t)
  -- write lock
  wN : ∀ t, nHoldsW (s.notif t) → s.writer = true
  wR : ∀ t, rHoldsW (s.rc t) → s.writer = true
  wUniqNN : ∀ t u, nHoldsW (s.notif t) → nHoldsW (s.notif u) → t = u
  wUniqRR : ∀ t u, rHoldsW (s.rc t) → rHoldsW (s.rc u) → t = u
  wUniqNR : ∀ t u, nHoldsW (s.notif t) → rHoldsW (s.rc u) → False
  -- recoveries per connection
  spawnedLt : ∀ c, 0 < s.spawns c → c < s.nconn
  spawnOnce : ∀ c, s.spawns c ≤ 1
  spawnedCur : ∀ c, 0 < s.spawns c → s.cur = c → ∃ t, owns (s.notif t) c
  ownCur1 : ∀ t c, s.notif t = .waitRC c → c ≤ s.cur
  ownCur2 : ∀ t c, s.notif t = .wantW2 c → c < s.cur
  ownCur3 : ∀ t c, s.notif t = .locked2 c → c < s.cur
  moved1 : ∀ t c, s.notif t = .waitRC c → s.rc t = .finished → c < s.cur
  moved2 : ∀ t c, s.notif t = .waitRC c → s.rc t = .unlock true → c < s.cur
  spawnPending : ∀ t c, s.notif t = .spawn c → s.spawns c = 0 ∧ s.cur = c

/-- close one preservation goal: specialise the quantified invariants at the acting thread, then grind -/
macro "close_inv" t:ident : tactic => `(tactic|
  (constructor <;> simp only [upd] <;> intros <;>
    grind [owns, ownsAny, nHoldsW, rHoldsW, isWaitRC, owns_any, owns_fun, wait_any]))

theorem inv_init : FInv init := by
  constructor <;> simp [init, owns, ownsAny, nHoldsW, rHoldsW, isWaitRC]


theorem pres_n_idle (s : St) (t c : Nat) (h : FInv s) (hp : s.notif t = .idle) :
    FInv { s with notif := upd s.notif t (.wantW c) } := by
  obtain ⟨h1, h2, h3, h4, h5, h6, h7, h8, h9, h10, h11, h12, h13a, h13b, h13c, h13d, h13e, h14⟩ := h
  close_inv t

theorem pres_n_wantW (s : St) (t c : Nat) (h : FInv s) (hp : s.notif t = .wantW c) (hw : s.writer = false) :
    FInv { s with writer := true, notif := upd s.notif t (.locked c) } := by
  obtain ⟨h1, h2, h3, h4, h5, h6, h7, h8, h9, h10, h11, h12, h13a, h13b, h13c, h13d, h13e, h14⟩ := h
  close_inv t

theorem pres_n_locked_skip (s : St) (t c : Nat) (h : FInv s) (hp : s.notif t = .locked c) (hc : (s.reconn || s.cur != c) = true) :
    FInv { s with writer := false, notif := upd s.notif t .done } := by
  obtain ⟨h1, h2, h3, h4, h5, h6, h7, h8, h9, h10, h11, h12, h13a, h13b, h13c, h13d, h13e, h14⟩ := h
  close_inv t

theorem pres_n_locked_win (s : St) (t c : Nat) (h : FInv s) (hp : s.notif t = .locked c) (hc : ¬ (s.reconn || s.cur != c) = true) :
    FInv { s with reconn := true, writer := false, notif := upd s.notif t (.spawn c) } := by
  obtain ⟨h1, h2, h3, h4, h5, h6, h7, h8, h9, h10, h11, h12, h13a, h13b, h13c, h13d, h13e, h14⟩ := h
  close_inv t

theorem pres_n_spawn (s : St) (t c : Nat) (h : FInv s) (hp : s.notif t = .spawn c) :
    FInv { s with rc := upd s.rc t .wantW, spawns := upd s.spawns c (s.spawns c + 1), notif := upd s.notif t (.waitRC c) } := by
  obtain ⟨h1, h2, h3, h4, h5, h6, h7, h8, h9, h10, h11, h12, h13a, h13b, h13c, h13d, h13e, h14⟩ := h
  close_inv t

theorem pres_n_waitRC (s : St) (t c : Nat) (h : FInv s) (hp : s.notif t = .waitRC c) (hf : s.rc t = .finished) :
    FInv { s with rc := upd s.rc t .none, notif := upd s.notif t (.wantW2 c) } := by
  obtain ⟨h1, h2, h3, h4, h5, h6, h7, h8, h9, h10, h11, h12, h13a, h13b, h13c, h13d, h13e, h14⟩ := h
  close_inv t

theorem pres_n_wantW2 (s : St) (t c : Nat) (h : FInv s) (hp : s.notif t = .wantW2 c) (hw : s.writer = false) :
    FInv { s with writer := true, notif := upd s.notif t (.locked2 c) } := by
  obtain ⟨h1, h2, h3, h4, h5, h6, h7, h8, h9, h10, h11, h12, h13a, h13b, h13c, h13d, h13e, h14⟩ := h
  close_inv t

theorem pres_n_locked2 (s : St) (t c : Nat) (h : FInv s) (hp : s.notif t = .locked2 c) :
    FInv { s with reconn := false, writer := false, notif := upd s.notif t .done } := by
  obtain ⟨h1, h2, h3, h4, h5, h6, h7, h8, h9, h10, h11, h12, h13a, h13b, h13c, h13d, h13e, h14⟩ := h
  close_inv t

theorem pres_r_wantW (s : St) (t c : Nat) (h : FInv s) (hp : s.rc t = .wantW) (hw : s.writer = false) :
    FInv { s with writer := true, rc := upd s.rc t .dialing } := by
  obtain ⟨h1, h2, h3, h4, h5, h6, h7, h8, h9, h10, h11, h12, h13a, h13b, h13c, h13d, h13e, h14⟩ := h
  close_inv t

theorem pres_r_dial_ok (s : St) (t c : Nat) (h : FInv s) (hp : s.rc t = .dialing) :
    FInv { s with cur := s.nconn, nconn := s.nconn + 1, rc := upd s.rc t (.unlock true) } := by
  obtain ⟨h1, h2, h3, h4, h5, h6, h7, h8, h9, h10, h11, h12, h13a, h13b, h13c, h13d, h13e, h14⟩ := h
  close_inv t

theorem pres_r_dial_fail (s : St) (t c : Nat) (h : FInv s) (hp : s.rc t = .dialing) :
    FInv { s with rc := upd s.rc t (.unlock false) } := by
  obtain ⟨h1, h2, h3, h4, h5, h6, h7, h8, h9, h10, h11, h12, h13a, h13b, h13c, h13d, h13e, h14⟩ := h
  close_inv t

theorem pres_r_unlock (s : St) (t c : Nat) (h : FInv s) (ok : Bool) (hp : s.rc t = .unlock ok) :
    FInv { s with writer := false, rc := upd s.rc t (if ok then .finished else .wantW) } := by
  obtain ⟨h1, h2, h3, h4, h5, h6, h7, h8, h9, h10, h11, h12, h13a, h13b, h13c, h13d, h13e, h14⟩ := h
  close_inv t

theorem inv_step (s s' : St) (a : Act) (h : FInv s) (hs : step s a = some s') : FInv s' := by
  cases a with
  | n t c =>
    simp only [step] at hs
    split at hs
    · rename_i hp; simp only [Option.some.injEq] at hs; subst hs; exact pres_n_idle s t c h hp
    · rename_i c' hp
      split at hs
      · simp at hs
      · rename_i hw; simp only [Option.some.injEq] at hs; subst hs
        exact pres_n_wantW s t c' h hp (by simpa using hw)
    · rename_i c' hp
      split at hs
      · rename_i hc; simp only [Option.some.injEq] at hs; subst hs; exact pres_n_locked_skip s t c' h hp hc
      · rename_i hc; simp only [Option.some.injEq] at hs; subst hs; exact pres_n_locked_win s t c' h hp hc
    · rename_i c' hp; simp only [Option.some.injEq] at hs; subst hs; exact pres_n_spawn s t c' h hp
    · rename_i c' hp
      split at hs
      · rename_i hf; simp only [Option.some.injEq] at hs; subst hs; exact pres_n_waitRC s t c' h hp hf
      · simp at hs
    · rename_i c' hp
      split at hs
      · simp at hs
      · rename_i hw; simp only [Option.some.injEq] at hs; subst hs
        exact pres_n_wantW2 s t c' h hp (by simpa using hw)
    · rename_i c' hp; simp only [Option.some.injEq] at hs; subst hs; exact pres_n_locked2 s t c' h hp
    · simp at hs
  | r t ok =>
    simp only [step] at hs
    split at hs
    · simp at hs
    · rename_i hp
      split at hs
      · simp at hs
      · rename_i hw; simp only [Option.some.injEq] at hs; subst hs
        exact pres_r_wantW s t 0 h hp (by simpa using hw)
    · rename_i hp
      split at hs
      · simp only [Option.some.injEq] at hs; subst hs; exact pres_r_dial_ok s t 0 h hp
      · simp only [Option.some.injEq] at hs; subst hs; exact pres_r_dial_fail s t 0 h hp
    · rename_i ok' hp; simp only [Option.some.injEq] at hs; subst hs; exact pres_r_unlock s t 0 h ok' hp
    · simp at hs

theorem inv_run (acts : List Act) : ∀ s s', FInv s → run s acts = some s' → FInv s' := by
  induction acts with
  | nil => intro s s' h hr; simp [run] at hr; subst hr; exact h
  | cons a as ih =>
    intro s s' h hr
    simp only [run] at hr
    cases hst : step s a with
    | none => simp [hst] at hr
    | some s1 => simp [hst] at hr; exact ih s1 s' (inv_step s s1 a h hst) hr

/-- L3: in every interleaving at most one retry goroutine is alive -/
theorem single_flight (acts : List Act) (s : St) (h : run init acts = some s) (t u : Nat)
    (ht : rAlive (s.rc t)) (hu : rAlive (s.rc u)) : t = u := by
  have i := inv_run acts init s inv_init h
  have a1 : s.rc t ≠ .none := by intro e; rw [e] at ht; exact ht
  have a2 : s.rc u ≠ .none := by intro e; rw [e] at hu; exact hu
  exact i.ownUniq t u (wait_any _ (i.rcOwner t a1)) (wait_any _ (i.rcOwner u a2))

/-- D19 / one_recovery_per_loss: however many notifiers report the loss of a connection, and in
    whatever order, at most one recovery is ever started for it -/
theorem one_recovery_per_loss (acts : List Act) (s : St) (h : run init acts = some s) (c : Nat) :
    s.spawns c ≤ 1 :=
  (inv_run acts init s inv_init h).spawnOnce c

/-- non-vacuity: two notifiers report connection 0; the first wins and the retry goroutine installs
    connection 1 after one failed dial; the second notifier arrives late and starts nothing. -/
example :
    (run init [.n 7 0, .n 7 0, .n 7 0, .n 7 0,            -- idle → wantW → locked → spawn → waitRC
               .r 7 false, .r 7 false, .r 7 false,        -- Lock, dial fails, Unlock (retry)
               .r 7 true, .r 7 true, .r 7 true,           -- Lock, dial ok, Unlock → finished
               .n 7 0, .n 7 0, .n 7 0,                    -- waitRC → wantW2 → locked2 → done
               .n 9 0, .n 9 0, .n 9 0                     -- late notifier for connection 0: skipped
              ]).map (fun s => (s.cur, s.spawns 0, s.reconn, s.writer)) = some (1, 1, false, false) := by
  decide

end OAP.SingleFlight
