/-
C14 / C06, view LockWait: the client's RWMutex `c.mu` with Go's real semantics — A GOROUTINE BLOCKED IN `Lock()` BLOCKS EVERY
NEW `RLock()`, read holders already inside keep the lock until they `RUnlock` — and the goroutines that meet at it: request
calls `Do`, which HOLD THE READ LOCK WHILE THEY WAIT for their answer; the loss notifiers (`reconnecting`, write lock); the
retry goroutine (`reconnect` / `dial`, write lock; its auth request is an ordinary `Do`); the callers of `Close`.
Proved: once `Close` has set its signal nothing it depends on waits for a request deadline, for the auth timeout, for the
1 s sleep of the retry loop or for the peer; every schedule is bounded; the two guards the code has for this are each
necessary.  Found: the one thing Close still waits for is a dial in progress (`close_waits_for_dial`).

Go code mirrored (go/client/client.go); the pc names the statement ABOUT to be executed.

  Do (caller i; `Act.doCall` starts caller nD)              reconnecting(conn g) (notifier t; `Act.lose g` starts notifier nN)
    c.RLock()                              DPc.wantR  (*)       if c.closed() { return }                    NPc.enter g  (+ onConnClose's test)
    conn := c.conn; nil → return; register DPc.inR              if atomic.Load(&c.recovering)==1 { return } NPc.fast g   (not in noFastPath/neither)
    conn.Write(..)  (err → return)         DPc.write            c.Lock()                                    NPc.wantW g → pend1 g (**)
    recv: select {                         DPc.wait             if c.doReconnectting || c.conn != conn {    NPc.locked g
      case p, ok := <-w.ch                   Act.dRecv i          c.Unlock(); return }                      NPc.skip
      case <-ctx.Done()                      Act.dTimeout i     c.doReconnectting = true                    NPc.setDo
      case <-c.closeCh }                     Act.dCloseCase i   atomic.Store(&c.recovering, 1)              NPc.setAt
                                   (not in noCloseCase/neither) c.Unlock()                                  NPc.unlock1
    defer unregister; defer c.RUnlock()    DPc.unlock           go func() {…}()                             NPc.spawn
                                                                <-waitCh                                    NPc.waitRC
  Close (caller i; `Act.closeCall` starts caller nC)            c.Lock()                                    NPc.wantW2 → pend2 (**)
    c.closeOnce.Do(func() {                CPc.once  (Act.c i)  c.doReconnectting = false                   NPc.clrDo
      close(c.closeCh)                     BPc.sig   (Act.body) atomic.Store(&c.recovering, 0)              NPc.clrAt
      c.RLock()                            BPc.wantR (*)        c.Unlock()                                  NPc.unlock2
      if c.conn != nil { c.conn.Close() }  BPc.inR
      c.RUnlock()                          BPc.unlockR        retry goroutine (one slot `rc`, its notifier `rcOwner`)
      onClose(err) })                      BPc.cb, BPc.rel      for { if c.closed() { return }              RPc.top
                                                                reconnect(): MaxReconnect test              RPc.chkMax   (Act.rChkMax hit)
  (*)  RLock is enabled iff writer = none ∧ pendW = 0             c.RLock(); old := c.conn; c.RUnlock()     RPc.oWantR (*), oInR
  (**) Lock is two steps: wantW → pend (pendW+1, always              old.Close(..)                            RPc.closeOld
       enabled) and pend → holder (enabled iff writer = none         close every w.ch; new table              RPc.failAll
       ∧ readers = 0; ANY pending goroutine may win: Go              dial: c.Lock()                           RPc.dWant → dPend (**)
       promises no order among writers)                                if c.closed() { return err }           RPc.dCheck
                                                                       c.conn, err = dialer(ctx, ..)          RPc.dDialing (Act.rDial ok)
  the request of auth()/reconnectDial() = a `Do` by the               defer c.Unlock()                        RPc.dUnlockOk / dUnlockFail
  retry goroutine: aWantR (*), aInR, aWrite, aWait (rRecv /         AuthInfo()==nil → return nil             RPc.authQ    (Act.rAuthQ need)
  rAuthTimeout / rCloseCase), aUnlock; `second` = the auth          auth() / reconnectDial()                 RPc.aWantR … aUnlock
  request after a rejected session (`ARes.again`)                 ok: if cb != nil && !c.closed() { cb() }    RPc.cbTest, cb
                                                                  ErrHitMaxReconnect: c.Close(err)            RPc.hmOnce, hmBody (Act.body)
                                                                  time.Sleep(1s)                              RPc.sleep    (Act.rSleepDone)
                                                                defer waitCh <- struct{}{}                    RPc.fin

Environment (`isEnv`): new `Do` / `Close` calls, loss notifications (any generation, any number: onConnClose, the
dispatcher's final error, keepalive), the answer to a request (`deliver i`) or to the auth request (`authDeliver`).
Timers (`isTimer`): a request deadline, the auth timeout, the end of the 1 s sleep.  Time is not modelled: a timer action is
always enabled where the code waits for it; the theorems say what happens WITHOUT them.
The dial: `dial` holds the write lock across `dialer(ctx, ..)`; its return (`rDial ok`) is a step of the retry goroutine and
counts as progress (`isProg`) — that the dialer returns (by its ctx timeout at the latest) is TRUSTED, and that Close may
have to wait for it is reported as a finding (`close_waits_for_dial`), not hidden.

Trusted: the RWMutex semantics as modelled (writer preference: a pending `Lock` blocks new `RLock`s; no order among pending
writers); sync.Once (later callers wait until f has returned); atomic
loads/stores; `conn.Write` and `conn.Close` return (view ConnThreads); the dialer returns; handlers and callbacks return.
Abstractions (all towards more behaviour): MaxReconnect is an oracle (`rChkMax hit`); a notifier may report any generation;
write results, the need for auth and the content of the auth answer are oracles; the waiter table is the pair of flags
`answered i` / `failed i` per caller.  One retry-goroutine slot: a second `go func()` while one runs is counted in the ghost
`spawnClash`, which is proved 0 (`one_retry_goroutine`), so the single slot loses nothing.
Not in this view: the first `Dial`; keepalive's ping (a read-locked section without a wait: like a `Do` whose write fails);
`recvsMu`, `stateMu` (sections without waits); what travels on the wire (views Waiters, Recovery, ConnThreads).

`Variant`: `code` = the tree as it is; `noCloseCase` = `recv` without `case <-c.closeCh` (before the repair of D24);
`noFastPath` = `reconnecting` without the atomic test (before the repair of D20); `neither` = both off (the tree in which D20
was found).  All theorems about the code are for `Variant.code` (`step`, `run`); the invariant holds for all four.

Proved for every interleaving (`run init acts = some s →`):
  inv_init, inv_do / inv_n2 / inv_n / inv_r / inv_c / inv_env, inv_stepV, inv_reach(V)     the invariant `WInv`
  mutex_exclusive, one_retry_goroutine, flag_agrees                                        safety of lock, guard, flags
  no_dial_entered_after_signal, no_dial_after_close_signal_installs_partial                 dial vs Close
  mu_stepV, mu_run                          after the signal every goroutine step takes 1 off `mu`; a new call adds a constant
  writer_can_step, pending_can_get, reader_can_step, lock_progress                          the lock drains without timers
  close_progress, close_prompt              CLOSE RETURNS PROMPTLY: budget, never stuck on a timer, ends with Close returned
  can_always_finish, close_leads_to_return  a timer-free schedule to the end exists from every state
  do_returns_after_close                    every request call returns after the signal without its deadline
  no_close_case_blocks_close                (noCloseCase) Close waits for a request deadline
  no_fast_path_blocks_close                 (neither) Close waits for the auth deadline
  no_fast_path_blocks_do_partial            (noFastPath) every Do waits for the auth deadline; Close does not (decided run)
  close_waits_for_dial                      (code!) Close waits for a dial in progress
  dial_in_progress_installs_after_signal    (code) such a dial installs its conn after the signal (Close then closes it)
-/
import OAP.Base
namespace OAP.LockWait
open OAP

def upd {α} (f : Nat → α) (k : Nat) (v : α) : Nat → α := fun x => if x = k then v else f x
theorem upd_app {α} (f : Nat → α) (k : Nat) (v : α) (x : Nat) : upd f k v x = if x = k then v else f x := rfl
@[simp] theorem upd_same {α} (f : Nat → α) k v : upd f k v k = v := by simp [upd]
@[simp] theorem upd_other {α} (f : Nat → α) k v x (h : x ≠ k) : upd f k v x = f x := by simp [upd, h]

/-- `code`: the tree as it is.  `noCloseCase`: `recv` without `case <-c.closeCh` (before the repair of D24).
`noFastPath`: `reconnecting` without the atomic `recovering` test (before the repair of D20).  `neither`: both guards
off (the tree in which D20 was found). -/
inductive Variant | code | noCloseCase | noFastPath | neither
deriving DecidableEq, Repr

def Variant.closeCase : Variant → Bool
  | .code | .noFastPath => true
  | _ => false
def Variant.fastPath : Variant → Bool
  | .code | .noCloseCase => true
  | _ => false

/-- the goroutines that take the WRITE lock: notifier t (`reconnecting`), the retry goroutine (`dial`) -/
inductive Tid | n (t : Nat) | r
deriving DecidableEq, Repr

/-- who runs the body of `closeOnce.Do`: Close caller i, or the retry goroutine (hit-max) -/
inductive Who | x (i : Nat) | r
deriving DecidableEq, Repr

/-- next operation of the body of `closeOnce.Do` -/
inductive BPc
  | sig        -- close(c.closeCh)
  | wantR      -- c.RLock()
  | inR        -- if c.conn != nil { c.conn.Close(..) }
  | unlockR    -- c.RUnlock()
  | cb         -- onClose(err)
  | rel        -- the body returns, Do returns, Close returns
deriving DecidableEq, Repr

inductive Once | free | held (who : Who) (next : BPc) | done
deriving DecidableEq, Repr

/-- a caller of `Do` -/
inductive DPc
  | idle       -- not started
  | wantR      -- c.RLock()
  | inR        -- conn := c.conn; nil → return (deferred RUnlock); register
  | write      -- conn.Write
  | wait       -- recv: at the select
  | unlock     -- deferred unregister, RUnlock; return
  | ret
deriving DecidableEq, Repr

/-- a loss notifier: `onConnClose(conn)` / `reconnecting(conn)` for conn generation g -/
inductive NPc
  | idle
  | enter (g : Nat)    -- `closed()` test (onConnClose's and reconnecting's: the same test twice)
  | fast (g : Nat)     -- atomic.Load(&c.recovering)
  | wantW (g : Nat)    -- calls c.Lock()
  | pend1 (g : Nat)    -- blocked in c.Lock(): a pending writer
  | locked (g : Nat)   -- holds the lock: `c.doReconnectting || c.conn != conn`
  | skip               -- c.Unlock(); return
  | setDo              -- c.doReconnectting = true
  | setAt              -- atomic.Store(&c.recovering, 1)
  | unlock1            -- c.Unlock()
  | spawn              -- go func() {…}()
  | waitRC             -- <-waitCh
  | wantW2             -- calls c.Lock()
  | pend2              -- blocked in c.Lock()
  | clrDo              -- c.doReconnectting = false
  | clrAt              -- atomic.Store(&c.recovering, 0)
  | unlock2            -- c.Unlock()
  | done
deriving DecidableEq, Repr

/-- outcome of the request made by `auth` / `reconnectDial` -/
inductive ARes | ok | fail | again
deriving DecidableEq, Repr

/-- the retry goroutine -/
inductive RPc
  | none
  | top            -- for { if c.closed() { return }
  | chkMax         -- reconnect(): the MaxReconnect test
  | oWantR         -- c.RLock()
  | oInR           -- old := c.conn; c.RUnlock()
  | closeOld       -- old.Close(..)
  | failAll        -- close every w.ch, new table
  | dWant          -- dial: calls c.Lock()
  | dPend          -- blocked in c.Lock()
  | dCheck         -- holds the lock: if c.closed() { return errClientClosed }
  | dDialing       -- holds the lock: inside dialer(ctx, ..)
  | dUnlockOk      -- deferred c.Unlock(), dial returned nil
  | dUnlockFail    -- deferred c.Unlock(), dial returned an error
  | authQ          -- AuthInfo() == nil → return nil; else auth() / reconnectDial()
  | aWantR (second : Bool)              -- the request's Do: c.RLock()
  | aInR (second : Bool)                -- conn := c.conn; register
  | aWrite (second : Bool)              -- conn.Write
  | aWait (second : Bool)               -- recv: at the select (AuthTimeout)
  | aUnlock (second : Bool) (res : ARes) -- deferred unregister, RUnlock
  | cbTest         -- if c.afterReconnected != nil && !c.closed()
  | cb             -- c.afterReconnected()
  | sleep          -- time.Sleep(1s)
  | hmOnce         -- c.Close(ErrHitMaxReconnect): at closeOnce.Do
  | hmBody         -- inside the body of closeOnce.Do (progress: `Once.held .r next`)
  | fin            -- defer: waitCh <- struct{}{}
deriving DecidableEq, Repr

/-- a caller of `Close` -/
inductive CPc | idle | once | body | ret
deriving DecidableEq, Repr

structure St where
  -- c.RWMutex
  readers : Nat              -- read holds
  writer : Option Tid        -- the write holder
  pendW : Nat                -- goroutines blocked in Lock()
  closeSig : Bool            -- closeCh is closed
  once : Once                -- c.closeOnce
  reconn : Bool              -- c.doReconnectting
  recovering : Bool          -- atomic c.recovering
  cur : Option Nat           -- c.conn: generation (none = nil: the last dial failed)
  nextGen : Nat
  dpc : Nat → DPc
  nD : Nat                   -- Do callers started so far (ids 0 … nD-1)
  answered : Nat → Bool      -- a packet is in caller i's w.ch
  failed : Nat → Bool        -- caller i's w.ch was closed by reconnect
  npc : Nat → NPc
  nN : Nat                   -- notifiers started so far
  rc : RPc
  rcOwner : Nat              -- the notifier whose waitCh the retry goroutine signals
  authAns : Bool             -- a packet is in the auth request's w.ch
  cpc : Nat → CPc
  nC : Nat                   -- Close callers started so far
  -- ghosts
  own : Nat                  -- the last notifier that passed the guard under the write lock
  spawnClash : Nat           -- retry goroutines started while another one was running
  lateInstalls : Nat         -- conns installed by dial after the RUnlock of Close's body
  doReturns : Nat
  closeReturns : Nat

inductive Act
  -- environment: API calls, losses, the peer
  | doCall                       -- a new goroutine calls Do (id nD)
  | closeCall                    -- a new goroutine calls Close (id nC)
  | lose (g : Nat)               -- a loss of conn g is noticed: a new notifier (id nN)
  | deliver (i : Nat)            -- the answer for caller i is put into its w.ch
  | authDeliver                  -- the answer for the auth / resume request
  -- Do callers
  | d (i : Nat)                  -- RLock / pick conn + register / unregister + RUnlock
  | dWrite (i : Nat) (ok : Bool)
  | dRecv (i : Nat)              -- select: case <-w.ch (a packet, or closed)
  | dTimeout (i : Nat)           -- select: case <-ctx.Done()
  | dCloseCase (i : Nat)         -- select: case <-c.closeCh
  -- notifiers
  | n (t : Nat)
  -- the retry goroutine
  | r                            -- its next statement, where the outcome is determined by the state
  | rChkMax (hit : Bool)
  | rDial (ok : Bool)            -- the dialer returns
  | rAuthQ (need : Bool)
  | rWrite (ok : Bool)
  | rRecv (res : ARes)
  | rAuthTimeout
  | rCloseCase (res : ARes)
  | rSleepDone                   -- the 1 s sleep is over
  -- Close
  | c (i : Nat)                  -- at closeOnce.Do
  | body                         -- next operation of the body, by whoever holds the Once
deriving DecidableEq, Repr

/-- the waiter of caller i is in the table -/
def isReg : DPc → Bool
  | .write | .wait => true
  | _ => false

def stepDo (v : Variant) (s : St) : Act → Option St
  | .d i =>
      match s.dpc i with
      | .wantR => if s.writer = none ∧ s.pendW = 0
                  then some { s with readers := s.readers + 1, dpc := upd s.dpc i .inR } else none
      | .inR =>
          match s.cur with
          | none => some { s with dpc := upd s.dpc i .unlock }
          | some _ => some { s with dpc := upd s.dpc i .write, answered := upd s.answered i false,
                                    failed := upd s.failed i false }
      | .unlock => some { s with readers := s.readers - 1, dpc := upd s.dpc i .ret, doReturns := s.doReturns + 1 }
      | _ => none
  | .dWrite i ok =>
      match s.dpc i with
      | .write => if ok then some { s with dpc := upd s.dpc i .wait } else some { s with dpc := upd s.dpc i .unlock }
      | _ => none
  | .dRecv i =>
      match s.dpc i with
      | .wait => if s.answered i || s.failed i then some { s with dpc := upd s.dpc i .unlock } else none
      | _ => none
  | .dTimeout i =>
      match s.dpc i with
      | .wait => some { s with dpc := upd s.dpc i .unlock }
      | _ => none
  | .dCloseCase i =>
      match s.dpc i with
      | .wait => if s.closeSig && v.closeCase then some { s with dpc := upd s.dpc i .unlock } else none
      | _ => none
  | _ => none

/-- second half of `reconnecting`: from `<-waitCh` on -/
def stepN2 (s : St) (t : Nat) : Option St :=
  match s.npc t with
  | .waitRC => if s.rc = .fin ∧ s.rcOwner = t then some { s with rc := .none, npc := upd s.npc t .wantW2 } else none
  | .wantW2 => some { s with pendW := s.pendW + 1, npc := upd s.npc t .pend2 }
  | .pend2 => if s.writer = none ∧ s.readers = 0
              then some { s with pendW := s.pendW - 1, writer := some (.n t), npc := upd s.npc t .clrDo }
              else none
  | .clrDo => some { s with reconn := false, npc := upd s.npc t .clrAt }
  | .clrAt => some { s with recovering := false, npc := upd s.npc t .unlock2 }
  | .unlock2 => some { s with writer := none, npc := upd s.npc t .done }
  | _ => none

def stepN (v : Variant) (s : St) (t : Nat) : Option St :=
  match s.npc t with
  | .enter g => if s.closeSig then some { s with npc := upd s.npc t .done }
                else some { s with npc := upd s.npc t (.fast g) }
  | .fast g => if v.fastPath && s.recovering then some { s with npc := upd s.npc t .done }
               else some { s with npc := upd s.npc t (.wantW g) }
  | .wantW g => some { s with pendW := s.pendW + 1, npc := upd s.npc t (.pend1 g) }
  | .pend1 g => if s.writer = none ∧ s.readers = 0
                then some { s with pendW := s.pendW - 1, writer := some (.n t), npc := upd s.npc t (.locked g) }
                else none
  | .locked g => if s.reconn = true ∨ s.cur ≠ some g then some { s with npc := upd s.npc t .skip }
                 else some { s with npc := upd s.npc t .setDo, own := t }
  | .skip => some { s with writer := none, npc := upd s.npc t .done }
  | .setDo => some { s with reconn := true, npc := upd s.npc t .setAt }
  | .setAt => some { s with recovering := true, npc := upd s.npc t .unlock1 }
  | .unlock1 => some { s with writer := none, npc := upd s.npc t .spawn }
  | .spawn => some { s with rc := .top, rcOwner := t, npc := upd s.npc t .waitRC,
                            spawnClash := if s.rc = .none then s.spawnClash else s.spawnClash + 1 }
  | _ => stepN2 s t

def stepR (v : Variant) (s : St) : Act → Option St
  | .r =>
      match s.rc with
      | .top => if s.closeSig then some { s with rc := .fin } else some { s with rc := .chkMax }
      | .oWantR => if s.writer = none ∧ s.pendW = 0 then some { s with readers := s.readers + 1, rc := .oInR } else none
      | .oInR => some { s with readers := s.readers - 1, rc := .closeOld }
      | .closeOld => some { s with rc := .failAll }
      | .failAll => some { s with failed := fun i => if isReg (s.dpc i) then true else s.failed i, rc := .dWant }
      | .dWant => some { s with pendW := s.pendW + 1, rc := .dPend }
      | .dPend => if s.writer = none ∧ s.readers = 0
                  then some { s with pendW := s.pendW - 1, writer := some .r, rc := .dCheck } else none
      | .dCheck => if s.closeSig then some { s with rc := .dUnlockFail } else some { s with rc := .dDialing }
      | .dUnlockOk => some { s with writer := none, rc := .authQ }
      | .dUnlockFail => some { s with writer := none, rc := .sleep }
      | .aWantR b => if s.writer = none ∧ s.pendW = 0 then some { s with readers := s.readers + 1, rc := .aInR b } else none
      | .aInR b =>
          match s.cur with
          | none => some { s with rc := .aUnlock b .fail }
          | some _ => some { s with rc := .aWrite b, authAns := false }
      | .aUnlock _ .ok => some { s with readers := s.readers - 1, rc := .cbTest }
      | .aUnlock _ .fail => some { s with readers := s.readers - 1, rc := .sleep }
      | .aUnlock true .again => some { s with readers := s.readers - 1, rc := .sleep }
      | .aUnlock false .again => some { s with readers := s.readers - 1, rc := .aWantR true }
      | .cbTest => if s.closeSig then some { s with rc := .fin } else some { s with rc := .cb }
      | .cb => some { s with rc := .fin }
      | .hmOnce =>
          match s.once with
          | .free => some { s with once := .held .r .sig, rc := .hmBody }
          | .done => some { s with rc := .fin }
          | .held _ _ => none
      | _ => none
  | .rChkMax hit =>
      match s.rc with
      | .chkMax => if hit then some { s with rc := .hmOnce } else some { s with rc := .oWantR }
      | _ => none
  | .rDial ok =>
      match s.rc with
      | .dDialing =>
          if ok then some { s with cur := some s.nextGen, nextGen := s.nextGen + 1, rc := .dUnlockOk,
                                   lateInstalls := match s.once with
                                     | .held _ .cb | .held _ .rel | .done => s.lateInstalls + 1
                                     | _ => s.lateInstalls }
          else some { s with cur := none, rc := .dUnlockFail }
      | _ => none
  | .rAuthQ need =>
      match s.rc with
      | .authQ => if need then some { s with rc := .aWantR false } else some { s with rc := .cbTest }
      | _ => none
  | .rWrite ok =>
      match s.rc with
      | .aWrite b => if ok then some { s with rc := .aWait b } else some { s with rc := .aUnlock b .fail }
      | _ => none
  | .rRecv res =>
      match s.rc with
      | .aWait b => if s.authAns then some { s with rc := .aUnlock b res } else none
      | _ => none
  | .rAuthTimeout =>
      match s.rc with
      | .aWait b => some { s with rc := .aUnlock b .fail }
      | _ => none
  | .rCloseCase res =>
      match s.rc with
      | .aWait b => if s.closeSig && v.closeCase
                    then (if s.authAns then some { s with rc := .aUnlock b res } else some { s with rc := .aUnlock b .fail })
                    else none
      | _ => none
  | .rSleepDone =>
      match s.rc with
      | .sleep => some { s with rc := .top }
      | _ => none
  | _ => none

def stepC (s : St) : Act → Option St
  | .c i =>
      match s.cpc i with
      | .once =>
          match s.once with
          | .free => some { s with once := .held (.x i) .sig, cpc := upd s.cpc i .body }
          | .done => some { s with cpc := upd s.cpc i .ret, closeReturns := s.closeReturns + 1 }
          | .held _ _ => none
      | _ => none
  | .body =>
      match s.once with
      | .held who .sig => some { s with once := .held who .wantR, closeSig := true }
      | .held who .wantR => if s.writer = none ∧ s.pendW = 0
                            then some { s with once := .held who .inR, readers := s.readers + 1 } else none
      | .held who .inR => some { s with once := .held who .unlockR }
      | .held who .unlockR => some { s with once := .held who .cb, readers := s.readers - 1 }
      | .held who .cb => some { s with once := .held who .rel }
      | .held (.x i) .rel => some { s with once := .done, cpc := upd s.cpc i .ret, closeReturns := s.closeReturns + 1 }
      | .held .r .rel => some { s with once := .done, rc := .fin }
      | _ => none
  | _ => none

def stepEnv (s : St) : Act → Option St
  | .doCall => some { s with dpc := upd s.dpc s.nD .wantR, nD := s.nD + 1 }
  | .closeCall => some { s with cpc := upd s.cpc s.nC .once, nC := s.nC + 1 }
  | .lose g => some { s with npc := upd s.npc s.nN (.enter g), nN := s.nN + 1 }
  | .deliver i => if isReg (s.dpc i) && !s.failed i then some { s with answered := upd s.answered i true } else none
  | .authDeliver =>
      match s.rc with
      | .aWrite _ => some { s with authAns := true }
      | .aWait _ => some { s with authAns := true }
      | _ => none
  | _ => none

def stepV (v : Variant) (s : St) : Act → Option St
  | .doCall => stepEnv s .doCall
  | .closeCall => stepEnv s .closeCall
  | .lose g => stepEnv s (.lose g)
  | .deliver i => stepEnv s (.deliver i)
  | .authDeliver => stepEnv s .authDeliver
  | .d i => stepDo v s (.d i)
  | .dWrite i ok => stepDo v s (.dWrite i ok)
  | .dRecv i => stepDo v s (.dRecv i)
  | .dTimeout i => stepDo v s (.dTimeout i)
  | .dCloseCase i => stepDo v s (.dCloseCase i)
  | .n t => stepN v s t
  | .r => stepR v s .r
  | .rChkMax hit => stepR v s (.rChkMax hit)
  | .rDial ok => stepR v s (.rDial ok)
  | .rAuthQ need => stepR v s (.rAuthQ need)
  | .rWrite ok => stepR v s (.rWrite ok)
  | .rRecv res => stepR v s (.rRecv res)
  | .rAuthTimeout => stepR v s .rAuthTimeout
  | .rCloseCase res => stepR v s (.rCloseCase res)
  | .rSleepDone => stepR v s .rSleepDone
  | .c i => stepC s (.c i)
  | .body => stepC s .body

def init : St :=
  { readers := 0, writer := none, pendW := 0, closeSig := false, once := .free, reconn := false, recovering := false,
    cur := some 0, nextGen := 1, dpc := fun _ => .idle, nD := 0, answered := fun _ => false, failed := fun _ => false,
    npc := fun _ => .idle, nN := 0, rc := .none, rcOwner := 0, authAns := false, cpc := fun _ => .idle, nC := 0,
    own := 0, spawnClash := 0, lateInstalls := 0, doReturns := 0, closeReturns := 0 }

def runV (v : Variant) : St → List Act → Option St
  | s, [] => some s
  | s, a :: as => (stepV v s a).bind (fun s' => runV v s' as)

/-- the code as it is -/
abbrev step (s : St) (a : Act) : Option St := stepV .code s a
abbrev run (s : St) (acts : List Act) : Option St := runV .code s acts

theorem runV_cons_some {v : Variant} {s s' : St} {a : Act} {as : List Act}
    (h : runV v s (a :: as) = some s') : ∃ s1, stepV v s a = some s1 ∧ runV v s1 as = some s' := by
  simp only [runV] at h
  cases hst : stepV v s a with
  | none => simp [hst] at h
  | some s1 => exact ⟨s1, rfl, by simpa [hst] using h⟩

theorem runV_append {v : Variant} (as bs : List Act) : ∀ (s s' : St),
    runV v s (as ++ bs) = some s' ↔ ∃ s1, runV v s as = some s1 ∧ runV v s1 bs = some s' := by
  induction as with
  | nil => intro s s'; simp [runV]
  | cons a as ih =>
    intro s s'
    simp only [List.cons_append, runV]
    cases hst : stepV v s a with
    | none => simp
    | some s1 => simpa using ih s1 s'

/-! ### counting threads: `cnt w f n` = Σ_{i<n} w (f i) -/

def cnt {α} (w : α → Nat) (f : Nat → α) : Nat → Nat
  | 0 => 0
  | n + 1 => cnt w f n + w (f n)

theorem cnt_succ {α} (w : α → Nat) (f : Nat → α) (n : Nat) : cnt w f (n + 1) = cnt w f n + w (f n) := rfl

theorem cnt_upd_ge {α} (w : α → Nat) (f : Nat → α) (i : Nat) (v : α) : ∀ n, n ≤ i → cnt w (upd f i v) n = cnt w f n := by
  intro n
  induction n with
  | zero => intro _; rfl
  | succ n ih =>
    intro h
    rw [cnt_succ, cnt_succ, ih (by omega), upd_other _ _ _ _ (by omega)]

theorem cnt_upd_lt {α} (w : α → Nat) (f : Nat → α) (i : Nat) (v : α) :
    ∀ n, i < n → cnt w (upd f i v) n + w (f i) = cnt w f n + w v := by
  intro n
  induction n with
  | zero => intro h; omega
  | succ n ih =>
    intro h
    rw [cnt_succ, cnt_succ]
    by_cases hi : i = n
    · subst hi; rw [cnt_upd_ge w f i v i (Nat.le_refl _), upd_same]; omega
    · have := ih (by omega); rw [upd_other _ _ _ _ (fun h => hi h.symm)]; omega

/-- a new thread with the next id -/
theorem cnt_fresh {α} (w : α → Nat) (f : Nat → α) (n : Nat) (v : α) : cnt w (upd f n v) (n + 1) = cnt w f n + w v := by
  rw [cnt_succ, cnt_upd_ge w f n v n (Nat.le_refl _), upd_same]

theorem cnt_pos {α} (w : α → Nat) (f : Nat → α) : ∀ n, 0 < cnt w f n → ∃ i, i < n ∧ 0 < w (f i) := by
  intro n
  induction n with
  | zero => intro h; simp [cnt] at h
  | succ n ih =>
    intro h
    rw [cnt_succ] at h
    by_cases h0 : 0 < w (f n)
    · exact ⟨n, by omega, h0⟩
    · obtain ⟨i, hi, hw⟩ := ih (by omega); exact ⟨i, by omega, hw⟩

theorem cnt_ge {α} (w : α → Nat) (f : Nat → α) (i : Nat) : ∀ n, i < n → w (f i) ≤ cnt w f n := by
  intro n
  induction n with
  | zero => intro h; omega
  | succ n ih =>
    intro h
    rw [cnt_succ]
    by_cases hi : i = n
    · subst hi; omega
    · have := ih (by omega); omega

theorem cnt_ge2 {α} (w : α → Nat) (f : Nat → α) (i j : Nat) (hij : i ≠ j) :
    ∀ n, i < n → j < n → w (f i) + w (f j) ≤ cnt w f n := by
  intro n
  induction n with
  | zero => intro h; omega
  | succ n ih =>
    intro h1 h2
    rw [cnt_succ]
    by_cases hi : i = n
    · subst hi; have := cnt_ge w f j i (by omega); omega
    · by_cases hj : j = n
      · subst hj; have := cnt_ge w f i j (by omega); omega
      · have := ih (by omega) (by omega); omega

/-! ### predicates on program counters -/

/-- read holds of a `Do` caller -/
def rdD : DPc → Nat
  | .inR | .write | .wait | .unlock => 1
  | _ => 0
/-- read hold of the body of `closeOnce.Do` -/
def rdOnce : Once → Nat
  | .held _ .inR | .held _ .unlockR => 1
  | _ => 0
/-- read hold of the retry goroutine (`old := c.conn`, the request's `Do`) -/
def rdR : RPc → Nat
  | .oInR | .aInR _ | .aWrite _ | .aWait _ | .aUnlock _ _ => 1
  | _ => 0
/-- the notifier is blocked in `Lock()` -/
def pwN : NPc → Nat
  | .pend1 _ | .pend2 => 1
  | _ => 0
def pwR : RPc → Nat
  | .dPend => 1
  | _ => 0
def nHoldsW : NPc → Bool
  | .locked _ | .skip | .setDo | .setAt | .unlock1 | .clrDo | .clrAt | .unlock2 => true
  | _ => false
def rHoldsW : RPc → Bool
  | .dCheck | .dDialing | .dUnlockOk | .dUnlockFail => true
  | _ => false
/-- the notifier has passed the guard and not yet released the lock for the last time -/
def owns : NPc → Bool
  | .setDo | .setAt | .unlock1 | .spawn | .waitRC | .wantW2 | .pend2 | .clrDo | .clrAt | .unlock2 => true
  | _ => false
/-- `doReconnectting` is true on behalf of this notifier -/
def ownsDo : NPc → Bool
  | .setAt | .unlock1 | .spawn | .waitRC | .wantW2 | .pend2 | .clrDo => true
  | _ => false
/-- `recovering` is 1 on behalf of this notifier -/
def ownsAt : NPc → Bool
  | .unlock1 | .spawn | .waitRC | .wantW2 | .pend2 | .clrDo | .clrAt => true
  | _ => false
def sigDone : Once → Bool
  | .free => false | .held _ .sig => false | _ => true
def holder : Once → Option Who
  | .held who _ => some who | _ => none
/-- the body of `closeOnce.Do` is past its `RUnlock` -/
def pastR : Once → Bool
  | .held _ .cb | .held _ .rel | .done => true
  | _ => false

structure WInv (s : St) : Prop where
  excl : s.writer ≠ none → s.readers = 0
  rd : s.readers = cnt rdD s.dpc s.nD + rdOnce s.once + rdR s.rc
  pw : s.pendW = cnt pwN s.npc s.nN + pwR s.rc
  wN : ∀ t, s.writer = some (.n t) ↔ nHoldsW (s.npc t) = true
  wR : s.writer = some .r ↔ rHoldsW s.rc = true
  dB : ∀ i, s.nD ≤ i → s.dpc i = .idle
  nB : ∀ t, s.nN ≤ t → s.npc t = .idle
  cB : ∀ i, s.nC ≤ i → s.cpc i = .idle
  cS : ∀ i, i < s.nC → s.cpc i ≠ .idle
  sig : s.closeSig = sigDone s.once
  cBody : ∀ i, s.cpc i = .body ↔ holder s.once = some (.x i)
  rBody : s.rc = .hmBody ↔ holder s.once = some .r
  ownU : ∀ t, owns (s.npc t) = true → t = s.own
  fDo : s.reconn = ownsDo (s.npc s.own)
  fAt : s.recovering = ownsAt (s.npc s.own)
  rcN : s.rc ≠ .none → s.npc s.own = .waitRC
  rcO : s.rc ≠ .none → s.rcOwner = s.own
  wRC : ∀ t, s.npc t = .waitRC → s.rc ≠ .none
  clash : s.spawnClash = 0
  noDial : pastR s.once = true → s.rc ≠ .dDialing
  late : s.lateInstalls = 0

theorem inv_init : WInv init := by
  constructor <;> simp [init, cnt, rdOnce, rdR, pwR, nHoldsW, rHoldsW, sigDone, holder, owns, ownsDo, ownsAt, pastR]

theorem owns_cases (p : NPc) (h : owns p = true) : ownsDo p = true ∨ nHoldsW p = true := by
  cases p <;> simp_all [owns, ownsDo, nHoldsW]
theorem ownsAt_cases (p : NPc) (h : ownsAt p = true) : ownsDo p = true ∨ nHoldsW p = true := by
  cases p <;> simp_all [ownsAt, ownsDo, nHoldsW]
theorem pastR_sig (o : Once) (h : pastR o = true) : sigDone o = true := by
  cases o with
  | held w b => cases b <;> simp_all [pastR, sigDone]
  | _ => simp_all [pastR, sigDone]
theorem pastR_rd (o : Once) (h : pastR o = true) : rdOnce o = 0 := by
  cases o with
  | held w b => cases b <;> simp_all [pastR, rdOnce]
  | _ => simp_all [pastR, rdOnce]

section invariant
attribute [local grind =] upd_app cnt_fresh
attribute [local grind] rdD rdOnce rdR pwN pwR nHoldsW rHoldsW owns ownsDo ownsAt sigDone holder pastR
attribute [local grind →] owns_cases ownsAt_cases pastR_sig pastR_rd
grind_pattern cnt_upd_lt => cnt w (upd f i v) n


syntax "inv_all" ident : tactic
macro_rules | `(tactic| inv_all $h:ident) => `(tactic| (
  obtain ⟨i_excl, i_rd, i_pw, i_wN, i_wR, i_dB, i_nB, i_cB, i_cS, i_sig, i_cBody, i_rBody, i_ownU, i_fDo, i_fAt, i_rcN, i_rcO, i_wRC, i_clash, i_noDial, i_late⟩ := $h
  constructor <;> try dsimp only
  case excl => first | with_reducible assumption | (clear i_rd i_pw i_dB i_nB i_cB i_cS i_sig i_cBody i_rBody i_ownU i_fDo i_fAt i_rcN i_rcO i_wRC i_clash i_noDial i_late; intros; grind)
  case rd => first | with_reducible assumption | (clear i_excl i_pw i_wN i_wR i_nB i_cB i_cS i_sig i_cBody i_fDo i_fAt i_rcO i_wRC i_clash i_noDial i_late; intros; grind)
  case pw => first | with_reducible assumption | (clear i_excl i_rd i_wN i_wR i_dB i_cB i_cS i_sig i_cBody i_fDo i_fAt i_rcO i_wRC i_clash i_noDial i_late; intros; grind)
  case wN => first | with_reducible assumption | (clear i_excl i_rd i_pw i_dB i_cB i_cS i_sig i_cBody i_rBody i_ownU i_fDo i_fAt i_rcN i_rcO i_wRC i_clash i_noDial i_late; intros; grind)
  case wR => first | with_reducible assumption | (clear i_excl i_rd i_pw i_dB i_nB i_cB i_cS i_sig i_cBody i_fDo i_fAt i_rcO i_wRC i_clash i_noDial i_late; intros; grind)
  case dB => first | with_reducible assumption | (clear i_excl i_rd i_pw i_wN i_wR i_nB i_cB i_cS i_sig i_cBody i_rBody i_ownU i_fDo i_fAt i_rcN i_rcO i_wRC i_clash i_noDial i_late; intros; grind)
  case nB => first | with_reducible assumption | (clear i_excl i_rd i_pw i_wN i_wR i_dB i_cB i_cS i_sig i_cBody i_rBody i_ownU i_fDo i_fAt i_rcN i_rcO i_wRC i_clash i_noDial i_late; intros; grind)
  case cB => first | with_reducible assumption | (clear i_excl i_rd i_pw i_wN i_wR i_dB i_nB i_cS i_sig i_rBody i_ownU i_fDo i_fAt i_rcN i_rcO i_wRC i_clash i_noDial i_late; intros; grind)
  case cS => first | with_reducible assumption | (clear i_excl i_rd i_pw i_wN i_wR i_dB i_nB i_sig i_rBody i_ownU i_fDo i_fAt i_rcN i_rcO i_wRC i_clash i_noDial i_late; intros; grind)
  case sig => first | with_reducible assumption | (clear i_excl i_rd i_pw i_wN i_wR i_dB i_nB i_cB i_cS i_cBody i_rBody i_ownU i_fDo i_fAt i_rcN i_rcO i_wRC i_clash i_noDial i_late; intros; grind)
  case cBody => first | with_reducible assumption | (clear i_excl i_rd i_pw i_wN i_wR i_dB i_nB i_cS i_sig i_rBody i_ownU i_fDo i_fAt i_rcN i_rcO i_wRC i_clash i_noDial i_late; intros; grind)
  case rBody => first | with_reducible assumption | (clear i_excl i_rd i_pw i_wN i_wR i_dB i_nB i_cB i_cS i_sig i_cBody i_fDo i_fAt i_rcO i_wRC i_clash i_noDial i_late; intros; grind)
  case ownU => first | with_reducible assumption | (clear i_excl i_rd i_pw i_wR i_dB i_cB i_cS i_sig i_cBody i_rBody i_fAt i_rcN i_rcO i_wRC i_clash i_noDial i_late; intros; grind)
  case fDo => first | with_reducible assumption | (clear i_excl i_rd i_pw i_wR i_dB i_cB i_cS i_sig i_cBody i_rBody i_rcN i_rcO i_wRC i_clash i_noDial i_late; intros; grind)
  case fAt => first | with_reducible assumption | (clear i_excl i_rd i_pw i_wR i_dB i_cB i_cS i_sig i_cBody i_rBody i_rcN i_rcO i_wRC i_clash i_noDial i_late; intros; grind)
  case rcN => first | with_reducible assumption | (clear i_excl i_rd i_pw i_wN i_wR i_dB i_cB i_cS i_sig i_cBody i_fAt i_rcO i_wRC i_clash i_noDial i_late; intros; grind)
  case rcO => first | with_reducible assumption | (clear i_excl i_rd i_pw i_wN i_wR i_dB i_cB i_cS i_sig i_cBody i_fAt i_wRC i_clash i_noDial i_late; intros; grind)
  case wRC => first | with_reducible assumption | (clear i_excl i_rd i_pw i_wN i_wR i_dB i_cB i_cS i_sig i_cBody i_fAt i_rcO i_clash i_noDial i_late; intros; grind)
  case clash => first | with_reducible assumption | (clear i_excl i_rd i_pw i_wN i_wR i_dB i_nB i_cB i_cS i_sig i_cBody i_rBody i_fDo i_fAt i_rcO i_wRC i_noDial i_late; intros; grind)
  case noDial => first | with_reducible assumption | (clear i_pw i_wN i_dB i_nB i_cB i_cS i_cBody i_fDo i_fAt i_rcO i_wRC i_clash i_late; intros; grind)
  case late => first | with_reducible assumption | (clear i_excl i_rd i_pw i_wN i_wR i_dB i_nB i_cB i_cS i_sig i_cBody i_rBody i_ownU i_fDo i_fAt i_rcN i_rcO i_wRC i_clash; intros; grind)))

theorem inv_do (v : Variant) (s s' : St) (a : Act) (h : WInv s) (hs : stepDo v s a = some s') : WInv s' := by
  cases a <;> simp only [stepDo] at hs <;> (repeat' split at hs) <;>
    (try (simp at hs; done)) <;> (try (simp only [Option.some.injEq] at hs; subst hs)) <;> inv_all h

theorem inv_n2 (s s' : St) (t : Nat) (h : WInv s) (hs : stepN2 s t = some s') : WInv s' := by
  simp only [stepN2] at hs <;> (repeat' split at hs) <;>
    (try (simp at hs; done)) <;> (try (simp only [Option.some.injEq] at hs; subst hs)) <;> inv_all h

set_option maxHeartbeats 600000 in
theorem inv_n (v : Variant) (s s' : St) (t : Nat) (h : WInv s) (hs : stepN v s t = some s') : WInv s' := by
  simp only [stepN] at hs <;> (repeat' split at hs) <;>
    (try (simp at hs; done)) <;> first | exact inv_n2 s s' t h hs | (simp only [Option.some.injEq] at hs; subst hs; inv_all h)

set_option maxHeartbeats 600000 in
theorem inv_r (v : Variant) (s s' : St) (a : Act) (h : WInv s) (hs : stepR v s a = some s') : WInv s' := by
  cases a <;> simp only [stepR] at hs <;> (repeat' split at hs) <;>
    (try (simp at hs; done)) <;> (try (simp only [Option.some.injEq] at hs; subst hs)) <;> inv_all h

theorem inv_c (s s' : St) (a : Act) (h : WInv s) (hs : stepC s a = some s') : WInv s' := by
  cases a <;> simp only [stepC] at hs <;> (repeat' split at hs) <;>
    (try (simp at hs; done)) <;> (try (simp only [Option.some.injEq] at hs; subst hs)) <;> inv_all h

theorem inv_env (s s' : St) (a : Act) (h : WInv s) (hs : stepEnv s a = some s') : WInv s' := by
  cases a <;> simp only [stepEnv] at hs <;> (repeat' split at hs) <;>
    (try (simp at hs; done)) <;> (try (simp only [Option.some.injEq] at hs; subst hs)) <;> inv_all h
end invariant

theorem inv_stepV (v : Variant) (s s' : St) (a : Act) (h : WInv s) (hs : stepV v s a = some s') : WInv s' := by
  cases a <;> simp only [stepV] at hs <;>
    first | exact inv_env s s' _ h hs | exact inv_do v s s' _ h hs | exact inv_n v s s' _ h hs
          | exact inv_r v s s' _ h hs | exact inv_c s s' _ h hs

theorem inv_runV (v : Variant) (acts : List Act) : ∀ s s', WInv s → runV v s acts = some s' → WInv s' := by
  induction acts with
  | nil => intro s s' h hr; simp [runV] at hr; subst hr; exact h
  | cons a as ih =>
    intro s s' h hr
    obtain ⟨s1, h1, h2⟩ := runV_cons_some hr
    exact ih s1 s' (inv_stepV v s s1 a h h1) h2

/-- the invariant holds in every reachable state — of the code and of every variant -/
theorem inv_reachV (v : Variant) (acts : List Act) (s : St) (h : runV v init acts = some s) : WInv s :=
  inv_runV v acts _ s inv_init h

theorem inv_step (s s' : St) (a : Act) (h : WInv s) (hs : step s a = some s') : WInv s' := inv_stepV .code s s' a h hs
theorem inv_run (acts : List Act) (s s' : St) (h : WInv s) (hr : run s acts = some s') : WInv s' :=
  inv_runV .code acts s s' h hr
theorem inv_reach (acts : List Act) (s : St) (h : run init acts = some s) : WInv s := inv_reachV .code acts s h

/-! ### classification of the actions -/

/-- API calls, losses, the peer -/
def isEnv : Act → Bool
  | .doCall | .closeCall | .lose _ | .deliver _ | .authDeliver => true
  | _ => false
/-- the timers: a request deadline (`ctx.Done()`), the auth timeout, the 1 s sleep of the retry loop -/
def isTimer : Act → Bool
  | .dTimeout _ | .rAuthTimeout | .rSleepDone => true
  | _ => false
/-- a step of a goroutine of the client -/
def isThread (a : Act) : Bool := !isEnv a
/-- a step of a goroutine that waits neither for a timer nor for the environment -/
def isProg (a : Act) : Bool := !isEnv a && !isTimer a

def threadSteps (acts : List Act) : Nat := (acts.filter isThread).length
@[simp] theorem threadSteps_nil : threadSteps [] = 0 := rfl
theorem threadSteps_cons (a : Act) (as : List Act) :
    threadSteps (a :: as) = (if isThread a then 1 else 0) + threadSteps as := by
  simp only [threadSteps, List.filter_cons]; split <;> simp <;> omega

/-- the budget a new call brings with it -/
def fresh : Act → Nat
  | .doCall => 5 | .closeCall => 7 | .lose _ => 16 | _ => 0
def freshBudget : List Act → Nat
  | [] => 0
  | a :: as => fresh a + freshBudget as

/-! ### the measure: steps each goroutine still makes once the close signal is set -/

def muD : DPc → Nat
  | .idle => 0 | .wantR => 5 | .inR => 4 | .write => 3 | .wait => 2 | .unlock => 1 | .ret => 0
def muN : NPc → Nat
  | .idle => 0 | .enter _ => 16 | .fast _ => 15 | .wantW _ => 14 | .pend1 _ => 13 | .locked _ => 12 | .skip => 1
  | .setDo => 11 | .setAt => 10 | .unlock1 => 9 | .spawn => 8 | .waitRC => 6 | .wantW2 => 5 | .pend2 => 4
  | .clrDo => 3 | .clrAt => 2 | .unlock2 => 1 | .done => 0
/-- the first request of an attempt may be followed by a second one -/
def aOff : Bool → Nat
  | true => 0 | false => 5
def muR : RPc → Nat
  | .none => 0 | .top => 1 | .chkMax => 23 | .oWantR => 22 | .oInR => 21 | .closeOld => 20 | .failAll => 19
  | .dWant => 18 | .dPend => 17 | .dCheck => 16 | .dDialing => 15 | .dUnlockOk => 14 | .dUnlockFail => 3 | .authQ => 13
  | .aWantR b => 7 + aOff b | .aInR b => 6 + aOff b | .aWrite b => 5 + aOff b | .aWait b => 4 + aOff b
  | .aUnlock b _ => 3 + aOff b
  | .cbTest => 2 | .cb => 1 | .sleep => 2 | .hmOnce => 7 | .hmBody => 0 | .fin => 0
def muC : CPc → Nat
  | .once => 7 | _ => 0
def muH : Once → Nat
  | .held _ .sig => 6 | .held _ .wantR => 5 | .held _ .inR => 4 | .held _ .unlockR => 3 | .held _ .cb => 2
  | .held _ .rel => 1 | _ => 0

def mu (s : St) : Nat := cnt muD s.dpc s.nD + cnt muN s.npc s.nN + cnt muC s.cpc s.nC + muR s.rc + muH s.once

section measure
attribute [local grind =] upd_app cnt_fresh
attribute [local grind] aOff muD muN muR muC muH isThread isEnv fresh holder
grind_pattern cnt_upd_lt => cnt w (upd f i v) n
grind_pattern cnt_upd_ge => cnt w (upd f i v) n

syntax "mu_tac" ident : tactic
macro_rules | `(tactic| mu_tac $h:ident) => `(tactic| (
  refine ⟨by simp_all, ?_⟩
  have e1 := WInv.dB $h; have e2 := WInv.nB $h; have e3 := WInv.cB $h; have e4 := WInv.cBody $h
  simp only [mu]; grind))

theorem mu_do (v : Variant) (s s' : St) (a : Act) (h : WInv s) (hc : s.closeSig = true) (hs : stepDo v s a = some s') :
    s'.closeSig = true ∧ mu s' + (if isThread a then 1 else 0) ≤ mu s + fresh a := by
  cases a <;> simp only [stepDo] at hs <;> (repeat' split at hs) <;>
    (try (simp at hs; done)) <;> (try (simp only [Option.some.injEq] at hs; subst hs)) <;> mu_tac h

theorem mu_n (v : Variant) (s s' : St) (t : Nat) (h : WInv s) (hc : s.closeSig = true) (hs : stepN v s t = some s') :
    s'.closeSig = true ∧ mu s' + 1 ≤ mu s := by
  simp only [stepN, stepN2] at hs <;> (repeat' split at hs) <;>
    (try (simp at hs; done)) <;> (try (simp only [Option.some.injEq] at hs; subst hs)) <;> mu_tac h

theorem mu_r (v : Variant) (s s' : St) (a : Act) (h : WInv s) (hc : s.closeSig = true) (hs : stepR v s a = some s') :
    s'.closeSig = true ∧ mu s' + (if isThread a then 1 else 0) ≤ mu s + fresh a := by
  cases a <;> simp only [stepR] at hs <;> (repeat' split at hs) <;>
    (try (simp at hs; done)) <;> (try (simp only [Option.some.injEq] at hs; subst hs)) <;> mu_tac h

theorem mu_c (s s' : St) (a : Act) (h : WInv s) (hc : s.closeSig = true) (hs : stepC s a = some s') :
    s'.closeSig = true ∧ mu s' + (if isThread a then 1 else 0) ≤ mu s + fresh a := by
  cases a <;> simp only [stepC] at hs <;> (repeat' split at hs) <;>
    (try (simp at hs; done)) <;> (try (simp only [Option.some.injEq] at hs; subst hs)) <;> mu_tac h

theorem mu_env (s s' : St) (a : Act) (h : WInv s) (hc : s.closeSig = true) (hs : stepEnv s a = some s') :
    s'.closeSig = true ∧ mu s' + (if isThread a then 1 else 0) ≤ mu s + fresh a := by
  cases a <;> simp only [stepEnv] at hs <;> (repeat' split at hs) <;>
    (try (simp at hs; done)) <;> (try (simp only [Option.some.injEq] at hs; subst hs)) <;> mu_tac h
end measure


theorem mu_stepV (v : Variant) (s s' : St) (a : Act) (h : WInv s) (hc : s.closeSig = true) (hs : stepV v s a = some s') :
    s'.closeSig = true ∧ mu s' + (if isThread a then 1 else 0) ≤ mu s + fresh a := by
  cases a <;> simp only [stepV] at hs <;>
    first | exact mu_env s s' _ h hc hs | exact mu_do v s s' _ h hc hs
          | (have := mu_n v s s' _ h hc hs; simpa [isThread, isEnv, fresh] using this)
          | exact mu_r v s s' _ h hc hs | exact mu_c s s' _ h hc hs

theorem freshBudget_cons (a : Act) (as : List Act) : freshBudget (a :: as) = fresh a + freshBudget as := rfl

theorem mu_run (acts : List Act) : ∀ s s', WInv s → s.closeSig = true → run s acts = some s' →
    s'.closeSig = true ∧ mu s' + threadSteps acts ≤ mu s + freshBudget acts := by
  induction acts with
  | nil => intro s s' _ hc hr; simp [run, runV] at hr; subst hr; exact ⟨hc, by simp [freshBudget]⟩
  | cons a as ih =>
    intro s s' hi hc hr
    obtain ⟨s1, h1, h2⟩ := runV_cons_some hr
    obtain ⟨c1, m1⟩ := mu_stepV .code s s1 a hi hc h1
    obtain ⟨c2, m2⟩ := ih s1 s' (inv_step s s1 a hi h1) c1 h2
    rw [threadSteps_cons, freshBudget_cons]
    exact ⟨c2, by omega⟩

/-! ### progress: after the close signal nothing waits for a timer -/

def enabled (s : St) (a : Act) : Prop := (step s a).isSome = true

/-- whoever holds the write lock has an enabled step (the dial's return for a goroutine inside the dialer) -/
theorem writer_can_step (s : St) (hi : WInv s) (hw : s.writer ≠ none) : ∃ a, isProg a = true ∧ enabled s a := by
  cases hwr : s.writer with
  | none => exact absurd hwr hw
  | some tid =>
    cases tid with
    | n t =>
      have hh := (hi.wN t).mp hwr
      refine ⟨.n t, rfl, ?_⟩
      cases hp : s.npc t <;> simp [hp, nHoldsW] at hh <;> simp only [enabled, step, stepV, stepN, stepN2, hp] <;>
        (try split) <;> simp
    | r =>
      have hh := hi.wR.mp hwr
      cases hp : s.rc <;> simp [hp, rHoldsW] at hh
      · refine ⟨.r, rfl, ?_⟩; simp only [enabled, step, stepV, stepR, hp]; split <;> simp
      · exact ⟨.rDial true, rfl, by simp [enabled, step, stepV, stepR, hp]⟩
      · exact ⟨.r, rfl, by simp [enabled, step, stepV, stepR, hp]⟩
      · exact ⟨.r, rfl, by simp [enabled, step, stepV, stepR, hp]⟩

/-- with the lock free of holders, a goroutine blocked in `Lock()` gets it -/
theorem pending_can_get (s : St) (hi : WInv s) (hw : s.writer = none) (hr : s.readers = 0) (hp : s.pendW ≠ 0) :
    ∃ a, isProg a = true ∧ enabled s a := by
  have hpw := hi.pw
  by_cases hR : pwR s.rc = 0
  · obtain ⟨t, _, ht⟩ := cnt_pos pwN s.npc s.nN (by omega)
    refine ⟨.n t, rfl, ?_⟩
    cases hq : s.npc t <;> simp [hq, pwN] at ht <;> simp [enabled, step, stepV, stepN, stepN2, hq, hw, hr]
  · refine ⟨.r, rfl, ?_⟩
    cases hq : s.rc <;> simp [hq, pwR] at hR
    simp [enabled, step, stepV, stepR, hq, hw, hr]

/-- after the close signal every holder of a read lock has an enabled step that is not a timer: a waiting `Do` has its
`case <-c.closeCh` -/
theorem reader_can_step (s : St) (hi : WInv s) (hc : s.closeSig = true) (hr : s.readers ≠ 0) :
    ∃ a, isProg a = true ∧ enabled s a := by
  have hrd := hi.rd
  by_cases hO : rdOnce s.once = 0
  · by_cases hR : rdR s.rc = 0
    · obtain ⟨i, _, ht⟩ := cnt_pos rdD s.dpc s.nD (by omega)
      cases hq : s.dpc i <;> simp [hq, rdD] at ht
      · refine ⟨.d i, rfl, ?_⟩; simp only [enabled, step, stepV, stepDo, hq]; split <;> simp
      · exact ⟨.dWrite i true, rfl, by simp [enabled, step, stepV, stepDo, hq]⟩
      · exact ⟨.dCloseCase i, rfl, by simp [enabled, step, stepV, stepDo, hq, hc, Variant.closeCase]⟩
      · exact ⟨.d i, rfl, by simp [enabled, step, stepV, stepDo, hq]⟩
    · cases hq : s.rc <;> simp [hq, rdR] at hR
      · exact ⟨.r, rfl, by simp [enabled, step, stepV, stepR, hq]⟩
      · refine ⟨.r, rfl, ?_⟩; simp only [enabled, step, stepV, stepR, hq]; split <;> simp
      · exact ⟨.rWrite true, rfl, by simp [enabled, step, stepV, stepR, hq]⟩
      · refine ⟨.rCloseCase .fail, rfl, ?_⟩
        simp only [enabled, step, stepV, stepR, hq, hc, Variant.closeCase, Bool.and_self, ↓reduceIte]; split <;> simp
      · rename_i b res
        refine ⟨.r, rfl, ?_⟩
        cases b <;> cases res <;> simp [enabled, step, stepV, stepR, hq]
  · refine ⟨.body, rfl, ?_⟩
    cases ho : s.once with
    | free => simp [ho, rdOnce] at hO
    | done => simp [ho, rdOnce] at hO
    | held who b => cases b <;> simp [ho, rdOnce] at hO <;> simp [enabled, step, stepV, stepC, ho]

/-- THE LOCK DRAINS: after the close signal, whenever `RLock` is refused (a writer holds the lock or is pending),
some goroutine has an enabled step that waits neither for a timer nor for the peer -/
theorem lock_progress (s : St) (hi : WInv s) (hc : s.closeSig = true) (hb : s.writer ≠ none ∨ s.pendW ≠ 0) :
    ∃ a, isProg a = true ∧ enabled s a := by
  by_cases hw : s.writer = none
  · by_cases hr : s.readers = 0
    · exact pending_can_get s hi hw hr (by rcases hb with h | h; exact absurd hw h; exact h)
    · exact reader_can_step s hi hc hr
  · exact writer_can_step s hi hw

/-- every Close caller has returned -/
def closersDone (s : St) : Prop := ∀ i, i < s.nC → s.cpc i = .ret

/-- the body of `closeOnce.Do` never waits for a timer once the signal is set -/
theorem body_progress (s : St) (hi : WInv s) (hc : s.closeSig = true) (who : Who) (b : BPc) (ho : s.once = .held who b) :
    ∃ a, isProg a = true ∧ enabled s a := by
  by_cases hb : s.writer = none ∧ s.pendW = 0
  · refine ⟨.body, rfl, ?_⟩
    cases b <;> cases who <;> simp [enabled, step, stepV, stepC, ho, hb]
  · by_cases hw : b = .wantR
    · exact lock_progress s hi hc (by
        by_cases h1 : s.writer = none
        · right; intro h2; exact hb ⟨h1, h2⟩
        · left; exact h1)
    · refine ⟨.body, rfl, ?_⟩
      cases b <;> cases who <;> simp_all [enabled, step, stepV, stepC]

theorem close_progress (s : St) (hi : WInv s) (hc : s.closeSig = true) (hn : ¬ closersDone s) :
    ∃ a, isProg a = true ∧ enabled s a := by
  simp only [closersDone, Classical.not_forall] at hn
  obtain ⟨i, hlt, hne⟩ := hn
  have hidle := hi.cS i hlt
  have hsig := hi.sig
  cases ho : s.once with
  | free => simp [ho, sigDone, hc] at hsig
  | held who b => exact body_progress s hi hc who b ho
  | done =>
    cases hp : s.cpc i with
    | idle => exact absurd hp hidle
    | ret => exact absurd hp hne
    | body => have := (hi.cBody i).mp hp; simp [ho, holder] at this
    | once => exact ⟨.c i, rfl, by simp [enabled, step, stepV, stepC, hp, ho]⟩

/-! ### Close returns promptly -/

theorem cnt_zero {α} (w : α → Nat) (f : Nat → α) (n : Nat) (h : cnt w f n = 0) : ∀ i, i < n → w (f i) = 0 := by
  intro i hi; have := cnt_ge w f i n hi; omega

/-- every `Do` call has returned -/
def doersDone (s : St) : Prop := ∀ i, s.dpc i = .idle ∨ s.dpc i = .ret

theorem mu_zero (s : St) (hi : WInv s) (h : mu s = 0) : closersDone s ∧ doersDone s := by
  unfold mu at h
  constructor
  · intro i hlt
    have h1 := cnt_zero muC s.cpc s.nC (by omega) i hlt
    have h2 : muH s.once = 0 := by omega
    cases hp : s.cpc i with
    | idle => exact absurd hp (hi.cS i hlt)
    | once => simp [hp, muC] at h1
    | ret => rfl
    | body =>
      have := (hi.cBody i).mp hp
      cases ho : s.once with
      | held who b => cases b <;> simp [ho, muH] at h2
      | free => simp [ho, holder] at this
      | done => simp [ho, holder] at this
  · intro i
    by_cases hlt : i < s.nD
    · have h1 := cnt_zero muD s.dpc s.nD (by omega) i hlt
      cases hp : s.dpc i <;> simp [hp, muD] at h1 <;> simp
    · left; exact hi.dB i (by omega)

theorem prog_thread (a : Act) (h : isProg a = true) : isThread a = true ∧ fresh a = 0 := by
  cases a <;> simp_all [isProg, isThread, isEnv, fresh]

/-- CLOSE RETURNS PROMPTLY.  From any reachable state `s` in which the close signal is set (`close(c.closeCh)`, the first
statement of Close's body), along EVERY schedule `acts` — any interleaving of all goroutines with new `Do` / `Close` calls,
new loss notifications and the peer's answers — ending in `s'`:
(1) the signal stays set;
(2) budget: `mu s' + (goroutine steps in acts) ≤ mu s + (5 per new Do, 7 per new Close, 16 per new loss notification)`:
    no schedule contains more goroutine steps than that — nothing spins, a new call adds a constant;
(3) never stuck on a timer: unless every Close caller has returned in `s'`, some goroutine step is enabled that is neither
    a timer (request deadline, auth timeout, the 1 s sleep) nor an action of the environment;
(4) so a schedule that cannot be extended by such a step ends with every Close caller returned;
(5) and a schedule that has used up the budget ends with every Close caller AND every Do caller returned.
The one step in (3) that is not the client's own is the dialer's return (`rDial`), see `close_waits_for_dial`. -/
theorem close_prompt (acts0 acts : List Act) (s s' : St) (h0 : run init acts0 = some s) (hc : s.closeSig = true)
    (h : run s acts = some s') :
    s'.closeSig = true ∧
    mu s' + threadSteps acts ≤ mu s + freshBudget acts ∧
    (¬ closersDone s' → ∃ a, isProg a = true ∧ enabled s' a) ∧
    ((∀ a, isProg a = true → step s' a = none) → closersDone s') ∧
    (mu s + freshBudget acts ≤ threadSteps acts → closersDone s' ∧ doersDone s') := by
  have hi := inv_reach acts0 s h0
  obtain ⟨c', m⟩ := mu_run acts s s' hi hc h
  have hi' := inv_run acts s s' hi h
  have stuck := close_progress s' hi' c'
  refine ⟨c', m, stuck, fun hn => ?_, fun hle => mu_zero s' hi' (by omega)⟩
  apply Classical.byContradiction
  intro he
  obtain ⟨a, ha, hen⟩ := stuck he
  rw [enabled, hn a ha] at hen; cases hen

/-- there IS a schedule to the end that uses no timer and no help from the environment: from every state with the
signal set, steps of the goroutines alone (none of them a timer) lead to a state in which every Close caller has returned -/
theorem can_always_finish : ∀ (n : Nat) (s : St), mu s ≤ n → WInv s → s.closeSig = true →
    ∃ acts s', (∀ a ∈ acts, isProg a = true) ∧ run s acts = some s' ∧ closersDone s' := by
  intro n
  induction n with
  | zero => intro s hn hi _; exact ⟨[], s, by simp, rfl, (mu_zero s hi (by omega)).1⟩
  | succ n ih =>
    intro s hn hi hc
    by_cases he : closersDone s
    · exact ⟨[], s, by simp, rfl, he⟩
    · obtain ⟨a, ha, hen⟩ := close_progress s hi hc he
      obtain ⟨s1, h1⟩ := Option.isSome_iff_exists.mp hen
      obtain ⟨c1, m1⟩ := mu_stepV .code s s1 a hi hc h1
      obtain ⟨ht, hf⟩ := prog_thread a ha
      simp only [ht, hf, ↓reduceIte] at m1
      obtain ⟨acts, s', hp, hr, hx⟩ := ih s1 (by omega) (inv_step s s1 a hi h1) c1
      refine ⟨a :: acts, s', ?_, ?_, hx⟩
      · intro b hb
        rcases List.mem_cons.mp hb with rfl | hb
        · exact ha
        · exact hp b hb
      · simp only [run, runV]; rw [show stepV .code s a = some s1 from h1]; exact hr

/-- from the moment somebody has won the Once of `Close` there is a timer-free schedule of the goroutines alone that ends
with every Close caller returned -/
theorem close_leads_to_return (acts0 : List Act) (s : St) (h0 : run init acts0 = some s) (hh : s.once ≠ .free) :
    ∃ acts s', (∀ a ∈ acts, isProg a = true) ∧ run s acts = some s' ∧ closersDone s' := by
  have hi := inv_reach acts0 s h0
  by_cases hc : s.closeSig = true
  · exact can_always_finish (mu s) s (Nat.le_refl _) hi hc
  · have hsig := hi.sig
    cases ho : s.once with
    | free => exact absurd ho hh
    | done => simp [ho, sigDone] at hsig; exact absurd hsig hc
    | held who b =>
      cases b <;> (try (simp [ho, sigDone] at hsig; exact absurd hsig hc))
      have h1 : step s .body = some { s with once := .held who .wantR, closeSig := true } := by
        simp [step, stepV, stepC, ho]
      obtain ⟨acts, s', hp, hr, hx⟩ := can_always_finish _ _ (Nat.le_refl _) (inv_step s _ .body hi h1) rfl
      refine ⟨.body :: acts, s', ?_, ?_, hx⟩
      · intro b hb
        rcases List.mem_cons.mp hb with rfl | hb
        · rfl
        · exact hp b hb
      · simp only [run, runV]; rw [show stepV .code s .body = some _ from h1]; exact hr

/-- the steps of `Do` caller i other than its deadline -/
def isDo (i : Nat) : Act → Bool
  | .d j | .dWrite j _ | .dRecv j | .dCloseCase j => i == j
  | _ => false

/-- EVERY REQUEST CALL RETURNS after the close signal without waiting for its deadline: in every reachable state with the
signal set, a caller inside `Do` has an enabled step of its own that is not its timeout — at the select of `recv` this is
`case <-c.closeCh` — or it is blocked in `RLock` behind a writer, and then some goroutine step that is not a timer is
enabled (`lock_progress`; by the budget of `close_prompt` the lock drains and the call goes on to return) -/
theorem do_returns_after_close (acts0 : List Act) (s : St) (h0 : run init acts0 = some s) (hc : s.closeSig = true)
    (i : Nat) (h1 : s.dpc i ≠ .idle) (h2 : s.dpc i ≠ .ret) :
    (∃ a, isDo i a = true ∧ isProg a = true ∧ enabled s a) ∨
    (s.dpc i = .wantR ∧ (s.writer ≠ none ∨ s.pendW ≠ 0) ∧ ∃ a, isProg a = true ∧ enabled s a) := by
  have hi := inv_reach acts0 s h0
  cases hp : s.dpc i with
  | idle => exact absurd hp h1
  | ret => exact absurd hp h2
  | wantR =>
    by_cases hb : s.writer = none ∧ s.pendW = 0
    · left; exact ⟨.d i, by simp [isDo], rfl, by simp [enabled, step, stepV, stepDo, hp, hb]⟩
    · right
      have hb' : s.writer ≠ none ∨ s.pendW ≠ 0 := by
        by_cases h1 : s.writer = none
        · right; intro h2; exact hb ⟨h1, h2⟩
        · left; exact h1
      exact ⟨rfl, hb', lock_progress s hi hc hb'⟩
  | inR => left; refine ⟨.d i, by simp [isDo], rfl, ?_⟩; simp only [enabled, step, stepV, stepDo, hp]; split <;> simp
  | write => left; exact ⟨.dWrite i true, by simp [isDo], rfl, by simp [enabled, step, stepV, stepDo, hp]⟩
  | wait => left; exact ⟨.dCloseCase i, by simp [isDo], rfl, by simp [enabled, step, stepV, stepDo, hp, hc, Variant.closeCase]⟩
  | unlock => left; exact ⟨.d i, by simp [isDo], rfl, by simp [enabled, step, stepV, stepDo, hp]⟩

/-! ### safety -/

/-- MUTUAL EXCLUSION of the RWMutex as modelled: while a writer holds the lock nobody is inside a read-locked section
(no `Do` between RLock and RUnlock, not the body of Close, not the retry goroutine), the holder is exactly the goroutine
whose program counter is inside a write-locked section, and there is at most one such goroutine -/
theorem mutex_exclusive (acts : List Act) (s : St) (h : run init acts = some s) :
    (s.writer ≠ none → s.readers = 0 ∧ (∀ i, rdD (s.dpc i) = 0) ∧ rdOnce s.once = 0 ∧ rdR s.rc = 0) ∧
    (∀ t, s.writer = some (.n t) ↔ nHoldsW (s.npc t) = true) ∧ (s.writer = some .r ↔ rHoldsW s.rc = true) ∧
    (∀ t u, nHoldsW (s.npc t) = true → nHoldsW (s.npc u) = true → t = u) ∧
    (∀ t, nHoldsW (s.npc t) = true → rHoldsW s.rc = false) := by
  have hi := inv_reach acts s h
  refine ⟨fun hw => ?_, hi.wN, hi.wR, fun t u ht hu => ?_, fun t ht => ?_⟩
  · have h0 := hi.excl hw
    have hrd := hi.rd
    refine ⟨h0, fun i => ?_, by omega, by omega⟩
    by_cases hlt : i < s.nD
    · exact cnt_zero rdD s.dpc s.nD (by omega) i hlt
    · rw [hi.dB i (by omega)]; rfl
  · have h1 := (hi.wN t).mpr ht
    have h2 := (hi.wN u).mpr hu
    rw [h1] at h2; cases h2; rfl
  · have h1 := (hi.wN t).mpr ht
    cases hr : rHoldsW s.rc with
    | false => rfl
    | true => have h2 := hi.wR.mpr hr; rw [h1] at h2; cases h2

/-- ONE RETRY GOROUTINE: a retry goroutine is never started while another one runs; at most one notifier is between
winning the guard and its final Unlock; a running retry goroutine belongs to that notifier, which waits for it -/
theorem one_retry_goroutine (acts : List Act) (s : St) (h : run init acts = some s) :
    s.spawnClash = 0 ∧ (∀ t, s.npc t = .spawn → s.rc = .none) ∧
    (∀ t u, owns (s.npc t) = true → owns (s.npc u) = true → t = u) ∧
    (s.rc ≠ .none → s.npc s.own = .waitRC ∧ s.rcOwner = s.own) := by
  have hi := inv_reach acts s h
  refine ⟨hi.clash, fun t ht => ?_, fun t u ht hu => (hi.ownU t ht).trans (hi.ownU u hu).symm,
    fun hr => ⟨hi.rcN hr, hi.rcO hr⟩⟩
  apply Classical.byContradiction
  intro hr
  have h1 := hi.ownU t (by simp [ht, owns])
  have h2 := hi.rcN hr
  rw [← h1, ht] at h2; cases h2

/-- `recovering` mirrors `doReconnectting`: they differ only while the owner of the recovery is between its two stores,
which it makes under the write lock — with the lock free of a writer they agree -/
theorem flag_agrees (acts : List Act) (s : St) (h : run init acts = some s) :
    (s.reconn = s.recovering ∨ s.npc s.own = .setAt ∨ s.npc s.own = .clrAt) ∧
    (s.writer = none → s.reconn = s.recovering) := by
  have hi := inv_reach acts s h
  have h1 := hi.fDo
  have h2 := hi.fAt
  have h3 := hi.wN s.own
  constructor
  · cases hp : s.npc s.own <;> simp_all [ownsDo, ownsAt]
  · intro hw
    cases hp : s.npc s.own <;> simp_all [ownsDo, ownsAt, nHoldsW]

/-- once the signal is set no goroutine ENTERS the dialer: `dial` tests `closed()` under the write lock -/
theorem no_dial_entered_after_signal (s s' : St) (a : Act) (hc : s.closeSig = true) (hs : step s a = some s')
    (hd : s'.rc = .dDialing) : s.rc = .dDialing := by
  cases a <;> simp only [step, stepV, stepEnv, stepDo, stepN, stepN2, stepR, stepC] at hs <;> (repeat' split at hs) <;>
    (try (simp at hs; done)) <;> (try (simp only [Option.some.injEq] at hs; subst hs)) <;> simp_all

/-- NO CONN IS INSTALLED AFTER CLOSE HAS LOOKED AT `c.conn`: in every reachable state, once the body of Close is past its
read-locked section (and so for ever after a Close call has returned) no goroutine is inside the dialer, and no dial has
ever installed a conn in such a state.  (A dial that was already inside the dialer when the signal was set may still
install its conn after the signal — `dial_in_progress_installs_after_signal` — but then Close's RLock waits for it and
Close closes that conn.) -/
theorem no_dial_after_close_signal_installs_partial (acts : List Act) (s : St) (h : run init acts = some s) :
    s.lateInstalls = 0 ∧ (pastR s.once = true → s.rc ≠ .dDialing) :=
  have hi := inv_reach acts s h
  ⟨hi.late, hi.noDial⟩

/-! ### negative results: each of the two guards is necessary -/

/-- a `Do` waits for its answer (read lock held); conn 0 is lost and notifier 0 passes the `closed()` test and the fast
path and queues in `Lock()`; then `Close`: Once taken, `close(c.closeCh)` — its next statement is `c.RLock()` -/
def demoA : List Act :=
  [.doCall, .d 0, .d 0, .dWrite 0 true, .lose 0, .n 0, .n 0, .n 0, .closeCall, .c 0, .body]

def strandedA (s : St) : Bool :=
  s.dpc 0 == .wait && !s.answered 0 && !s.failed 0 && s.readers == 1 && decide (1 ≤ s.pendW) &&
  s.once == .held (.x 0) .wantR && s.writer == none && s.rc == .none && !s.recovering

/-- no request deadline fires and the peer does not answer -/
def quietA : Act → Bool
  | .dTimeout _ | .deliver _ => false
  | _ => true

theorem strandedA_iff (s : St) : strandedA s = true ↔
    s.dpc 0 = .wait ∧ s.answered 0 = false ∧ s.failed 0 = false ∧ s.readers = 1 ∧ 1 ≤ s.pendW ∧
    s.once = .held (.x 0) .wantR ∧ s.writer = none ∧ s.rc = .none ∧ s.recovering = false := by
  simp only [strandedA, Bool.and_eq_true, beq_iff_eq, decide_eq_true_eq, Bool.not_eq_true', and_assoc]

section negative
attribute [local grind =] upd_app
attribute [local grind] rdD rdOnce rdR nHoldsW owns ownsAt isReg Variant.closeCase Variant.fastPath

theorem strandedA_step (s s' : St) (a : Act) (hi : WInv s) (h : strandedA s = true) (hq : quietA a = true)
    (hs : stepV .noCloseCase s a = some s') : strandedA s' = true := by
  rw [strandedA_iff] at h ⊢
  obtain ⟨a1, a2, a3, a4, a5, a6, a7, a8, a9⟩ := h
  have hrd := hi.rd
  have h0 : 0 < s.nD := by
    apply Classical.byContradiction; intro hn
    have := hi.dB 0 (by omega); rw [a1] at this; cases this
  have key : ∀ i, i ≠ 0 → rdD (s.dpc i) = 0 := by
    intro i hne
    by_cases hlt : i < s.nD
    · have := cnt_ge2 rdD s.dpc 0 i (Ne.symm hne) s.nD h0 hlt
      have hw : rdD (s.dpc 0) = 1 := by rw [a1]; rfl
      omega
    · rw [hi.dB i (by omega)]; rfl
  have e1 := hi.dB; have e2 := hi.wN; have e3 := hi.ownU; have e4 := hi.fAt
  cases a <;> simp only [stepV, stepEnv, stepDo, stepN, stepN2, stepR, stepC] at hs <;> (repeat' split at hs) <;>
    (try (simp at hs; done)) <;> (try (simp only [Option.some.injEq] at hs; subst hs)) <;>
    (try dsimp only) <;> grind [quietA]


theorem strandedA_run (acts : List Act) : ∀ (s s' : St), WInv s → strandedA s = true →
    (∀ a ∈ acts, quietA a = true) → runV .noCloseCase s acts = some s' → strandedA s' = true := by
  induction acts with
  | nil => intro s s' _ h _ hr; simp [runV] at hr; subst hr; exact h
  | cons a as ih =>
    intro s s' hi h hq hr
    obtain ⟨s1, h1, h2⟩ := runV_cons_some hr
    exact ih s1 s' (inv_stepV _ s s1 a hi h1) (strandedA_step s s1 a hi h (hq a (by simp)) h1)
      (fun b hb => hq b (by simp [hb])) h2

/-- (a) WITHOUT `case <-c.closeCh` IN `recv` (the tree before the repair of D24): one `Do` waits for an answer, its conn
is lost, a notifier queues in `Lock()` behind the read lock of that `Do`, then the user calls `Close`.  Close sets the
signal — and its `c.RLock()` is refused in this state and in every state of every continuation in which no request
deadline fires and the peer does not answer: the pending writer blocks Close, the waiting `Do` blocks the writer, and
nothing but its deadline wakes the `Do`.  Close waits for a request timeout. -/
theorem no_close_case_blocks_close :
    ∃ s, runV .noCloseCase init demoA = some s ∧
      s.closeSig = true ∧ s.once = .held (.x 0) .wantR ∧ s.cpc 0 = .body ∧ s.dpc 0 = .wait ∧
      ∀ acts s', (∀ a ∈ acts, quietA a = true) → runV .noCloseCase s acts = some s' →
        s'.closeSig = true ∧ s'.once = .held (.x 0) .wantR ∧ s'.cpc 0 = .body ∧ s'.dpc 0 = .wait ∧
        stepV .noCloseCase s' .body = none ∧ stepV .noCloseCase s' (.c 0) = none := by
  have h : (runV .noCloseCase init demoA).map (fun s => strandedA s) = some true := by decide
  cases hr : runV .noCloseCase init demoA with
  | none => simp [hr] at h
  | some s =>
    simp only [hr, Option.map_some, Option.some.injEq] at h
    have hi := inv_reachV _ demoA s hr
    have key : ∀ s : St, WInv s → strandedA s = true →
        s.closeSig = true ∧ s.once = .held (.x 0) .wantR ∧ s.cpc 0 = .body ∧ s.dpc 0 = .wait ∧
        stepV .noCloseCase s .body = none ∧ stepV .noCloseCase s (.c 0) = none := by
      intro s hi hs
      rw [strandedA_iff] at hs
      obtain ⟨a1, a2, a3, a4, a5, a6, a7, a8, a9⟩ := hs
      have hb : s.cpc 0 = .body := (hi.cBody 0).mpr (by simp [a6, holder])
      refine ⟨by rw [hi.sig, a6]; rfl, a6, hb, a1, ?_, ?_⟩
      · simp only [stepV, stepC, a6]; rw [if_neg (by omega)]
      · simp [stepV, stepC, hb]
    obtain ⟨k1, k2, k3, k4, -, -⟩ := key s hi h
    exact ⟨s, rfl, k1, k2, k3, k4, fun acts s' hq hrun =>
      key s' (inv_runV _ acts s s' hi hrun) (strandedA_run acts s s' hi h hq hrun)⟩

/-- the same schedule on the code: the waiting `Do` takes its `case <-c.closeCh` and releases the read lock, the notifier
gets the write lock and starts the recovery, and as soon as it unlocks Close gets its read lock and returns -/
example : (run init (demoA ++ [.dCloseCase 0, .d 0, .n 0, .n 0, .n 0, .n 0, .n 0, .body, .body, .body, .body, .body])).map
    (fun s => (s.once, s.cpc 0, s.dpc 0)) = some (.done, .ret, .ret) := by decide

/-! (b) -/

/-- conn 0 is lost; notifier 0 wins the guard, sets both flags and starts the retry goroutine -/
def demoRecoveryStart : List Act := [.lose 0, .n 0, .n 0, .n 0, .n 0, .n 0, .n 0, .n 0, .n 0, .n 0]
/-- the retry goroutine: closes the old conn, fails the waiters, dials (ok), and makes the auth request, which waits
for its answer holding the read lock -/
def demoAuthWaits : List Act :=
  demoRecoveryStart ++ [.r, .rChkMax false, .r, .r, .r, .r, .r, .r, .r, .rDial true, .r, .rAuthQ true, .r, .r, .rWrite true]
/-- a second notifier of the same loss: without the fast path it queues in `Lock()`; then `Close` up to its signal -/
def demoB : List Act := demoAuthWaits ++ [.lose 0, .n 1, .n 1, .n 1, .closeCall, .c 0, .body]

def strandedB (s : St) : Bool :=
  s.rc == .aWait false && !s.authAns && s.readers == 1 && decide (1 ≤ s.pendW) &&
  s.once == .held (.x 0) .wantR && s.writer == none

/-- the auth timeout does not fire and the peer does not answer the auth request -/
def quietB : Act → Bool
  | .rAuthTimeout | .authDeliver => false
  | _ => true

theorem strandedB_iff (s : St) : strandedB s = true ↔
    s.rc = .aWait false ∧ s.authAns = false ∧ s.readers = 1 ∧ 1 ≤ s.pendW ∧
    s.once = .held (.x 0) .wantR ∧ s.writer = none := by
  simp only [strandedB, Bool.and_eq_true, beq_iff_eq, decide_eq_true_eq, Bool.not_eq_true', and_assoc]

theorem no_do_reader (s : St) (hi : WInv s) (h1 : s.readers = 1) (h2 : rdR s.rc = 1) : ∀ i, rdD (s.dpc i) = 0 := by
  intro i
  have hrd := hi.rd
  by_cases hlt : i < s.nD
  · have := cnt_ge rdD s.dpc i s.nD hlt; omega
  · rw [hi.dB i (by omega)]; rfl

theorem strandedB_step (s s' : St) (a : Act) (hi : WInv s) (h : strandedB s = true) (hq : quietB a = true)
    (hs : stepV .neither s a = some s') : strandedB s' = true := by
  rw [strandedB_iff] at h ⊢
  obtain ⟨a1, a2, a3, a4, a5, a6⟩ := h
  have key := no_do_reader s hi a3 (by rw [a1]; rfl)
  have e2 := hi.wN; have e3 := hi.ownU; have e4 := hi.rcN
  cases a <;> simp only [stepV, stepEnv, stepDo, stepN, stepN2, stepR, stepC] at hs <;> (repeat' split at hs) <;>
    (try (simp at hs; done)) <;> (try (simp only [Option.some.injEq] at hs; subst hs)) <;>
    (try dsimp only) <;> grind [quietB]

theorem strandedB_run (acts : List Act) : ∀ (s s' : St), WInv s → strandedB s = true →
    (∀ a ∈ acts, quietB a = true) → runV .neither s acts = some s' → strandedB s' = true := by
  induction acts with
  | nil => intro s s' _ h _ hr; simp [runV] at hr; subst hr; exact h
  | cons a as ih =>
    intro s s' hi h hq hr
    obtain ⟨s1, h1, h2⟩ := runV_cons_some hr
    exact ih s1 s' (inv_stepV _ s s1 a hi h1) (strandedB_step s s1 a hi h (hq a (by simp)) h1)
      (fun b hb => hq b (by simp [hb])) h2

/-- (b) WITHOUT THE ATOMIC `recovering` TEST IN `reconnecting` (the tree in which D20 was found: neither guard): a recovery
is running, its auth request waits for the answer (the retry goroutine holds the read lock inside `Do`), a second notifier
of the same loss queues in `Lock()`, then the user calls `Close`.  Close sets the signal — and its `c.RLock()`, and the
`RLock` of every `Do`, is refused in this state and in every state of every continuation in which the auth timeout does
not fire and the peer does not answer the auth request.  Close waits for the auth deadline. -/
theorem no_fast_path_blocks_close :
    ∃ s, runV .neither init demoB = some s ∧
      s.closeSig = true ∧ s.once = .held (.x 0) .wantR ∧ s.cpc 0 = .body ∧ s.rc = .aWait false ∧
      ∀ acts s', (∀ a ∈ acts, quietB a = true) → runV .neither s acts = some s' →
        s'.closeSig = true ∧ s'.once = .held (.x 0) .wantR ∧ s'.cpc 0 = .body ∧ s'.rc = .aWait false ∧
        stepV .neither s' .body = none ∧ (∀ i, s'.dpc i = .wantR → stepV .neither s' (.d i) = none) := by
  have h : (runV .neither init demoB).map (fun s => strandedB s) = some true := by decide
  cases hr : runV .neither init demoB with
  | none => simp [hr] at h
  | some s =>
    simp only [hr, Option.map_some, Option.some.injEq] at h
    have hi := inv_reachV _ demoB s hr
    have key : ∀ s : St, WInv s → strandedB s = true →
        s.closeSig = true ∧ s.once = .held (.x 0) .wantR ∧ s.cpc 0 = .body ∧ s.rc = .aWait false ∧
        stepV .neither s .body = none ∧ (∀ i, s.dpc i = .wantR → stepV .neither s (.d i) = none) := by
      intro s hi hs
      rw [strandedB_iff] at hs
      obtain ⟨a1, a2, a3, a4, a5, a6⟩ := hs
      refine ⟨by rw [hi.sig, a5]; rfl, a5, (hi.cBody 0).mpr (by simp [a5, holder]), a1, ?_, fun i hp => ?_⟩
      · simp only [stepV, stepC, a5]; rw [if_neg (by omega)]
      · simp only [stepV, stepDo, hp]; rw [if_neg (by omega)]
    obtain ⟨k1, k2, k3, k4, -, -⟩ := key s hi h
    exact ⟨s, rfl, k1, k2, k3, k4, fun acts s' hq hrun =>
      key s' (inv_runV _ acts s s' hi hrun) (strandedB_run acts s s' hi h hq hrun)⟩

/-- the same schedule on the code: the second notifier reads `recovering = 1` and returns without touching the lock
(its third step does not exist); Close shares the read lock with the waiting auth request and returns while that
request is still waiting -/
example : (run init (demoAuthWaits ++ [.lose 0, .n 1, .n 1, .closeCall, .c 0, .body, .body, .body, .body, .body, .body])).map
    (fun s => (s.once, s.cpc 0, s.npc 1, s.rc)) = some (.done, .ret, .done, .aWait false) := by decide

/-- with the repair of D24 but not that of D20 (variant `noFastPath`) the schedule of (b) does NOT block Close: the auth
request has the `closeCh` case, wakes up on Close's signal and releases the read lock; the second notifier gets the
write lock, finds the recovery running, unlocks; Close gets its read lock.  So `no_fast_path_blocks_close` is false of
`noFastPath` as a statement about CLOSE; what the missing fast path costs there is stated next. -/
example : (runV .noFastPath init (demoB ++ [.rCloseCase .fail, .r, .n 1, .n 1, .n 1, .body, .body, .body, .body, .body])).map
    (fun s => (s.once, s.cpc 0, s.npc 1)) = some (.done, .ret, .done) := by decide

/-- the second notifier queues in `Lock()`, then a new `Do` call arrives; nobody calls Close -/
def demoC : List Act := demoAuthWaits ++ [.lose 0, .n 1, .n 1, .n 1, .doCall]

def strandedC (s : St) : Bool :=
  s.rc == .aWait false && !s.authAns && s.readers == 1 && decide (1 ≤ s.pendW) &&
  s.once == .free && s.writer == none && s.nC == 0 && !s.closeSig && s.dpc 0 == .wantR

/-- the auth timeout does not fire, the peer does not answer the auth request, nobody calls Close -/
def quietC : Act → Bool
  | .rAuthTimeout | .authDeliver | .closeCall => false
  | _ => true

theorem strandedC_iff (s : St) : strandedC s = true ↔
    s.rc = .aWait false ∧ s.authAns = false ∧ s.readers = 1 ∧ 1 ≤ s.pendW ∧
    s.once = .free ∧ s.writer = none ∧ s.nC = 0 ∧ s.closeSig = false ∧ s.dpc 0 = .wantR := by
  simp only [strandedC, Bool.and_eq_true, beq_iff_eq, decide_eq_true_eq, Bool.not_eq_true', and_assoc]

theorem strandedC_step (s s' : St) (a : Act) (hi : WInv s) (h : strandedC s = true) (hq : quietC a = true)
    (hs : stepV .noFastPath s a = some s') : strandedC s' = true := by
  rw [strandedC_iff] at h ⊢
  obtain ⟨a1, a2, a3, a4, a5, a6, a7, a8, a9⟩ := h
  have key := no_do_reader s hi a3 (by rw [a1]; rfl)
  have e2 := hi.wN; have e3 := hi.ownU; have e4 := hi.rcN; have e5 := hi.cB; have e6 := hi.dB
  cases a <;> simp only [stepV, stepEnv, stepDo, stepN, stepN2, stepR, stepC] at hs <;> (repeat' split at hs) <;>
    (try (simp at hs; done)) <;> (try (simp only [Option.some.injEq] at hs; subst hs)) <;>
    (try dsimp only) <;> grind [quietC]

theorem strandedC_run (acts : List Act) : ∀ (s s' : St), WInv s → strandedC s = true →
    (∀ a ∈ acts, quietC a = true) → runV .noFastPath s acts = some s' → strandedC s' = true := by
  induction acts with
  | nil => intro s s' _ h _ hr; simp [runV] at hr; subst hr; exact h
  | cons a as ih =>
    intro s s' hi h hq hr
    obtain ⟨s1, h1, h2⟩ := runV_cons_some hr
    exact ih s1 s' (inv_stepV _ s s1 a hi h1) (strandedC_step s s1 a hi h (hq a (by simp)) h1)
      (fun b hb => hq b (by simp [hb])) h2

/-- (b′) what the missing fast path costs when only D24 is repaired (variant `noFastPath`): with a recovery running and its
auth request waiting, a second notifier of the same loss queues in `Lock()` — and from then on the `RLock` of EVERY
`Do` call is refused, in every state of every continuation in which the auth timeout does not fire, the peer does not
answer the auth request and nobody calls Close: every request is delayed by up to the auth timeout. -/
theorem no_fast_path_blocks_do_partial :
    ∃ s, runV .noFastPath init demoC = some s ∧ s.dpc 0 = .wantR ∧ s.rc = .aWait false ∧
      ∀ acts s', (∀ a ∈ acts, quietC a = true) → runV .noFastPath s acts = some s' →
        s'.dpc 0 = .wantR ∧ s'.rc = .aWait false ∧ (∀ i, s'.dpc i = .wantR → stepV .noFastPath s' (.d i) = none) := by
  have h : (runV .noFastPath init demoC).map (fun s => strandedC s) = some true := by decide
  cases hr : runV .noFastPath init demoC with
  | none => simp [hr] at h
  | some s =>
    simp only [hr, Option.map_some, Option.some.injEq] at h
    have hi := inv_reachV _ demoC s hr
    have key : ∀ s : St, strandedC s = true →
        s.dpc 0 = .wantR ∧ s.rc = .aWait false ∧ (∀ i, s.dpc i = .wantR → stepV .noFastPath s (.d i) = none) := by
      intro s hs
      rw [strandedC_iff] at hs
      obtain ⟨a1, a2, a3, a4, a5, a6, a7, a8, a9⟩ := hs
      refine ⟨a9, a1, fun i hp => ?_⟩
      simp only [stepV, stepDo, hp]; rw [if_neg (by omega)]
    exact ⟨s, rfl, (key s h).1, (key s h).2.1, fun acts s' hq hrun => key s' (strandedC_run acts s s' hi h hq hrun)⟩

/-- the same schedule on the code: the second notifier returns on the fast path and the new `Do` gets its read lock at
once, next to the waiting auth request -/
example : (run init (demoAuthWaits ++ [.lose 0, .n 1, .n 1, .doCall, .d 0])).map
    (fun s => (s.npc 1, s.dpc 0, s.readers, s.pendW)) = some (.done, .inR, 2, 0) := by decide


/-! ### what Close still waits for: a dial in progress -/

/-- the recovery is inside the dialer (write lock held) when the user calls `Close` -/
def demoDial : List Act :=
  demoRecoveryStart ++ [.r, .rChkMax false, .r, .r, .r, .r, .r, .r, .r] ++ [.closeCall, .c 0, .body]

def strandedD (s : St) : Bool :=
  s.rc == .dDialing && s.writer == some .r && s.once == .held (.x 0) .wantR

theorem strandedD_iff (s : St) : strandedD s = true ↔
    s.rc = .dDialing ∧ s.writer = some .r ∧ s.once = .held (.x 0) .wantR := by
  simp only [strandedD, Bool.and_eq_true, beq_iff_eq, and_assoc]

def notDialReturn : Act → Bool
  | .rDial _ => false
  | _ => true

theorem strandedD_step (s s' : St) (a : Act) (hi : WInv s) (h : strandedD s = true) (hq : notDialReturn a = true)
    (hs : step s a = some s') : strandedD s' = true := by
  rw [strandedD_iff] at h ⊢
  obtain ⟨a1, a2, a3⟩ := h
  have e2 := hi.wN; have e3 := hi.ownU; have e4 := hi.rcN
  cases a <;> simp only [step, stepV, stepEnv, stepDo, stepN, stepN2, stepR, stepC] at hs <;> (repeat' split at hs) <;>
    (try (simp at hs; done)) <;> (try (simp only [Option.some.injEq] at hs; subst hs)) <;>
    (try dsimp only) <;> grind [notDialReturn]

theorem strandedD_run (acts : List Act) : ∀ (s s' : St), WInv s → strandedD s = true →
    (∀ a ∈ acts, notDialReturn a = true) → run s acts = some s' → strandedD s' = true := by
  induction acts with
  | nil => intro s s' _ h _ hr; simp [run, runV] at hr; subst hr; exact h
  | cons a as ih =>
    intro s s' hi h hq hr
    obtain ⟨s1, h1, h2⟩ := runV_cons_some hr
    exact ih s1 s' (inv_step s s1 a hi h1) (strandedD_step s s1 a hi h (hq a (by simp)) h1)
      (fun b hb => hq b (by simp [hb])) h2

/-- FALSE OF THE CODE: "Close never waits for anything but its own goroutines".  `dial` holds the WRITE lock across the
network dial (`c.conn, err = dialer(ctx, ..)` between `c.Lock()` and the deferred `c.Unlock()`).  If the user calls
`Close` while a reconnect attempt is inside the dialer, Close sets the signal and then its `c.RLock()` is refused in this
state and in every state of every continuation until the dialer returns — i.e. for up to `DialOptions.Timeout` when the
peer is unreachable.  (This is the only such wait: `close_prompt` (3) names an enabled step in every state, and it is the
dial's return only while a goroutine is inside the dialer — `dial_return_only_in_dialer` — which no goroutine enters
after the signal — `no_dial_entered_after_signal`.) -/
theorem close_waits_for_dial :
    ∃ s, run init demoDial = some s ∧ s.closeSig = true ∧ s.once = .held (.x 0) .wantR ∧ s.rc = .dDialing ∧
      ∀ acts s', (∀ a ∈ acts, notDialReturn a = true) → run s acts = some s' →
        s'.once = .held (.x 0) .wantR ∧ s'.rc = .dDialing ∧ step s' .body = none := by
  have h : (run init demoDial).map (fun s => (strandedD s, s.closeSig)) = some (true, true) := by decide
  cases hr : run init demoDial with
  | none => simp [hr] at h
  | some s =>
    simp only [hr, Option.map_some, Option.some.injEq, Prod.mk.injEq] at h
    obtain ⟨h, hc⟩ := h
    have hi := inv_reach demoDial s hr
    have key : ∀ s : St, strandedD s = true →
        s.once = .held (.x 0) .wantR ∧ s.rc = .dDialing ∧ step s .body = none := by
      intro s hs
      rw [strandedD_iff] at hs
      obtain ⟨a1, a2, a3⟩ := hs
      exact ⟨a3, a1, by simp [step, stepV, stepC, a3, a2]⟩
    exact ⟨s, rfl, hc, (key s h).1, (key s h).2.1, fun acts s' hq hrun => key s' (strandedD_run acts s s' hi h hq hrun)⟩

/-- the dial's return is enabled only while the retry goroutine is inside the dialer -/
theorem dial_return_only_in_dialer (s : St) (ok : Bool) (h : enabled s (.rDial ok)) : s.rc = .dDialing := by
  simp only [enabled, step, stepV, stepR] at h
  split at h <;> simp_all

/-- the schedule goes on as soon as the dialer returns: the conn it installs AFTER the signal (generation 1) is the one
Close then finds in `c.conn` and closes; Close returns -/
example : (run init (demoDial ++ [.rDial true, .r, .body, .body, .body, .body, .body])).map
    (fun s => (s.once, s.cpc 0, s.cur)) = some (.done, .ret, some 1) := by decide
/-- … so "dial never installs a conn once the signal is set" is false; what holds is
`no_dial_after_close_signal_installs_partial` -/
theorem dial_in_progress_installs_after_signal :
    (run init (demoDial ++ [.rDial true])).map (fun s => (s.closeSig, s.cur, s.lateInstalls)) = some (true, some 1, 0) := by
  decide
/-- the retry goroutine then finds the client closed at its auth request's select, or at the loop head, and leaves -/
example : (run init (demoDial ++ [.rDial true, .r, .body, .body, .body, .body, .body,
      .rAuthQ true, .r, .r, .rWrite true, .rCloseCase .fail, .r, .rSleepDone, .r, .n 0, .n 0, .n 0, .n 0, .n 0, .n 0])).map
    (fun s => (s.rc, s.npc 0, s.recovering)) = some (.none, .done, false) := by decide

/-! ### non-vacuity: concrete schedules of the code -/

/-- two `Do` calls wait for their answers, the conn is lost and a notifier queues in `Lock()`, Close sets its signal:
the situation of D24 -/
def demoTwo : List Act :=
  [.doCall, .doCall, .d 0, .d 0, .dWrite 0 true, .d 1, .d 1, .dWrite 1 true, .lose 0, .n 0, .n 0, .n 0,
   .closeCall, .c 0, .body]

example : (run init demoTwo).map (fun s => (s.dpc 0, s.dpc 1, s.npc 0)) = some (.wait, .wait, .pend1 0) := by decide
example : (run init demoTwo).map (fun s => (s.readers, s.pendW, s.closeSig)) = some (2, 1, true) := by decide
/-- Close's RLock and a new Do's RLock are refused (a pending writer), the notifier's Lock too (two readers) … -/
example : (run init (demoTwo ++ [.doCall])).map
    (fun s => ((step s .body).isSome, (step s (.d 2)).isSome, (step s (.n 0)).isSome)) = some (false, false, false) := by
  decide
/-- … but both waiting calls have their closeCh case: they return, the notifier gets the lock, starts the recovery,
unlocks; Close and the new Do get their read locks; Close returns; the retry goroutine finds the client closed -/
example : (run init (demoTwo ++ [.doCall, .dCloseCase 0, .dCloseCase 1, .d 0, .d 1, .n 0, .n 0, .n 0, .n 0, .n 0,
      .body, .d 2, .body, .body, .body, .body])).map
    (fun s => (s.once, s.cpc 0, s.dpc 0, s.dpc 1)) = some (.done, .ret, .ret, .ret) := by decide
example : (run init (demoTwo ++ [.doCall, .dCloseCase 0, .dCloseCase 1, .d 0, .d 1, .n 0, .n 0, .n 0, .n 0, .n 0,
      .body, .d 2, .body, .body, .body, .body, .n 0, .r, .d 2, .dWrite 2 true, .dCloseCase 2, .d 2,
      .n 0, .n 0, .n 0, .n 0, .n 0, .n 0])).map
    (fun s => (s.rc, s.npc 0, s.dpc 2, s.readers)) = some (.none, .done, .ret, 0) := by decide

/-- a full recovery: loss, guard, flags, retry goroutine, old conn closed, waiters failed, dial, auth answered,
after-reconnect callback, the notifier clears the flags -/
def demoRecovery : List Act :=
  demoAuthWaits ++ [.authDeliver, .rRecv .ok, .r, .r, .r, .n 0, .n 0, .n 0, .n 0, .n 0, .n 0]

example : (run init demoRecovery).map (fun s => (s.npc 0, s.rc, s.cur)) = some (.done, .none, some 1) := by decide
example : (run init demoRecovery).map (fun s => (s.reconn, s.recovering, s.writer)) = some (false, false, none) := by
  decide
example : (run init demoRecovery).map (fun s => (s.readers, s.pendW, s.spawnClash)) = some (0, 0, 0) := by decide
/-- a request written to the old conn after the recovery has started is failed by it (errConnClosed), not left to its
deadline -/
example : (run init (demoRecoveryStart ++ [.doCall, .d 0, .d 0, .dWrite 0 true,
      .r, .rChkMax false, .r, .r, .r, .r, .dRecv 0, .d 0])).map
    (fun s => (s.dpc 0, s.failed 0, s.rc)) = some (.ret, true, .dWant) := by decide
/-- OBSERVATION (not about Close): a request in flight when the conn is lost is NOT failed early.  `reconnecting` needs
the write lock before anything else happens, the waiting `Do` holds the read lock, and the waiters are failed only by
`reconnect`, i.e. after that lock: with no Close and a silent peer the only enabled steps are the request's deadline
(and the notifier stays pending, so every new `Do` waits too).  The recovery starts when the last request in flight has
timed out. -/
example : (run init [.doCall, .d 0, .d 0, .dWrite 0 true, .lose 0, .n 0, .n 0, .n 0, .doCall]).map
    (fun s => ((step s (.n 0)).isSome, (step s (.dRecv 0)).isSome || (step s (.dCloseCase 0)).isSome || (step s (.d 1)).isSome,
      (step s (.dTimeout 0)).isSome)) = some (false, false, true) := by decide
/-- a rejected session: the resume request is answered "unauthenticated", the goroutine makes the auth request -/
example : (run init (demoAuthWaits ++ [.authDeliver, .rRecv .again, .r, .r, .r, .rWrite true])).map
    (fun s => (s.rc, s.authAns, s.readers)) = some (.aWait true, false, 1) := by decide

/-- Close returns with a request in flight (no loss, no writer): it shares the read lock with the waiting `Do` -/
example : (run init [.doCall, .d 0, .d 0, .dWrite 0 true, .closeCall, .c 0, .body, .body, .body, .body, .body, .body]).map
    (fun s => (s.once, s.cpc 0, s.dpc 0)) = some (.done, .ret, .wait) := by decide
/-- … and the request then returns through its closeCh case, without its deadline -/
example : (run init [.doCall, .d 0, .d 0, .dWrite 0 true, .closeCall, .c 0, .body, .body, .body, .body, .body, .body,
      .dCloseCase 0, .d 0]).map (fun s => (s.dpc 0, s.readers, s.doReturns)) = some (.ret, 0, 1) := by decide

/-- Close in the middle of failing reconnect attempts: the dial failed (`c.conn = nil`), the retry goroutine sleeps its
second; Close returns without waiting for the sleep; a second Close call returns at the Once -/
example : (run init (demoRecoveryStart ++ [.r, .rChkMax false, .r, .r, .r, .r, .r, .r, .r, .rDial false, .r,
      .closeCall, .c 0, .body, .body, .body, .body, .body, .body, .closeCall, .c 1])).map
    (fun s => (s.once, s.cpc 0, s.cpc 1, s.rc)) = some (.done, .ret, .ret, .sleep) := by decide
/-- … and a `Do` made while `c.conn` is nil returns at once -/
example : (run init (demoRecoveryStart ++ [.r, .rChkMax false, .r, .r, .r, .r, .r, .r, .r, .rDial false, .r,
      .doCall, .d 0, .d 0, .d 0])).map (fun s => (s.dpc 0, s.cur, s.readers)) = some (.ret, none, 0) := by decide

/-- hit-max: the retry goroutine closes the client itself; a user's Close call waits at the Once meanwhile -/
example : (run init (demoRecoveryStart ++ [.r, .rChkMax true, .r, .closeCall, .body, .body])).map
    (fun s => (s.once, (step s (.c 0)).isSome, s.rc)) = some (.held .r .inR, false, .hmBody) := by decide
example : (run init (demoRecoveryStart ++ [.r, .rChkMax true, .r, .closeCall, .body, .body, .body, .body, .body, .body,
      .c 0, .n 0, .n 0, .n 0, .n 0, .n 0, .n 0])).map
    (fun s => (s.once, s.cpc 0, s.rc, s.npc 0)) = some (.done, .ret, .none, .done) := by decide

/-- the theorems apply: in the state of `demoTwo` the signal is set, so (`close_prompt`) a step that is not a timer is
enabled — here the two closeCh cases -/
example : (run init demoTwo).map (fun s => ((step s (.dCloseCase 0)).isSome, (step s (.dCloseCase 1)).isSome, mu s)) =
    some (true, true, 22) := by decide

end negative
end OAP.LockWait
