/-
C13, the close path of the dispatcher: the queue is DRAINED before the close is reported.

Go code mirrored (tcp_conn.go / ws_conn.go, identical in both transports):

  dispatcher (`OnPacket`)                         reader (`reading` → `readPacket` → `addPacket`)
    for { select {                                  for { if conn.closed() { return }
      case <-conn.closeCh:                                n, err := Read(buf) …
        for { select {                                    for each frame decoded from buf: addPacket(p) }
          case p := <-conn.packetCh: fn(p, nil); continue
          default: }                              addPacket: select { case packetCh <- p:
          break }                                                     default: warn "drop packet for channel full" }
        fn(nil, errConnClosed); return
      case p := <-conn.packetCh: fn(p, nil) } }

* `addPacket` does NOT look at `closeCh`, and the reader tests `closed()` only at the top of its loop: frames decoded
  from a chunk that was read before the close (or between `close(closeCh)` and `conn.conn.Close()`) are enqueued — or
  dropped with a warning when the queue is full — exactly as before the close. So `recv` is unchanged by `close`;
  the packets received after the close are recorded in the ghost lists `late` / `lateAccepted`.
* after the close the outer `select` may still choose the `packetCh` case (both ready): `dispatch` stays enabled until
  `finish`; `drain` is the same delivery inside the drain loop.
* the drain loop ends at the first moment the queue is observed empty (`default:`): `finish` is enabled whenever
  closed ∧ queue empty; after it the dispatcher goroutine has returned, nothing is delivered any more, but the reader
  may still enqueue: such a packet stays in the queue for ever, WITHOUT a warning (`late_packet_stranded`).
* `Close` is idempotent (`closed()` test + `closeOnce`): a second `close` changes nothing.
-/
import OAP.Model.Client.Dispatch
namespace OAP.DispatchClose
open OAP OAP.Dispatch

structure St where
  queue : List Pkt            -- packetCh, oldest first
  log : List (Nat × Pkt)      -- handler invocations so far
  closed : Bool               -- closeCh is closed
  finished : Bool             -- the dispatcher has left the drain loop: close reported (`fn(nil, errConnClosed)`), goroutine gone
  warnings : Nat              -- "drop packet for channel full"
  taken : List Pkt            -- ghost: packets the dispatcher took out of the queue, in order
  accepted : List Pkt         -- ghost: packets that entered the queue, in order
  dropped : List Pkt          -- ghost: packets dropped because the queue was full
  received : List Pkt         -- ghost: everything the reader decoded, in order
  acceptedAtClose : List Pkt  -- ghost: value of `accepted` at the (first) close action
  late : List Pkt             -- ghost: packets the reader decoded after the close, in order
  lateAccepted : List Pkt     -- ghost: those of `late` that entered the queue

inductive Act
  | recv (p : Pkt)            -- reader decoded p: addPacket (before or after the close, before or after finish)
  | dispatch                  -- dispatcher, outer select, case packetCh
  | close                     -- conn.Close: close(closeCh)
  | drain                     -- dispatcher, drain loop, case packetCh
  | finish                    -- dispatcher, drain loop, default: report the close and return

def step (cap : Nat) (subs : Nat → List Nat) (s : St) : Act → Option St
  | .recv p =>
      if s.queue.length < cap then
        some { s with queue := s.queue ++ [p], accepted := s.accepted ++ [p], received := s.received ++ [p],
                      late := if s.closed then s.late ++ [p] else s.late,
                      lateAccepted := if s.closed then s.lateAccepted ++ [p] else s.lateAccepted }
      else
        some { s with warnings := s.warnings + 1, dropped := s.dropped ++ [p], received := s.received ++ [p],
                      late := if s.closed then s.late ++ [p] else s.late }
  | .dispatch =>
      if s.finished then none else
      match s.queue with
      | [] => none
      | p :: q => some { s with queue := q, log := s.log ++ invocations subs p, taken := s.taken ++ [p] }
  | .close =>
      if s.closed then some s else some { s with closed := true, acceptedAtClose := s.accepted }
  | .drain =>
      if s.closed && !s.finished then
        match s.queue with
        | [] => none
        | p :: q => some { s with queue := q, log := s.log ++ invocations subs p, taken := s.taken ++ [p] }
      else none
  | .finish =>
      if s.closed && !s.finished && s.queue.isEmpty then some { s with finished := true } else none

def init : St :=
  { queue := [], log := [], closed := false, finished := false, warnings := 0, taken := [], accepted := [],
    dropped := [], received := [], acceptedAtClose := [], late := [], lateAccepted := [] }

def run (cap : Nat) (subs : Nat → List Nat) : St → List Act → Option St
  | s, [] => some s
  | s, a :: as => (step cap subs s a).bind (fun s' => run cap subs s' as)

theorem run_cons_some {cap : Nat} {subs : Nat → List Nat} {s s' : St} {a : Act} {as : List Act}
    (h : run cap subs s (a :: as) = some s') : ∃ s1, step cap subs s a = some s1 ∧ run cap subs s1 as = some s' := by
  simp only [run] at h
  cases hst : step cap subs s a with
  | none => simp [hst] at h
  | some s1 => exact ⟨s1, rfl, by simpa [hst] using h⟩

theorem run_append {cap : Nat} {subs : Nat → List Nat} (as bs : List Act) : ∀ (s s' : St),
    run cap subs s (as ++ bs) = some s' ↔ ∃ s1, run cap subs s as = some s1 ∧ run cap subs s1 bs = some s' := by
  induction as with
  | nil => intro s s'; simp [run]
  | cons a as ih =>
    intro s s'
    simp only [List.cons_append, run]
    cases hst : step cap subs s a with
    | none => simp
    | some s1 => simpa using ih s1 s'

/-! ### B1: the view of `Dispatch` is refined — its invariant carries over -/

/-- forget the close bookkeeping: the state of the `Dispatch` view -/
def toDispatch (s : St) : Dispatch.St :=
  { queue := s.queue, log := s.log, accepted := s.accepted, warnings := s.warnings, dropped := s.dropped,
    received := s.received }

/-- every step is a step of the `Dispatch` view (`recv` ↦ `recv`, `dispatch`/`drain` ↦ `dispatch`) or leaves its state
unchanged (`close`, `finish`) -/
theorem step_refines (cap : Nat) (subs : Nat → List Nat) (s s' : St) (a : Act) (hs : step cap subs s a = some s') :
    toDispatch s' = toDispatch s ∨ ∃ a', Dispatch.step cap subs (toDispatch s) a' = some (toDispatch s') := by
  cases a with
  | recv p =>
    right; refine ⟨.recv p, ?_⟩
    simp only [step] at hs
    split at hs <;> rename_i hq <;> simp only [Option.some.injEq] at hs <;> subst hs <;>
      simp [Dispatch.step, toDispatch, hq]
  | dispatch =>
    right; refine ⟨.dispatch, ?_⟩
    simp only [step] at hs
    split at hs
    · simp at hs
    · split at hs
      · simp at hs
      · rename_i p q hq
        simp only [Option.some.injEq] at hs; subst hs
        simp [Dispatch.step, toDispatch, hq]
  | close =>
    left
    simp only [step] at hs
    split at hs <;> simp only [Option.some.injEq] at hs <;> subst hs <;> rfl
  | drain =>
    right; refine ⟨.dispatch, ?_⟩
    simp only [step] at hs
    split at hs
    · split at hs
      · simp at hs
      · rename_i p q hq
        simp only [Option.some.injEq] at hs; subst hs
        simp [Dispatch.step, toDispatch, hq]
    · simp at hs
  | finish =>
    left
    simp only [step] at hs
    split at hs
    · simp only [Option.some.injEq] at hs; subst hs; rfl
    · simp at hs

theorem dinv_step (cap : Nat) (subs : Nat → List Nat) (s s' : St) (a : Act)
    (h : DInv subs (toDispatch s)) (hs : step cap subs s a = some s') : DInv subs (toDispatch s') := by
  rcases step_refines cap subs s s' a hs with he | ⟨a', ha'⟩
  · rw [he]; exact h
  · exact Dispatch.inv_step cap subs _ _ a' h ha'

theorem dinv_run (cap : Nat) (subs : Nat → List Nat) (acts : List Act) :
    ∀ s s', DInv subs (toDispatch s) → run cap subs s acts = some s' → DInv subs (toDispatch s') := by
  induction acts with
  | nil => intro s s' h hr; simp [run] at hr; subst hr; exact h
  | cons a as ih =>
    intro s s' h hr
    obtain ⟨s1, h1, h2⟩ := run_cons_some hr
    exact ih s1 s' (dinv_step cap subs s s1 a h h1) h2

/-- B1: in every interleaving — with close, drain and finish — the invariant `DInv` of the `Dispatch` view holds:
the handler log is the routing of the accepted packets already taken from the queue, in arrival order; the rest of
the accepted packets is the queue; warnings = drops; received = accepted + dropped -/
theorem dinv_carries_over (cap : Nat) (subs : Nat → List Nat) (acts : List Act) (s : St)
    (h : run cap subs init acts = some s) : DInv subs (toDispatch s) :=
  dinv_run cap subs acts init s
    ⟨⟨[], by simp [init, toDispatch], by simp [init, toDispatch]⟩, by simp [init, toDispatch],
      by simp [init, toDispatch]⟩ h

/-! ### the close bookkeeping -/

structure CInv (subs : Nat → List Nat) (s : St) : Prop where
  /-- everything accepted is either taken by the dispatcher (in order) or still queued (in order) -/
  split : s.accepted = s.taken ++ s.queue
  /-- the handler log is the routing of the taken packets -/
  logged : s.log = s.taken.flatMap (invocations subs)
  warn : s.warnings = s.dropped.length
  acct : s.received.length = s.accepted.length + s.dropped.length
  /-- before the close there is nothing late, and the dispatcher has not finished -/
  open_ : s.closed = false → s.late = [] ∧ s.lateAccepted = [] ∧ s.finished = false
  /-- after the close: accepted = accepted before the close ++ accepted after the close -/
  closedAcc : s.closed = true → s.accepted = s.acceptedAtClose ++ s.lateAccepted
  /-- the packets received after the close are a suffix of `received`; the accepted ones among them, in order -/
  lateSuffix : ∃ r0, s.received = r0 ++ s.late
  lateSub : s.lateAccepted.Sublist s.late
  /-- once finished, everything accepted before the close has been taken -/
  fin : s.finished = true → ∃ x, s.taken = s.acceptedAtClose ++ x

theorem cinv_init (subs : Nat → List Nat) : CInv subs init := by
  refine ⟨?_, ?_, ?_, ?_, ?_, ?_, ⟨[], ?_⟩, ?_, ?_⟩ <;> simp [init]

theorem cinv_step (cap : Nat) (subs : Nat → List Nat) (s s' : St) (a : Act)
    (h : CInv subs s) (hs : step cap subs s a = some s') : CInv subs s' := by
  obtain ⟨h1, h2, h3, h4, h5, h6, ⟨r0, h7⟩, h8, h10⟩ := h
  cases a with
  | recv p =>
    simp only [step] at hs
    split at hs <;> simp only [Option.some.injEq] at hs <;> subst hs
    · -- enqueued
      cases hc : s.closed with
      | false =>
        obtain ⟨l1, l2, l3⟩ := h5 hc
        refine ⟨by simp [h1], h2, h3, by simp; omega, by simp [l1, l2, l3], by simp,
          ⟨r0 ++ [p], by simp [h7, l1]⟩, by simp [l1, l2], h10⟩
      | true =>
        refine ⟨by simp [h1], h2, h3, by simp; omega, by simp, by simp [h6 hc],
          ⟨r0, by simp [h7]⟩, ?_, h10⟩
        simp only [↓reduceIte]
        exact List.Sublist.append h8 (List.Sublist.refl _)
    · -- dropped with a warning
      cases hc : s.closed with
      | false =>
        obtain ⟨l1, l2, l3⟩ := h5 hc
        refine ⟨h1, h2, by simp [h3], by simp; omega, by simp [l1, l2, l3], by simp,
          ⟨r0 ++ [p], by simp [h7, l1]⟩, by simp [l1, l2], h10⟩
      | true =>
        refine ⟨h1, h2, by simp [h3], by simp; omega, by simp, by simpa using h6 hc,
          ⟨r0, by simp [h7]⟩, ?_, h10⟩
        simp only [↓reduceIte]
        exact h8.trans (List.sublist_append_left _ _)
  | dispatch =>
    simp only [step] at hs
    split at hs
    · simp at hs
    · rename_i hf
      split at hs
      · simp at hs
      · rename_i p q hq
        simp only [Option.some.injEq] at hs; subst hs
        exact ⟨by simp [h1, hq], by simp [h2], h3, h4, h5, h6, ⟨r0, h7⟩, h8,
          fun hf' => absurd hf' hf⟩
  | close =>
    simp only [step] at hs
    split at hs <;> rename_i hc <;> simp only [Option.some.injEq] at hs <;> subst hs
    · exact ⟨h1, h2, h3, h4, h5, h6, ⟨r0, h7⟩, h8, h10⟩
    · have hc' : s.closed = false := by simpa using hc
      obtain ⟨l1, l2, l3⟩ := h5 hc'
      exact ⟨h1, h2, h3, h4, by simp, by simp [l2], ⟨r0, h7⟩, h8, by simp [l3]⟩
  | drain =>
    simp only [step] at hs
    split at hs
    · rename_i hcf
      split at hs
      · simp at hs
      · rename_i p q hq
        simp only [Option.some.injEq] at hs; subst hs
        have hf : s.finished = false := by
          simp only [Bool.and_eq_true, Bool.not_eq_eq_eq_not, Bool.not_true] at hcf; exact hcf.2
        exact ⟨by simp [h1, hq], by simp [h2], h3, h4, h5, h6, ⟨r0, h7⟩, h8,
          fun hf' => by simp [hf] at hf'⟩
    · simp at hs
  | finish =>
    simp only [step] at hs
    split at hs
    · rename_i hcf
      simp only [Option.some.injEq] at hs; subst hs
      simp only [Bool.and_eq_true, Bool.not_eq_eq_eq_not, Bool.not_true, List.isEmpty_iff] at hcf
      obtain ⟨⟨hc, _⟩, hq⟩ := hcf
      refine ⟨h1, h2, h3, h4, by simp [hc], h6, ⟨r0, h7⟩, h8, fun _ => ⟨s.lateAccepted, ?_⟩⟩
      have := h6 hc
      rw [h1, hq, List.append_nil] at this
      exact this
    · simp at hs

theorem cinv_run (cap : Nat) (subs : Nat → List Nat) (acts : List Act) :
    ∀ s s', CInv subs s → run cap subs s acts = some s' → CInv subs s' := by
  induction acts with
  | nil => intro s s' h hr; simp [run] at hr; subst hr; exact h
  | cons a as ih =>
    intro s s' h hr
    obtain ⟨s1, h1, h2⟩ := run_cons_some hr
    exact ih s1 s' (cinv_step cap subs s s1 a h h1) h2

theorem cinv_reachable (cap : Nat) (subs : Nat → List Nat) (acts : List Act) (s : St)
    (h : run cap subs init acts = some s) : CInv subs s :=
  cinv_run cap subs acts init s (cinv_init subs) h

/-! ### the ghost `acceptedAtClose` is what it says -/

theorem closed_step (cap : Nat) (subs : Nat → List Nat) (s s' : St) (a : Act) (hc : s.closed = true)
    (hs : step cap subs s a = some s') : s'.closed = true ∧ s'.acceptedAtClose = s.acceptedAtClose := by
  cases a with
  | recv p =>
    simp only [step] at hs
    split at hs <;> simp only [Option.some.injEq] at hs <;> subst hs <;> exact ⟨hc, rfl⟩
  | dispatch =>
    simp only [step] at hs
    split at hs
    · simp at hs
    · split at hs
      · simp at hs
      · simp only [Option.some.injEq] at hs; subst hs; exact ⟨hc, rfl⟩
  | close => simp [step, hc] at hs; subst hs; exact ⟨hc, rfl⟩
  | drain =>
    simp only [step] at hs
    split at hs
    · split at hs
      · simp at hs
      · simp only [Option.some.injEq] at hs; subst hs; exact ⟨hc, rfl⟩
    · simp at hs
  | finish =>
    simp only [step] at hs
    split at hs
    · simp only [Option.some.injEq] at hs; subst hs; exact ⟨hc, rfl⟩
    · simp at hs

theorem closed_run (cap : Nat) (subs : Nat → List Nat) (acts : List Act) : ∀ (s s' : St), s.closed = true →
    run cap subs s acts = some s' → s'.closed = true ∧ s'.acceptedAtClose = s.acceptedAtClose := by
  induction acts with
  | nil => intro s s' hc hr; simp [run] at hr; subst hr; exact ⟨hc, rfl⟩
  | cons a as ih =>
    intro s s' hc hr
    obtain ⟨s1, h1, h2⟩ := run_cons_some hr
    obtain ⟨c1, e1⟩ := closed_step cap subs s s1 a hc h1
    obtain ⟨c2, e2⟩ := ih s1 s' c1 h2
    exact ⟨c2, e2.trans e1⟩

/-- the ghost is exact: if the run is `pre`, then the (first, effective) `close`, then `post`, `acceptedAtClose` of
the final state is the list of packets accepted during `pre` -/
theorem acceptedAtClose_exact (cap : Nat) (subs : Nat → List Nat) (pre post : List Act) (s1 s : St)
    (h1 : run cap subs init pre = some s1) (hopen : s1.closed = false)
    (h : run cap subs init (pre ++ .close :: post) = some s) : s.acceptedAtClose = s1.accepted := by
  rw [run_append] at h
  obtain ⟨s1', h1', h2⟩ := h
  rw [h1] at h1'; cases h1'
  obtain ⟨s2, hs2, hr⟩ := run_cons_some h2
  simp [step, hopen] at hs2; subst hs2
  exact (closed_run cap subs post _ s rfl hr).2

/-! ### B2, B3, B4 -/

/-- B2 `drained_before_close_report`: in EVERY interleaving, in every state in which the dispatcher has reported the
close (`finish` has happened), the handler log is the routing of ALL packets accepted before the close — however many
of them were still queued at the close — in arrival order, followed by the routing of the packets `x` that were
accepted after the close and still caught by the drain loop. The only accepted packets that are not delivered are
those still in the queue, and every one of them arrived after the close (`lateAccepted = x ++ queue`). -/
theorem drained_before_close_report (cap : Nat) (subs : Nat → List Nat) (acts : List Act) (s : St)
    (h : run cap subs init acts = some s) (hf : s.finished = true) :
    ∃ x, s.log = (s.acceptedAtClose ++ x).flatMap (invocations subs) ∧
      s.accepted = s.acceptedAtClose ++ x ++ s.queue ∧ s.lateAccepted = x ++ s.queue := by
  have i := cinv_reachable cap subs acts s h
  obtain ⟨x, hx⟩ := i.fin hf
  have hc : s.closed = true := by
    cases hc : s.closed with
    | true => rfl
    | false => have := (i.open_ hc).2.2; simp [hf] at this
  have hacc : s.accepted = s.acceptedAtClose ++ x ++ s.queue := by rw [i.split, hx]
  refine ⟨x, by rw [i.logged, hx], hacc, ?_⟩
  have := i.closedAcc hc
  rw [hacc, List.append_assoc] at this
  exact (List.append_cancel_left this).symm

/-- B2, as a statement about the log alone: the routing of everything accepted before the close is a prefix of the
log -/
theorem drained_prefix (cap : Nat) (subs : Nat → List Nat) (acts : List Act) (s : St)
    (h : run cap subs init acts = some s) (hf : s.finished = true) :
    s.acceptedAtClose.flatMap (invocations subs) <+: s.log := by
  obtain ⟨x, hx, _, _⟩ := drained_before_close_report cap subs acts s h hf
  exact ⟨x.flatMap (invocations subs), by rw [hx, List.flatMap_append]⟩

theorem finished_step (cap : Nat) (subs : Nat → List Nat) (s s' : St) (a : Act) (hf : s.finished = true)
    (hs : step cap subs s a = some s') : s'.finished = true ∧ s'.log = s.log ∧ s'.taken = s.taken := by
  cases a with
  | recv p =>
    simp only [step] at hs
    split at hs <;> simp only [Option.some.injEq] at hs <;> subst hs <;> exact ⟨hf, rfl, rfl⟩
  | dispatch => simp [step, hf] at hs
  | close =>
    simp only [step] at hs
    split at hs <;> simp only [Option.some.injEq] at hs <;> subst hs <;> exact ⟨hf, rfl, rfl⟩
  | drain => simp [step, hf] at hs
  | finish => simp [step, hf] at hs

/-- B3 `no_delivery_after_finish`: from a state in which the dispatcher has finished, no continuation whatsoever
changes the handler log (nor the list of taken packets); `dispatch`, `drain` and `finish` are not enabled any more -/
theorem no_delivery_after_finish (cap : Nat) (subs : Nat → List Nat) (acts : List Act) : ∀ (s s' : St),
    s.finished = true → run cap subs s acts = some s' →
    s'.finished = true ∧ s'.log = s.log ∧ s'.taken = s.taken := by
  induction acts with
  | nil => intro s s' hf hr; simp [run] at hr; subst hr; exact ⟨hf, rfl, rfl⟩
  | cons a as ih =>
    intro s s' hf hr
    obtain ⟨s1, h1, h2⟩ := run_cons_some hr
    obtain ⟨f1, l1, t1⟩ := finished_step cap subs s s1 a hf h1
    obtain ⟨f2, l2, t2⟩ := ih s1 s' f1 h2
    exact ⟨f2, l2.trans l1, t2.trans t1⟩

/-- B3 for runs from `init`: whatever follows a `finish`, the log is the log at the `finish` -/
theorem log_frozen_at_finish (cap : Nat) (subs : Nat → List Nat) (pre post : List Act) (s : St)
    (h : run cap subs init (pre ++ .finish :: post) = some s) :
    ∃ s1, run cap subs init (pre ++ [.finish]) = some s1 ∧ s.log = s1.log := by
  have : pre ++ .finish :: post = (pre ++ [.finish]) ++ post := by simp
  rw [this, run_append] at h
  obtain ⟨s1, h1, h2⟩ := h
  refine ⟨s1, h1, (no_delivery_after_finish cap subs post s1 s ?_ h2).2.1⟩
  rw [run_append] at h1
  obtain ⟨s0, _, h0⟩ := h1
  simp only [run, step] at h0
  split at h0
  · simp at h0; subst h0; rfl
  · simp at h0

/-- B4 loss accounting with close, for every reachable state: every received packet was accepted or dropped with a
warning; the packets received after the close are the suffix `late` of `received`, of which `lateAccepted` (a
sublist, in order) entered the queue and the others were dropped with a warning like any overflow; accepted = taken
by the dispatcher ++ still queued; after the close, accepted = accepted before the close ++ `lateAccepted`. -/
theorem loss_accounting_close (cap : Nat) (subs : Nat → List Nat) (acts : List Act) (s : St)
    (h : run cap subs init acts = some s) :
    s.received.length = s.accepted.length + s.dropped.length ∧ s.warnings = s.dropped.length ∧
    s.accepted = s.taken ++ s.queue ∧ s.log = s.taken.flatMap (invocations subs) ∧
    (∃ r0, s.received = r0 ++ s.late) ∧ s.lateAccepted.Sublist s.late ∧
    (s.closed = false → s.late = [] ∧ s.lateAccepted = []) ∧
    (s.closed = true → s.accepted = s.acceptedAtClose ++ s.lateAccepted) := by
  have i := cinv_reachable cap subs acts s h
  exact ⟨i.acct, i.warn, i.split, i.logged, i.lateSuffix, i.lateSub, fun hc => ⟨(i.open_ hc).1, (i.open_ hc).2.1⟩,
    i.closedAcc⟩

/-- B4 at the end: once the dispatcher has finished, every received packet is exactly one of: delivered (taken and
routed), dropped with a warning, or stranded in the queue — and the stranded ones all arrived after the close -/
theorem final_accounting (cap : Nat) (subs : Nat → List Nat) (acts : List Act) (s : St)
    (h : run cap subs init acts = some s) (hf : s.finished = true) :
    s.received.length = s.taken.length + s.warnings + s.queue.length ∧
    s.log = s.taken.flatMap (invocations subs) ∧
    (∃ x, s.lateAccepted = x ++ s.queue) ∧ s.lateAccepted.Sublist s.late := by
  have i := cinv_reachable cap subs acts s h
  obtain ⟨x, _, _, hx⟩ := drained_before_close_report cap subs acts s h hf
  refine ⟨?_, i.logged, ⟨x, hx⟩, i.lateSub⟩
  have := i.acct
  rw [i.split, List.length_append, ← i.warn] at this
  omega

/-! ### non-vacuity and the limit of the guarantee -/

private def subs0 : Nat → List Nat := fun c => if c = 10 then [1, 2] else []
private def p1 : Pkt := ⟨.push, 10, 1⟩
private def p2 : Pkt := ⟨.push, 10, 2⟩
private def p3 : Pkt := ⟨.push, 10, 3⟩

/-- three packets queued at the close: all three are delivered (to both handlers, in order) before `finish` -/
theorem three_queued_at_close_delivered :
    (run 4 subs0 init [.recv p1, .recv p2, .recv p3, .close, .drain, .drain, .drain, .finish]).map
      (fun s => (s.log, s.queue, s.finished, s.acceptedAtClose)) =
    some ([(1, p1), (2, p1), (1, p2), (2, p2), (1, p3), (2, p3)], [], true, [p1, p2, p3]) := by decide

/-- `finish` is not enabled while packets are queued: the close cannot be reported before the queue is drained -/
theorem finish_needs_empty_queue :
    (run 4 subs0 init [.recv p1, .recv p2, .recv p3, .close, .drain, .finish]).isNone = true := by decide

/-- the limit of the guarantee: a packet the reader enqueues after the dispatcher has left the drain loop is accepted
(no warning) and never delivered. (In the Go code: frames still being decoded by `readPacket` from a chunk read
before the close.) So "the only loss is the counted overflow" holds for the packets accepted BEFORE the close — for
the late ones it does not. -/
theorem late_packet_stranded :
    (run 4 subs0 init [.recv p1, .close, .drain, .finish, .recv p2]).map
      (fun s => (s.log, s.queue, s.warnings, s.finished, s.late)) =
    some ([(1, p1), (2, p1)], [p2], 0, true, [p2]) := by decide

/-- a late packet that arrives before the drain loop ends IS still delivered -/
theorem late_packet_caught_by_drain :
    (run 4 subs0 init [.recv p1, .close, .recv p2, .drain, .drain, .finish]).map
      (fun s => (s.log, s.queue, s.acceptedAtClose, s.lateAccepted)) =
    some ([(1, p1), (2, p1), (1, p2), (2, p2)], [], [p1], [p2]) := by decide

end OAP.DispatchClose
