/-
Prototype for C17: the lockset discipline implies happens-before ordering of conflicting
accesses, over an abstract trace model with readers-writer locks (Go memory-model edges).
(view of the repaired client; model and its invariant proofs; imported from the round-0 prototype)
-/
import OAP.Base
namespace OAP.Lockset
open OAP

inductive Op
  | acq (l : Nat) (w : Bool)      -- Lock (w = true) / RLock (w = false) returns
  | rel (l : Nat) (w : Bool)      -- Unlock / RUnlock is called
  | read (x : Nat)
  | write (x : Nat)
deriving DecidableEq, Repr

structure Ev where
  tid : Nat
  op : Op
deriving DecidableEq, Repr

abbrev Trace := List Ev

/-- thread t holds lock l in mode w just before position p -/
def holdsAt (tr : Trace) (t l : Nat) (w : Bool) (p : Nat) : Prop :=
  ∃ a, a < p ∧ tr[a]? = some ⟨t, .acq l w⟩ ∧ ∀ k, a < k → k < p → tr[k]? ≠ some ⟨t, .rel l w⟩

/-- lock semantics: a write holder excludes every other holder -/
def WFLock (tr : Trace) : Prop :=
  ∀ p t u l w w', p ≤ tr.length → holdsAt tr t l w p → holdsAt tr u l w' p → (w = true ∨ w' = true) → t = u

/-- happens-before: program order, and release → later acquire when one side is a write-mode
    operation (Unlock → RLock/Lock, RUnlock → Lock), closed under transitivity -/
inductive HB (tr : Trace) : Nat → Nat → Prop
  | po {i j e e'} : i < j → tr[i]? = some e → tr[j]? = some e' → e.tid = e'.tid → HB tr i j
  | sw {i j t u l w w'} : i < j → tr[i]? = some ⟨t, .rel l w⟩ → tr[j]? = some ⟨u, .acq l w'⟩ →
      (w = true ∨ w' = true) → HB tr i j
  | trans {i j k} : HB tr i j → HB tr j k → HB tr i k

/-- if a lock is held before p and no longer before q, its holder released it in between -/
theorem released_between (tr : Trace) (t l : Nat) (w : Bool) :
    ∀ (d p : Nat), holdsAt tr t l w p → ¬ holdsAt tr t l w (p + d) →
      ∃ k, p ≤ k ∧ k < p + d ∧ tr[k]? = some ⟨t, .rel l w⟩ := by
  intro d
  induction d with
  | zero => intro p h hn; exact absurd h hn
  | succ d ih =>
    intro p h hn
    by_cases hmid : holdsAt tr t l w (p + d)
    · -- released exactly at p + d
      obtain ⟨a, ha, hacq, hno⟩ := hmid
      refine ⟨p + d, by omega, by omega, ?_⟩
      apply Classical.byContradiction
      intro hne
      apply hn
      refine ⟨a, by omega, hacq, ?_⟩
      intro k hk1 hk2
      by_cases hk : k = p + d
      · subst hk; exact hne
      · exact hno k hk1 (by omega)
    · obtain ⟨k, h1, h2, h3⟩ := ih p h hmid
      exact ⟨k, h1, by omega, h3⟩

/-- a hold persists backwards: held before q with the acquire before p ≤ q means held before p -/
theorem holds_mono (tr : Trace) (t l : Nat) (w : Bool) (a p q : Nat) (hap : a < p) (hpq : p ≤ q)
    (hacq : tr[a]? = some ⟨t, .acq l w⟩) (hno : ∀ k, a < k → k < q → tr[k]? ≠ some ⟨t, .rel l w⟩) :
    holdsAt tr t l w p :=
  ⟨a, hap, hacq, fun k h1 h2 => hno k h1 (by omega)⟩

def isAccess (o : Op) (x : Nat) : Prop := o = .read x ∨ o = .write x

/-- LOCKSET SOUNDNESS: two accesses by different threads, each made while holding a common lock,
    at least one of the holds in write mode, are ordered by happens-before. -/
theorem lockset_sound (tr : Trace) (wf : WFLock tr) (i j : Nat) (ei ej : Ev) (x : Nat)
    (hij : i < j) (hj : j < tr.length)
    (hei : tr[i]? = some ei) (hej : tr[j]? = some ej) (hne : ei.tid ≠ ej.tid)
    (hai : isAccess ei.op x) (_haj : isAccess ej.op x)
    (l : Nat) (wi wj : Bool) (hw : wi = true ∨ wj = true)
    (hi : holdsAt tr ei.tid l wi i) (hjh : holdsAt tr ej.tid l wj j) :
    HB tr i j := by
  obtain ⟨aj, haj, hacqj, hnoj⟩ := hjh
  -- position i is an access, not an acquire or a release
  have hiop : ∀ t' o, tr[i]? = some ⟨t', o⟩ → isAccess o x := by
    intro t' o h; rw [hei] at h; cases h; exact hai
  -- the later thread acquired after position i: otherwise both hold the lock before i
  have hlt : i < aj := by
    apply Classical.byContradiction
    intro hnot
    have hne' : aj ≠ i := by
      intro e; subst e
      have := hiop _ _ hacqj
      rcases this with h | h <;> cases h
    have hboth := holds_mono tr ej.tid l wj aj i j (by omega) (by omega) hacqj hnoj
    exact hne (wf i ei.tid ej.tid l wi wj (by omega) hi hboth hw)
  -- just after the acquire the later thread holds; the earlier one cannot
  have hjHolds : holdsAt tr ej.tid l wj (aj + 1) := ⟨aj, by omega, hacqj, fun k h1 h2 => by omega⟩
  have hiNot : ¬ holdsAt tr ei.tid l wi (aj + 1) := by
    intro h
    exact hne (wf (aj + 1) ei.tid ej.tid l wi wj (by omega) h hjHolds hw)
  -- so the earlier thread released between i and aj
  have hd : aj + 1 = i + (aj + 1 - i) := by omega
  rw [hd] at hiNot
  obtain ⟨k, hk1, hk2, hrel⟩ := released_between tr ei.tid l wi (aj + 1 - i) i hi hiNot
  have hki : k ≠ i := by
    intro e; subst e
    have := hiop _ _ hrel
    rcases this with h | h <;> cases h
  have hkaj : k ≠ aj := by
    intro e; subst e
    rw [hacqj] at hrel; simp at hrel
  -- i →po k →sw aj →po j
  have h1 : HB tr i k := HB.po (by omega) hei hrel rfl
  have h2 : HB tr k aj := HB.sw (by omega) hrel hacqj hw
  have h3 : HB tr aj j := HB.po haj hacqj hej rfl
  exact HB.trans h1 (HB.trans h2 h3)

end OAP.Lockset
