/-
C03 (TCP transport): how the connection's reader goroutine uses the streaming decoder.

Go code mirrored (go/client/tcp_conn.go, `(*tcpConn).reading` and `readPacket`):

  func (conn *tcpConn) reading() {                          func (conn *tcpConn) readPacket(buf) error {
    for {                                                     for {
      if conn.closed() { return }                               packet, done, err := conn.p.Unpack(conn.qctx, buf)
      n, err := conn.conn.Read(conn.buf)                        if err != nil { return err }
      if err != nil { conn.Close(err); return }                 if !done { break }
      if n == 0 { continue }                                    conn.addPacket(packet)
      if conn.readBuf.Length() == 0 {                         }
        buffer := ringbuffer.NewWithData(conn.buf[:n])        return nil
        if err = conn.readPacket(buffer); err != nil {      }
          conn.Close(err); return }
        if buffer.Length() > 0 {
          first, _ := buffer.PeekAll()
          conn.readBuf.Write(first) }
      } else {
        conn.readBuf.Write(conn.buf[:n])
        if err = conn.readPacket(conn.readBuf); err != nil {
          conn.Close(err); return }
      } } }

* the reader does NOT write every socket read into one ring. When the left-over ring `conn.readBuf`
  is empty (`Length() == 0`) the chunk is decoded IN PLACE: `NewWithData` wraps `conn.buf[:n]`
  as a ring that is full (r = w = 0, isEmpty = false, size = n), the decoder loop runs on it, and
  what it leaves is copied into `conn.readBuf` — but only the FIRST of the two slices `PeekAll`
  returns (`first, _ :=`). Otherwise the chunk is `Write`-n behind the left-over bytes and the loop
  runs on `conn.readBuf`.
* the decoder context `conn.qctx` — the parked header `pend` — is shared by both paths: a header
  (or its first byte) parked while decoding the temporary ring belongs to bytes whose continuation
  ends up in `conn.readBuf`, and the other way round.
* an `Unpack` error closes the connection and the goroutine returns: nothing is read any more, the
  left-over of the temporary ring is NOT saved (`stopped`).
* `readPacket` passes the context on from call to call; the loop is unbounded in Go. Here it is
  given fuel `Length() + 2` (one call may deliver a packet without taking a byte off the ring when
  it resumes a parked complete header; every later packet takes at least a header; one last call
  reports "need more data" or the error); `OAP/Proofs/Reading.lean` proves that on a well-formed
  ring the fuel never runs out (`readPacket_eq_drainRing`: the loop is the project's `drainRing`,
  which `drainRing_abs` relates to the queue loop `drain` that has no fall-back result at all).
* value semantics: `conn.buf[:n]`, the temporary ring and `first` alias the same array in Go; the
  copy into `conn.readBuf` happens before the next socket read overwrites `conn.buf`, and `Unpack`
  copies body / metadata / signature out of the ring (`Read` into fresh slices), so the aliasing is
  not observable by the decoder. It is not modelled.
-/
import OAP.Model.Ring
import OAP.Model.Stream
namespace OAP.Reading
open OAP OAP.Frame

/-- what `readPacket` leaves behind: the packets handed to `addPacket` in order, how the loop ended
(`.more`: `return nil`; `.err e`: `return err`; `.panic w`: the goroutine panics), the header
parked in `conn.qctx`, the ring.
(The same tuple type as `drainRing`'s result in OAP/Proofs/Stream.lean.) -/
abbrev RPOut := List Packet × SRes × Option Header × Ring

/-- the loop of `readPacket` with `fuel` calls of `Unpack` left -/
def readPacketLoop (v : Ver) (gz : GzOracle) (codec : UInt8) : Nat → Option Header → Ring → RPOut
  | 0, pend, rb => ([], (.panic "readPacket: out of fuel", pend, rb))   -- unreachable: `readPacket_eq_drainRing`
  | fuel + 1, pend, rb =>
    let o := unpackRing v gz codec pend rb
    match o.res with
    | .pkt k =>                                       -- done: addPacket(packet), next iteration
      let r := readPacketLoop v gz codec fuel o.pend o.rb
      (k :: r.1, r.2)
    | s => ([], (s, o.pend, o.rb))                    -- !done → break; err → return err

/-- `conn.readPacket(buf)` with the context holding `pend` -/
def readPacket (v : Ver) (gz : GzOracle) (codec : UInt8) (pend : Option Header) (rb : Ring) : RPOut :=
  readPacketLoop v gz codec (rb.length + 2) pend rb

/-- the reader goroutine's state -/
structure RSt where
  /-- `conn.readBuf`: the left-over ring -/
  readBuf : Ring
  /-- the header parked in `conn.qctx` -/
  pend : Option Header := none
  /-- the packets handed to `addPacket` so far, oldest first -/
  pkts : List Packet := []
  /-- `some e`: `readPacket` failed with `e`, `conn.Close(err)` was called and the goroutine returned -/
  stopped : Option SRes := none

/-- which branch a socket read takes (for the examples) -/
inductive Path where
  | returned   -- the goroutine has returned already
  | skip       -- n == 0 → continue
  | fast       -- readBuf empty: decode the chunk in place
  | slow       -- write behind the left-over
  deriving Repr, DecidableEq

def pathOf (s : RSt) (chunk : Bytes) : Path :=
  match s.stopped with
  | some _ => .returned
  | none =>
    if chunk.length = 0 then .skip
    else if s.readBuf.length = 0 then .fast else .slow

/-- one iteration of the `for` loop of `reading` in which `conn.conn.Read` returned `chunk` -/
def readStep (v : Ver) (gz : GzOracle) (codec : UInt8) (s : RSt) (chunk : Bytes) : RSt :=
  match s.stopped with
  | some _ => s                                            -- the goroutine has returned
  | none =>
    if chunk.length = 0 then s                             -- n == 0 → continue
    else if s.readBuf.length = 0 then
      -- fast path: buffer := ringbuffer.NewWithData(conn.buf[:n])
      let buffer := Ring.newWithData chunk
      let o := readPacket v gz codec s.pend buffer
      match o.2.1 with
      | .more =>                                           -- readPacket returned nil
        let buffer := o.2.2.2
        { readBuf := if buffer.length > 0 then s.readBuf.write buffer.peekAll.1   -- first, _ := buffer.PeekAll()
                     else s.readBuf,
          pend := o.2.2.1, pkts := s.pkts ++ o.1, stopped := none }
      | e =>                                               -- conn.Close(err); return
        { readBuf := s.readBuf, pend := o.2.2.1, pkts := s.pkts ++ o.1, stopped := some e }
    else
      -- slow path: conn.readBuf.Write(conn.buf[:n]); readPacket(conn.readBuf)
      let o := readPacket v gz codec s.pend (s.readBuf.write chunk)
      { readBuf := o.2.2.2, pend := o.2.2.1, pkts := s.pkts ++ o.1,
        stopped := if o.2.1 = .more then none else some o.2.1 }

/-- the reader goroutine over the successive results of `conn.conn.Read`, from `conn.readBuf = rb0`
(`dialTCPConn`: `ringbuffer.New(o.ReadBufferSize)`, i.e. `Ring.new cap`) and a fresh context -/
def reading (v : Ver) (gz : GzOracle) (codec : UInt8) (rb0 : Ring) (chunks : List Bytes) : RSt :=
  chunks.foldl (readStep v gz codec) { readBuf := rb0 }

/-- what the rest of the client sees: the packets delivered, in order, and the error verdict -/
def RSt.obs (s : RSt) : List Packet × Option SRes := (s.pkts, s.stopped)

end OAP.Reading
