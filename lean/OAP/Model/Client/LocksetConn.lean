/-
C17, connection types (tcpConn, wsConn, closeCallback): the access DISCIPLINE over the table regenerated from the source
(`Gen.connAccess`, `Gen.connCalls`, `Gen.connEdges`), and what it implies. Pure list / decidable arguments.

What a ROLE abstracts. A role names the goroutine(s) that can execute a function of ONE connection object:
* `constructor` — before `communicating()` starts the goroutines: the object is reachable from the dialling goroutine only, and
  everything it does happens-before every goroutine of the object (Go memory model: the `go` statement);
* `reader`, `writer`, `dispatcher` — SINGLE goroutines: each is started at exactly one `go` site, which runs at most once per
  object (in a constructor-role function, or in the body of a `sync.Once`) — checked on `Gen.connEdges` by `edgesConsistent` and
  `C17.conn_goroutines`; two accesses made in the same single role are ordered by program order;
* `any` — callers of the API (`Write`, `Close`, `Context`, `OnPacket`, `OnClose`, …) and the helpers they share with the
  goroutines (`closed`, `Close`, `write`): any number of goroutines, concurrently, including the three above.
A function's role is hand-written (`C17.connRoles`); `edgesConsistent` checks it against the call graph of the source: a
function called from a function of another role must be `any`. That the hand-written role of a method VALUE passed to code
outside the package (gorilla's handlers) is right is an assumption, listed with its reason (`C17.connHandlers`).
-/
import OAP.Base
namespace OAP.LocksetConn

inductive Role
  | constructor | reader | writer | dispatcher | any
deriving DecidableEq, Repr

/-- roles that are one goroutine per connection object -/
def Role.single : Role → Bool
  | .reader | .writer | .dispatcher => true
  | _ => false

/-- how a field is protected after construction -/
inductive Disc
  /-- written only by constructor-role functions; afterwards plain reads only -/
  | constructorOnly
  /-- every access after construction is made by the one goroutine of role `r` -/
  | confined (r : Role)
  /-- a channel, `sync.Once` or mutex: after construction only its own synchronised operations (`call`) -/
  | syncObject
  /-- every access after construction holds lock `m` lexically (write mode unless it is a plain read) -/
  | guardedBy (m : String)
  /-- a variable of a method captured by a goroutine that the method starts under a `sync.Once`: bound at entry, never assigned -/
  | onceBeforeStart
  /-- the field is never written after construction; the OBJECT it holds is used through method calls that its documentation
  allows concurrently (net.Conn, *websocket.Conn within the per-method rules, Logger, the stateless Protocol) -/
  | sharedObject
deriving DecidableEq, Repr

structure Acc where
  struct : String
  field : String
  fn : String
  kind : String
  locks : List String
deriving DecidableEq, Repr

def Acc.ofTuple (t : String × String × String × String × List String) : Acc :=
  ⟨t.1, t.2.1, t.2.2.1, t.2.2.2.1, t.2.2.2.2⟩

structure Tables where
  roles : List (String × Role)
  discs : List ((String × String) × Disc)
  /-- accesses exempt from the discipline, each with a hand-written reason -/
  justified : List (Acc × String)

def roleOf (T : Tables) (fn : String) : Option Role := T.roles.lookup fn
def discOf (T : Tables) (s f : String) : Option Disc := T.discs.lookup (s, f)
def isJustified (T : Tables) (a : Acc) : Bool := T.justified.any (fun j => j.1 == a)

def holdsW (a : Acc) (m : String) : Bool := a.locks.contains (m ++ ":W")
def holdsR (a : Acc) (m : String) : Bool := a.locks.contains (m ++ ":R") || holdsW a m

/-- the discipline for an access made by role `r` (not the constructor) -/
def obeysAfter (d : Disc) (r : Role) (a : Acc) : Bool :=
  match d with
  | .constructorOnly => a.kind == "read"
  | .confined r' => r'.single && r == r'
  | .syncObject => a.kind == "call"
  | .guardedBy m => if a.kind == "read" then holdsR a m else holdsW a m
  | .onceBeforeStart => a.kind == "read"
  | .sharedObject => a.kind == "read" || a.kind == "call"

/-- an access obeys its field's discipline; an unclassified function or field does NOT -/
def obeys (T : Tables) (a : Acc) : Bool :=
  match roleOf T a.fn, discOf T a.struct a.field with
  | some r, some d => r == .constructor || obeysAfter d r a
  | _, _ => false

def disciplined (T : Tables) (tbl : List Acc) : Bool := tbl.all (fun a => isJustified T a || obeys T a)

/-! ### what the discipline implies -/

/-- same location, not both plain reads (`call` operates on the object held in the field and may change it) -/
def Conflicting (a b : Acc) : Prop :=
  a.struct = b.struct ∧ a.field = b.field ∧ (a.kind ≠ "read" ∨ b.kind ≠ "read")

/-- both after construction, and possibly on different goroutines: different roles, or both in the many-goroutine role -/
def Concurrent (T : Tables) (a b : Acc) : Prop :=
  ∃ ra rb, roleOf T a.fn = some ra ∧ roleOf T b.fn = some rb ∧ ra ≠ .constructor ∧ rb ≠ .constructor ∧
    (ra ≠ rb ∨ ra = .any)

/-- why two conflicting, possibly concurrent accesses are not a data race -/
inductive Ordered (T : Tables) (a b : Acc) : Prop
  /-- both hold the field's guard, the one that is not a plain read in write mode: `Lockset.lockset_sound` orders them -/
  | guard (m : String) : discOf T a.struct a.field = some (.guardedBy m) → holdsR a m = true → holdsR b m = true →
      (holdsW a m = true ∨ holdsW b m = true) → Ordered T a b
  /-- neither writes the field, and the object it holds synchronises its own operations (channel, Once, mutex) or documents
  them as safe to call concurrently (`sharedObject`, within the per-method rules of `callsDisciplined`) -/
  | object : (discOf T a.struct a.field = some .syncObject ∨ discOf T a.struct a.field = some .sharedObject) →
      a.kind ≠ "write" → b.kind ≠ "write" → Ordered T a b
  /-- one of them is exempted by hand, with a reason -/
  | byHand : (isJustified T a = true ∨ isJustified T b = true) → Ordered T a b

theorem holdsR_of_holdsW {a : Acc} {m : String} (h : holdsW a m = true) : holdsR a m = true := by
  simp [holdsR, h]

/-- DISCIPLINE SOUNDNESS: in a table that obeys the discipline, two conflicting accesses that can run on different goroutines
after construction are ordered by a common guard, or are operations on a synchronised / concurrency-safe object that do not
write the field, or one of them is in the justified list. (Constructor accesses are ordered before everything else by `go`;
two accesses of one single-goroutine role by program order: neither pair is `Concurrent`.) -/
theorem disciplined_sound (T : Tables) (tbl : List Acc) (hd : disciplined T tbl = true) (a b : Acc)
    (ha : a ∈ tbl) (hb : b ∈ tbl) (hc : Conflicting a b) (hcc : Concurrent T a b) : Ordered T a b := by
  have hda := List.all_eq_true.mp hd a ha
  have hdb := List.all_eq_true.mp hd b hb
  simp only [Bool.or_eq_true] at hda hdb
  rcases hda with hja | hoa
  · exact .byHand (.inl hja)
  rcases hdb with hjb | hob
  · exact .byHand (.inr hjb)
  obtain ⟨hs, hf, hk⟩ := hc
  obtain ⟨ra, rb, hra, hrb, hnca, hncb, hdiff⟩ := hcc
  unfold obeys at hoa hob
  rw [hra] at hoa
  rw [hrb, ← hs, ← hf] at hob
  cases hdisc : discOf T a.struct a.field with
  | none => simp [hdisc] at hoa
  | some d =>
    simp only [hdisc, Bool.or_eq_true, beq_iff_eq] at hoa hob
    have hoa' : obeysAfter d ra a = true := hoa.resolve_left hnca
    have hob' : obeysAfter d rb b = true := hob.resolve_left hncb
    cases d with
    | constructorOnly =>
      simp only [obeysAfter, beq_iff_eq] at hoa' hob'
      rcases hk with h | h
      · exact absurd hoa' h
      · exact absurd hob' h
    | onceBeforeStart =>
      simp only [obeysAfter, beq_iff_eq] at hoa' hob'
      rcases hk with h | h
      · exact absurd hoa' h
      · exact absurd hob' h
    | confined r =>
      simp only [obeysAfter, Bool.and_eq_true, beq_iff_eq] at hoa' hob'
      obtain ⟨hsingle, hra'⟩ := hoa'
      obtain ⟨_, hrb'⟩ := hob'
      subst hra'; subst hrb'
      rcases hdiff with h | h
      · exact absurd rfl h
      · subst h; simp [Role.single] at hsingle
    | syncObject =>
      simp only [obeysAfter, beq_iff_eq] at hoa' hob'
      refine .object (.inl hdisc) ?_ ?_
      · rw [hoa']; decide
      · rw [hob']; decide
    | sharedObject =>
      simp only [obeysAfter, Bool.or_eq_true, beq_iff_eq] at hoa' hob'
      refine .object (.inr hdisc) ?_ ?_
      · rcases hoa' with h | h <;> rw [h] <;> decide
      · rcases hob' with h | h <;> rw [h] <;> decide
    | guardedBy m =>
      simp only [obeysAfter] at hoa' hob'
      have hRa : holdsR a m = true := by
        split at hoa'
        · exact hoa'
        · exact holdsR_of_holdsW hoa'
      have hRb : holdsR b m = true := by
        split at hob'
        · exact hob'
        · exact holdsR_of_holdsW hob'
      refine .guard m hdisc hRa hRb ?_
      rcases hk with h | h
      · left
        split at hoa'
        · rename_i hr; exact absurd (by simpa using hr) h
        · exact hoa'
      · right
        split at hob'
        · rename_i hr; exact absurd (by simpa using hr) h
        · exact hob'

/-! ### the call graph: roles are consistent with who calls whom -/

/-- (caller, kind, callee); kind = call | go | ref | once:<field> -/
abbrev Edge := String × String × String

/-- `fn` is the function literal handed to `<once>.Do` -/
def isOnceBody (edges : List Edge) (fn : String) : Bool :=
  edges.any (fun e => e.2.2 == fn && e.2.1 != "call" && e.2.1 != "go" && e.2.1 != "ref")

/-- * call / once: the callee runs on the caller's goroutine — it has the caller's role or is `any`;
    * go: the callee is the entry of a single-goroutine role, started by a constructor or inside a `sync.Once` body (at most once);
    * ref: a method value given away — its role is an assumption that must be listed in `handlers`. -/
def edgeOk (T : Tables) (handlers : List (String × String)) (edges : List Edge) (e : Edge) : Bool :=
  match roleOf T e.1, roleOf T e.2.2 with
  | some rc, some re =>
    if e.2.1 == "go" then re.single && (rc == .constructor || isOnceBody edges e.1)
    else if e.2.1 == "ref" then handlers.any (fun h => h.1 == e.2.2)
    else re == .any || re == rc
  | _, _ => false

def edgesConsistent (T : Tables) (handlers : List (String × String)) (edges : List Edge) : Bool :=
  edges.all (edgeOk T handlers edges)

/-! ### operations on the objects held in the fields -/

inductive OpRule
  /-- safe from every goroutine, concurrently -/
  | anyRole
  /-- only the one goroutine of this role (and the constructor) -/
  | only (r : Role)
  /-- only inside the function literal run by this `sync.Once` of the same struct (at most once per object) -/
  | onceBody (once : String)
  /-- only before the goroutines are started -/
  | constructorPhase
deriving DecidableEq, Repr

/-- (struct, field, operation or "*") ↦ rule -/
abbrev CallRules := List ((String × String × String) × OpRule)

def ruleOf (rules : CallRules) (s f op : String) : Option OpRule :=
  match rules.lookup (s, f, op) with
  | some r => some r
  | none => rules.lookup (s, f, "*")

/-- (struct, field, function, operation) obeys the rule of the operation; an operation without a rule does NOT -/
def callOk (T : Tables) (rules : CallRules) (edges : List Edge) (c : String × String × String × String) : Bool :=
  match roleOf T c.2.2.1, ruleOf rules c.1 c.2.1 c.2.2.2 with
  | some r, some rule =>
    match rule with
    | .anyRole => true
    | .only r' => r == .constructor || (r'.single && r == r')
    | .onceBody o => r == .constructor || edges.any (fun e => e.2.2 == c.2.2.1 && e.2.1 == "once:" ++ o)
    | .constructorPhase => r == .constructor
  | _, _ => false

def callsDisciplined (T : Tables) (rules : CallRules) (edges : List Edge) (calls : List (String × String × String × String)) : Bool :=
  calls.all (callOk T rules edges)

/-- operations restricted to one role are made by that one goroutine (or before any goroutine exists): two of them on the
same object are never concurrent — gorilla's "one concurrent reader and one concurrent writer", the streaming decoder's
per-connection state in the Context -/
theorem only_exclusive (T : Tables) (rules : CallRules) (edges : List Edge) (calls : List (String × String × String × String))
    (hd : callsDisciplined T rules edges calls = true) (c : String × String × String × String) (hc : c ∈ calls) (r : Role)
    (hr : ruleOf rules c.1 c.2.1 c.2.2.2 = some (.only r)) :
    roleOf T c.2.2.1 = some .constructor ∨ (roleOf T c.2.2.1 = some r ∧ r.single = true) := by
  have h := List.all_eq_true.mp hd c hc
  unfold callOk at h
  rw [hr] at h
  cases hrole : roleOf T c.2.2.1 with
  | none => simp [hrole] at h
  | some r0 =>
    simp only [hrole, Bool.or_eq_true, Bool.and_eq_true, beq_iff_eq] at h
    rcases h with h | ⟨hs, h⟩
    · left; rw [h]
    · right; exact ⟨by rw [h], hs⟩

end OAP.LocksetConn
