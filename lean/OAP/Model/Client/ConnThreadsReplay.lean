/-
T3 for the ConnThreads view: the connection-level hook log of ONE connection of a real run of the Go client, replayed
through the ConnThreads LTS as a weak trace (same scheme as RecoveryReplay, much smaller).

A hook sits between two statements, i.e. it is something a transition LEAVES PENDING: the role (reader R, writer W,
dispatcher D) cannot move until the event has been consumed from the log.  Everything else is unobserved (τ):

    frontier₀ = {dStart};   frontierₖ₊₁ = dedupe { consume(s', evₖ) | s' ∈ τ-closure(frontierₖ) }

Event ↦ model action
  `conn.read(n)`  (tcp only)     pending after `rReadData k bad` (inRead → decode); k and bad are not in the log: the replay
                                 starts with `rReadData 0 false` and decides LAZILY - "one more frame" rewrites the entry
                                 of the witness to k+1 and takes `rAdd`; "decode error" rewrites it to bad = true.
                                 n = 0 is `continue`: no frame may be added after it.
                                 ws: there is no read hook, `rReadData` is unobserved.
  `conn.addPacket:drop`          pending after an `rAdd` that found packetCh full (`dropped` grows)
  `conn.reader:exit`             pending after any transition that makes `r = exited` (`rTop`, `rCloseTest`, `rCloseOnce`,
                                 the `.rel` step of `body` when R holds the Once)
  `conn.writer:exit`             pending after any transition that makes `w = exited`
  `conn.dispatcher:exit`         pending after `dFinal`
  `conn.write:before-enqueue(g)` the sender goroutine g has passed `conn.closed()`: no model action (`send` is one atomic
                                 step of the model, the hook lies inside it).  The test lies between g's previous event on
                                 this connection and the hook; the most permissive choice is "at once after the previous
                                 event", so g is marked `passed` there iff the close signal is not set in that candidate
                                 (at the beginning: always).  A `before-enqueue` of a goroutine that is not `passed` cannot
                                 be consumed.
                                 A `before-enqueue` of a goroutine that is still between the two hooks: its previous Write
                                 returned "write queue full", model `send` → `rejected`, which needs wq = wcap.  The
                                 WriteQueueSize is not in the log.  If the caller knows it (`wcap = some n`) the refusal is
                                 replayed (`settleRejects`) and the writer's deliveries become part of the search
                                 (`drainSteps`); otherwise the model runs with wcap > number of events and the refusal is
                                 consumed WITHOUT a model step (counted in `queueFullNotReplayed`; the goroutine's new
                                 `closed()` test is still checked).
  `conn.write:enqueued(g, len)`  `send stale` with stale := closeSig of the candidate (a test made before the close),
                                 which must accept (`accepted` grows); g must have logged `before-enqueue`.
Unobserved: `rTop`, `rReadErr`, `rDecoded`, `rAdd` into a queue with room, `rCloseTest`, `rCloseOnce`, all writer and
dispatcher steps that do not exit, `body`, the Close calls of ONE external caller (`xCall 0`, `xCloseTest 0`,
`xCloseOnce 0`: more callers add no behaviour that the hooks can see), `peerSend`, `peerClose`.
Prunings (they only remove interleavings, so they cannot make a log conform that is not a trace; every `ok` is certified by
re-running the witness through `ConnThreads.run`):
  * a transition that leaves a hook pending is taken only if that hook is the role's next logged event;
  * closeSig, sockClosed and peerClosed are monotone, they only disable the reader's way to a read / a drop and only
    enable the ways to the exits: a reader whose next event is a read or a drop runs as early as possible (before anybody
    else), a role whose next event is its exit moves only when that exit is the event to be consumed, the external
    closer only before an exit event, the peer's close only before the reader's exit (see `expand`);
  * frames are added to packetCh only towards a logged drop; the peer sends only into a waiting `Read` that the log needs;
    `peerStall`, short writes, the ticker and the dispatcher's deliveries before the close are never taken (a full packetCh
    only helps), the writer's deliveries only if the WriteQueueSize is known (else the write queue never has to be drained).
-/
import OAP.Model.Client.ConnThreads
namespace OAP.ConnThreadsReplay
open OAP OAP.ConnThreads

inductive Ev
  | read (n : Nat) | drop | before (g : Nat) | enq (g : Nat) (len : Nat) | rexit | wexit | dexit
deriving DecidableEq, Repr

def Ev.name : Ev → String
  | .read n => s!"conn.read({n})" | .drop => "conn.addPacket:drop" | .before g => s!"conn.write:before-enqueue(g{g})"
  | .enq g l => s!"conn.write:enqueued(g{g},{l})" | .rexit => "conn.reader:exit" | .wexit => "conn.writer:exit"
  | .dexit => "conn.dispatcher:exit"

/-- the hook the reader's last transition left pending -/
inductive RPend | none | read | drop | exit
deriving DecidableEq, Repr

structure Cand where
  s : St
  pr : RPend := .none
  pw : Bool := false             -- `conn.writer:exit` pending
  pd : Bool := false             -- `conn.dispatcher:exit` pending
  noFrames : Bool := false       -- the last `conn.read` had n = 0
  passed : List Nat := []        -- sender goroutines whose `closed()` test has returned false
  inSel : List Nat := []         -- sender goroutines between `before-enqueue` and `enqueued`
  retest : List Nat := []        -- those of `inSel` that logged `before-enqueue` while the close signal was not set
  softRejects : Nat := 0         -- Writes that returned "write queue full" (consumed without a model step, see `consume`)
  exR : Bool := false            -- the exit events consumed so far
  exW : Bool := false
  exD : Bool := false
  hist : List Act := []          -- the witness, newest first

def b2n (b : Bool) : Nat := if b then 1 else 0

/-- the goroutine sets are kept as sorted lists (one key per set) -/
def ins (g : Nat) : List Nat → List Nat
  | [] => [g]
  | x :: xs => if g < x then g :: x :: xs else if g == x then x :: xs else x :: ins g xs
def cpcN : CPc → Nat | .test => 0 | .once => 1 | .body => 2
def rKey : RPc → List Nat
  | .top => [0, 0, 0] | .inRead => [1, 0, 0] | .decode k b => [2, k, b2n b] | .close c => [3, cpcN c, 0]
  | .exited => [4, 0, 0]
def wKey : WPc → List Nat
  | .top => [0, 0] | .sel => [1, 0] | .chk => [2, 0] | .inWrite => [3, 0] | .close c => [4, cpcN c] | .exited => [5, 0]
def dKey : DPc → Nat
  | .notStarted => 0 | .sel => 1 | .handling => 2 | .drain => 3 | .drainHandling => 4 | .final => 5 | .exited => 6
def whoN : Who → Nat | .r => 0 | .w => 1 | .x i => 2 + i
def bpcN : BPc → Nat | .sig => 0 | .sock => 1 | .cb => 2 | .rel => 3
def onceKey : Once → List Nat
  | .free => [0, 0, 0] | .held w b => [1, whoN w, bpcN b] | .done => [2, 0, 0]
def xKey : XPc → Nat | .idle => 0 | .close c => 1 + cpcN c
def prN : RPend → Nat | .none => 0 | .read => 1 | .drop => 2 | .exit => 3

/-- everything that can influence the rest of the replay (the unbounded ghost counters enq / delivered / dropped /
    accepted … are left out: they guard nothing) -/
def Cand.key (c : Cand) : List Nat :=
  let s := c.s
  rKey s.r ++ wKey s.w ++ [dKey s.d, xKey (s.ext 0)] ++ onceKey s.once ++
  [b2n s.closeSig, b2n s.sockClosed, s.pq, s.wq, b2n s.wpend, s.avail, b2n s.peerClosed, b2n s.stalled,
   s.sigCloses, s.sockCloses, s.closeCallbacks, s.finalReports,
   prN c.pr, b2n c.pw, b2n c.pd, b2n c.noFrames, b2n c.exR, b2n c.exW, b2n c.exD, c.passed.length, c.inSel.length] ++ c.passed ++ c.inSel ++ c.retest

def hashKey (k : List Nat) : UInt64 :=
  k.foldl (fun h n => (h ^^^ n.toUInt64) * 0x100000001b3) 0xcbf29ce484222325

abbrev Keyed := UInt64 × List Nat
def keyed (c : Cand) : Keyed := let k := c.key; (hashKey k, k)
def seenIn (seen : List Keyed) (k : Keyed) : Bool := seen.any (fun x => x.1 == k.1 && x.2 == k.2)

def addNew (seen : List Keyed) (acc : List Cand) : List Cand → List Keyed × List Cand
  | [] => (seen, acc.reverse)
  | c :: cs =>
    let k := keyed c
    if seenIn seen k then addNew seen acc cs else addNew (k :: seen) (c :: acc) cs

/-- re-tabulate `ext` (only index 0 is used) -/
def Cand.compact (c : Cand) : Cand :=
  let x0 := c.s.ext 0
  { c with s := { c.s with ext := fun i => if i = 0 then x0 else .idle } }

/-! ### what the rest of the log says -/

structure Nx where
  r : Option Ev      -- the reader's next event
  w : Bool           -- the writer's exit is still to come
  d : Bool           -- the dispatcher's exit is still to come
  realW : Bool := false        -- `wcap` is the WriteQueueSize of the run: "write queue full" is replayed (see `settleRejects`)
  rej : List Nat := []         -- realW: the sender goroutines whose next event is `before-enqueue`

def isREv : Ev → Bool | .read _ | .drop | .rexit => true | _ => false
/-- the sender goroutines whose first event in `rest` is `before-enqueue` -/
def nextBefore (rest : List Ev) : List Nat :=
  let rec go (evs : List Ev) (seen acc : List Nat) : List Nat :=
    match evs with
    | [] => acc
    | .before g :: es => if seen.contains g then go es seen acc else go es (g :: seen) (g :: acc)
    | .enq g _ :: es => go es (g :: seen) acc
    | _ :: es => go es seen acc
  go rest [] []

def mkNx (realW : Bool) (rest : List Ev) : Nx :=
  { r := rest.find? isREv, w := rest.contains .wexit, d := rest.contains .dexit, realW := realW,
    rej := if realW then nextBefore rest else [] }

def Nx.isRead (nx : Nx) : Bool := match nx.r with | some (.read _) => true | _ => false
def Nx.isDrop (nx : Nx) : Bool := nx.r == some .drop
def Nx.isRExit (nx : Nx) : Bool := nx.r == some .rexit

/-! ### unobserved steps -/

/-- rewrite the newest `rReadData` of the witness -/
def patchRead (f : Nat → Bool → Act) : List Act → List Act
  | [] => []
  | .rReadData n b :: t => f n b :: t
  | a :: t => a :: patchRead f t

/-- take the model action `a`; the hook it leaves pending must be the role's next logged event -/
def app (cfg : Cfg) (nx : Nx) (c : Cand) (a : Act) : Option Cand :=
  match step cfg c.s a with
  | none => none
  | some s' =>
    let rEx := c.s.r != .exited && s'.r == .exited
    let wEx := c.s.w != .exited && s'.w == .exited
    let dEx := c.s.d != .exited && s'.d == .exited
    let pr : RPend :=
      if rEx then .exit else
      match a with
      | .rReadData _ _ => if cfg.ws then .none else .read
      | .rAdd => if s'.dropped != c.s.dropped then .drop else .none
      | _ => c.pr
    let okR := pr == c.pr || (match pr with
      | .none => true | .read => nx.isRead | .drop => nx.isDrop | .exit => nx.isRExit)
    if !okR || (wEx && !nx.w) || (dEx && !nx.d) then none else
    some { c with s := s', pr := pr, pw := c.pw || wEx, pd := c.pd || dEx, hist := a :: c.hist }

def holderIs (s : St) (w : Who) : Bool := match s.once with | .held w' _ => w' == w | _ => false

def readerSteps (cfg : Cfg) (nx : Nx) (c : Cand) : List Cand :=
  if c.pr != .none || nx.r.isNone then [] else
  let s := c.s
  let plain : List Act :=
    [.rTop, .rDecoded, .rCloseTest, .rCloseOnce] ++
    (if nx.isRExit then [.rReadErr] else []) ++
    (if (if cfg.ws then nx.isDrop else nx.isRead) then [.rReadData 0 false] else []) ++
    (if holderIs s .r then [Act.body] else [])
  let lazy : List Cand :=
    match s.r with
    | .decode 0 false =>
      (if nx.isDrop && !c.noFrames then
        -- one more frame in the chunk read last
        let c1 := { c with s := { s with r := .decode 1 false }, hist := patchRead (fun n b => .rReadData (n + 1) b) c.hist }
        (app cfg nx c1 .rAdd).toList
       else []) ++
      (if nx.isRExit then
        -- the chunk read last does not decode
        let c1 := { c with s := { s with r := .decode 0 true }, hist := patchRead (fun n _ => .rReadData n true) c.hist }
        (app cfg nx c1 .rDecoded).toList
       else [])
    | _ => []
  plain.filterMap (app cfg nx c) ++ lazy

def writerSteps (cfg : Cfg) (nx : Nx) (c : Cand) : List Cand :=
  if c.pw || !nx.w then [] else
  (([Act.wTop, .wSelClose, .wChk, .wWriteErr, .wCloseTest, .wCloseOnce] : List Act) ++
    (if holderIs c.s .w then [Act.body] else [])).filterMap (app cfg nx c)

def dispSteps (cfg : Cfg) (nx : Nx) (c : Cand) : List Cand :=
  if c.pd || !nx.d then [] else
  [Act.dSelClose, .dHandled, .dDrain, .dFinal].filterMap (app cfg nx c)

/-- the peer sends into a waiting `Read` that the log needs -/
def peerSteps (cfg : Cfg) (nx : Nx) (c : Cand) : List Cand :=
  let s := c.s
  let acts : List Act :=
    if s.r == RPc.inRead && s.avail == 0 && !s.sockClosed && c.pr == RPend.none &&
        (nx.isDrop || (!cfg.ws && nx.isRead)) then [Act.peerSend] else []
  acts.filterMap (app cfg nx c)

/-- the external caller of Close, and the peer's close under a reader that is about to leave -/
def closeSteps (cfg : Cfg) (nx : Nx) (e : Ev) (c : Cand) : List Cand :=
  let s := c.s
  let acts : List Act :=
    (if !s.closeSig && s.once == Once.free && s.ext 0 == XPc.idle then [Act.xCall 0] else []) ++
    [Act.xCloseTest 0, Act.xCloseOnce 0] ++
    (if holderIs s (Who.x 0) then [Act.body] else []) ++
    (if e == Ev.rexit && s.r == RPc.inRead && !s.peerClosed && !s.closeSig then [Act.peerClose] else [])
  acts.filterMap (app cfg nx c)

def isExitEv : Ev → Bool | .rexit | .wexit | .dexit => true | _ => false
def isSendEv : Ev → Bool | .before _ | .enq _ _ => true | _ => false

/-- realW: a sender between its two hooks whose next event is another `before-enqueue` got "write queue full"
    (`send` → `rejected`: needs wq = wcap) and passed `closed()` again (needs the signal not set).  Whenever both hold the
    step is taken at once: it changes nothing but the ghost counter, and waiting can only lose the chance. -/
def settleRejects (cfg : Cfg) (nx : Nx) (c : Cand) : Cand :=
  if !nx.realW || c.s.closeSig || c.s.wq < cfg.wcap then c else
  c.inSel.foldl (fun c g =>
    if !nx.rej.contains g then c else
    match step cfg c.s (.send false) with
    | some s' =>
      if s'.rejected != c.s.rejected + 1 then c else
      { c with s := s', hist := Act.send false :: c.hist, inSel := c.inSel.erase g, retest := c.retest.erase g,
               passed := ins g c.passed }
    | none => c) c

/-- realW: the writer takes one frame from writeCh and writes it (`wTop` (tcp), `wSelRecv`, `wChk` (ws), `wWriteOk`) as
    ONE step: where the writer stands in between matters to nobody (from every one of these pcs it leaves after a close).
    Deliveries commute with everything but the senders' steps and the close: they are taken only before those. -/
def drainSteps (cfg : Cfg) (nx : Nx) (e : Ev) (c : Cand) : List Cand :=
  if !nx.realW || c.pw || c.s.wq == 0 || !(isSendEv e || isExitEv e) then [] else
  let acts : List Act := if cfg.ws then [.wSelRecv, .wChk, .wWriteOk false] else [.wTop, .wSelRecv, .wWriteOk false]
  (acts.foldl (fun (oc : Option Cand) a => oc.bind (fun c => app cfg nx c a)) (some c)).toList

/-- One unobserved step, `e` being the event to be consumed next.  Reduction (closeSig, sockClosed, peerClosed are
    monotone; they only DISABLE the reader's way to a read or a drop and only ENABLE the ways to the exits):
      * a reader whose next event is a read or a drop runs as early as possible and before anybody else;
      * the steps towards an exit, the Close of the external caller and the peer's close are taken as late as possible:
        only when `e` is that exit (the closer: any exit). -/
def expand (cfg : Cfg) (nx : Nx) (e : Ev) (c : Cand) : List Cand :=
  let eagerR := nx.isRead || nx.isDrop
  let rs := if eagerR || e == Ev.rexit then readerSteps cfg nx c ++ peerSteps cfg nx c else []
  if eagerR && !rs.isEmpty then rs else
  (rs ++ (if e == Ev.wexit then writerSteps cfg nx c else []) ++ (if e == Ev.dexit then dispSteps cfg nx c else []) ++
   (if isExitEv e then closeSteps cfg nx e c else []) ++ drainSteps cfg nx e c).map (settleRejects cfg nx)

/-- τ-closure, breadth first, at most `fuel` levels and `cap` states -/
def closure (cfg : Cfg) (nx : Nx) (e : Ev) (cap : Nat) : Nat → List Keyed → List Cand → List Cand → List Cand
  | 0, _, all, _ => all
  | fuel + 1, seen, all, level =>
    if level.isEmpty ∨ all.length ≥ cap then all else
    let (seen', fresh) := addNew seen [] (level.flatMap (expand cfg nx e))
    closure cfg nx e cap fuel seen' (all ++ fresh) fresh

/-! ### consuming one logged event -/

def consume (cfg : Cfg) (realW : Bool) (c : Cand) : Ev → List Cand
  | .read n => if c.pr == .read then [{ c with pr := .none, noFrames := n == 0 }] else []
  | .drop => if c.pr == .drop then [{ c with pr := .none }] else []
  | .rexit => if c.pr == .exit && !c.exR then [{ c with pr := .none, exR := true }] else []
  | .wexit => if c.pw && !c.exW then [{ c with pw := false, exW := true }] else []
  | .dexit => if c.pd && !c.exD then [{ c with pd := false, exD := true }] else []
  | .before g =>
    let rt := if c.s.closeSig then c.retest.erase g else if c.retest.contains g then c.retest else ins g c.retest
    if c.inSel.contains g then
      -- g's previous Write returned "write queue full" (model: `send` → `rejected`, which needs wq = wcap; the real
      -- WriteQueueSize is not in the log and the replay runs with a generous one, so NO model step is taken) and g has
      -- passed `closed()` again: possible iff the signal was not yet set when the previous `before-enqueue` was logged
      -- (closeSig is monotone)
      if !realW && c.retest.contains g then [{ c with retest := rt, softRejects := c.softRejects + 1 }] else []
    else if c.passed.contains g then [{ c with passed := c.passed.erase g, inSel := ins g c.inSel, retest := rt }]
    else []
  | .enq g _ =>
    if !c.inSel.contains g then [] else
    let a := Act.send c.s.closeSig
    match step cfg c.s a with
    | none => []
    | some s' =>
      if s'.accepted != c.s.accepted + 1 then [] else
      [{ c with s := s', hist := a :: c.hist, inSel := c.inSel.erase g, retest := c.retest.erase g,
                passed := if s'.closeSig then c.passed else ins g c.passed }]

/-! ### executable consequences of the invariant (`WInv`, `exited_stays_exited`), checked on every candidate -/

def invViolation (cfg : Cfg) (c : Cand) : Option String :=
  let s := c.s
  if s.sigCloses > 1 then some "close(closeCh) twice"
  else if s.sockCloses > 1 then some "socket closed twice"
  else if s.closeCallbacks > 1 then some "close callbacks twice"
  else if s.finalReports > 1 then some "final report twice"
  else if s.dStarts > 1 then some "two dispatchers"
  else if s.pq > cfg.pcap then some "packetCh above its capacity"
  else if s.wq > cfg.wcap then some "writeCh above its capacity"
  else if s.enq != s.pq + s.delivered then some "packet accounting"
  else if s.closeSig != sigDone s.once then some "closeSig ≠ sigDone once"
  else if s.sockClosed != sockDone s.once then some "sockClosed ≠ sockDone once"
  else if c.exR && s.r != .exited then some "reader left exited"
  else if c.exW && s.w != .exited then some "writer left exited"
  else if c.exD && s.d != .exited then some "dispatcher left exited"
  else if s.finalReports != (if s.d == .exited then 1 else 0) then some "final report ≠ dispatcher exited"
  else none

/-! ### the replay -/

def showState (c : Cand) : String :=
  let s := c.s
  s!"r={repr s.r} w={repr s.w} d={repr s.d} ext0={repr (s.ext 0)} once={repr s.once} closeSig={s.closeSig} " ++
  s!"sockClosed={s.sockClosed} peerClosed={s.peerClosed} pq={s.pq} wq={s.wq} avail={s.avail} pendR={repr c.pr} " ++
  s!"pendW={c.pw} pendD={c.pd} passed={c.passed} inSelect={c.inSel} queueFullNotReplayed={c.softRejects}"

inductive ReplayResult
  | ok (events : Nat) (maxFrontier : Nat) (maxClosure : Nat) (acts : List Act) (final : String)
  | diverges (k : Nat) (e : Ev) (state : String)
  | broken (k : Nat) (what : String)
  | uncertified (k : Nat)

def closureFuel : Nat := 64
def closureCap : Nat := 2048
def frontierCap : Nat := 512

def replayFrom (cfg : Cfg) (realW : Bool) : List Cand → Nat → Nat → Nat → List Ev → ReplayResult
  | front, k, mf, mc, [] =>
    match front with
    | [] => .broken k "empty frontier"
    | c :: _ => .ok k mf mc c.hist.reverse (showState c)
  | front, k, mf, mc, e :: rest =>
    let nx := mkNx realW (e :: rest)
    let (seen, lvl0) := addNew [] [] (front.map (settleRejects cfg nx))
    let cl := closure cfg nx e closureCap closureFuel seen lvl0 lvl0
    let (_, next) := addNew [] [] (cl.flatMap (fun c => (consume cfg realW c e).map (settleRejects cfg (mkNx realW rest))))
    match next with
    | [] =>
      match front with
      | c :: _ => .diverges k e (showState c)
      | [] => .broken k "empty frontier"
    | _ =>
      match (cl ++ next).findSome? (invViolation cfg) with
      | some w => .broken k w
      | none =>
        let next := (next.take frontierCap).map Cand.compact
        replayFrom cfg realW next (k + 1) (max mf next.length) (max mc cl.length) rest

/-- the senders whose first event is `before-enqueue` (their test may have been made at the very beginning) -/
def firstBefore (evs : List Ev) : List Nat :=
  let rec go (evs : List Ev) (seen acc : List Nat) : List Nat :=
    match evs with
    | [] => acc.reverse
    | .before g :: es => if seen.contains g then go es seen acc else go es (g :: seen) (g :: acc)
    | .enq g _ :: es => go es (g :: seen) acc
    | _ :: es => go es seen acc
  go evs [] []

/-- queue sizes: `pcap` as given (a drop needs a full packetCh); `wcap`: the WriteQueueSize of the run if known
    (`some n`: "write queue full" is replayed as `send` → `rejected`), else above the number of logged enqueues -/
def mkCfg (ws : Bool) (pcap : Nat) (wcap : Option Nat) (evs : List Ev) : Cfg :=
  { pcap := pcap, wcap := wcap.getD (evs.length + 1), ws := ws }

def certify (cfg : Cfg) (acts : List Act) : Option St := run cfg (init cfg) acts

def replay (ws : Bool) (pcap : Nat) (wcap : Option Nat) (evs : List Ev) : ReplayResult :=
  let cfg := mkCfg ws pcap wcap evs
  match step cfg (init cfg) .dStart with
  | none => .broken 0 "dStart"
  | some s0 =>
    match replayFrom cfg wcap.isSome [{ s := s0, passed := (firstBefore evs).foldl (fun l g => ins g l) [], hist := [.dStart] }] 0 1 1 evs with
    | .ok k mf mc acts fin => if (certify cfg acts).isSome then .ok k mf mc acts fin else .uncertified k
    | r => r

/-- whatever the search did: an `ok` comes with a run of the ConnThreads LTS from `init`, so every theorem of
    ConnThreads.lean about `run cfg (init cfg) acts = some s` applies to the witness -/
theorem replay_ok_reachable (ws : Bool) (pcap : Nat) (wcap : Option Nat) (evs : List Ev) (k mf mc : Nat)
    (acts : List Act) (fin : String) (h : replay ws pcap wcap evs = .ok k mf mc acts fin) :
    ∃ s, run (mkCfg ws pcap wcap evs) (init (mkCfg ws pcap wcap evs)) acts = some s := by
  unfold replay at h
  simp only at h
  split at h
  · cases h
  · split at h
    · split at h
      · rename_i hc
        cases h
        cases hr : certify (mkCfg ws pcap wcap evs) acts with
        | none => simp [hr] at hc
        | some s => exact ⟨s, hr⟩
      · cases h
    · rename_i hne
      exact absurd h (by
        intro h'
        exact hne k mf mc acts fin h')

/-! ### build-time regression checks -/

def isOk : ReplayResult → Bool | .ok .. => true | _ => false
def divergesAt : ReplayResult → Option Nat | .diverges k .. => some k | _ => none

/-- a dial, one request, three chunks read, user Close -/
def demoLog : List Ev :=
  [.before 7, .enq 7 2, .read 2, .before 7, .enq 7 30, .read 40, .read 12, .rexit, .wexit, .dexit]

#guard isOk (replay false 4 none demoLog)
#guard isOk (replay true 4 none [.before 7, .enq 7 2, .drop, .drop, .wexit, .rexit, .dexit])
#guard isOk (replay false 2 none [.read 100, .drop, .drop, .read 0, .read 5, .drop, .dexit, .rexit])
-- no frame in an empty chunk
#guard divergesAt (replay false 2 none [.read 100, .drop, .read 0, .drop]) == some 3
-- a read after the reader's exit
#guard divergesAt (replay false 4 none (demoLog ++ [.read 3])) == some 10
-- two exits of the writer
#guard divergesAt (replay false 4 none (demoLog ++ [.wexit])) == some 10
-- the dispatcher leaves first: the close signal is set from the start, the sender's second Write cannot pass its test
#guard divergesAt (replay false 4 none (.dexit :: demoLog)) == some 4
-- a sender that starts a new Write after one that it completed after the writer had left (the close signal was set)
-- (the first `before-enqueue` after the exit is fine: the hook may be logged long after the test)
#guard divergesAt (replay false 4 none [.before 7, .enq 7 2, .wexit, .before 7, .enq 7 2, .before 7]) == some 5
-- … but a Write whose test was made before the close may still enqueue
#guard isOk (replay false 4 none [.before 7, .wexit, .rexit, .dexit, .enq 7 2])
-- "write queue full" and a new Write of the same goroutine; not after the close signal
#guard isOk (replay false 4 none [.before 7, .before 7, .enq 7 2])
#guard divergesAt (replay false 4 none [.before 7, .enq 7 2, .wexit, .before 7, .before 7]) == some 4
-- the same with WriteQueueSize = 1 known: the queue must be full for the refusal (the writer may or may not have taken the
-- first frame), and the third Write needs the writer to have taken one
#guard isOk (replay false 4 (some 1) [.before 7, .before 8, .enq 7 2, .before 8, .enq 8 2, .before 9, .enq 9 2])
#guard divergesAt (replay false 4 (some 1) [.before 7, .before 7, .enq 7 2]) == some 1
-- after the writer has left nobody makes room
#guard divergesAt (replay false 4 (some 1) [.before 7, .before 8, .before 9, .enq 7 2, .wexit, .enq 8 2, .enq 9 2]) == some 6
-- `enqueued` without `before-enqueue`
#guard divergesAt (replay false 4 none [.enq 7 2]) == some 0

end OAP.ConnThreadsReplay
