/-
Prototype slice of the Lifecycle view (DESIGN.md Appendix B): Close vs re-dial.
Threads: any number of Close callers, any number of retry goroutines doing `dial`
(single-flight is a separate invariant), readers-writer lock `mu`, the close signal, close Once.
Proved for every interleaving: the close callback runs at most once, and no dial succeeds
after a Close call has returned (L1 and the connection-attempt half of L7).
(view of the repaired client; model and its invariant proofs; imported from the round-0 prototype)
-/
import OAP.Base
namespace OAP.CloseSlice
open OAP

inductive Once | free | held (t : Nat) | done
deriving DecidableEq, Repr

/-- program counter of a `Close` caller -/
inductive CPc
  | start        -- before closeOnce.Do
  | signal       -- inside Once: about to close(closeCh)
  | wantR        -- about to RLock
  | inR          -- holding the read lock: closes the current conn
  | cb           -- read lock released: about to run the callback
  | finish       -- about to leave the Once
  | ret          -- Close has returned
deriving DecidableEq, Repr

/-- program counter of a retry goroutine inside `dial` -/
inductive DPc
  | idle         -- outside dial
  | wantW        -- about to Lock
  | check        -- holding the write lock: about to test the close signal
  | dialing      -- holding the write lock, signal seen open: dialer running
  | unlock       -- about to Unlock
deriving DecidableEq, Repr

structure St where
  closedSig : Bool
  closeOnce : Once
  onCloseCalls : Nat
  readers : Nat
  writer : Bool
  closer : Nat → CPc
  dialer : Nat → DPc
  anyReturned : Bool          -- ghost: some Close call has returned
  dialsAfterReturn : Nat      -- ghost: successful dials while some Close had returned

def upd {α} (f : Nat → α) (k : Nat) (v : α) : Nat → α := fun x => if x = k then v else f x
@[simp] theorem upd_same {α} (f : Nat → α) k v : upd f k v k = v := by simp [upd]
@[simp] theorem upd_other {α} (f : Nat → α) k v x (h : x ≠ k) : upd f k v x = f x := by simp [upd, h]

inductive Act
  | c (t : Nat)                 -- a Close caller takes its next step
  | d (t : Nat) (ok : Bool)     -- a dialer takes its next step (ok = environment's dial outcome)

def step (s : St) : Act → Option St
  | .c t =>
    match s.closer t with
    | .start =>
      match s.closeOnce with
      | .free => some { s with closeOnce := .held t, closer := upd s.closer t .signal }
      | .done => some { s with closer := upd s.closer t .ret, anyReturned := true }
      | .held _ => none                                         -- blocks until the holder is done
    | .signal => some { s with closedSig := true, closer := upd s.closer t .wantR }
    | .wantR => if s.writer then none else some { s with readers := s.readers + 1, closer := upd s.closer t .inR }
    | .inR => some { s with readers := s.readers - 1, closer := upd s.closer t .cb }
    | .cb => some { s with onCloseCalls := s.onCloseCalls + 1, closer := upd s.closer t .finish }
    | .finish => some { s with closeOnce := .done, closer := upd s.closer t .ret, anyReturned := true }
    | .ret => none
  | .d t ok =>
    match s.dialer t with
    | .idle => some { s with dialer := upd s.dialer t .wantW }
    | .wantW => if s.writer ∨ s.readers ≠ 0 then none else some { s with writer := true, dialer := upd s.dialer t .check }
    | .check => if s.closedSig then some { s with dialer := upd s.dialer t .unlock }
                else some { s with dialer := upd s.dialer t .dialing }
    | .dialing =>
        some { s with dialer := upd s.dialer t .unlock,
                      dialsAfterReturn := if ok && s.anyReturned then s.dialsAfterReturn + 1 else s.dialsAfterReturn }
    | .unlock => some { s with writer := false, dialer := upd s.dialer t .idle }

def init : St :=
  { closedSig := false, closeOnce := .free, onCloseCalls := 0, readers := 0, writer := false,
    closer := fun _ => .start, dialer := fun _ => .idle, anyReturned := false, dialsAfterReturn := 0 }

def run : St → List Act → Option St
  | s, [] => some s
  | s, a :: as => (step s a).bind (fun s' => run s' as)

/-- a Close caller is inside the Once body -/
def inBody : CPc → Prop
  | .signal | .wantR | .inR | .cb | .finish => True
  | _ => False

def holdsW : DPc → Prop
  | .check | .dialing | .unlock => True
  | _ => False

/-- the invariant -/
structure LInv (s : St) : Prop where
  -- Once discipline
  onceHeld : ∀ t, inBody (s.closer t) ↔ s.closeOnce = .held t
  retDone : ∀ t, s.closer t = .ret → s.closeOnce = .done
  callsFree : s.closeOnce = .free → s.onCloseCalls = 0
  callsHeld : ∀ t, s.closeOnce = .held t → s.onCloseCalls = (if s.closer t = .finish then 1 else 0)
  callsDone : s.closeOnce = .done → s.onCloseCalls = 1
  retIff : s.anyReturned = true → s.closeOnce = .done
  doneRet : s.closeOnce = .done → ∃ t, s.closer t = .ret
  -- signal
  sigSet : s.closedSig = false → ∀ t, s.closer t = .start ∨ s.closer t = .signal
  -- lock
  wExcl : s.writer = true → s.readers = 0 ∧ ∀ t, s.closer t ≠ .inR
  wHeld : ∀ t, holdsW (s.dialer t) → s.writer = true
  rdHeld : ∀ t, s.closer t = .inR → 0 < s.readers
  wUniq : ∀ t u, holdsW (s.dialer t) → holdsW (s.dialer u) → t = u
  -- the point: while a dialer has seen the signal open, no Close caller is past its read-lock acquisition
  dialing : ∀ t, s.dialer t = .dialing → ∀ u, s.closer u = .start ∨ s.closer u = .signal ∨ s.closer u = .wantR
  ghost : s.dialsAfterReturn = 0

theorem inv_init : LInv init := by
  constructor <;> simp [init, inBody, holdsW]

/-- helper: case split on whether an index is the acting thread -/
theorem upd_cases {α} (f : Nat → α) (k : Nat) (v : α) (x : Nat) :
    (x = k ∧ upd f k v x = v) ∨ (x ≠ k ∧ upd f k v x = f x) := by
  by_cases h : x = k
  · left; exact ⟨h, by simp [h]⟩
  · right; exact ⟨h, by simp [h]⟩

theorem inv_step_c_start_free (s : St) (t : Nat) (h : LInv s) (hpc : s.closer t = .start) (ho : s.closeOnce = .free) :
    LInv { s with closeOnce := .held t, closer := upd s.closer t .signal } := by
  have nobody : ∀ u, ¬ inBody (s.closer u) := fun u hb => by
    have := (h.onceHeld u).mp hb; rw [ho] at this; cases this
  constructor
  · intro u
    rcases upd_cases s.closer t .signal u with ⟨rfl, e⟩ | ⟨hne, e⟩
    · simp [e, inBody]
    · simp only [e]
      constructor
      · intro hb; exact absurd hb (nobody u)
      · intro he; simp at he; exact absurd he.symm hne
  · intro u hu
    rcases upd_cases s.closer t .signal u with ⟨rfl, e⟩ | ⟨hne, e⟩
    · simp [e] at hu
    · simp only [e] at hu; have := h.retDone u hu; rw [ho] at this; cases this
  · intro hf; cases hf
  · intro u hu
    simp at hu; subst hu
    simp [h.callsFree ho]
  · intro hd; cases hd
  · intro hr; have := h.retIff hr; rw [ho] at this; cases this
  · intro hd; cases hd
  · intro hsig u
    rcases upd_cases s.closer t .signal u with ⟨rfl, e⟩ | ⟨hne, e⟩
    · simp [e]
    · simp only [e]; exact h.sigSet hsig u
  · intro hw
    refine ⟨(h.wExcl hw).1, ?_⟩
    intro u
    rcases upd_cases s.closer t .signal u with ⟨rfl, e⟩ | ⟨hne, e⟩
    · simp [e]
    · simp only [e]; exact (h.wExcl hw).2 u
  · exact h.wHeld
  · intro u hu
    rcases upd_cases s.closer t .signal u with ⟨rfl, e⟩ | ⟨hne, e⟩
    · simp [e] at hu
    · simp only [e] at hu; exact h.rdHeld u hu
  · exact h.wUniq
  · intro d hd u
    rcases upd_cases s.closer t .signal u with ⟨rfl, e⟩ | ⟨hne, e⟩
    · simp [e]
    · simp only [e]; exact h.dialing d hd u
  · exact h.ghost

-- experiment: how far does automation go on the same case?
theorem inv_step_c_start_free' (s : St) (t : Nat) (h : LInv s) (hpc : s.closer t = .start) (ho : s.closeOnce = .free) :
    LInv { s with closeOnce := .held t, closer := upd s.closer t .signal } := by
  obtain ⟨h1, h2, h3, h4, h5, h6, h7, h8, h9, h10, h10b, h10c, h11, h12⟩ := h
  constructor <;> simp only [upd] <;> intros <;> grind [inBody, holdsW]

theorem inv_step (s s' : St) (a : Act) (h : LInv s) (hs : step s a = some s') : LInv s' := by
  obtain ⟨h1, h2, h3, h4, h5, h6, h7, h8, h9, h10, h10b, h10c, h11, h12⟩ := h
  cases a with
  | c t =>
    simp only [step] at hs
    split at hs
    · split at hs <;> simp only [Option.some.injEq, reduceCtorEq] at hs <;> subst hs <;>
        constructor <;> simp only [upd] <;> intros <;> grind [inBody, holdsW]
    · simp only [Option.some.injEq] at hs; subst hs
      constructor <;> simp only [upd] <;> intros <;> grind [inBody, holdsW]
    · split at hs <;> simp only [Option.some.injEq, reduceCtorEq] at hs <;> subst hs <;>
        constructor <;> simp only [upd] <;> intros <;> grind [inBody, holdsW]
    · simp only [Option.some.injEq] at hs; subst hs
      constructor <;> simp only [upd] <;> intros <;> grind [inBody, holdsW]
    · simp only [Option.some.injEq] at hs; subst hs
      constructor <;> simp only [upd] <;> intros <;> grind [inBody, holdsW]
    · simp only [Option.some.injEq] at hs; subst hs
      constructor <;> simp only [upd] <;> intros <;> grind [inBody, holdsW]
    · simp at hs
  | d t ok =>
    simp only [step] at hs
    split at hs
    · simp only [Option.some.injEq] at hs; subst hs
      constructor <;> simp only [upd] <;> intros <;> grind [inBody, holdsW]
    · split at hs <;> simp only [Option.some.injEq, reduceCtorEq] at hs <;> subst hs <;>
        constructor <;> simp only [upd] <;> intros <;> grind [inBody, holdsW]
    · split at hs <;> simp only [Option.some.injEq, reduceCtorEq] at hs <;> subst hs <;>
        constructor <;> simp only [upd] <;> intros <;> grind [inBody, holdsW]
    · simp only [Option.some.injEq] at hs; subst hs
      constructor <;> simp only [upd] <;> intros <;> grind [inBody, holdsW]
    · simp only [Option.some.injEq] at hs; subst hs
      constructor <;> simp only [upd] <;> intros <;> grind [inBody, holdsW]

theorem inv_run (acts : List Act) : ∀ s s', LInv s → run s acts = some s' → LInv s' := by
  induction acts with
  | nil => intro s s' h hr; simp [run] at hr; subst hr; exact h
  | cons a as ih =>
    intro s s' h hr
    simp only [run] at hr
    cases hst : step s a with
    | none => simp [hst] at hr
    | some s1 => simp [hst] at hr; exact ih s1 s' (inv_step s s1 a h hst) hr

/-- L1: in every interleaving of any number of Close callers, the close callback runs at most once -/
theorem on_close_at_most_once (acts : List Act) (s : St) (h : run init acts = some s) : s.onCloseCalls ≤ 1 := by
  have i := inv_run acts init s inv_init h
  cases ho : s.closeOnce with
  | free => rw [i.callsFree ho]; omega
  | held t => rw [i.callsHeld t ho]; split <;> omega
  | done => rw [i.callsDone ho]; omega

/-- L7 (connection attempts): in every interleaving, no dial succeeds after a Close call has returned -/
theorem no_dial_after_close_returned (acts : List Act) (s : St) (h : run init acts = some s) :
    s.dialsAfterReturn = 0 :=
  (inv_run acts init s inv_init h).ghost

end OAP.CloseSlice
