/-
Pool view: N concurrent calls over ONE shared `sync.Pool`, as a small-step interleaving model (C10 `pool_exclusive`,
C11 `concurrent_isolated`). Generic in the pooled object; the instances (gzip writer pool, gzip reader pool, v1/v2
header pool) are in `OAP.Model.PoolGzip` and `OAP.Model.PoolHeader`.

Go code mirrored (go/gzip/gzip.go, go/v1/header.go, go/v2/v2_header.go): every user of a pool runs the same
straight-line program

    z := pool.Get()          get     the pool hands out SOME pooled object, or — when it is empty, or when the caller's
                                     per-P cache misses although another P's cache holds objects — a NEW one (`New`)
    z.Reset(input)           reset   gzip.Writer.Reset(w) / gzip.Reader.Reset(r) / the field resets of headerPool.Get
    z.Write / z.Read / h.f = use     zero or more steps that read and write ONLY the object the caller holds
    … return f(z)            finish  the call's result is computed from the object's state, and the object is put back
    pool.Put(z)                      (`defer z.pool.Put(z)`, `Put` on io.EOF, `Put` after a failed Reset) or just dropped
                                     (a reader whose stream ended in an error; a header pool user never drops)

and `sync.Pool` itself may drop any pooled object at any time (`gc`: the victim cache is cleared by the collector).
The streaming decoder keeps ("parks") its header in the connection's Context between two `Unpack` calls while a
frame is incomplete: `park` / `resume` — the thread keeps the object, nothing else happens.

Model. Objects have an identity (`Nat`) and a mutable state `σ`; the pool is a LIST of identities (a list, not a
set, so that a double `Put` is expressible: see `double_put_breaks`); `next` is the allocation counter of `New`.
A thread's pc records the object it holds, the input of its call and the arguments of the `use` steps it has made so far.
Steps of different threads interleave arbitrarily: the action names the thread.

What is assumed (= what the theorems trust):
  * `sync.Pool` semantics: `Get` returns an object that was `Put` and not handed out since, or a NEW one; pooled
    objects may vanish; `New` allocates (fresh identity) — for the gzip pools this is the closure pinned by
    `C10.pool_source` (`return &writer{Writer: gzip.NewWriter(…)}`: a composite literal, evaluated at every call);
  * `ResetErases`: `reset s i` does not depend on `s` (proved for the header pools from the regenerated reset lists,
    `PoolHeader.reset_erases`; an assumption on compress/gzip's `Reset` for the gzip pools);
  * a thread touches only the object it holds (built into `step`: `use t` rewrites `obj o` for the `o` in `pc t`);
  * `finish` is one step: the result is taken and the object put back atomically. In the Go code the caller reads its
    result from memory of its OWN (`buf.Bytes()`, the bytes `ReadFrom` has collected, the returned packet) after the
    `Put`; the pooled object may still point to that memory, and the next holder `Reset`s it before any use — a
    `Reset` that wrote to the OLD destination would break this, and is excluded with `ResetErases`.

Proved for every interleaving (`run (init pool obj next) acts = some s`, any initial pool with ARBITRARY object states):
  inv_run / inv_reachable   ownership: every object is held by at most one thread or is in the pool at most once, never both;
                            identities handed out by `New` are new
  no_shared_object          no two threads hold the same object
  new_object_fresh          the identity `New` hands out next is not in the pool and held by nobody
  held_state                the object a thread holds is in the state the thread's own steps put it in, starting
                            from `reset new input` — whatever was in the pool, whatever the others do
  pool_exclusive            every finished call has the result `seqResult input uses` of the same call run ALONE on a
                            fresh object
  serial_run                the serial schedule is one of the interleavings (so the concurrent results are the
                            sequential results, and the hypotheses are satisfiable for any list of calls)
Negative results (`by decide` on literal runs; the model can express the bugs and the theorem is false for them):
  double_put_breaks, use_after_put_breaks, stale_reset_breaks, shared_new_breaks
-/
import OAP.Base
namespace OAP.Pool
open OAP

def upd {α} (f : Nat → α) (k : Nat) (v : α) : Nat → α := fun x => if x = k then v else f x

/-- the behaviour of the pooled object: `σ` its state, `In` the argument of `Reset`, `U` the argument of one `use`
step (`Write(p)`, `Read(p)`, a field update), `Out` what the caller extracts at the end -/
structure Beh (σ In U Out : Type) where
  new : σ                      -- the state of an object made by `New`
  reset : σ → In → σ
  useStep : σ → U → σ
  result : σ → Out

/-- `Reset` erases everything: the state after it is a function of its argument alone -/
def Beh.ResetErases {σ In U Out} (B : Beh σ In U Out) : Prop := ∀ (s s' : σ) (i : In), B.reset s i = B.reset s' i

/-- the object's state after the call `Reset(i); use u₁; …; use uₖ` made ALONE on a fresh object -/
def Beh.seqState {σ In U Out} (B : Beh σ In U Out) (i : In) (us : List U) : σ := us.foldl B.useStep (B.reset B.new i)

/-- the result of that call -/
def Beh.seqResult {σ In U Out} (B : Beh σ In U Out) (i : In) (us : List U) : Out := B.result (B.seqState i us)

/-- a thread: one call. `got`: `Get` has returned object `o`, `Reset` not yet executed. `run`: after `Reset`, `us` = the
arguments of the `use` steps made so far, oldest first. `parked`: the same, the object parked in the caller's own
context between two calls (streaming decoder). `fin`: returned `out`, holds nothing. -/
inductive Pc (In U Out : Type) where
  | idle
  | got (o : Nat) (i : In)
  | run (o : Nat) (i : In) (us : List U)
  | parked (o : Nat) (i : In) (us : List U)
  | fin (i : In) (us : List U) (out : Out)
  deriving DecidableEq, Repr

/-- the object a thread holds -/
def Pc.holds {In U Out} : Pc In U Out → Option Nat
  | .got o _ => some o
  | .run o _ _ => some o
  | .parked o _ _ => some o
  | _ => none

/-- the result a thread has returned -/
def Pc.out? {In U Out} : Pc In U Out → Option Out
  | .fin _ _ out => some out
  | _ => none

structure St (σ In U Out : Type) where
  pool : List Nat              -- the sync.Pool: identities of the pooled objects
  obj : Nat → σ                -- the heap: state of every object
  next : Nat                   -- allocation counter: identities ≥ next have never been handed out
  pc : Nat → Pc In U Out

inductive Act (In U : Type) where
  | get (t : Nat) (i : In) (hit : Option Nat)  -- `Get`: `some o` = the pool hands out its object o; `none` = miss, `New`
  | reset (t : Nat)
  | use (t : Nat) (u : U)
  | park (t : Nat)
  | resume (t : Nat)
  | finish (t : Nat) (put : Bool)              -- compute the result; `put` = the object goes back (else it is dropped)
  | gc (o : Nat)                               -- sync.Pool drops a pooled object

variable {σ In U Out : Type}

def step (B : Beh σ In U Out) (s : St σ In U Out) : Act In U → Option (St σ In U Out)
  | .get t i hit =>
      match s.pc t with
      | .idle =>
          match hit with
          | some o => if o ∈ s.pool then some { s with pool := s.pool.erase o, pc := upd s.pc t (.got o i) } else none
          | none => some { s with obj := upd s.obj s.next B.new, next := s.next + 1, pc := upd s.pc t (.got s.next i) }
      | _ => none
  | .reset t =>
      match s.pc t with
      | .got o i => some { s with obj := upd s.obj o (B.reset (s.obj o) i), pc := upd s.pc t (.run o i []) }
      | _ => none
  | .use t u =>
      match s.pc t with
      | .run o i us => some { s with obj := upd s.obj o (B.useStep (s.obj o) u), pc := upd s.pc t (.run o i (us ++ [u])) }
      | _ => none
  | .park t =>
      match s.pc t with
      | .run o i us => some { s with pc := upd s.pc t (.parked o i us) }
      | _ => none
  | .resume t =>
      match s.pc t with
      | .parked o i us => some { s with pc := upd s.pc t (.run o i us) }
      | _ => none
  | .finish t put =>
      match s.pc t with
      | .run o i us => some { s with pool := if put then o :: s.pool else s.pool,
                                     pc := upd s.pc t (.fin i us (B.result (s.obj o))) }
      | _ => none
  | .gc o => if o ∈ s.pool then some { s with pool := s.pool.erase o } else none

/-- all threads idle; the pool holds the objects `pool`, whose states `obj` are ARBITRARY (stale) -/
def init (pool : List Nat) (obj : Nat → σ) (next : Nat) : St σ In U Out :=
  { pool := pool, obj := obj, next := next, pc := fun _ => .idle }

def run (B : Beh σ In U Out) : St σ In U Out → List (Act In U) → Option (St σ In U Out)
  | s, [] => some s
  | s, a :: as => (step B s a).bind (fun s' => run B s' as)

theorem run_cons_some {B : Beh σ In U Out} {s s' : St σ In U Out} {a : Act In U} {as : List (Act In U)}
    (h : run B s (a :: as) = some s') : ∃ s1, step B s a = some s1 ∧ run B s1 as = some s' := by
  simp only [run] at h
  cases hst : step B s a with
  | none => simp [hst] at h
  | some s1 => exact ⟨s1, rfl, by simpa [hst] using h⟩

theorem run_append {B : Beh σ In U Out} (as bs : List (Act In U)) : ∀ (s s' : St σ In U Out),
    run B s (as ++ bs) = some s' ↔ ∃ s1, run B s as = some s1 ∧ run B s1 bs = some s' := by
  induction as with
  | nil => intro s s'; simp [run]
  | cons a as ih =>
    intro s s'
    simp only [List.cons_append, run]
    cases hst : step B s a with
    | none => simp
    | some s1 => simpa using ih s1 s'

/-! ### the invariant: ownership, and the state of a held object -/

structure PInv (B : Beh σ In U Out) (s : St σ In U Out) : Prop where
  /-- an object is in the pool at most once -/
  nodup : s.pool.Nodup
  /-- an object a thread holds is not in the pool -/
  heldOut : ∀ t o, (s.pc t).holds = some o → o ∉ s.pool
  /-- an object is held by at most one thread -/
  heldUniq : ∀ t u o, (s.pc t).holds = some o → (s.pc u).holds = some o → t = u
  /-- `New` has never handed out an identity ≥ next: what it hands out next is new -/
  poolLt : ∀ o, o ∈ s.pool → o < s.next
  heldLt : ∀ t o, (s.pc t).holds = some o → o < s.next
  /-- after `Reset`, the held object is in the state the call ALONE would have put it in -/
  runState : ∀ t o i us, s.pc t = .run o i us → s.obj o = B.seqState i us
  parkedState : ∀ t o i us, s.pc t = .parked o i us → s.obj o = B.seqState i us
  /-- a returned result is the result of the call alone -/
  finOut : ∀ t i us out, s.pc t = .fin i us out → out = B.seqResult i us

/-- the initial pools the theorems quantify over: no duplicates, identities below the allocation counter. The object
STATES are unconstrained. -/
def InitOk (pool : List Nat) (next : Nat) : Prop := pool.Nodup ∧ ∀ o, o ∈ pool → o < next

theorem inv_init (B : Beh σ In U Out) (pool : List Nat) (obj : Nat → σ) (next : Nat) (h : InitOk pool next) :
    PInv B (init pool obj next : St σ In U Out) := by
  obtain ⟨h1, h2⟩ := h
  constructor <;> simp_all [init, Pc.holds]

theorem seqState_nil (B : Beh σ In U Out) (i : In) : B.seqState i [] = B.reset B.new i := rfl
theorem seqState_snoc (B : Beh σ In U Out) (i : In) (us : List U) (u : U) :
    B.seqState i (us ++ [u]) = B.useStep (B.seqState i us) u := by
  simp [Beh.seqState, List.foldl_append]

theorem holds_got (o : Nat) (i : In) : (Pc.got o i : Pc In U Out).holds = some o := rfl
theorem holds_run (o : Nat) (i : In) (us : List U) : (Pc.run o i us : Pc In U Out).holds = some o := rfl
theorem holds_parked (o : Nat) (i : In) (us : List U) : (Pc.parked o i us : Pc In U Out).holds = some o := rfl
theorem holds_fin (i : In) (us : List U) (out : Out) : (Pc.fin i us out : Pc In U Out).holds = none := rfl
theorem holds_idle : (Pc.idle : Pc In U Out).holds = none := rfl

/-- close one preservation goal: open the invariant, one goal per clause, normalise the updates, grind -/
macro "pgrind" : tactic => `(tactic|
  grind [holds_got, holds_run, holds_parked, holds_fin, holds_idle, seqState_nil, seqState_snoc, Beh.seqResult,
    List.Nodup.mem_erase_iff, List.Nodup.erase, List.nodup_cons])

macro "pclose" h:ident : tactic => `(tactic|
  (cases $h:ident; constructor <;> (try simp only [upd]) <;> (first | assumption | (intros; pgrind))))

/-! ### preservation, one lemma per action -/

set_option linter.unusedVariables false

theorem pres_get_hit (B : Beh σ In U Out) (s : St σ In U Out) (t : Nat) (i : In) (o : Nat)
    (hp : s.pc t = .idle) (ho : o ∈ s.pool) (h : PInv B s) :
    PInv B { s with pool := s.pool.erase o, pc := upd s.pc t (.got o i) } := by
  pclose h

theorem pres_get_new (B : Beh σ In U Out) (s : St σ In U Out) (t : Nat) (i : In)
    (hp : s.pc t = .idle) (h : PInv B s) :
    PInv B { s with obj := upd s.obj s.next B.new, next := s.next + 1, pc := upd s.pc t (.got s.next i) } := by
  pclose h

theorem pres_reset (B : Beh σ In U Out) (he : B.ResetErases) (s : St σ In U Out) (t : Nat) (o : Nat) (i : In)
    (hp : s.pc t = .got o i) (h : PInv B s) :
    PInv B { s with obj := upd s.obj o (B.reset (s.obj o) i), pc := upd s.pc t (.run o i []) } := by
  have hr : B.reset (s.obj o) i = B.reset B.new i := he _ _ _
  pclose h

theorem pres_use (B : Beh σ In U Out) (s : St σ In U Out) (t : Nat) (o : Nat) (i : In) (us : List U) (u : U)
    (hp : s.pc t = .run o i us) (h : PInv B s) :
    PInv B { s with obj := upd s.obj o (B.useStep (s.obj o) u), pc := upd s.pc t (.run o i (us ++ [u])) } := by
  pclose h

theorem pres_park (B : Beh σ In U Out) (s : St σ In U Out) (t : Nat) (o : Nat) (i : In) (us : List U)
    (hp : s.pc t = .run o i us) (h : PInv B s) :
    PInv B { s with pc := upd s.pc t (.parked o i us) } := by
  pclose h

theorem pres_resume (B : Beh σ In U Out) (s : St σ In U Out) (t : Nat) (o : Nat) (i : In) (us : List U)
    (hp : s.pc t = .parked o i us) (h : PInv B s) :
    PInv B { s with pc := upd s.pc t (.run o i us) } := by
  pclose h

theorem pres_finish_put (B : Beh σ In U Out) (s : St σ In U Out) (t : Nat) (o : Nat) (i : In) (us : List U)
    (hp : s.pc t = .run o i us) (h : PInv B s) :
    PInv B { s with pool := o :: s.pool, pc := upd s.pc t (.fin i us (B.result (s.obj o))) } := by
  pclose h

theorem pres_finish_drop (B : Beh σ In U Out) (s : St σ In U Out) (t : Nat) (o : Nat) (i : In) (us : List U)
    (hp : s.pc t = .run o i us) (h : PInv B s) :
    PInv B { s with pc := upd s.pc t (.fin i us (B.result (s.obj o))) } := by
  pclose h

theorem pres_gc (B : Beh σ In U Out) (s : St σ In U Out) (o : Nat) (ho : o ∈ s.pool) (h : PInv B s) :
    PInv B { s with pool := s.pool.erase o } := by
  pclose h

set_option linter.unusedVariables true

theorem inv_step (B : Beh σ In U Out) (he : B.ResetErases) (s s' : St σ In U Out) (a : Act In U)
    (h : PInv B s) (hs : step B s a = some s') : PInv B s' := by
  cases a with
  | get t i hit =>
    simp only [step] at hs
    split at hs
    · rename_i hp
      cases hit with
      | some o =>
        simp only at hs
        split at hs
        · rename_i ho
          simp only [Option.some.injEq] at hs; subst hs
          exact pres_get_hit B s t i o hp ho h
        · simp at hs
      | none =>
        simp only [Option.some.injEq] at hs; subst hs
        exact pres_get_new B s t i hp h
    · simp at hs
  | reset t =>
    simp only [step] at hs
    split at hs
    · rename_i o i hp
      simp only [Option.some.injEq] at hs; subst hs
      exact pres_reset B he s t o i hp h
    · simp at hs
  | use t u =>
    simp only [step] at hs
    split at hs
    · rename_i o i us hp
      simp only [Option.some.injEq] at hs; subst hs
      exact pres_use B s t o i us u hp h
    · simp at hs
  | park t =>
    simp only [step] at hs
    split at hs
    · rename_i o i us hp
      simp only [Option.some.injEq] at hs; subst hs
      exact pres_park B s t o i us hp h
    · simp at hs
  | resume t =>
    simp only [step] at hs
    split at hs
    · rename_i o i us hp
      simp only [Option.some.injEq] at hs; subst hs
      exact pres_resume B s t o i us hp h
    · simp at hs
  | finish t put =>
    simp only [step] at hs
    split at hs
    · rename_i o i us hp
      simp only [Option.some.injEq] at hs; subst hs
      cases put with
      | true => exact pres_finish_put B s t o i us hp h
      | false => exact pres_finish_drop B s t o i us hp h
    · simp at hs
  | gc o =>
    simp only [step] at hs
    split at hs
    · rename_i ho
      simp only [Option.some.injEq] at hs; subst hs
      exact pres_gc B s o ho h
    · simp at hs

theorem inv_run (B : Beh σ In U Out) (he : B.ResetErases) (acts : List (Act In U)) :
    ∀ s s', PInv B s → run B s acts = some s' → PInv B s' := by
  induction acts with
  | nil => intro s s' h hr; simp [run] at hr; subst hr; exact h
  | cons a as ih =>
    intro s s' h hr
    obtain ⟨s1, h1, h2⟩ := run_cons_some hr
    exact ih s1 s' (inv_step B he s s1 a h h1) h2

/-- the ownership invariant holds in every reachable state of every interleaving, from every admissible initial pool
with arbitrary (stale) object states -/
theorem inv_reachable (B : Beh σ In U Out) (he : B.ResetErases) (pool : List Nat) (obj : Nat → σ) (next : Nat)
    (h0 : InitOk pool next) (acts : List (Act In U)) (s : St σ In U Out)
    (h : run B (init pool obj next) acts = some s) : PInv B s :=
  inv_run B he acts _ s (inv_init B pool obj next h0) h

/-! ### the theorems -/

/-- `no_shared_object`: in every interleaving, no two threads ever hold the same object at once — and an object a
thread holds is not in the pool, which holds every object at most once -/
theorem no_shared_object (B : Beh σ In U Out) (he : B.ResetErases) (pool : List Nat) (obj : Nat → σ) (next : Nat)
    (h0 : InitOk pool next) (acts : List (Act In U)) (s : St σ In U Out)
    (h : run B (init pool obj next) acts = some s) :
    (∀ t u o, t ≠ u → (s.pc t).holds = some o → (s.pc u).holds ≠ some o) ∧
    (∀ t o, (s.pc t).holds = some o → o ∉ s.pool) ∧ s.pool.Nodup := by
  have i := inv_reachable B he pool obj next h0 acts s h
  exact ⟨fun t u o htu ht hu => htu (i.heldUniq t u o ht hu), i.heldOut, i.nodup⟩

/-- identities handed out by `New` are new: in every reachable state the object the next miss would hand out is
neither in the pool nor held by anybody -/
theorem new_object_fresh (B : Beh σ In U Out) (he : B.ResetErases) (pool : List Nat) (obj : Nat → σ) (next : Nat)
    (h0 : InitOk pool next) (acts : List (Act In U)) (s : St σ In U Out)
    (h : run B (init pool obj next) acts = some s) :
    s.next ∉ s.pool ∧ ∀ t, (s.pc t).holds ≠ some s.next := by
  have i := inv_reachable B he pool obj next h0 acts s h
  exact ⟨fun hm => Nat.lt_irrefl _ (i.poolLt _ hm), fun t ht => Nat.lt_irrefl _ (i.heldLt t _ ht)⟩

/-- `held_state`: at every moment of every interleaving, the object a thread is working on is in EXACTLY the state
its own steps put it in, starting from `reset new input`: nothing of the stale state it had in the pool and nothing
the other threads do is visible in it -/
theorem held_state (B : Beh σ In U Out) (he : B.ResetErases) (pool : List Nat) (obj : Nat → σ) (next : Nat)
    (h0 : InitOk pool next) (acts : List (Act In U)) (s : St σ In U Out)
    (h : run B (init pool obj next) acts = some s) (t o : Nat) (i : In) (us : List U)
    (hp : s.pc t = .run o i us ∨ s.pc t = .parked o i us) : s.obj o = B.seqState i us := by
  have inv := inv_reachable B he pool obj next h0 acts s h
  rcases hp with hp | hp
  · exact inv.runState t o i us hp
  · exact inv.parkedState t o i us hp

/-- C10 `pool_exclusive`. For EVERY interleaving `acts` of any number of threads over one shared pool — `Get`
hitting or missing, the pool dropping objects, threads parking — from ANY initial pool whose objects are in
ARBITRARY (stale) states: every thread that has finished its call `Reset(i); use u₁; …; use uₖ` has returned
`seqResult i [u₁, …, uₖ]`, the result of the same call run ALONE on a fresh object. The result does not depend on the
other threads, on the stale states in the pool, or on the schedule. -/
theorem pool_exclusive (B : Beh σ In U Out) (he : B.ResetErases) (pool : List Nat) (obj : Nat → σ) (next : Nat)
    (h0 : InitOk pool next) (acts : List (Act In U)) (s : St σ In U Out)
    (h : run B (init pool obj next) acts = some s) (t : Nat) (i : In) (us : List U) (out : Out)
    (hf : s.pc t = .fin i us out) : out = B.seqResult i us :=
  (inv_reachable B he pool obj next h0 acts s h).finOut t i us out hf

/-- the same, for two runs: the result of a finished call is the same in any two interleavings, from any two initial
pools — a function of (input, uses) alone -/
theorem result_schedule_independent (B : Beh σ In U Out) (he : B.ResetErases)
    (pool pool' : List Nat) (obj obj' : Nat → σ) (next next' : Nat) (h0 : InitOk pool next) (h0' : InitOk pool' next')
    (acts acts' : List (Act In U)) (s s' : St σ In U Out)
    (h : run B (init pool obj next) acts = some s) (h' : run B (init pool' obj' next') acts' = some s')
    (t t' : Nat) (i : In) (us : List U) (out out' : Out)
    (hf : s.pc t = .fin i us out) (hf' : s'.pc t' = .fin i us out') : out = out' := by
  rw [pool_exclusive B he pool obj next h0 acts s h t i us out hf,
    pool_exclusive B he pool' obj' next' h0' acts' s' h' t' i us out' hf']

/-! ### the serial schedule is one of the interleavings

One call after the other, all on ONE recycled object: the first call's `Get` misses (`New` hands out `next`), every
later call's `Get` hits that same object, which the previous call has put back. -/

/-- the actions of one uninterrupted call -/
def callActs (t : Nat) (i : In) (us : List U) (hit : Option Nat) (put : Bool) : List (Act In U) :=
  .get t i hit :: .reset t :: (us.map (Act.use t) ++ [.finish t put])

theorem run_uses (B : Beh σ In U Out) (t o : Nat) (i : In) (us : List U) : ∀ (s : St σ In U Out) (us0 : List U),
    s.pc t = .run o i us0 →
    ∃ s', run B s (us.map (Act.use t)) = some s' ∧ s'.pc t = .run o i (us0 ++ us) ∧ s'.pool = s.pool ∧
      s'.next = s.next ∧ ∀ t', t' ≠ t → s'.pc t' = s.pc t' := by
  induction us with
  | nil => intro s us0 hp; exact ⟨s, by simp [run], by simpa using hp, rfl, rfl, fun _ _ => rfl⟩
  | cons u us ih =>
    intro s us0 hp
    obtain ⟨s', h1, h2, h3, h4, h5⟩ := ih
      { s with obj := upd s.obj o (B.useStep (s.obj o) u), pc := upd s.pc t (.run o i (us0 ++ [u])) } (us0 ++ [u])
      (by simp [upd])
    refine ⟨s', ?_, by simpa using h2, h3, h4, ?_⟩
    · simp only [List.map_cons, run, step, hp]; exact h1
    · intro t' ht'; rw [h5 t' ht']; simp [upd, ht']

/-- one uninterrupted call by an idle thread, hitting a pooled object or missing: it runs to the end, the thread has
finished with the call's input and uses, the object it used is in the pool afterwards, nobody else has moved -/
theorem run_call (B : Beh σ In U Out) (s : St σ In U Out) (t : Nat) (i : In) (us : List U) (hit : Option Nat)
    (hp : s.pc t = .idle) (hhit : ∀ o, hit = some o → o ∈ s.pool) :
    ∃ s' out, run B s (callActs t i us hit true) = some s' ∧ s'.pc t = .fin i us out ∧
      (hit.getD s.next) ∈ s'.pool ∧ ∀ t', t' ≠ t → s'.pc t' = s.pc t' := by
  cases hit with
  | none =>
    let s1 : St σ In U Out := { s with obj := upd s.obj s.next B.new, next := s.next + 1, pc := upd s.pc t (.got s.next i) }
    let s2 : St σ In U Out := { s1 with obj := upd s1.obj s.next (B.reset (s1.obj s.next) i), pc := upd s1.pc t (.run s.next i []) }
    obtain ⟨s3, h1, h2, h3, _, h5⟩ := run_uses B t s.next i us s2 [] (by simp [s2, upd])
    refine ⟨{ s3 with pool := s.next :: s3.pool, pc := upd s3.pc t (.fin i us (B.result (s3.obj s.next))) },
      B.result (s3.obj s.next), ?_,
      by simp [upd], by simp, ?_⟩
    · have e1 : step B s (.get t i none) = some s1 := by simp [step, hp, s1]
      have e2 : step B s1 (.reset t) = some s2 := by simp [step, s1, s2, upd]
      have e3 : step B s3 (.finish t true) =
          some { s3 with pool := s.next :: s3.pool, pc := upd s3.pc t (.fin i us (B.result (s3.obj s.next))) } := by
        simp only [List.nil_append] at h2
        simp [step, h2]
      simp only [callActs, run, e1, e2, Option.bind_some]
      rw [run_append]
      exact ⟨s3, h1, by simp [run, e3]⟩
    · intro t' ht'
      simp only [upd, ht', ↓reduceIte]
      rw [h5 t' ht']; simp [s2, s1, upd, ht']
  | some o =>
    have ho : o ∈ s.pool := hhit o rfl
    let s1 : St σ In U Out := { s with pool := s.pool.erase o, pc := upd s.pc t (.got o i) }
    let s2 : St σ In U Out := { s1 with obj := upd s1.obj o (B.reset (s1.obj o) i), pc := upd s1.pc t (.run o i []) }
    obtain ⟨s3, h1, h2, h3, _, h5⟩ := run_uses B t o i us s2 [] (by simp [s2, upd])
    refine ⟨{ s3 with pool := o :: s3.pool, pc := upd s3.pc t (.fin i us (B.result (s3.obj o))) },
      B.result (s3.obj o), ?_,
      by simp [upd], by simp, ?_⟩
    · have e1 : step B s (.get t i (some o)) = some s1 := by simp [step, hp, ho, s1]
      have e2 : step B s1 (.reset t) = some s2 := by simp [step, s1, s2, upd]
      have e3 : step B s3 (.finish t true) =
          some { s3 with pool := o :: s3.pool, pc := upd s3.pc t (.fin i us (B.result (s3.obj o))) } := by
        simp only [List.nil_append] at h2
        simp [step, h2]
      simp only [callActs, run, e1, e2, Option.bind_some]
      rw [run_append]
      exact ⟨s3, h1, by simp [run, e3]⟩
    · intro t' ht'
      simp only [upd, ht', ↓reduceIte]
      rw [h5 t' ht']; simp [s2, s1, upd, ht']

/-- a call: thread, input, uses -/
abbrev Call (In U : Type) := Nat × In × List U

/-- the calls `cs` one after the other, every one hitting the pooled object `o` -/
def reuseActs (o : Nat) (cs : List (Call In U)) : List (Act In U) :=
  cs.flatMap (fun c => callActs c.1 c.2.1 c.2.2 (some o) true)

/-- the serial schedule: the first call misses (`New` hands out the object `next`), the later ones reuse it -/
def serialActs (next : Nat) : List (Call In U) → List (Act In U)
  | [] => []
  | c :: cs => callActs c.1 c.2.1 c.2.2 none true ++ reuseActs next cs

theorem run_reuse (B : Beh σ In U Out) (o : Nat) (cs : List (Call In U)) : ∀ (s : St σ In U Out),
    o ∈ s.pool → (cs.map (·.1)).Nodup → (∀ c ∈ cs, s.pc c.1 = .idle) →
    ∃ s', run B s (reuseActs o cs) = some s' ∧ (∀ c ∈ cs, ∃ out, s'.pc c.1 = .fin c.2.1 c.2.2 out) ∧
      ∀ t', t' ∉ cs.map (·.1) → s'.pc t' = s.pc t' := by
  induction cs with
  | nil => intro s _ _ _; exact ⟨s, by simp [reuseActs, run], by simp, fun _ _ => rfl⟩
  | cons c cs ih =>
    intro s ho hnd hidle
    simp only [List.map_cons, List.nodup_cons] at hnd
    obtain ⟨hc, hnd⟩ := hnd
    obtain ⟨s1, out, h1, h2, h3, h4⟩ := run_call B s c.1 c.2.1 c.2.2 (some o) (hidle c (by simp))
      (by intro o' ho'; cases ho'; exact ho)
    have hidle1 : ∀ c' ∈ cs, s1.pc c'.1 = .idle := by
      intro c' hc'
      have hne : c'.1 ≠ c.1 := by
        intro he; exact hc (by rw [← he]; exact List.mem_map_of_mem (f := (·.1)) hc')
      rw [h4 _ hne]; exact hidle c' (by simp [hc'])
    obtain ⟨s2, g1, g2, g3⟩ := ih s1 (by simpa using h3) hnd hidle1
    refine ⟨s2, ?_, ?_, ?_⟩
    · simp only [reuseActs, List.flatMap_cons]
      rw [run_append]
      exact ⟨s1, h1, g1⟩
    · intro c' hc'
      rcases List.mem_cons.mp hc' with rfl | hc'
      · exact ⟨out, by rw [g3 _ hc]; exact h2⟩
      · exact g2 c' hc'
    · intro t' ht'
      simp only [List.map_cons, List.mem_cons, not_or] at ht'
      rw [g3 t' ht'.2, h4 t' ht'.1]

/-- `serial_run`: for ANY list of calls by distinct threads the serial schedule — one call after the other, all on
one recycled object — is a run of the model, every call finishes, and its result is `seqResult`: the sequential
results ARE the `seqResult`s, so by `pool_exclusive` every interleaving returns what the sequential execution
returns. (Also: the hypotheses of `pool_exclusive` are satisfiable for every list of calls.) -/
theorem serial_run (B : Beh σ In U Out) (he : B.ResetErases) (pool : List Nat) (obj : Nat → σ) (next : Nat)
    (h0 : InitOk pool next) (cs : List (Call In U)) (hnd : (cs.map (·.1)).Nodup) :
    ∃ s, run B (init pool obj next) (serialActs next cs) = some s ∧
      ∀ c ∈ cs, s.pc c.1 = .fin c.2.1 c.2.2 (B.seqResult c.2.1 c.2.2) := by
  have key : ∃ s, run B (init pool obj next) (serialActs next cs) = some s ∧
      ∀ c ∈ cs, ∃ out, s.pc c.1 = .fin c.2.1 c.2.2 out := by
    cases cs with
    | nil => exact ⟨init pool obj next, by simp [serialActs, run], by simp⟩
    | cons c cs =>
      simp only [List.map_cons, List.nodup_cons] at hnd
      obtain ⟨hc, hnd⟩ := hnd
      obtain ⟨s1, out, h1, h2, h3, h4⟩ := run_call B (init pool obj next) c.1 c.2.1 c.2.2 none rfl (by simp)
      have hidle1 : ∀ c' ∈ cs, s1.pc c'.1 = .idle := by
        intro c' hc'
        have hne : c'.1 ≠ c.1 := by
          intro he; exact hc (by rw [← he]; exact List.mem_map_of_mem (f := (·.1)) hc')
        rw [h4 _ hne]; rfl
      obtain ⟨s2, g1, g2, g3⟩ := run_reuse B next cs s1 (by simpa [init] using h3) hnd hidle1
      refine ⟨s2, ?_, ?_⟩
      · simp only [serialActs]
        rw [run_append]
        exact ⟨s1, h1, g1⟩
      · intro c' hc'
        rcases List.mem_cons.mp hc' with rfl | hc'
        · exact ⟨out, by rw [g3 _ hc]; exact h2⟩
        · exact g2 c' hc'
  obtain ⟨s, hr, hf⟩ := key
  refine ⟨s, hr, ?_⟩
  intro c hc
  obtain ⟨out, ho⟩ := hf c hc
  rw [ho, pool_exclusive B he pool obj next h0 _ s hr c.1 c.2.1 c.2.2 out ho]

/-- `concurrent_eq_serial`: N goroutines sharing the pool get the same results as sequential calls. Whatever the
interleaving `acts`, a thread that has finished the call `c` has returned what the SERIAL execution of any list of
calls containing `c` returns for it. -/
theorem concurrent_eq_serial (B : Beh σ In U Out) (he : B.ResetErases) (pool : List Nat) (obj : Nat → σ) (next : Nat)
    (h0 : InitOk pool next) (acts : List (Act In U)) (s : St σ In U Out)
    (h : run B (init pool obj next) acts = some s)
    (cs : List (Call In U)) (hnd : (cs.map (·.1)).Nodup) (c : Call In U) (hc : c ∈ cs) (out : Out)
    (hf : s.pc c.1 = .fin c.2.1 c.2.2 out) :
    ∃ s', run B (init pool obj next) (serialActs next cs) = some s' ∧ s'.pc c.1 = s.pc c.1 := by
  obtain ⟨s', hr, hall⟩ := serial_run B he pool obj next h0 cs hnd
  refine ⟨s', hr, ?_⟩
  rw [hall c hc, hf, pool_exclusive B he pool obj next h0 acts s h c.1 c.2.1 c.2.2 out hf]

/-! ### non-vacuity: a concrete object and a concrete interleaving -/

/-- a toy object for the concrete runs: a tagged accumulator. `Reset(i)` stores the tag `i` and clears the sum,
`use u` adds `u`, the result is `100 · tag + sum`. So `seqResult i us = 100 · i + Σ us`. -/
def accB : Beh (Nat × Nat) Nat Nat Nat :=
  { new := (0, 0), reset := fun _ i => (i, 0), useStep := fun s u => (s.1, s.2 + u), result := fun s => 100 * s.1 + s.2 }

theorem accB_erases : accB.ResetErases := fun _ _ _ => rfl

/-- a pool of two objects left in stale states by earlier calls; object identities 0 and 1 are taken -/
def demoInit : St (Nat × Nat) Nat Nat Nat := init [0, 1] (fun o => if o = 0 then (9, 40) else (8, 30)) 2

theorem demoInit_ok : InitOk [0, 1] 2 := ⟨by decide, by decide⟩

/-- three threads at once (plus a fourth that comes later) over the pool [0, 1]: thread 0 hits object 1, thread 1
misses (`New` makes object 2) although the pool is not empty, thread 2 hits object 0; their resets and uses are
interleaved; thread 1 parks its object and resumes; the pool drops nothing it holds; thread 0 puts its object back,
thread 2 DROPS its object; thread 3 then recycles the object thread 0 has put back; the collector drops object 2. -/
def demoActs : List (Act Nat Nat) :=
  [.get 0 1 (some 1), .get 1 2 none, .reset 0, .get 2 3 (some 0), .use 0 5, .reset 2, .reset 1, .use 2 7, .park 1,
   .use 0 6, .use 2 1, .finish 0 true, .resume 1, .get 3 4 (some 1), .use 1 9, .finish 2 false, .reset 3,
   .finish 1 true, .use 3 2, .gc 2, .finish 3 true]

/-- the run exists; every thread has returned `100 · input + Σ uses` — nothing of the stale (9, 40) / (8, 30), nothing
of the others; the pool ends with the one object that was put back and not collected -/
example : (run accB demoInit demoActs).map (fun s => (s.pc 0, s.pc 1, s.pool)) =
    some (.fin 1 [5, 6] 111, .fin 2 [9] 209, [1]) := by decide
example : (run accB demoInit demoActs).map (fun s => (s.pc 2, s.pc 3, s.next)) =
    some (.fin 3 [7, 1] 308, .fin 4 [2] 402, 3) := by decide
example : accB.seqResult 1 [5, 6] = 111 ∧ accB.seqResult 2 [9] = 209 ∧ accB.seqResult 3 [7, 1] = 308 ∧
    accB.seqResult 4 [2] = 402 := by decide
/-- the hypotheses of `pool_exclusive` are jointly satisfied by this run (and its conclusion is the four values above) -/
example (s : St (Nat × Nat) Nat Nat Nat) (h : run accB demoInit demoActs = some s) (t i : Nat) (us : List Nat) (out : Nat)
    (hf : s.pc t = .fin i us out) : out = accB.seqResult i us :=
  pool_exclusive accB accB_erases _ _ _ demoInit_ok demoActs s h t i us out hf
/-- in the middle of it three threads hold three different objects and the pool is empty -/
example : (run accB demoInit (demoActs.take 9)).map (fun s => ((s.pc 0).holds, (s.pc 1).holds, (s.pc 2).holds)) =
    some (some 1, some 2, some 0) ∧
    (run accB demoInit (demoActs.take 9)).map (fun s => s.pool) = some [] := by decide
/-- steps that are NOT enabled: hitting an object that is not in the pool; using without holding -/
example : (run accB demoInit [.get 0 1 (some 1), .get 1 2 (some 1)]).isNone = true ∧
    (run accB demoInit [.use 0 5]).isNone = true ∧ (run accB demoInit [.get 0 1 (some 1), .use 0 5]).isNone = true := by
  decide
/-- the serial schedule of three calls, as `serial_run` builds it -/
example : (run accB demoInit (serialActs 2 [(0, 1, [5, 6]), (1, 2, [9]), (2, 3, [7, 1])])).map
    (fun s => (s.pc 0, s.pc 1, s.pc 2)) = some (.fin 1 [5, 6] 111, .fin 2 [9] 209, .fin 3 [7, 1] 308) := by decide

/-! ### negative results: the bugs the model can express, and for which the theorem is FALSE

Each variant changes ONE clause of `step` (or drops the hypothesis on `reset`); each theorem is a decided literal run. -/

/-- runs of a variant step relation -/
def runWith (stp : St σ In U Out → Act In U → Option (St σ In U Out)) :
    St σ In U Out → List (Act In U) → Option (St σ In U Out)
  | s, [] => some s
  | s, a :: as => (stp s a).bind (fun s' => runWith stp s' as)

theorem runWith_step (B : Beh σ In U Out) (s : St σ In U Out) (acts : List (Act In U)) :
    runWith (step B) s acts = run B s acts := by
  induction acts generalizing s with
  | nil => rfl
  | cons a as ih => simp only [runWith, run]; cases step B s a <;> simp [ih]

/-- (a) DOUBLE PUT: `finish` puts the object back twice (`defer z.Close()` after an explicit `z.Close()`, both
ending in `pool.Put(z)`) -/
def stepDoublePut (B : Beh σ In U Out) (s : St σ In U Out) : Act In U → Option (St σ In U Out)
  | .finish t _ =>
      match s.pc t with
      | .run o i us => some { s with pool := o :: o :: s.pool, pc := upd s.pc t (.fin i us (B.result (s.obj o))) }
      | _ => none
  | a => step B s a

/-- (b) USE AFTER PUT: the object is put back too early — right after `Reset`, before the uses — and the thread keeps
working on it; `finish` does not put again -/
def stepEarlyPut (B : Beh σ In U Out) (s : St σ In U Out) : Act In U → Option (St σ In U Out)
  | .reset t =>
      match s.pc t with
      | .got o i => some { s with pool := o :: s.pool, obj := upd s.obj o (B.reset (s.obj o) i), pc := upd s.pc t (.run o i []) }
      | _ => none
  | .finish t _ =>
      match s.pc t with
      | .run o i us => some { s with pc := upd s.pc t (.fin i us (B.result (s.obj o))) }
      | _ => none
  | a => step B s a

/-- (c) STALE RESET: `Reset` forgets to clear one field (the sum) -/
def leakyB : Beh (Nat × Nat) Nat Nat Nat := { accB with reset := fun s i => (i, s.2) }

/-- (d) SHARED NEW: the `New` closure captured ONE object (`w := &writer{…}; pool.New = func() any { return w }`)
instead of making one per call: every miss hands out object 0 -/
def stepSharedNew (B : Beh σ In U Out) (s : St σ In U Out) : Act In U → Option (St σ In U Out)
  | .get t i none =>
      match s.pc t with
      | .idle => some { s with pc := upd s.pc t (.got 0 i) }
      | _ => none
  | a => step B s a

/-- an empty pool, nothing allocated -/
def emptyInit : St (Nat × Nat) Nat Nat Nat := init [] (fun _ => (0, 0)) 0

/-- (a) after thread 0's double put the pool holds object 0 TWICE; threads 1 and 2 both get it and hold it at once
(`no_shared_object` fails); thread 2's `Reset(2)` and `use 1` land in the object thread 1 is working on, and thread 1
returns 201 for the call `Reset(1); use 7` whose result alone is 107 (`pool_exclusive` fails) -/
theorem double_put_breaks :
    (runWith (stepDoublePut accB) emptyInit
      [.get 0 5 none, .reset 0, .finish 0 true, .get 1 1 (some 0), .get 2 2 (some 0)]).map
        (fun s => ((s.pc 1).holds, (s.pc 2).holds)) = some (some 0, some 0) ∧
    (runWith (stepDoublePut accB) emptyInit
      [.get 0 5 none, .reset 0, .finish 0 true, .get 1 1 (some 0), .get 2 2 (some 0),
       .reset 1, .use 1 7, .reset 2, .use 2 1, .finish 1 true]).map (fun s => s.pc 1) = some (.fin 1 [7] 201) ∧
    accB.seqResult 1 [7] = 107 := by decide

/-- the same action lists are not even runs of the real step relation: the second `Get` of object 0 is not enabled -/
theorem double_put_needs_the_bug :
    (run accB emptyInit [.get 0 5 none, .reset 0, .finish 0 true, .get 1 1 (some 0), .get 2 2 (some 0)]).isNone = true := by
  decide

/-- (b) thread 0's early put lets thread 1 get the object thread 0 is still using: both hold object 0; thread 0
returns 205 for the call `Reset(1); use 5`, alone 105 -/
theorem use_after_put_breaks :
    (runWith (stepEarlyPut accB) emptyInit [.get 0 1 none, .reset 0, .get 1 2 (some 0)]).map
        (fun s => ((s.pc 0).holds, (s.pc 1).holds)) = some (some 0, some 0) ∧
    (runWith (stepEarlyPut accB) emptyInit
      [.get 0 1 none, .reset 0, .get 1 2 (some 0), .reset 1, .use 0 5, .finish 0 true]).map (fun s => s.pc 0) =
        some (.fin 1 [5] 205) ∧
    accB.seqResult 1 [5] = 105 := by decide

/-- (c) with a `Reset` that keeps one field, the real step relation and ONE thread suffice: the call `Reset(1); use 5`
returns 145 on the recycled object 0 (stale sum 40), 135 on the recycled object 1 (stale sum 30) and 105 on a new
one — the result depends on the pool's stale content. `ResetErases` fails for this object, and only that. -/
theorem stale_reset_breaks :
    (run leakyB demoInit [.get 0 1 (some 0), .reset 0, .use 0 5, .finish 0 true]).map (fun s => s.pc 0) =
      some (.fin 1 [5] 145) ∧
    (run leakyB demoInit [.get 0 1 (some 1), .reset 0, .use 0 5, .finish 0 true]).map (fun s => s.pc 0) =
      some (.fin 1 [5] 135) ∧
    (run leakyB demoInit [.get 0 1 none, .reset 0, .use 0 5, .finish 0 true]).map (fun s => s.pc 0) =
      some (.fin 1 [5] 105) ∧
    leakyB.seqResult 1 [5] = 105 ∧ ¬ leakyB.ResetErases := by
  refine ⟨by decide, by decide, by decide, by decide, ?_⟩
  intro h
  have := h (0, 1) (0, 0) 0
  simp [leakyB, accB] at this

/-- (d) two misses hand out the same object: threads 0 and 1 hold object 0 at once, and thread 0 returns 203 for
`Reset(1); use 2`, alone 102 -/
theorem shared_new_breaks :
    (runWith (stepSharedNew accB) emptyInit [.get 0 1 none, .get 1 2 none]).map
        (fun s => ((s.pc 0).holds, (s.pc 1).holds)) = some (some 0, some 0) ∧
    (runWith (stepSharedNew accB) emptyInit
      [.get 0 1 none, .get 1 2 none, .reset 0, .use 0 2, .reset 1, .use 1 3, .finish 0 true]).map (fun s => s.pc 0) =
        some (.fin 1 [2] 203) ∧
    accB.seqResult 1 [2] = 102 := by decide

/-- with the real `New` the same schedule gives both threads their own object and the sequential results -/
theorem fresh_new_ok :
    (run accB emptyInit [.get 0 1 none, .get 1 2 none]).map (fun s => ((s.pc 0).holds, (s.pc 1).holds)) =
      some (some 0, some 1) ∧
    (run accB emptyInit
      [.get 0 1 none, .get 1 2 none, .reset 0, .use 0 2, .reset 1, .use 1 3, .finish 0 true]).map (fun s => s.pc 0) =
        some (.fin 1 [2] 102) := by decide

end OAP.Pool
