/-
Model of the state shared between codec calls (C11): the header pools (sync.Pool of *Header,
recycled with arbitrary stale content and reset field by field in headerPool.Get) and the
per-connection contexts (the header parked by an incomplete streaming decode + that connection's
ring buffer). Every operation takes its header from the pool, works on it, and puts it back.
-/
import OAP.Model.Stream
namespace OAP
namespace World
open Frame

def zero : Header := {}

/-- one reset statement of `headerPool.Get`, by field name (the list of names is regenerated from the source) -/
def resetField (h : Header) : String → Header
  | "Type" => { h with type := 0 }
  | "Verify" => { h with verify := 0 }
  | "Gzip" => { h with gzip := 0 }
  | "Reserve" => { h with reserve := 0 }
  | "CmdCode" => { h with cmdCode := 0 }
  | "Timeout" => { h with timeout := 0 }
  | "RequestId" => { h with requestId := 0 }
  | "StatusCode" => { h with statusCode := 0 }
  | "BodyLength" => { h with bodyLength := 0 }
  | "MetadataLength" => { h with metadataLength := 0 }
  | "BeginUnpack" => { h with beginUnpack := false }
  | "IsUnpacked" => { h with isUnpacked := false }
  | _ => h

def resetsOf : Ver → List String | .v1 => Gen.v1HeaderResets | .v2 => Gen.v2HeaderResets

/-- `headerPool.Get()` on a recycled header with arbitrary stale content. (A v1 header has no
MetadataLength field: `take` represents it with that field 0.) -/
def poolGet (v : Ver) (stale : Header) : Header := (resetsOf v).foldl resetField stale

structure W where
  pool1 : List Header          -- v1 pool: stale headers
  pool2 : List Header          -- v2 pool
  ctxs : Nat → Option Header × Ring   -- connection contexts: parked header, ring

inductive Op where
  | pack (c : Nat) (v : Ver) (p : Packet) (thr : Int)
  | unpackBytes (c : Nat) (v : Ver) (codec : UInt8) (bs : Bytes)
  | feed (c : Nat) (v : Ver) (codec : UInt8) (chunk : Bytes)    -- write the chunk, one Unpack call

inductive Out where
  | packed (r : Res (Bytes × Packet))
  | decoded (r : Res Packet)
  | streamed (r : SRes)
  deriving DecidableEq

def Op.ctx : Op → Nat | .pack c .. => c | .unpackBytes c .. => c | .feed c .. => c

/-- take a header from the version's pool (`none`: the pool is empty and `New` allocates a zero header) -/
def take (w : W) (v : Ver) : Header × W :=
  match v with
  | .v1 => match w.pool1 with | [] => (zero, w) | h :: t => (poolGet .v1 { h with metadataLength := 0 }, { w with pool1 := t })
  | .v2 => match w.pool2 with | [] => (zero, w) | h :: t => (poolGet .v2 h, { w with pool2 := t })

def put (w : W) (v : Ver) (h : Header) : W :=
  match v with | .v1 => { w with pool1 := h :: w.pool1 } | .v2 => { w with pool2 := h :: w.pool2 }

def setCtx (w : W) (c : Nat) (x : Option Header × Ring) : W :=
  { w with ctxs := fun c' => if c' = c then x else w.ctxs c' }
def takeIfNone (w : W) (v : Ver) (pend : Option Header) : Header × W :=
  match pend with | some _ => (zero, w) | none => take w v
def putIfNone (w : W) (v : Ver) (pend : Option Header) (h : Header) : W :=
  match pend with | some _ => w | none => put w v h

/-- one operation on the shared world. The fresh header `h0` obtained from the pool is what the pure model
functions start from; `used` is the (dirty) header put back afterwards. -/
def step (gz : GzOracle) (w : W) : Op → Out × W
  | .pack _ v p thr =>
    let (h0, w) := take w v
    -- headerFromMetadata fills the fresh header; the pure `pack` is the h0 = {} instance
    let used := { h0 with requestId := p.rid, statusCode := p.status, timeout := p.timeout, bodyLength := UInt32.ofNat p.body.length }
    (.packed (if h0 = zero then pack v gz p thr else .panic "pool returned a dirty header"), put w v used)
  | .unpackBytes _ v codec bs =>
    let (h0, w) := take w v
    let r := if h0 = zero then unpackBytes v gz codec bs else .panic "pool returned a dirty header"
    let used := match Header.unpackBytes v bs with | .ok (h, _) => h | _ => h0
    (.decoded r, put w v used)
  | .feed c v codec chunk =>
    let own := w.ctxs c
    -- a header is taken from the pool only when none is parked
    let hw := takeIfNone w v own.1
    let o := if hw.1 = zero then unpackRing v gz codec own.1 (own.2.write chunk)
             else { res := .panic "pool returned a dirty header", pend := none, rb := own.2 }
    -- the header goes back to the pool when the frame completed or failed
    (.streamed o.res, putIfNone (setCtx hw.2 c (o.pend, o.rb)) v o.pend (own.1.getD hw.1))

/-- the same operation performed in isolation: fresh pools, only this connection's own state -/
def isolated (gz : GzOracle) (own : Option Header × Ring) : Op → Out
  | .pack _ v p thr => .packed (pack v gz p thr)
  | .unpackBytes _ v codec bs => .decoded (unpackBytes v gz codec bs)
  | .feed _ v codec chunk => .streamed (unpackRing v gz codec own.1 (own.2.write chunk)).res

/-- a history -/
def run (gz : GzOracle) : W → List Op → List Out × W
  | w, [] => ([], w)
  | w, op :: ops =>
    let (o, w') := step gz w op
    let (os, w'') := run gz w' ops
    (o :: os, w'')

/-- what an operation does to the connection states — and to nothing else -/
def ctxStep (gz : GzOracle) (ctxs : Nat → Option Header × Ring) : Op → (Nat → Option Header × Ring)
  | .pack .. => ctxs
  | .unpackBytes .. => ctxs
  | .feed c v codec chunk =>
    let o := unpackRing v gz codec (ctxs c).1 ((ctxs c).2.write chunk)
    fun c' => if c' = c then (o.pend, o.rb) else ctxs c'

/-- a history evaluated on the connection states alone: no pools, every result the isolated one -/
def isoRun (gz : GzOracle) : (Nat → Option Header × Ring) → List Op → List Out
  | _, [] => []
  | ctxs, op :: ops => isolated gz (ctxs op.ctx) op :: isoRun gz (ctxStep gz ctxs op) ops

end World
end OAP
