/-
Model of github.com/Allenxuxu/ringbuffer v0.0.11 (a dependency of /repo, used by the streaming
decoders and by the TCP connection) after its source, and its refinement to a byte queue:
under the representation invariant `WF`, every operation keeps `WF` and acts on `abs` as
take / drop / append. The virtual-read pointer `vr` is not modelled (unused by /repo).
-/
import OAP.Base
namespace OAP


structure Ring where
  buf : Bytes
  size : Nat
  r : Nat
  w : Nat
  isEmpty : Bool
deriving Repr

namespace Ring

theorem arith_wrap (n sz r w : Nat) (hr : r < sz) (hnf : ¬ r + min n (sz - r + w) ≤ sz) :
    min n (sz - r + w) + r - sz = min (n - (sz - r)) w ∧ sz - r ≤ n := by
  omega

/-- representation invariant -/
structure WF (rb : Ring) : Prop where
  len : rb.buf.length = rb.size
  rlt : rb.size = 0 → rb.r = 0
  wlt : rb.size = 0 → rb.w = 0
  rlt' : 0 < rb.size → rb.r < rb.size
  wlt' : 0 < rb.size → rb.w < rb.size
  emp : rb.isEmpty = true → rb.r = rb.w

/-- abstraction: the readable bytes, oldest first -/
def abs (rb : Ring) : Bytes :=
  if rb.isEmpty then [] else
  if rb.r < rb.w then (rb.buf.drop rb.r).take (rb.w - rb.r)
  else rb.buf.drop rb.r ++ rb.buf.take rb.w

/-- `Length()` -/
def length (rb : Ring) : Nat :=
  if rb.w = rb.r then (if rb.isEmpty then 0 else rb.size)
  else if rb.r < rb.w then rb.w - rb.r else rb.size - rb.r + rb.w

theorem length_abs (rb : Ring) (h : rb.WF) : rb.length = rb.abs.length := by
  unfold length abs
  have := h.len
  by_cases he : rb.isEmpty = true
  · have := h.emp he; simp [he, this]
  · simp only [he, Bool.false_eq_true, ↓reduceIte]
    by_cases hz : rb.size = 0
    · have := h.rlt hz; have := h.wlt hz; simp_all
    · have := h.rlt' (by omega); have := h.wlt' (by omega)
      by_cases hwr : rb.w = rb.r
      · simp [hwr, List.length_drop, List.length_take]; omega
      · by_cases hlt : rb.r < rb.w
        · simp [hwr, hlt, List.length_take, List.length_drop]; omega
        · simp [hwr, hlt, List.length_take, List.length_drop]; omega

/-- `Peek(n)`: two slices (first, end) -/
def peek (rb : Ring) (n : Nat) : Bytes × Bytes :=
  if rb.isEmpty || n == 0 then ([], []) else
  if rb.r < rb.w then
    let n := min n (rb.w - rb.r)
    ((rb.buf.drop rb.r).take n, [])
  else
    let n := min n (rb.size - rb.r + rb.w)
    if rb.r + n ≤ rb.size then ((rb.buf.drop rb.r).take n, [])
    else (rb.buf.drop rb.r, rb.buf.take (n + rb.r - rb.size))   -- Go: len-size+r on ints; Nat needs the reordering

theorem peek_abs (rb : Ring) (h : rb.WF) (n : Nat) :
    (rb.peek n).1 ++ (rb.peek n).2 = rb.abs.take n := by
  unfold peek abs
  have hl := h.len
  by_cases he : rb.isEmpty = true
  · simp [he]
  · simp only [he, Bool.false_or, Bool.false_eq_true, ↓reduceIte]
    by_cases hn : n = 0
    · simp [hn]
    · simp only [beq_iff_eq, hn, ↓reduceIte]
      by_cases hz : rb.size = 0
      · have := h.rlt hz; have := h.wlt hz
        have hb : rb.buf = [] := List.eq_nil_of_length_eq_zero (by omega)
        simp_all
      · have hr := h.rlt' (by omega); have hw := h.wlt' (by omega)
        have hd : (rb.buf.drop rb.r).length = rb.size - rb.r := by simp [List.length_drop, hl]
        by_cases hlt : rb.r < rb.w
        · simp only [hlt, ↓reduceIte, List.append_nil, List.take_take]
        · simp only [hlt, ↓reduceIte]
          rw [List.take_append, hd, List.take_take]
          by_cases hfit : rb.r + min n (rb.size - rb.r + rb.w) ≤ rb.size
          · simp only [hfit, ↓reduceIte, List.append_nil]
            by_cases hn2 : n ≤ rb.size - rb.r + rb.w
            · have e1 : min n (rb.size - rb.r + rb.w) = n := by omega
              rw [e1] at hfit ⊢
              have e2 : min (n - (rb.size - rb.r)) rb.w = 0 := by omega
              simp [e2]
            · have e1 : min n (rb.size - rb.r + rb.w) = rb.size - rb.r + rb.w := by omega
              rw [e1] at hfit ⊢
              have hw0 : rb.w = 0 := by omega
              simp only [hw0, Nat.add_zero, Nat.min_zero, List.take_zero, List.append_nil]
              rw [List.take_of_length_le (by omega), List.take_of_length_le (by omega)]
          · simp only [hfit, ↓reduceIte]
            have ha := arith_wrap n rb.size rb.r rb.w hr hfit
            have e1 : List.take n (List.drop rb.r rb.buf) = List.drop rb.r rb.buf :=
              List.take_of_length_le (by omega)
            rw [e1, ha.1]

/-- `RetrieveAll()` -/
def retrieveAll (rb : Ring) : Ring := { rb with r := 0, w := 0, isEmpty := true }

/-- `Retrieve(n)` -/
def retrieve (rb : Ring) (n : Nat) : Ring :=
  if rb.isEmpty || n == 0 then rb
  else if n < rb.length then
    let r' := (rb.r + n) % rb.size
    { rb with r := r', isEmpty := rb.isEmpty || (rb.w == r') }
  else rb.retrieveAll

theorem retrieveAll_wf (rb : Ring) (h : rb.WF) : rb.retrieveAll.WF := by
  constructor <;> simp [retrieveAll] <;> first | exact h.len | omega

theorem retrieveAll_abs (rb : Ring) : rb.retrieveAll.abs = [] := by simp [retrieveAll, abs]

theorem drop_take_drop (l : Bytes) (a b k : Nat) :
    ((l.drop a).take b).drop k = (l.drop (a + k)).take (b - k) := by
  rw [List.drop_take, List.drop_drop]

/-- the state after a partial retrieve -/
theorem retrieve_eq (rb : Ring) (n : Nat) (he : rb.isEmpty = false) (hn : n ≠ 0) (hlt : n < rb.length)
    (r' : Nat) (hr' : (rb.r + n) % rb.size = r') (hne : rb.w ≠ r') :
    rb.retrieve n = { rb with r := r', isEmpty := false } := by
  simp [retrieve, he, hn, hlt, hr', hne]

theorem retrieve_spec (rb : Ring) (h : rb.WF) (n : Nat) :
    (rb.retrieve n).WF ∧ (rb.retrieve n).abs = rb.abs.drop n := by
  have hla := length_abs rb h
  have hl := h.len
  by_cases he : rb.isEmpty = true
  · simp [retrieve, he, h, abs]
  · have he' : rb.isEmpty = false := by simpa using he
    by_cases hn : n = 0
    · simp [retrieve, hn, h]
    · by_cases hlt : n < rb.length
      · have hz : 0 < rb.size := by
          unfold length at hlt
          by_cases hz : rb.size = 0
          · have := h.rlt hz; have := h.wlt hz; simp_all
          · omega
        have hr := h.rlt' hz; have hw := h.wlt' hz
        have hlt0 := hlt
        unfold length at hlt
        simp only [he, Bool.false_eq_true, ↓reduceIte] at hlt
        by_cases hrw : rb.r < rb.w
        · -- no wrap: r < w
          have hlt' : n < rb.w - rb.r := by
            by_cases e : rb.w = rb.r <;> simp [e, hrw] at hlt <;> omega
          have hmod : (rb.r + n) % rb.size = rb.r + n := Nat.mod_eq_of_lt (by omega)
          rw [retrieve_eq rb n he' hn hlt0 _ hmod (by omega)]
          refine ⟨?_, ?_⟩
          · constructor <;> simp <;> omega
          · simp only [abs, he', Bool.false_eq_true, ↓reduceIte, hrw, show rb.r + n < rb.w by omega]
            rw [drop_take_drop]; congr 1; omega
        · -- wrapped (or full): w ≤ r
          have hlt' : n < rb.size - rb.r + rb.w := by
            by_cases e : rb.w = rb.r
            · simp [e] at hlt; omega
            · simp [e, hrw] at hlt; omega
          by_cases hwrap : rb.r + n < rb.size
          · have hmod : (rb.r + n) % rb.size = rb.r + n := Nat.mod_eq_of_lt hwrap
            rw [retrieve_eq rb n he' hn hlt0 _ hmod (by omega)]
            refine ⟨?_, ?_⟩
            · constructor <;> simp <;> omega
            · simp only [abs, he', Bool.false_eq_true, ↓reduceIte, hrw, show ¬ rb.r + n < rb.w by omega]
              rw [List.drop_append_of_le_length (by simp [List.length_drop]; omega), List.drop_drop]
          · have hmod : (rb.r + n) % rb.size = rb.r + n - rb.size := by
              rw [Nat.mod_eq_sub_mod (by omega)]; exact Nat.mod_eq_of_lt (by omega)
            rw [retrieve_eq rb n he' hn hlt0 _ hmod (by omega)]
            refine ⟨?_, ?_⟩
            · constructor <;> simp <;> omega
            · simp only [abs, he', Bool.false_eq_true, ↓reduceIte, hrw,
                show rb.r + n - rb.size < rb.w by omega]
              have hd : (rb.buf.drop rb.r).length = rb.size - rb.r := by simp [List.length_drop, hl]
              have e1 : List.drop n (List.drop rb.r rb.buf) = [] := List.drop_of_length_le (by omega)
              rw [List.drop_append, e1, hd, List.nil_append, List.drop_take]
              have e2 : rb.r + n - rb.size = n - (rb.size - rb.r) := by omega
              rw [e2]
      · have : rb.retrieve n = rb.retrieveAll := by simp [retrieve, he', hn, hlt]
        rw [this]
        refine ⟨retrieveAll_wf rb h, ?_⟩
        rw [retrieveAll_abs, List.drop_of_length_le (by omega)]

/-- `free()` -/
def free (rb : Ring) : Nat :=
  if rb.w = rb.r then (if rb.isEmpty then rb.size else 0)
  else if rb.w < rb.r then rb.r - rb.w else rb.size - rb.w + rb.r

theorem free_length (rb : Ring) (h : rb.WF) : rb.free + rb.length = rb.size := by
  unfold free length
  by_cases hz : rb.size = 0
  · have := h.rlt hz; have := h.wlt hz; simp_all
  · have := h.rlt' (by omega); have := h.wlt' (by omega)
    by_cases e : rb.w = rb.r
    · simp [e]; split <;> omega
    · simp only [e, ↓reduceIte]; split <;> split <;> omega

/-- `makeSpace(k)`: grow by k, linearise the content at offset 0 -/
def makeSpace (rb : Ring) (k : Nat) : Ring :=
  let old := rb.abs
  { buf := old ++ List.replicate (rb.size + k - old.length) 0,
    size := rb.size + k, r := 0, w := old.length, isEmpty := rb.isEmpty || true }
  -- Go: Read(newBuf) empties the ring (isEmpty = true) before r/w are reset; Write sets it false again

/-- overwrite `p` at offset `off` (no wrap) -/
def setRange (buf : Bytes) (off : Nat) (p : Bytes) : Bytes :=
  buf.take off ++ p ++ buf.drop (off + p.length)

/-- the part of `Write` after the space check: uses only buf, size, r, w -/
def writeFit (rb : Ring) (p : Bytes) : Ring :=
  let n := p.length
  let (buf, w) :=
    if rb.r ≤ rb.w then
      if n ≤ rb.size - rb.w then (setRange rb.buf rb.w p, rb.w + n)
      else
        let k := rb.size - rb.w
        (setRange (setRange rb.buf rb.w (p.take k)) 0 (p.drop k), rb.w + n - rb.size)
    else (setRange rb.buf rb.w p, rb.w + n)
  { rb with buf := buf, w := if w = rb.size then 0 else w, isEmpty := false }

/-- `Write(p)` -/
def write (rb : Ring) (p : Bytes) : Ring :=
  if p.length = 0 then rb else
  let rb := if rb.free < p.length then rb.makeSpace (p.length - rb.free) else rb
  rb.writeFit p

/-- geometry part of the invariant (the emptiness flag may be stale inside `Write`) -/
structure Geo (rb : Ring) : Prop where
  len : rb.buf.length = rb.size
  pos : 0 < rb.size
  rlt : rb.r < rb.size
  wlt : rb.w < rb.size

/-- `c` is the readable content of `rb`, the flag left aside -/
def Content (rb : Ring) (c : Bytes) : Prop :=
  (rb.r < rb.w ∧ c = (rb.buf.drop rb.r).take (rb.w - rb.r)) ∨
  (rb.w < rb.r ∧ c = rb.buf.drop rb.r ++ rb.buf.take rb.w) ∨
  (rb.r = rb.w ∧ (c = [] ∨ c = rb.buf.drop rb.r ++ rb.buf.take rb.w))

theorem setRange_length (buf : Bytes) (off : Nat) (p : Bytes) (h : off + p.length ≤ buf.length) :
    (setRange buf off p).length = buf.length := by
  simp [setRange, List.length_take, List.length_drop]; omega

theorem content_length (rb : Ring) (c : Bytes) (g : rb.Geo) (hc : Content rb c) :
    c.length ≤ rb.size := by
  have := g.len; have := g.rlt; have := g.wlt
  rcases hc with ⟨_, rfl⟩ | ⟨_, rfl⟩ | ⟨_, rfl | rfl⟩ <;>
    simp [List.length_take, List.length_drop] <;> omega

theorem take_len_le (l : Bytes) (k : Nat) (h : k ≤ l.length) : (l.take k).length = k := by
  simp [List.length_take]; omega

theorem setRange_drop_le (buf : Bytes) (off : Nat) (p : Bytes) (k : Nat)
    (hk : k ≤ off) (h : off + p.length ≤ buf.length) :
    (setRange buf off p).drop k = (buf.take off).drop k ++ (p ++ buf.drop (off + p.length)) := by
  unfold setRange
  rw [List.append_assoc, List.drop_append_of_le_length (by rw [take_len_le _ _ (by omega)]; exact hk)]

theorem setRange_drop_ge (buf : Bytes) (off : Nat) (p : Bytes) (k : Nat)
    (hk : off + p.length ≤ k) (h : off + p.length ≤ buf.length) :
    (setRange buf off p).drop k = buf.drop k := by
  unfold setRange
  have h1 : (buf.take off ++ p).length = off + p.length := by
    rw [List.length_append, take_len_le _ _ (by omega)]
  rw [List.drop_append, List.drop_of_length_le (by omega), List.nil_append, h1, List.drop_drop]
  congr 1; omega

theorem setRange_take_end (buf : Bytes) (off : Nat) (p : Bytes) (h : off + p.length ≤ buf.length) :
    (setRange buf off p).take (off + p.length) = buf.take off ++ p := by
  unfold setRange
  have h1 : (buf.take off ++ p).length = off + p.length := by
    rw [List.length_append, take_len_le _ _ (by omega)]
  rw [List.take_append_of_le_length (by omega), List.take_of_length_le (by omega)]

/-- abs of a ring whose flag is false -/
theorem abs_nonempty (rb : Ring) (h : rb.isEmpty = false) :
    rb.abs = if rb.r < rb.w then (rb.buf.drop rb.r).take (rb.w - rb.r)
             else rb.buf.drop rb.r ++ rb.buf.take rb.w := by
  simp [abs, h]

theorem writeFit_linear (rb : Ring) (p : Bytes)
    (hlin : (rb.r ≤ rb.w ∧ p.length ≤ rb.size - rb.w) ∨ rb.w < rb.r) :
    rb.writeFit p = { rb with buf := setRange rb.buf rb.w p,
                              w := if rb.w + p.length = rb.size then 0 else rb.w + p.length,
                              isEmpty := false } := by
  unfold writeFit
  rcases hlin with ⟨h1, h2⟩ | h1
  · simp [h1, h2]
  · have : ¬ rb.r ≤ rb.w := by omega
    simp [this]

theorem writeFit_spec_linear (rb : Ring) (p c : Bytes) (g : rb.Geo) (hc : Content rb c)
    (hn : 0 < p.length) (hfit : c.length + p.length ≤ rb.size)
    (hlin : (rb.r ≤ rb.w ∧ p.length ≤ rb.size - rb.w) ∨ rb.w < rb.r) :
    (rb.writeFit p).WF ∧ (rb.writeFit p).abs = c ++ p := by
  rw [writeFit_linear rb p hlin]
  have hl := g.len; have hr := g.rlt; have hw := g.wlt; have hp := g.pos
  have hwn : rb.w + p.length ≤ rb.size := by
    rcases hlin with ⟨_, h2⟩ | h1
    · omega
    · rcases hc with ⟨h, _⟩ | ⟨_, rfl⟩ | ⟨h, _⟩
      · omega
      · simp [List.length_take, List.length_drop] at hfit; omega
      · omega
  have hb : rb.w + p.length ≤ rb.buf.length := by omega
  have hlen : (setRange rb.buf rb.w p).length = rb.size := by
    rw [setRange_length _ _ _ hb]; exact hl
  refine ⟨?_, ?_⟩
  · constructor <;> simp [hlen] <;> first | omega | (split <;> omega)
  · rw [abs_nonempty _ rfl]
    show (if rb.r < (if rb.w + p.length = rb.size then 0 else rb.w + p.length) then _ else _) = _
    have hds : rb.buf.drop rb.size = [] := List.drop_of_length_le (by omega)
    have htp : ∀ (x : Bytes), (p ++ x).take p.length = p := fun x => by
      rw [List.take_append_of_le_length (by omega), List.take_of_length_le (by omega)]
    rcases hc with ⟨hrw, rfl⟩ | ⟨hwr, rfl⟩ | ⟨hrw, rfl | rfl⟩
    · -- r < w : content is buf[r:w]
      have hc1 : (rb.buf.take rb.w).drop rb.r = (rb.buf.drop rb.r).take (rb.w - rb.r) := List.drop_take
      have hcl : ((rb.buf.drop rb.r).take (rb.w - rb.r)).length = rb.w - rb.r := by
        rw [take_len_le]; simp [List.length_drop]; omega
      by_cases hwrap : rb.w + p.length = rb.size
      · simp only [hwrap, ↓reduceIte, show ¬ rb.r < 0 by omega, List.take_zero, List.append_nil]
        rw [setRange_drop_le _ _ _ _ (by omega) hb, hc1, hwrap, hds, List.append_nil]
      · simp only [hwrap, ↓reduceIte, show rb.r < rb.w + p.length by omega]
        have e3 : ((rb.buf.drop rb.r).take (rb.w - rb.r)).take (rb.w + p.length - rb.r)
            = (rb.buf.drop rb.r).take (rb.w - rb.r) := List.take_of_length_le (by omega)
        rw [setRange_drop_le _ _ _ _ (by omega) hb, hc1, List.take_append, hcl, e3]
        congr 1
        have : rb.w + p.length - rb.r - (rb.w - rb.r) = p.length := by omega
        rw [this, htp]
    · -- w < r : content wraps
      have hle : rb.w + p.length ≤ rb.r := by
        simp [List.length_take, List.length_drop] at hfit; omega
      have hne : ¬ rb.w + p.length = rb.size := by omega
      simp only [hne, ↓reduceIte, show ¬ rb.r < rb.w + p.length by omega]
      rw [setRange_drop_ge _ _ _ _ hle hb, setRange_take_end _ _ _ hb, List.append_assoc]
    · -- r = w, empty
      have hc1 : (rb.buf.take rb.w).drop rb.r = [] := List.drop_of_length_le (by rw [take_len_le _ _ (by omega)]; omega)
      by_cases hwrap : rb.w + p.length = rb.size
      · simp only [hwrap, ↓reduceIte, show ¬ rb.r < 0 by omega, List.take_zero, List.append_nil,
          List.nil_append]
        rw [setRange_drop_le _ _ _ _ (by omega) hb, hc1, hwrap, hds, List.append_nil, List.nil_append]
      · simp only [hwrap, ↓reduceIte, show rb.r < rb.w + p.length by omega, List.nil_append]
        have : rb.w + p.length - rb.r = p.length := by omega
        rw [setRange_drop_le _ _ _ _ (by omega) hb, hc1, List.nil_append, this, htp]
    · -- r = w, full: impossible, no room
      simp [List.length_take, List.length_drop] at hfit; omega

theorem writeFit_spec_wrap (rb : Ring) (p c : Bytes) (g : rb.Geo) (hc : Content rb c)
    (hfit : c.length + p.length ≤ rb.size)
    (hrw : rb.r ≤ rb.w) (hbig : rb.size - rb.w < p.length) :
    (rb.writeFit p).WF ∧ (rb.writeFit p).abs = c ++ p := by
  have hl := g.len; have hr := g.rlt; have hw := g.wlt; have hp := g.pos
  -- content in uniform shape
  have hcu : c = (rb.buf.take rb.w).drop rb.r := by
    rcases hc with ⟨h, rfl⟩ | ⟨h, _⟩ | ⟨h, rfl | rfl⟩
    · exact List.drop_take.symm
    · omega
    · exact (List.drop_of_length_le (by rw [take_len_le _ _ (by omega)]; omega)).symm
    · simp [List.length_take, List.length_drop] at hfit; omega
  have hcl : c.length = rb.w - rb.r := by
    rw [hcu, List.length_drop, take_len_le _ _ (by omega)]
  -- names
  have hk : rb.size - rb.w ≤ p.length := by omega
  have hkr : p.length - (rb.size - rb.w) ≤ rb.r := by omega
  have hw' : rb.w + p.length - rb.size = p.length - (rb.size - rb.w) := by omega
  have htk : (p.take (rb.size - rb.w)).length = rb.size - rb.w := take_len_le _ _ hk
  have hdk : (p.drop (rb.size - rb.w)).length = p.length - (rb.size - rb.w) := by simp [List.length_drop]
  have hb1 : rb.w + (p.take (rb.size - rb.w)).length ≤ rb.buf.length := by omega
  -- first copy fills buf[w:size]
  have hbuf1 : setRange rb.buf rb.w (p.take (rb.size - rb.w)) = rb.buf.take rb.w ++ p.take (rb.size - rb.w) := by
    unfold setRange
    have : rb.buf.drop (rb.w + (p.take (rb.size - rb.w)).length) = [] :=
      List.drop_of_length_le (by omega)
    rw [this, List.append_nil]
  have hlen1 : (rb.buf.take rb.w ++ p.take (rb.size - rb.w)).length = rb.size := by
    rw [List.length_append, take_len_le _ _ (by omega), htk]; omega
  -- second copy fills buf[0:n-k]
  have hbuf2 : setRange (rb.buf.take rb.w ++ p.take (rb.size - rb.w)) 0 (p.drop (rb.size - rb.w))
      = p.drop (rb.size - rb.w) ++ (rb.buf.take rb.w ++ p.take (rb.size - rb.w)).drop (p.length - (rb.size - rb.w)) := by
    unfold setRange
    simp only [List.take_zero, List.nil_append, Nat.zero_add, hdk]
  have hwf : rb.writeFit p =
      { rb with buf := p.drop (rb.size - rb.w) ++ (rb.buf.take rb.w ++ p.take (rb.size - rb.w)).drop (p.length - (rb.size - rb.w)),
                w := p.length - (rb.size - rb.w), isEmpty := false } := by
    unfold writeFit
    have h1 : ¬ p.length ≤ rb.size - rb.w := by omega
    have h2 : ¬ rb.w + p.length - rb.size = rb.size := by omega
    simp only [hrw, ↓reduceIte, h1, hbuf1, hbuf2, hw', h2]
    have h3 : ¬ p.length - (rb.size - rb.w) = rb.size := by omega
    simp [h3]
  rw [hwf]
  have hlen2 : (p.drop (rb.size - rb.w) ++ (rb.buf.take rb.w ++ p.take (rb.size - rb.w)).drop (p.length - (rb.size - rb.w))).length = rb.size := by
    rw [List.length_append, hdk, List.length_drop, hlen1]; omega
  refine ⟨?_, ?_⟩
  · constructor <;> simp only [hlen2] <;> first | omega | (intro; omega) | simp
  · rw [abs_nonempty _ rfl]
    show (if rb.r < p.length - (rb.size - rb.w) then _ else _) = _
    simp only [show ¬ rb.r < p.length - (rb.size - rb.w) by omega, ↓reduceIte]
    -- take part
    have e1 : (p.drop (rb.size - rb.w) ++ (rb.buf.take rb.w ++ p.take (rb.size - rb.w)).drop (p.length - (rb.size - rb.w))).take (p.length - (rb.size - rb.w))
        = p.drop (rb.size - rb.w) := by
      rw [List.take_append_of_le_length (by omega), List.take_of_length_le (by omega)]
    -- drop part
    have e2 : (p.drop (rb.size - rb.w) ++ (rb.buf.take rb.w ++ p.take (rb.size - rb.w)).drop (p.length - (rb.size - rb.w))).drop rb.r
        = c ++ p.take (rb.size - rb.w) := by
      rw [List.drop_append, List.drop_of_length_le (by omega), List.nil_append, hdk, List.drop_drop]
      have : p.length - (rb.size - rb.w) + (rb.r - (p.length - (rb.size - rb.w))) = rb.r := by omega
      rw [this, List.drop_append_of_le_length (by rw [take_len_le _ _ (by omega)]; exact hrw), ← hcu]
    rw [e1, e2, List.append_assoc, List.take_append_drop]

theorem writeFit_spec (rb : Ring) (p c : Bytes) (g : rb.Geo) (hc : Content rb c)
    (hn : 0 < p.length) (hfit : c.length + p.length ≤ rb.size) :
    (rb.writeFit p).WF ∧ (rb.writeFit p).abs = c ++ p := by
  by_cases hrw : rb.r ≤ rb.w
  · by_cases hs : p.length ≤ rb.size - rb.w
    · exact writeFit_spec_linear rb p c g hc hn hfit (Or.inl ⟨hrw, hs⟩)
    · exact writeFit_spec_wrap rb p c g hc hfit hrw (by omega)
  · exact writeFit_spec_linear rb p c g hc hn hfit (Or.inr (by omega))

theorem content_of_wf (rb : Ring) (h : rb.WF) : Content rb rb.abs := by
  unfold Content abs
  by_cases he : rb.isEmpty = true
  · have := h.emp he; simp [he, this]
  · simp only [he, Bool.false_eq_true, ↓reduceIte]
    by_cases h1 : rb.r < rb.w
    · simp [h1]
    · by_cases h2 : rb.w < rb.r
      · right; left; simp [h1, h2]
      · right; right; simp [h1]; omega

theorem write_spec (rb : Ring) (h : rb.WF) (p : Bytes) :
    (rb.write p).WF ∧ (rb.write p).abs = rb.abs ++ p := by
  unfold write
  by_cases hp : p.length = 0
  · have : p = [] := List.eq_nil_of_length_eq_zero hp
    simp [hp, h, this]
  · simp only [hp, ↓reduceIte]
    have hn : 0 < p.length := by omega
    have hfl := free_length rb h
    have hla := length_abs rb h
    by_cases hgrow : rb.free < p.length
    · -- grow by exactly the deficit, content linearised at 0
      simp only [hgrow, ↓reduceIte]
      have hsz : rb.size + (p.length - rb.free) - rb.abs.length = p.length := by omega
      have g : (rb.makeSpace (p.length - rb.free)).Geo := by
        constructor <;> simp [makeSpace, hsz] <;> omega
      have hc : Content (rb.makeSpace (p.length - rb.free)) rb.abs := by
        unfold Content
        simp only [makeSpace, hsz]
        by_cases h0 : rb.abs.length = 0
        · right; right
          have : rb.abs = [] := List.eq_nil_of_length_eq_zero h0
          simp [this]
        · left
          refine ⟨by omega, ?_⟩
          simp
      exact writeFit_spec _ p rb.abs g hc hn (by simp [makeSpace]; omega)
    · simp only [hgrow, ↓reduceIte]
      have hz : 0 < rb.size := by omega
      have g : rb.Geo := ⟨h.len, hz, h.rlt' hz, h.wlt' hz⟩
      exact writeFit_spec rb p rb.abs g (content_of_wf rb h) hn (by omega)

/-! ### constructors, Read, PeekAll, PeekUintN (models; refinement lemmas in OAP/Proofs/Ring.lean) -/

/-- `New(size)` -/
def new (size : Nat) : Ring := { buf := List.replicate size 0, size := size, r := 0, w := 0, isEmpty := true }

/-- `NewWithData(data)`: the ring holds `data` and is full -/
def newWithData (data : Bytes) : Ring := { buf := data, size := data.length, r := 0, w := 0, isEmpty := false }

/-- `Read(p)` with `len(p) = n`: the bytes copied into `p` and the new ring; `ErrIsEmpty` on an empty ring.
The copy logic is `Peek`'s; the read pointer moves by the number of bytes copied, `% size` panics on size 0. -/
def read (rb : Ring) (n : Nat) : Res (Bytes × Ring) :=
  if n = 0 then .ok ([], rb)
  else if rb.isEmpty then .err "ring buffer is empty"
  else
    let fe := rb.peek n
    let m := fe.1.length + fe.2.length
    if rb.size = 0 then .panic "integer divide by zero"
    else
      let r' := (rb.r + m) % rb.size
      .ok (fe.1 ++ fe.2, { rb with r := r', isEmpty := (r' == rb.w) })

/-- `PeekAll()` -/
def peekAll (rb : Ring) : Bytes × Bytes :=
  if rb.isEmpty then ([], [])
  else if rb.r < rb.w then ((rb.buf.drop rb.r).take (rb.w - rb.r), [])
  else (rb.buf.drop rb.r, rb.buf.take rb.w)

/-- `PeekUint8()` -/
def peekUint8 (rb : Ring) : Res UInt8 :=
  if rb.length < 1 then .ok 0 else
  let fe := rb.peek 1
  if fe.2.length > 0 then Bytes.idx fe.2 0 else Bytes.idx fe.1 0

/-- `PeekUint16()`: `binary.BigEndian.Uint16` panics on a slice shorter than 2 -/
def peekUint16 (rb : Ring) : Res UInt16 :=
  if rb.length < 2 then .ok 0 else
  let fe := rb.peek 2
  match fe.1 ++ fe.2 with
  | a :: b :: _ => .ok (rd16 a b)
  | _ => .panic "index out of range"

def peekUint32 (rb : Ring) : Res UInt32 :=
  if rb.length < 4 then .ok 0 else
  let fe := rb.peek 4
  match fe.1 ++ fe.2 with
  | a :: b :: c :: d :: _ => .ok (rd32 a b c d)
  | _ => .panic "index out of range"

def peekUint64 (rb : Ring) : Res UInt64 :=
  if rb.length < 8 then .ok 0 else
  let fe := rb.peek 8
  match fe.1 ++ fe.2 with
  | a :: b :: c :: d :: e :: f :: g :: h :: _ => .ok (rd64 a b c d e f g h)
  | _ => .panic "index out of range"

end Ring

end OAP
