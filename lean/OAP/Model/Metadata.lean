/-
Model of go/metadata.go: length-prefixed strings (marshalString / unmarshalStringLength),
the pair decoder (UnmarshalValues with its getString closure and `for` loop), the encoder
(MarshalValues: skip empty key, skip over-long strings, break at the first pair that does
not fit) and Set/Get. Lengths are Nat (Go ints that are lengths); the bit-level
expressions come from the extractor. `strings.ToLower` is a parameter `lower`.
Go maps are association lists; the order in which MarshalValues visits the map is an
explicit argument.
-/
import OAP.Base
import OAP.Gen.Facts
namespace OAP.Metadata
open OAP

def len7 : UInt8 := UInt8.ofNat Gen.protocol_length7Bit
def len15 : UInt8 := UInt8.ofNat Gen.protocol_length15Bit

abbrev Pair := Bytes × Bytes

/-- `marshalString(str) (data []byte, tooLong bool)`; `none` = tooLong -/
def marshalString (s : Bytes) : Option Bytes :=
  let l := s.length
  if l ≤ Gen.protocol_max7BitLength then some (UInt8.ofNat l :: s)
  else if l ≤ Gen.protocol_max15BitLength then some (Gen.mdLenFirst l :: Gen.mdLenSecond l :: s)
  else none

/-- `unmarshalStringLength(data) (l int, bitSize uint8, err error)` -/
def unmarshalStringLength (data : Bytes) : Res (Nat × UInt8) :=
  match data with
  | [] => .ok (0, len7)
  | b0 :: rest =>
    let bitSize := Gen.mdBitSize b0
    if bitSize = len7 then .ok (Gen.mdLen7 b0, bitSize)
    else if bitSize = len15 then
      match rest with
      | [] => .err "invalid metadata binary data"
      | b1 :: _ =>
        let l := Gen.mdLen15 (Gen.mdLen15First b0) (Gen.mdLen15Second b1)
        if l ≤ Gen.protocol_max7BitLength then .err "invalid metadata binary data" else .ok (l, bitSize)
    else .ok (0, bitSize)

/-- the `getString` closure of UnmarshalValues, as a function of the remaining data:
returns the string and the new remaining data. `sl > l-1` on Go ints is `sl + 1 > l`. -/
def getString (data : Bytes) : Res (Bytes × Bytes) :=
  let l := data.length
  match unmarshalStringLength data with
  | .err e => .err e
  | .panic w => .panic w
  | .ok (sl, bitSize) =>
    if bitSize = len7 then
      if sl + 1 > l then .err "invalid metadata binary data"
      else do
        let str ← Bytes.slice data 1 (sl + 1)
        let rest ← Bytes.sliceFrom data (sl + 1)
        pure (str, rest)
    else if bitSize = len15 then
      if sl + 2 > l then .err "invalid metadata binary data"
      else do
        let str ← Bytes.slice data 2 (sl + 2)
        let rest ← Bytes.sliceFrom data (sl + 2)
        pure (str, rest)
    else .err "invalid metadata binary data"

/-- canonical length prefix and canonical string encoding (the *specification* side) -/
def encLen (n : Nat) : Bytes :=
  if n ≤ 127 then [UInt8.ofNat n] else [UInt8.ofNat (n / 256 + 128), UInt8.ofNat (n % 256)]
def enc (s : Bytes) : Bytes := encLen s.length ++ s
def encPair (kv : Pair) : Bytes := enc kv.1 ++ enc kv.2
def encPairs (ps : List Pair) : Bytes := ps.flatMap encPair

/-! ### byte tables (complete, kernel-checked) and the characterisation of `getString` -/

theorem byte_tab : ∀ b : Fin 256,
    (b.val < 128 → Gen.mdBitSize (UInt8.ofFin b) = len7 ∧ Gen.mdLen7 (UInt8.ofFin b) = b.val) ∧
    (128 ≤ b.val → Gen.mdBitSize (UInt8.ofFin b) ≠ len7 ∧ Gen.mdBitSize (UInt8.ofFin b) = len15 ∧
        Gen.mdLen15First (UInt8.ofFin b) = b.val - 128) := by
  decide +kernel

theorem byte_lo (b : UInt8) (h : b.toNat < 128) : Gen.mdBitSize b = len7 ∧ Gen.mdLen7 b = b.toNat := by
  have := (byte_tab b.toFin).1 (by simpa using h)
  simpa using this
theorem byte_hi (b : UInt8) (h : 128 ≤ b.toNat) :
    Gen.mdBitSize b ≠ len7 ∧ Gen.mdBitSize b = len15 ∧ Gen.mdLen15First b = b.toNat - 128 := by
  have := (byte_tab b.toFin).2 (by simpa using h)
  simpa using this

/-- `getString` in closed form: the simple recursive-descent reading of one canonical string -/
def getStringSpec (data : Bytes) : Option (Bytes × Bytes) :=
  match data with
  | [] => none
  | b0 :: rest =>
    if b0.toNat < 128 then
      if b0.toNat > rest.length then none else some (rest.take b0.toNat, rest.drop b0.toNat)
    else
      match rest with
      | [] => none
      | b1 :: rest2 =>
        let sl := (b0.toNat - 128) * 256 + b1.toNat
        if sl ≤ 127 then none
        else if sl > rest2.length then none
        else some (rest2.take sl, rest2.drop sl)

theorem len15_ne_len7 : len15 ≠ len7 := by decide

theorem usl_lo (b0 : UInt8) (rest : Bytes) (hb : b0.toNat < 128) :
    unmarshalStringLength (b0 :: rest) = .ok (b0.toNat, len7) := by
  obtain ⟨h1, h2⟩ := byte_lo b0 hb
  simp only [unmarshalStringLength, h1, h2, ↓reduceIte]

theorem usl_hi_nil (b0 : UInt8) (hb : 128 ≤ b0.toNat) :
    unmarshalStringLength [b0] = .err "invalid metadata binary data" := by
  obtain ⟨h1, h2, _⟩ := byte_hi b0 hb
  simp only [unmarshalStringLength, h2, len15_ne_len7, ↓reduceIte]

theorem usl_hi (b0 b1 : UInt8) (rest : Bytes) (hb : 128 ≤ b0.toNat) :
    unmarshalStringLength (b0 :: b1 :: rest) =
      if (b0.toNat - 128) * 256 + b1.toNat ≤ 127 then .err "invalid metadata binary data"
      else .ok ((b0.toNat - 128) * 256 + b1.toNat, len15) := by
  obtain ⟨h1, h2, h3⟩ := byte_hi b0 hb
  have e : Gen.mdLen15 (Gen.mdLen15First b0) (Gen.mdLen15Second b1) = (b0.toNat - 128) * 256 + b1.toNat := by
    simp [Gen.mdLen15, Gen.mdLen15Second, h3]
  have m7 : Gen.protocol_max7BitLength = 127 := rfl
  simp only [unmarshalStringLength, h2, len15_ne_len7, ↓reduceIte, e, m7]

theorem getString_eq (data : Bytes) :
    (∀ p, getStringSpec data = some p → getString data = .ok p) ∧
    (getStringSpec data = none → ∃ e, getString data = .err e) := by
  cases data with
  | nil => simp [getStringSpec, getString, unmarshalStringLength]
  | cons b0 rest =>
    by_cases hb : b0.toNat < 128
    · by_cases hl : b0.toNat > rest.length
      · have : b0.toNat + 1 > rest.length + 1 := by omega
        simp [getStringSpec, getString, usl_lo b0 rest hb, hb, hl, this]
      · have h' : ¬ (b0.toNat + 1 > rest.length + 1) := by omega
        have h'' : b0.toNat + 1 ≤ rest.length + 1 := by omega
        simp [getStringSpec, getString, usl_lo b0 rest hb, hb, hl, h', Bytes.slice, Bytes.sliceFrom, h'']
    · have hb' : 128 ≤ b0.toNat := by omega
      cases rest with
      | nil => simp [getStringSpec, getString, usl_hi_nil b0 hb', hb]
      | cons b1 rest2 =>
        have hu := usl_hi b0 b1 rest2 hb'
        simp only [getStringSpec, getString, hu, hb, ↓reduceIte]
        generalize (b0.toNat - 128) * 256 + b1.toNat = n
        by_cases h127 : n ≤ 127
        · simp [h127]
        · by_cases hl : n > rest2.length
          · have : n + 2 > rest2.length + 1 + 1 := by omega
            simp [h127, hl, len15_ne_len7, this]
          · have h' : ¬ (n + 2 > rest2.length + 1 + 1) := by omega
            have h'' : n + 2 ≤ rest2.length + 1 + 1 := by omega
            simp [h127, hl, len15_ne_len7, h', Bytes.slice, Bytes.sliceFrom, h'']

theorem getString_ok_iff (data : Bytes) (p : Bytes × Bytes) :
    getString data = .ok p ↔ getStringSpec data = some p := by
  have ⟨h1, h2⟩ := getString_eq data
  constructor
  · intro h
    cases hs : getStringSpec data with
    | none => obtain ⟨e, he⟩ := h2 hs; rw [he] at h; cases h
    | some q => have := h1 q hs; rw [this] at h; cases h; rfl
  · exact h1 p

/-- getString never panics -/
theorem getString_total (data : Bytes) : (getString data).isPanic = false := by
  have ⟨h1, h2⟩ := getString_eq data
  cases hs : getStringSpec data with
  | none => obtain ⟨e, he⟩ := h2 hs; simp [he, Res.isPanic]
  | some q => simp [h1 q hs, Res.isPanic]

theorem ofNat_toNat (b : UInt8) : UInt8.ofNat b.toNat = b := by simp

/-- soundness of one string: what is accepted is the canonical encoding of what is returned -/
theorem getString_sound (data s rest : Bytes) (h : getString data = .ok (s, rest)) :
    data = enc s ++ rest ∧ s.length ≤ 32767 := by
  rw [getString_ok_iff] at h
  cases data with
  | nil => simp [getStringSpec] at h
  | cons b0 t =>
    have hb0 : b0.toNat < 256 := b0.toNat_lt
    simp only [getStringSpec] at h
    split at h
    · rename_i hb
      split at h
      · simp at h
      · rename_i hl
        simp only [Option.some.injEq, Prod.mk.injEq] at h
        obtain ⟨h1, h2⟩ := h
        have hlen : s.length = b0.toNat := by rw [← h1, List.length_take]; omega
        refine ⟨?_, by omega⟩
        have : encLen s.length = [b0] := by
          simp only [encLen, hlen, show b0.toNat ≤ 127 by omega, ↓reduceIte, ofNat_toNat]
        rw [enc, this, ← h1, ← h2]; simp
    · rename_i hb
      cases t with
      | nil => simp at h
      | cons b1 t2 =>
        have hb1 : b1.toNat < 256 := b1.toNat_lt
        simp only at h
        split at h
        · simp at h
        · rename_i h127
          split at h
          · simp at h
          · rename_i hl
            simp only [Option.some.injEq, Prod.mk.injEq] at h
            obtain ⟨h1, h2⟩ := h
            have hlen : s.length = (b0.toNat - 128) * 256 + b1.toNat := by
              rw [← h1, List.length_take]; omega
            refine ⟨?_, by omega⟩
            have e0 : UInt8.ofNat (s.length / 256 + 128) = b0 := by
              have : s.length / 256 + 128 = b0.toNat := by omega
              rw [this, ofNat_toNat]
            have e1 : UInt8.ofNat (s.length % 256) = b1 := by
              have : s.length % 256 = b1.toNat := by omega
              rw [this, ofNat_toNat]
            have : encLen s.length = [b0, b1] := by
              simp only [encLen, show ¬ s.length ≤ 127 by omega, ↓reduceIte, e0, e1]
            rw [enc, this, ← h1, ← h2]; simp

theorem getString_rest_lt (data s rest : Bytes) (h : getString data = .ok (s, rest)) :
    rest.length < data.length := by
  have := (getString_sound data s rest h).1
  rw [this, enc]; simp [encLen]; split <;> simp <;> omega

/-- the `for` loop of UnmarshalValues: raw pairs in order of appearance. Well-founded on the
remaining length — the termination proof is `getString_rest_lt` (every string consumes ≥ 1 byte). -/
def pairsLoop (data : Bytes) : Res (List Pair) :=
  if _hd : data = [] then .ok [] else
  match _hk : getString data with
  | .err e => .err e
  | .panic w => .panic w
  | .ok (k, r1) =>
    match _hv : getString r1 with
    | .err e => .err e
    | .panic w => .panic w
    | .ok (v, r2) =>
      match pairsLoop r2 with
      | .err e => .err e
      | .panic w => .panic w
      | .ok ps => .ok ((k, v) :: ps)
termination_by data.length
decreasing_by
  have := getString_rest_lt data k r1 _hk
  have := getString_rest_lt r1 v r2 _hv
  omega

/-- `UnmarshalValues` up to key lower-casing and map insertion: the raw pairs -/
def rawPairs (data : Bytes) : Res (List Pair) :=
  if data.length = 0 then .ok [] else if data.length < 2 then .err "invalid metadata binary data" else pairsLoop data

/-- later-wins lookup in an association list (Go map after the insertions in order) -/
def lookup (m : List Pair) (k : Bytes) : Option Bytes := (m.reverse.find? (fun kv => kv.1 == k)).map (·.2)

/-- `UnmarshalValues`: `values[strings.ToLower(key)] = val` for every pair in order -/
def unmarshalValues (lower : Bytes → Bytes) (data : Bytes) : Res (List Pair) :=
  (rawPairs data).map (fun ps => ps.map (fun kv => (lower kv.1, kv.2)))

/-- the loop of MarshalValues over a given visiting order, `data` being the block so far -/
def marshalLoop (max : Int) : List Pair → Bytes → Bytes
  | [], data => data
  | (k, v) :: rest, data =>
    if k = [] then marshalLoop max rest data
    else match marshalString k with
      | none => marshalLoop max rest data
      | some kb =>
        match marshalString v with
        | none => marshalLoop max rest data
        | some vb =>
          if (kb.length + vb.length + data.length : Int) > max then data   -- break
          else marshalLoop max rest (data ++ kb ++ vb)

/-- `MarshalValues(max)` visiting the map in `order` -/
def marshalValues (order : List Pair) (max : Int) : Bytes :=
  if order = [] then [] else marshalLoop max order []

/-- Go's `sort.Strings` order on keys: bytewise lexicographic -/
def keyLe (a b : Pair) : Bool := decide (a.1 ≤ b.1)
def sortPairs (m : List Pair) : List Pair := m.mergeSort keyLe

/-- `MarshalValues(max)` of the repaired code: keys visited in sorted order -/
def marshalMap (m : List Pair) (max : Int) : Bytes := marshalValues (sortPairs m) max

/-- `Set(k, v)`: length guards, then `Values[strings.ToLower(k)] = v` -/
def set (lower : Bytes → Bytes) (m : List Pair) (k v : Bytes) : Res (List Pair) :=
  if k.length > Gen.protocol_maxStringLength then .err "key length should not greate 2^14 - 1"
  else if v.length > Gen.protocol_maxStringLength then .err "value length should not greate 2^14 - 1"
  else .ok (m ++ [(lower k, v)])

/-- `Get(k)` -/
def get (lower : Bytes → Bytes) (m : List Pair) (k : Bytes) : Bytes := (lookup m (lower k)).getD []

end OAP.Metadata
