/-
Model of go/packet.go Packet.Err / Packet.Unmarshal and go/error.go: a response with non-zero
status is surfaced as an LBError carrying the status and the code/message of the error body,
or the generic code-500 fallback when the body cannot be decoded. The protobuf/JSON decoder of
`control.Error` is a parameter `dec` (codec → body → decoded (code, message) or failure).
-/
import OAP.Model.Frame
namespace OAP

structure LBError where
  status : UInt8
  code : Nat
  msg : String
  deriving Repr, DecidableEq

abbrev ErrDecoder := UInt8 → Bytes → Option (Nat × String)

def fallbackCode : Nat := 500
def fallbackMsg : String := "unknown error, cant unmarshal body"

/-- `func (p Packet) Err() error` -/
def Packet.err (dec : ErrDecoder) (p : Packet) : Option LBError :=
  if p.type ≠ .response then none
  else if p.status = UInt8.ofNat Gen.protocol_StatusSuccess then none
  else match dec p.codec p.body with
    | some (c, m) => some { status := p.status, code := c, msg := m }
    | none => some { status := p.status, code := fallbackCode, msg := fallbackMsg }

end OAP
