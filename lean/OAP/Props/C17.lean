/-
C17 — No data races under documented concurrent use. Property theorems only (view Lockset: abstract traces with
readers-writer locks; happens-before = program order + release→acquire edges).
-/
import OAP.Model.Client.Lockset
import OAP.Gen.Facts
namespace OAP.C17
open OAP OAP.Lockset

/-! ### the access discipline of the client struct, checked against the table regenerated from the source -/

/-- functions of the documented single-threaded phase: construction, option setters, handler registration
("registered before dialing") and `Dial` up to the first goroutine it starts -/
def initFns : List String :=
  ["New", "WithContext", "WithLogger", "WithConnectMetadata", "Dial", "Subscribe", "OnPing", "OnPong", "OnClose", "AfterReconnected"]
/-- fields written only in that phase and read-only afterwards -/
def immutableAfterInit : List String :=
  ["Context", "Logger", "addr", "afterReconnected", "connectMetadata", "dialOptions", "handshake", "onClose", "onPing", "onPong", "subs"]
def muFields : List String := ["conn", "doReconnectting"]
def stateFields : List String := ["authInfo", "lastKeepaliveId", "lastPongAt", "reconnectCount"]
/-- synchronisation objects themselves (mutexes, Once, the close signal channel) -/
def syncObjects : List String := ["closeCh", "closeOnce", "recvsMu", "stateMu", "embed:sync.RWMutex"]
/-- accesses whose lock is held by the (only) caller rather than lexically: `client.write` is called from keepalive's ping
closure, which holds the read lock -/
def justified : List (String × String × String × List String) := [("conn", "write", "read", [])]

def holdsAny (locks : List String) (l : String) : Bool := locks.contains (l ++ ":R") || locks.contains (l ++ ":W")

def disciplined (row : String × String × String × List String) : Bool :=
  let (f, fn, kind, locks) := row
  if justified.contains row then true
  else if immutableAfterInit.contains f then kind == "read" || initFns.contains fn
  else if muFields.contains f then (if kind == "write" then locks.contains "mu:W" else holdsAny locks "mu")
  else if stateFields.contains f then locks.contains "stateMu:W"
  else if f == "recvs" then (if kind == "write" then locks.contains "recvsMu:W" else holdsAny locks "recvsMu")
  else if f == "recovering" then kind == "atomic"
  else syncObjects.contains f          -- a field this classification does not know is NOT disciplined

/-- T2: every syntactic access to a field of the client struct (regenerated from go/client/client.go on every run,
closures included, with the lexically held locks) obeys the discipline: guarded by its mutex (write mode for writes),
or atomic, or confined to the single-threaded initialisation phase, or justified by name; and every field of the
struct is classified. With `lockset_sound` below this is the argument that the client's fields are race-free. -/
theorem table_disciplined :
    Gen.clientAccess.all disciplined = true ∧
    Gen.clientFields.all (fun f => immutableAfterInit.contains f || muFields.contains f || stateFields.contains f ||
      f == "recvs" || f == "recovering" || syncObjects.contains f) = true := by
  decide

/-- LOCKSET SOUNDNESS: two accesses by different threads, each made while holding a common lock, at least one of the
holds in write mode, are ordered by happens-before — so a field whose every access site is protected that way (the
access table regenerated from the source) has no data race, in any trace -/
theorem lockset_sound (tr : Trace) (wf : WFLock tr) (i j : Nat) (ei ej : Ev) (x : Nat)
    (hij : i < j) (hj : j < tr.length)
    (hei : tr[i]? = some ei) (hej : tr[j]? = some ej) (hne : ei.tid ≠ ej.tid)
    (hai : isAccess ei.op x) (haj : isAccess ej.op x)
    (l : Nat) (wi wj : Bool) (hw : wi = true ∨ wj = true)
    (hi : holdsAt tr ei.tid l wi i) (hjh : holdsAt tr ej.tid l wj j) : HB tr i j :=
  Lockset.lockset_sound tr wf i j ei ej x hij hj hei hej hne hai haj l wi wj hw hi hjh


/-- T2 structure fact shared with C19 and C05: the request-id generator, which every goroutine that issues a request or a heartbeat calls
on the connection's context, is ONE atomic read-modify-write on a variable nobody else touches — no plain load or store, no second
statement (a wrap-around special case written as a plain assignment would race with the other callers' atomic adds) -/
theorem id_generator_atomic :
    Gen.stmts_GetRequestIDGen = ["var id uint32", "return func() uint32 { return atomic.AddUint32(&id, 1) }"] := by
  decide


/-- T2 structure fact: the recovery fails the in-flight waiters (closes their channels) under the EXCLUSIVE waiter lock — the dispatcher
hands responses over under the shared one, so a close under the shared lock would race with a send on the same channel -/
theorem failall_exclusive :
    Gen.seq_client_reconnect = ["c.stateMu.Lock", "c.stateMu.Unlock", "c.stateMu.Unlock", "c.RLock", "c.RUnlock", "old.Close", "c.recvsMu.Lock", "close:w.ch", "c.recvsMu.Unlock", "c.dial", "c.stateMu.Lock", "c.stateMu.Unlock", "c.isAuthExpired", "c.auth", "c.reconnectDial"] ∧
    Gen.seq_client_handleResponse = ["c.recvsMu.RLock", "defer:c.recvsMu.RUnlock", "select", "send:w.ch", "default"] := by
  decide

end OAP.C17
