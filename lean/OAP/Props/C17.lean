/-
C17 — No data races under documented concurrent use. Property theorems only (view Lockset: abstract traces with
readers-writer locks; happens-before = program order + release→acquire edges).
-/
import OAP.Model.Client.Lockset
import OAP.Model.Client.LocksetConn
import OAP.Gen.Facts
import OAP.Gen.Conn
namespace OAP.C17
open OAP OAP.Lockset

/-! ### the access discipline of the client struct, checked against the table regenerated from the source -/

/-- functions of the documented single-threaded phase: construction, option setters, handler registration
("registered before dialing") and `Dial` up to the first goroutine it starts -/
def initFns : List String :=
  ["New", "WithContext", "WithLogger", "WithConnectMetadata", "Dial", "Subscribe", "OnPing", "OnPong", "OnClose", "AfterReconnected"]
/-- fields written only in that phase and read-only afterwards -/
def immutableAfterInit : List String :=
  ["Context", "Logger", "addr", "afterReconnected", "connectMetadata", "dialOptions", "handshake", "onClose", "onPing", "onPong", "subs"]
def muFields : List String := ["conn", "doReconnectting"]
def stateFields : List String := ["authInfo", "lastKeepaliveId", "lastPongAt", "reconnectCount"]
/-- synchronisation objects themselves (mutexes, Once, the close signal channel) -/
def syncObjects : List String := ["closeCh", "closeOnce", "recvsMu", "stateMu", "embed:sync.RWMutex"]
/-- accesses whose lock is held by the (only) caller rather than lexically: `client.write` is called from keepalive's ping
closure, which holds the read lock -/
def justified : List (String × String × String × List String) := [("conn", "write", "read", [])]

def holdsAny (locks : List String) (l : String) : Bool := locks.contains (l ++ ":R") || locks.contains (l ++ ":W")

def disciplined (row : String × String × String × List String) : Bool :=
  let (f, fn, kind, locks) := row
  if justified.contains row then true
  else if immutableAfterInit.contains f then kind == "read" || initFns.contains fn
  else if muFields.contains f then (if kind == "write" then locks.contains "mu:W" else holdsAny locks "mu")
  else if stateFields.contains f then locks.contains "stateMu:W"
  else if f == "recvs" then (if kind == "write" then locks.contains "recvsMu:W" else holdsAny locks "recvsMu")
  else if f == "recovering" then kind == "atomic"
  else syncObjects.contains f          -- a field this classification does not know is NOT disciplined

/-- T2: every syntactic access to a field of the client struct (regenerated from go/client/client.go on every run,
closures included, with the lexically held locks) obeys the discipline: guarded by its mutex (write mode for writes),
or atomic, or confined to the single-threaded initialisation phase, or justified by name; and every field of the
struct is classified. With `lockset_sound` below this is the argument that the client's fields are race-free. -/
theorem table_disciplined :
    Gen.clientAccess.all disciplined = true ∧
    Gen.clientFields.all (fun f => immutableAfterInit.contains f || muFields.contains f || stateFields.contains f ||
      f == "recvs" || f == "recovering" || syncObjects.contains f) = true := by
  decide

/-- LOCKSET SOUNDNESS: two accesses by different threads, each made while holding a common lock, at least one of the
holds in write mode, are ordered by happens-before — so a field whose every access site is protected that way (the
access table regenerated from the source) has no data race, in any trace -/
theorem lockset_sound (tr : Trace) (wf : WFLock tr) (i j : Nat) (ei ej : Ev) (x : Nat)
    (hij : i < j) (hj : j < tr.length)
    (hei : tr[i]? = some ei) (hej : tr[j]? = some ej) (hne : ei.tid ≠ ej.tid)
    (hai : isAccess ei.op x) (haj : isAccess ej.op x)
    (l : Nat) (wi wj : Bool) (hw : wi = true ∨ wj = true)
    (hi : holdsAt tr ei.tid l wi i) (hjh : holdsAt tr ej.tid l wj j) : HB tr i j :=
  Lockset.lockset_sound tr wf i j ei ej x hij hj hei hej hne hai haj l wi wj hw hi hjh


/-- T2 structure fact shared with C19 and C05: the request-id generator, which every goroutine that issues a request or a heartbeat calls
on the connection's context, is ONE atomic read-modify-write on a variable nobody else touches — no plain load or store, no second
statement (a wrap-around special case written as a plain assignment would race with the other callers' atomic adds) -/
theorem id_generator_atomic :
    Gen.stmts_GetRequestIDGen = ["var id uint32", "return func() uint32 { return atomic.AddUint32(&id, 1) }"] := by
  decide


/-- T2 structure fact: the recovery fails the in-flight waiters (closes their channels) under the EXCLUSIVE waiter lock — the dispatcher
hands responses over under the shared one, so a close under the shared lock would race with a send on the same channel -/
theorem failall_exclusive :
    Gen.seq_client_reconnect = ["c.stateMu.Lock", "c.stateMu.Unlock", "c.stateMu.Unlock", "c.RLock", "c.RUnlock", "old.Close", "c.recvsMu.Lock", "close:w.ch", "c.recvsMu.Unlock", "c.dial", "c.stateMu.Lock", "c.stateMu.Unlock", "c.isAuthExpired", "c.auth", "c.reconnectDial"] ∧
    Gen.seq_client_handleResponse = ["c.recvsMu.RLock", "defer:c.recvsMu.RUnlock", "select", "send:w.ch", "default"] := by
  decide


/-! ### the connection types: tcpConn, wsConn, closeCallback

The tables `Gen.connFields / connCaptured / connAccess / connCalls / connEdges` are regenerated from
go/client/{tcp_conn,ws_conn,client_conn}.go on every run (extract/conn.go). Hand-written here: which goroutine ROLE executes each
function, and by what each field is protected. The theorems decide that the regenerated tables obey them; a new field, method,
closure, operation or call edge breaks a proof until it is classified. What a role abstracts: see `LocksetConn`. -/

open OAP.LocksetConn

/-- function ↦ goroutine role.
* constructor: the dial functions up to the statement that starts the goroutines (what follows is `<dial>.started`), `communicating`
  (called from them only), `newCloseCallback`;
* reader: `reading` and what only it calls — on ws also gorilla's control handlers, which `NextReader` runs (`connHandlers`);
* writer: `writing`; dispatcher: the goroutine started by `OnPacket` under `onPacketOnce`;
* any: the ClientConn API, the helpers shared with the goroutines (`closed`, `Close` and its once-body, `write`), `DispatchClose`. -/
def connRoles : List (String × Role) := [
  ("dialTCPConn", .constructor), ("dialWSConn", .constructor), ("newCloseCallback", .constructor),
  ("tcpConn.communicating", .constructor), ("wsConn.communicating", .constructor),
  ("dialTCPConn.started", .any), ("dialWSConn.started", .any),
  ("tcpConn.reading", .reader), ("tcpConn.readPacket", .reader), ("tcpConn.addPacket", .reader),
  ("wsConn.reading", .reader), ("wsConn.readPacket", .reader), ("wsConn.addPacket", .reader),
  ("wsConn.onClose", .reader), ("wsConn.onPing", .reader), ("wsConn.onPong", .reader),
  ("tcpConn.writing", .writer), ("wsConn.writing", .writer),
  ("tcpConn.OnPacket.func1.func1", .dispatcher), ("wsConn.OnPacket.func1.func1", .dispatcher),
  ("tcpConn.NeedHandleControl", .any), ("tcpConn.Context", .any), ("tcpConn.Write", .any), ("tcpConn.write", .any),
  ("tcpConn.OnPacket", .any), ("tcpConn.OnPacket.func1", .any), ("tcpConn.Close", .any), ("tcpConn.Close.func1", .any),
  ("tcpConn.closed", .any),
  ("wsConn.NeedHandleControl", .any), ("wsConn.Context", .any), ("wsConn.Write", .any), ("wsConn.write", .any),
  ("wsConn.writePing", .any), ("wsConn.writeClose", .any),
  ("wsConn.OnPacket", .any), ("wsConn.OnPacket.func1", .any), ("wsConn.Close", .any), ("wsConn.Close.func1", .any),
  ("wsConn.closed", .any),
  ("closeCallback.OnClose", .any), ("closeCallback.DispatchClose", .any)]

/-- method values given to code outside the package, with the reason for their role -/
def connHandlers : List (String × String) := [
  ("wsConn.onClose", "gorilla/websocket: the close handler is called from NextReader / the message reader — the goroutine of wsConn.reading (NextReader: reader only, connCallRules)"),
  ("wsConn.onPing", "gorilla/websocket: the ping handler is called from NextReader / the message reader — the goroutine of wsConn.reading"),
  ("wsConn.onPong", "gorilla/websocket: the pong handler is called from NextReader / the message reader — the goroutine of wsConn.reading")]

/-- (struct, field) ↦ discipline. `needAuth`, `writeBuf` (tcp) and `dopts` are never read on this tree; they get the strictest class. -/
def connDiscs : List ((String × String) × Disc) := [
  (("closeCallback", "callbacks"), .guardedBy "mu"), (("closeCallback", "mu"), .syncObject),
  (("tcpConn", "buf"), .confined .reader), (("tcpConn", "readBuf"), .confined .reader),
  (("tcpConn", "closeCallback"), .constructorOnly), (("tcpConn", "qctx"), .constructorOnly), (("tcpConn", "dopts"), .constructorOnly),
  (("tcpConn", "needAuth"), .constructorOnly), (("tcpConn", "writeBuf"), .constructorOnly),
  (("tcpConn", "closeCh"), .syncObject), (("tcpConn", "writeCh"), .syncObject), (("tcpConn", "packetCh"), .syncObject),
  (("tcpConn", "closeOnce"), .syncObject), (("tcpConn", "onPacketOnce"), .syncObject),
  (("tcpConn", "conn"), .sharedObject), (("tcpConn", "logger"), .sharedObject), (("tcpConn", "p"), .sharedObject),
  (("tcpConn", "OnPacket$conn"), .onceBeforeStart), (("tcpConn", "OnPacket$fn"), .onceBeforeStart),
  (("wsConn", "closeCallback"), .constructorOnly), (("wsConn", "qctx"), .constructorOnly), (("wsConn", "dopts"), .constructorOnly),
  (("wsConn", "closeCh"), .syncObject), (("wsConn", "writeCh"), .syncObject), (("wsConn", "packetCh"), .syncObject),
  (("wsConn", "closeOnce"), .syncObject), (("wsConn", "onPacketOnce"), .syncObject),
  (("wsConn", "conn"), .sharedObject), (("wsConn", "logger"), .sharedObject), (("wsConn", "p"), .sharedObject),
  (("wsConn", "OnPacket$conn"), .onceBeforeStart), (("wsConn", "OnPacket$fn"), .onceBeforeStart)]

/-- accesses exempt from the discipline, with reasons — none is needed on the current tree -/
def connJustified : List (Acc × String) := []

def connTables : Tables := ⟨connRoles, connDiscs, connJustified⟩

/-- why the object in a `sharedObject` field may be used from several goroutines -/
def connSharedWhy : List ((String × String) × String) := [
  (("tcpConn", "conn"), "net.Conn: 'Multiple goroutines may invoke methods on a Conn simultaneously'; Read is still kept to the reader, Write to the writer"),
  (("wsConn", "conn"), "gorilla *websocket.Conn: one concurrent reader (NextReader: reader only) and one concurrent writer (WriteMessage: writer only); Close and WriteControl 'can be called concurrently with all other methods'; handlers are set before the goroutines start"),
  (("tcpConn", "logger"), "protocol.Logger: user-supplied, required to be safe for concurrent use (DefaultLogger wraps the standard log.Logger)"),
  (("wsConn", "logger"), "protocol.Logger: as for tcpConn"),
  (("tcpConn", "p"), "protocol.Protocol: protocolV1/protocolV2 are empty structs; Pack touches only its arguments; the streaming Unpack keeps per-connection state in the Context (beginUnpack, the header slot) and is kept to the reader"),
  (("wsConn", "p"), "protocol.Protocol: as for tcpConn; UnpackBytes is kept to the reader")]

/-- (struct, field, operation) ↦ who may perform it. No rule for `close` of `writeCh` / `packetCh`: closing a data channel is rejected. -/
def connCallRules : CallRules := [
  (("closeCallback", "mu", "Lock"), .anyRole), (("closeCallback", "mu", "Unlock"), .anyRole),
  (("tcpConn", "closeCh", "recv"), .anyRole), (("tcpConn", "closeCh", "close"), .onceBody "closeOnce"),
  (("tcpConn", "closeOnce", "Do"), .anyRole), (("tcpConn", "onPacketOnce", "Do"), .anyRole),
  (("tcpConn", "writeCh", "send"), .anyRole), (("tcpConn", "writeCh", "len"), .anyRole), (("tcpConn", "writeCh", "recv"), .anyRole),
  (("tcpConn", "packetCh", "send"), .anyRole), (("tcpConn", "packetCh", "recv"), .anyRole),
  (("tcpConn", "conn", "Read"), .only .reader), (("tcpConn", "conn", "Write"), .only .writer), (("tcpConn", "conn", "Close"), .anyRole),
  (("tcpConn", "readBuf", "*"), .only .reader),
  (("tcpConn", "logger", "*"), .anyRole),
  (("tcpConn", "p", "Pack"), .anyRole), (("tcpConn", "p", "Unpack"), .only .reader),
  (("wsConn", "closeCh", "recv"), .anyRole), (("wsConn", "closeCh", "close"), .onceBody "closeOnce"),
  (("wsConn", "closeOnce", "Do"), .anyRole), (("wsConn", "onPacketOnce", "Do"), .anyRole),
  (("wsConn", "writeCh", "send"), .anyRole), (("wsConn", "writeCh", "len"), .anyRole), (("wsConn", "writeCh", "recv"), .anyRole),
  (("wsConn", "packetCh", "send"), .anyRole), (("wsConn", "packetCh", "recv"), .anyRole),
  (("wsConn", "conn", "SetCloseHandler"), .constructorPhase), (("wsConn", "conn", "SetPingHandler"), .constructorPhase),
  (("wsConn", "conn", "SetPongHandler"), .constructorPhase),
  (("wsConn", "conn", "NextReader"), .only .reader), (("wsConn", "conn", "WriteMessage"), .only .writer),
  (("wsConn", "conn", "WriteControl"), .anyRole), (("wsConn", "conn", "Close"), .anyRole),
  (("wsConn", "logger", "*"), .anyRole),
  (("wsConn", "p", "Pack"), .anyRole), (("wsConn", "p", "UnpackBytes"), .only .reader)]

/-- every recorded access obeys its field's discipline (or is justified by hand) -/
def connDisciplined (tbl : List (String × String × String × String × List String)) : Bool :=
  LocksetConn.disciplined connTables (tbl.map Acc.ofTuple)

/-- T2: every syntactic access to a field of tcpConn / wsConn / closeCallback — in their methods, the closures inside them, the dial
functions and newCloseCallback — obeys the discipline of its field -/
theorem conn_table_disciplined : connDisciplined Gen.connAccess = true := by
  decide +kernel

/-- T2: every operation on an object held in a field (method call, channel operation) is one its rule allows from that role: only
the reader reads the socket / calls NextReader / runs the streaming decoder, only the writer calls Write / WriteMessage, the close
signal is closed only inside `closeOnce`, the data channels are never closed, handlers are installed before the goroutines start -/
theorem conn_calls_disciplined : callsDisciplined connTables connCallRules Gen.connEdges Gen.connCalls = true := by
  decide +kernel

/-- T2: the hand-written roles agree with the call graph of the source: a function called from another role is `any`; a goroutine is
started only by a constructor-role function or inside a `sync.Once` body; method values given away are the listed handlers -/
theorem conn_roles_consistent : edgesConsistent connTables connHandlers Gen.connEdges = true := by
  decide +kernel

/-- T2: the goroutines of a connection, each with ONE start site: reader and writer in `communicating` (constructor), the dispatcher
inside the `onPacketOnce` body — so `reader`, `writer`, `dispatcher` are one goroutine each per connection object -/
theorem conn_goroutines :
    Gen.connEdges.filter (fun e => e.2.1 == "go") =
      [("tcpConn.OnPacket.func1", "go", "tcpConn.OnPacket.func1.func1"),
       ("tcpConn.communicating", "go", "tcpConn.reading"), ("tcpConn.communicating", "go", "tcpConn.writing"),
       ("wsConn.OnPacket.func1", "go", "wsConn.OnPacket.func1.func1"),
       ("wsConn.communicating", "go", "wsConn.reading"), ("wsConn.communicating", "go", "wsConn.writing")] ∧
    (Gen.connEdges.filter (fun e => e.2.2 == "tcpConn.communicating" || e.2.2 == "wsConn.communicating")).map (·.1) =
      ["dialTCPConn", "dialWSConn"] := by
  decide +kernel

/-- COMPLETENESS of the classification: every field of the three structs and every captured variable has a discipline, every
`sharedObject` has its reason, and every function that occurs in the access table, the call table or the call graph has a role -/
theorem conn_classification_complete :
    (Gen.connFields ++ Gen.connCaptured).all (fun sf => sf.2.all (fun f => (discOf connTables sf.1 f).isSome)) = true ∧
    connDiscs.all (fun d => d.2 != .sharedObject || (connSharedWhy.lookup d.1).isSome) = true ∧
    Gen.connAccess.all (fun r => (roleOf connTables r.2.2.1).isSome) = true ∧
    Gen.connCalls.all (fun r => (roleOf connTables r.2.2.1).isSome) = true ∧
    Gen.connEdges.all (fun e => (roleOf connTables e.1).isSome && (roleOf connTables e.2.2).isSome) = true := by
  decide +kernel

/-- SOUNDNESS for the regenerated table: two recorded accesses to the same field, not both plain reads, both after construction
and possibly on different goroutines (different roles, or both in the many-goroutine role `any`), are ordered by a common guard
(`lockset_sound` then gives happens-before), or are both operations that do not write the field on a channel / Once / mutex /
concurrency-safe object, or are exempted by hand (`connJustified`: empty). -/
theorem conn_lockset_sound (a b : Acc) (ha : a ∈ Gen.connAccess.map Acc.ofTuple) (hb : b ∈ Gen.connAccess.map Acc.ofTuple)
    (hc : Conflicting a b) (hcc : Concurrent connTables a b) : Ordered connTables a b :=
  disciplined_sound connTables _ conn_table_disciplined a b ha hb hc hcc

/-- with an empty justified list the third alternative does not occur -/
theorem conn_no_exemptions (a : Acc) : isJustified connTables a = false := by
  simp [isJustified, connTables, connJustified]

/-- non-vacuity: the two accesses to `callbacks` — appended by `OnClose`, copied by `DispatchClose`, both callable from any
goroutine — conflict, can be concurrent, and are ordered by `mu` -/
example : ∃ m, discOf connTables "closeCallback" "callbacks" = some (.guardedBy m) ∧
    holdsW ⟨"closeCallback", "callbacks", "closeCallback.OnClose", "write", ["mu:W"]⟩ m = true ∧
    holdsR ⟨"closeCallback", "callbacks", "closeCallback.DispatchClose", "read", ["mu:W"]⟩ m = true :=
  ⟨"mu", by decide +kernel, by decide +kernel, by decide +kernel⟩

end OAP.C17
