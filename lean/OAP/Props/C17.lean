/-
C17 — No data races under documented concurrent use. Property theorems only (view Lockset: abstract traces with
readers-writer locks; happens-before = program order + release→acquire edges).
-/
import OAP.Model.Client.Lockset
namespace OAP.C17
open OAP OAP.Lockset

/-- LOCKSET SOUNDNESS: two accesses by different threads, each made while holding a common lock, at least one of the
holds in write mode, are ordered by happens-before — so a field whose every access site is protected that way (the
access table regenerated from the source) has no data race, in any trace -/
theorem lockset_sound (tr : Trace) (wf : WFLock tr) (i j : Nat) (ei ej : Ev) (x : Nat)
    (hij : i < j) (hj : j < tr.length)
    (hei : tr[i]? = some ei) (hej : tr[j]? = some ej) (hne : ei.tid ≠ ej.tid)
    (hai : isAccess ei.op x) (haj : isAccess ej.op x)
    (l : Nat) (wi wj : Bool) (hw : wi = true ∨ wj = true)
    (hi : holdsAt tr ei.tid l wi i) (hjh : holdsAt tr ej.tid l wj j) : HB tr i j :=
  Lockset.lockset_sound tr wf i j ei ej x hij hj hei hej hne hai haj l wi wj hw hi hjh

end OAP.C17
