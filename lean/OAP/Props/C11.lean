/-
C11 — Encoding/decoding depends only on the frame: no state leaks. Property theorems only.
-/
import OAP.Model.World
namespace OAP.C11
open OAP OAP.Frame OAP.World

/-- T2 facts regenerated from the source: every field of the header structs is reset in headerPool.Get -/
theorem every_field_reset :
    Gen.v1HeaderFields.all (fun f => Gen.v1HeaderResets.contains f) = true ∧
    Gen.v1HeaderFields.all (fun f => Gen.v2HeaderResets.contains f) = true ∧
    Gen.v2HeaderResets.contains "MetadataLength" = true ∧
    Gen.v2HeaderFields = ["MetadataLength", "embed:v1.Header"] ∧
    Gen.v1HeaderFields = ["BeginUnpack", "BodyLength", "CmdCode", "Gzip", "IsUnpacked", "RequestId", "Reserve",
                          "StatusCode", "Timeout", "Type", "Verify"] := by
  decide

/-- a header recycled with ARBITRARY stale content leaves the pool as the zero header -/
theorem get_fresh (stale : Header) :
    poolGet .v1 { stale with metadataLength := 0 } = zero ∧ poolGet .v2 stale = zero := by
  cases stale
  constructor
  · simp [poolGet, resetsOf, Gen.v1HeaderResets, List.foldl, resetField, zero]
  · simp [poolGet, resetsOf, Gen.v2HeaderResets, List.foldl, resetField, zero]

private theorem take_fresh (w : W) (v : Ver) : (take w v).1 = zero := by
  cases v
  · unfold take; simp only
    split
    · rfl
    · rename_i h t hp; exact (get_fresh h).1
  · unfold take; simp only
    split
    · rfl
    · rename_i h t hp; exact (get_fresh h).2

private theorem takeIfNone_fresh (w : W) (v : Ver) (p : Option Header) : (takeIfNone w v p).1 = zero := by
  unfold takeIfNone; split
  · rfl
  · exact take_fresh w v

/-- the result of any operation in any world — whatever stale headers the pools contain, whatever other connections
are in the middle of — equals the result of the same operation performed in isolation on the connection's own state -/
theorem step_isolated (gz : GzOracle) (w : W) (op : Op) :
    (step gz w op).1 = isolated gz (w.ctxs op.ctx) op := by
  cases op with
  | pack c v p thr => simp [step, isolated, take_fresh w v]
  | unpackBytes c v codec bs => simp [step, isolated, take_fresh w v]
  | feed c v codec chunk => simp [step, isolated, Op.ctx, takeIfNone_fresh]

@[simp] private theorem take_ctxs (w : W) (v : Ver) : (take w v).2.ctxs = w.ctxs := by
  cases v <;> simp only [take] <;> split <;> rfl
@[simp] private theorem put_ctxs (w : W) (v : Ver) (h : Header) : (put w v h).ctxs = w.ctxs := by
  cases v <;> rfl
@[simp] private theorem takeIfNone_ctxs (w : W) (v : Ver) (p : Option Header) : (takeIfNone w v p).2.ctxs = w.ctxs := by
  cases p <;> simp [takeIfNone]
@[simp] private theorem putIfNone_ctxs (w : W) (v : Ver) (p : Option Header) (h : Header) : (putIfNone w v p h).ctxs = w.ctxs := by
  cases p <;> simp [putIfNone]

/-- one-shot operations (encode, one-shot decode) never touch any connection's state — in particular not the header
parked by an incomplete streaming decode on the SAME connection — and a streaming step touches only its own connection -/
theorem step_other_ctx (gz : GzOracle) (w : W) (op : Op) (c' : Nat)
    (h : c' ≠ op.ctx ∨ (∀ c v codec ch, op ≠ .feed c v codec ch)) :
    (step gz w op).2.ctxs c' = w.ctxs c' := by
  cases op with
  | pack c v p thr => simp [step]
  | unpackBytes c v codec bs => simp [step]
  | feed c v codec chunk =>
    have hc : c' ≠ c := by
      rcases h with h | h
      · exact h
      · exact absurd rfl (h c v codec chunk)
    simp [step, setCtx, hc]

/-- the effect of an operation on the connection states is `ctxStep`: independent of the pools -/
theorem step_ctxs (gz : GzOracle) (w : W) (op : Op) : (step gz w op).2.ctxs = ctxStep gz w.ctxs op := by
  cases op with
  | pack c v p thr => simp [step, ctxStep]
  | unpackBytes c v codec bs => simp [step, ctxStep]
  | feed c v codec chunk => simp [step, ctxStep, setCtx, takeIfNone_fresh]

/-- HISTORIES: every result of every interleaved history of encode / one-shot decode / streaming operations over
any number of connections, starting from pools with arbitrary stale content, is the isolated result: the history's
outputs are a function of the connections' own states only -/
theorem run_isolated (gz : GzOracle) : ∀ (ops : List Op) (w : W), (run gz w ops).1 = isoRun gz w.ctxs ops := by
  intro ops
  induction ops with
  | nil => intro w; simp [run, isoRun]
  | cons op ops ih =>
    intro w
    simp only [run, isoRun]
    rw [ih, step_isolated, step_ctxs]

/-- results on connection c are unaffected by operations on other connections: `ctxStep` of an operation on c' ≠ c
leaves c's state alone, and one-shot operations leave every state alone (also after failures) -/
theorem ctxStep_local (gz : GzOracle) (ctxs : Nat → Option Header × Ring) (op : Op) (c : Nat)
    (h : c ≠ op.ctx ∨ (∀ c' v codec ch, op ≠ .feed c' v codec ch)) : ctxStep gz ctxs op c = ctxs c := by
  cases op with
  | pack c0 v p thr => rfl
  | unpackBytes c0 v codec bs => rfl
  | feed c' v codec chunk =>
    have hc : c ≠ c' := by
      rcases h with h | h
      · exact h
      · exact absurd rfl (h c' v codec chunk)
    simp [ctxStep, hc]

/-! non-vacuity: a pool holding a dirty response header; a push decoded next inherits nothing -/
example : (step ⟨fun _ => .err "no-oracle", fun _ => none⟩
      ⟨[{ requestId := 99, statusCode := 5, type := 2, isUnpacked := true }], [], fun _ => (none, Ring.new 4)⟩
      (.unpackBytes 0 .v1 1 [0x03, 0x07, 0x00, 0x00, 0x00])).1
    = .decoded (.ok { type := .push, cmd := 7, codec := 1 }) := by
  rw [step_isolated]; decide

end OAP.C11
