/-
C11 — Encoding/decoding depends only on the frame: no state leaks. Property theorems only.
-/
import OAP.Model.World
import OAP.Model.PoolHeader
import OAP.Model.PoolGzip
namespace OAP.C11
open OAP OAP.Frame OAP.World

/-- T2 facts regenerated from the source: every field of the header structs is reset in headerPool.Get -/
theorem every_field_reset :
    Gen.v1HeaderFields.all (fun f => Gen.v1HeaderResets.contains f) = true ∧
    Gen.v1HeaderFields.all (fun f => Gen.v2HeaderResets.contains f) = true ∧
    Gen.v2HeaderResets.contains "MetadataLength" = true ∧
    Gen.v2HeaderFields = ["MetadataLength", "embed:v1.Header"] ∧
    Gen.v1HeaderFields = ["BeginUnpack", "BodyLength", "CmdCode", "Gzip", "IsUnpacked", "RequestId", "Reserve",
                          "StatusCode", "Timeout", "Type", "Verify"] := by
  decide

/-- a header recycled with ARBITRARY stale content leaves the pool as the zero header -/
theorem get_fresh (stale : Header) :
    poolGet .v1 { stale with metadataLength := 0 } = zero ∧ poolGet .v2 stale = zero := by
  cases stale
  constructor
  · simp [poolGet, resetsOf, Gen.v1HeaderResets, List.foldl, resetField, zero]
  · simp [poolGet, resetsOf, Gen.v2HeaderResets, List.foldl, resetField, zero]

private theorem take_fresh (w : W) (v : Ver) : (take w v).1 = zero := by
  cases v
  · unfold take; simp only
    split
    · rfl
    · rename_i h t hp; exact (get_fresh h).1
  · unfold take; simp only
    split
    · rfl
    · rename_i h t hp; exact (get_fresh h).2

private theorem takeIfNone_fresh (w : W) (v : Ver) (p : Option Header) : (takeIfNone w v p).1 = zero := by
  unfold takeIfNone; split
  · rfl
  · exact take_fresh w v

/-- the result of any operation in any world — whatever stale headers the pools contain, whatever other connections
are in the middle of — equals the result of the same operation performed in isolation on the connection's own state -/
theorem step_isolated (gz : GzOracle) (w : W) (op : Op) :
    (step gz w op).1 = isolated gz (w.ctxs op.ctx) op := by
  cases op with
  | pack c v p thr => simp [step, isolated, take_fresh w v]
  | unpackBytes c v codec bs => simp [step, isolated, take_fresh w v]
  | feed c v codec chunk => simp [step, isolated, Op.ctx, takeIfNone_fresh]

@[simp] private theorem take_ctxs (w : W) (v : Ver) : (take w v).2.ctxs = w.ctxs := by
  cases v <;> simp only [take] <;> split <;> rfl
@[simp] private theorem put_ctxs (w : W) (v : Ver) (h : Header) : (put w v h).ctxs = w.ctxs := by
  cases v <;> rfl
@[simp] private theorem takeIfNone_ctxs (w : W) (v : Ver) (p : Option Header) : (takeIfNone w v p).2.ctxs = w.ctxs := by
  cases p <;> simp [takeIfNone]
@[simp] private theorem putIfNone_ctxs (w : W) (v : Ver) (p : Option Header) (h : Header) : (putIfNone w v p h).ctxs = w.ctxs := by
  cases p <;> simp [putIfNone]

/-- one-shot operations (encode, one-shot decode) never touch any connection's state — in particular not the header
parked by an incomplete streaming decode on the SAME connection — and a streaming step touches only its own connection -/
theorem step_other_ctx (gz : GzOracle) (w : W) (op : Op) (c' : Nat)
    (h : c' ≠ op.ctx ∨ (∀ c v codec ch, op ≠ .feed c v codec ch)) :
    (step gz w op).2.ctxs c' = w.ctxs c' := by
  cases op with
  | pack c v p thr => simp [step]
  | unpackBytes c v codec bs => simp [step]
  | feed c v codec chunk =>
    have hc : c' ≠ c := by
      rcases h with h | h
      · exact h
      · exact absurd rfl (h c v codec chunk)
    simp [step, setCtx, hc]

/-- the effect of an operation on the connection states is `ctxStep`: independent of the pools -/
theorem step_ctxs (gz : GzOracle) (w : W) (op : Op) : (step gz w op).2.ctxs = ctxStep gz w.ctxs op := by
  cases op with
  | pack c v p thr => simp [step, ctxStep]
  | unpackBytes c v codec bs => simp [step, ctxStep]
  | feed c v codec chunk => simp [step, ctxStep, setCtx, takeIfNone_fresh]

/-- HISTORIES: every result of every interleaved history of encode / one-shot decode / streaming operations over
any number of connections, starting from pools with arbitrary stale content, is the isolated result: the history's
outputs are a function of the connections' own states only -/
theorem run_isolated (gz : GzOracle) : ∀ (ops : List Op) (w : W), (run gz w ops).1 = isoRun gz w.ctxs ops := by
  intro ops
  induction ops with
  | nil => intro w; simp [run, isoRun]
  | cons op ops ih =>
    intro w
    simp only [run, isoRun]
    rw [ih, step_isolated, step_ctxs]

/-- results on connection c are unaffected by operations on other connections: `ctxStep` of an operation on c' ≠ c
leaves c's state alone, and one-shot operations leave every state alone (also after failures) -/
theorem ctxStep_local (gz : GzOracle) (ctxs : Nat → Option Header × Ring) (op : Op) (c : Nat)
    (h : c ≠ op.ctx ∨ (∀ c' v codec ch, op ≠ .feed c' v codec ch)) : ctxStep gz ctxs op c = ctxs c := by
  cases op with
  | pack c0 v p thr => rfl
  | unpackBytes c0 v codec bs => rfl
  | feed c' v codec chunk =>
    have hc : c ≠ c' := by
      rcases h with h | h
      · exact h
      · exact absurd rfl (h c' v codec chunk)
    simp [ctxStep, hc]

/-! non-vacuity: a pool holding a dirty response header; a push decoded next inherits nothing -/
example : (step ⟨fun _ => .err "no-oracle", fun _ => none⟩
      ⟨[{ requestId := 99, statusCode := 5, type := 2, isUnpacked := true }], [], fun _ => (none, Ring.new 4)⟩
      (.unpackBytes 0 .v1 1 [0x03, 0x07, 0x00, 0x00, 0x00])).1
    = .decoded (.ok { type := .push, cmd := 7, codec := 1 }) := by
  rw [step_isolated]; decide

end OAP.C11

/-! ## concurrent use of the pooled headers and gzip objects (Pool view)

`run_isolated` above is about HISTORIES: operations executed one after the other, each atomically. Here the operations
of N goroutines are INTERLEAVED step by step (take from the pool / reset / field updates, writes, reads / put back or
drop; a streaming decoder parks its header in its connection between two calls): model `OAP.Pool`, instances
`PoolHeader.HB` (v1 / v2 `headerPool`), `PoolGzip.WB`, `PoolGzip.RB` (the two gzip pools). -/
namespace OAP.C11
open OAP OAP.Frame OAP.World OAP.Pool

/-- the hypothesis the gzip instances ASSUME of compress/gzip's `Reset` is PROVED for the header pools, from the
regenerated lists of reset statements (`every_field_reset`, `get_fresh`): after `headerPool.Get` nothing of the
header's previous content is left, in both versions -/
theorem header_reset_erases (v : Ver) : (PoolHeader.HB v).ResetErases ∧ ∀ stale, (PoolHeader.HB v).reset stale () = zero :=
  ⟨PoolHeader.reset_erases v, PoolHeader.HB_reset v⟩

/-- N goroutines encoding / decoding over the shared header pool, every interleaving, every initial pool content
(arbitrary stale headers): (1) a call that has just taken its header holds the ZERO header; (2) a header being worked
on, or PARKED in a connection by an incomplete streaming decode, contains exactly its owner's updates of the zero
header; (3) so does the header a finished call ended with; (4) no two calls hold the same header, a held or parked
header is not in the pool, the pool holds no header twice -/
theorem header_concurrent_isolated (v : Ver) (pool : List Nat) (obj : Nat → Header) (next : Nat)
    (h0 : InitOk pool next) (acts : List (Act Unit (Header → Header))) (s : St Header Unit (Header → Header) Header)
    (h : Pool.run (PoolHeader.HB v) (Pool.init pool obj next) acts = some s) :
    (∀ t o, s.pc t = .run o () [] → s.obj o = zero) ∧
    (∀ t o fs, s.pc t = .run o () fs ∨ s.pc t = .parked o () fs → s.obj o = fs.foldl (fun h f => f h) zero) ∧
    (∀ t fs out, s.pc t = .fin () fs out → out = fs.foldl (fun h f => f h) zero) ∧
    (∀ t u o, t ≠ u → (s.pc t).holds = some o → (s.pc u).holds ≠ some o) ∧
    (∀ t o, (s.pc t).holds = some o → o ∉ s.pool) ∧ s.pool.Nodup :=
  PoolHeader.header_concurrent_isolated v pool obj next h0 acts s h

/-- `concurrent_isolated`: no state leaks between CONCURRENT calls, through the pooled headers or the pooled gzip
objects. For every interleaving and every initial content of the pool concerned:
 * headers — the result expressions of the sequential world model (`World.step`: the pure function if the header
   handed out is zero, a panic otherwise), evaluated on the header a concurrent Pack / UnpackBytes / Unpack call
   has just taken, ARE the isolated results (`pack`, `unpackBytes`, `unpackRing` on the connection's own state);
 * compressors — a finished `Compress(x)` returned `gz.compress x`;
 * decompressors — a `Decompress(src)` that ran to its end returned `Gzip.decompress gz src`.
Each is a function of the call's own arguments: not of the schedule, the other calls, or what the pool contained. -/
theorem concurrent_isolated (gz : GzOracle) :
    (∀ (v : Ver) (pool : List Nat) (obj : Nat → Header) (next : Nat), InitOk pool next →
      ∀ (acts : List (Act Unit (Header → Header))) (s : St Header Unit (Header → Header) Header),
      Pool.run (PoolHeader.HB v) (Pool.init pool obj next) acts = some s →
      ∀ t o, s.pc t = .run o () [] →
        (∀ p thr, (if s.obj o = zero then pack v gz p thr else .panic "pool returned a dirty header") = pack v gz p thr) ∧
        (∀ codec bs, (if s.obj o = zero then unpackBytes v gz codec bs else .panic "pool returned a dirty header") =
          unpackBytes v gz codec bs) ∧
        (∀ codec pend rb, (if s.obj o = zero then unpackRing v gz codec pend rb
            else ({ res := .panic "pool returned a dirty header", pend := none, rb := rb } : SOut)) =
          unpackRing v gz codec pend rb)) ∧
    (∀ (pool : List Nat) (obj : Nat → Bytes) (next : Nat), InitOk pool next →
      ∀ (acts : List (Act Unit Bytes)) (s : St Bytes Unit Bytes (Res Bytes)),
      Pool.run (PoolGzip.WB gz) (Pool.init pool obj next) acts = some s →
      ∀ t x out, s.pc t = .fin () [x] out → out = gz.compress x) ∧
    (∀ (pool : List Nat) (obj : Nat → PoolGzip.RState) (next : Nat), InitOk pool next →
      ∀ (acts : List (Act Bytes Nat)) (s : St PoolGzip.RState Bytes Nat (Res Bytes)),
      Pool.run (PoolGzip.RB gz) (Pool.init pool obj next) acts = some s →
      ∀ t src ns out, s.pc t = .fin src ns out → PoolGzip.Done gz src ns → out = Gzip.decompress gz src) :=
  ⟨fun v pool obj next h0 acts s h t o hp => PoolHeader.op_on_pooled_header gz v pool obj next h0 acts s h t o hp,
   fun pool obj next h0 acts s h => (PoolGzip.compress_concurrent_eq_seq gz pool obj next h0 acts s h).1,
   fun pool obj next h0 acts s h => (PoolGzip.decompress_concurrent_eq_seq gz pool obj next h0 acts s h).2.1⟩

/-- the same as a statement about TWO runs: the same call (same input, same uses) finished in any two interleavings,
among any other calls, over any two initial pools, has returned the same result — for every pooled object whose
`Reset` erases -/
theorem concurrent_schedule_independent {σ In U Out : Type} (B : Beh σ In U Out) (he : B.ResetErases)
    (pool pool' : List Nat) (obj obj' : Nat → σ) (next next' : Nat) (h0 : InitOk pool next) (h0' : InitOk pool' next')
    (acts acts' : List (Act In U)) (s s' : St σ In U Out)
    (h : Pool.run B (Pool.init pool obj next) acts = some s) (h' : Pool.run B (Pool.init pool' obj' next') acts' = some s')
    (t t' : Nat) (i : In) (us : List U) (out out' : Out)
    (hf : s.pc t = .fin i us out) (hf' : s'.pc t' = .fin i us out') : out = out' :=
  Pool.result_schedule_independent B he pool pool' obj obj' next next' h0 h0' acts acts' s s' h h' t t' i us out out' hf hf'

/-- non-vacuity: the demo interleaving of `PoolHeader` — two dirty headers in the pool, a streaming decode that parks
its header while a Pack and a one-shot decode run, a fourth call recycling a header the Pack left request id 7 in —
is a run of both versions' instances, and every call ends with the zero header plus its own updates -/
example : ∀ v : Ver,
    (Pool.run (PoolHeader.HB v) PoolHeader.demoInit PoolHeader.demoActs).map (fun s => ((s.pc 0).out?, (s.pc 1).out?, (s.pc 3).out?)) =
      some (some { type := 3, isUnpacked := true }, some { requestId := 7 }, some {}) := by
  intro v; cases v <;> decide

end OAP.C11
