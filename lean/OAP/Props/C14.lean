/-
C14 — Close is final and safe. Property theorems only (views CloseSlice: any number of Close callers and of
goroutines inside dial; Quartet: Close vs the reader's conn.Close/reconnecting vs the retry goroutine).
-/
import OAP.Model.Client.CloseSlice
import OAP.Model.Client.Quartet
import OAP.Gen.Facts
import OAP.Model.Client.Recovery
import OAP.Model.Client.ConnThreads
namespace OAP.C14
open OAP

/-- T2 structure facts, regenerated from go/client on every run (the operations themselves, in source order): Close = once { signal; read-lock; close conn; unlock; callback }; dial checks the signal under the write lock before dialling; closing a conn closes only its close signal and socket (never the data channels); the transports' write is closed-check then non-blocking send -/
theorem source_order :
    Gen.seq_client_Close = ["c.closeOnce.Do", "close:c.closeCh", "c.RLock", "c.conn.Close", "c.RUnlock", "c.onClose"] ∧
    Gen.seq_client_dial = ["c.Lock", "defer:c.Unlock", "c.closed", "dialer", "conn.OnPacket", "conn.OnClose"] ∧
    Gen.seq_tcpConn_Close = ["conn.closed", "conn.closeOnce.Do", "close:conn.closeCh", "conn.conn.Close", "conn.DispatchClose"] ∧
    Gen.seq_wsConn_Close = ["conn.closed", "conn.closeOnce.Do", "close:conn.closeCh", "conn.conn.Close", "conn.DispatchClose"] ∧
    Gen.seq_tcpConn_write = ["conn.closed", "select", "send:conn.writeCh", "default"] ∧
    Gen.seq_wsConn_write = ["conn.closed", "select", "send:conn.writeCh", "default"] := by
  decide


/-- the close callback runs at most once in every interleaving of any number of Close callers (user, hit-max) … -/
theorem on_close_at_most_once (acts : List CloseSlice.Act) (s : CloseSlice.St)
    (h : CloseSlice.run CloseSlice.init acts = some s) : s.onCloseCalls ≤ 1 :=
  CloseSlice.on_close_at_most_once acts s h

/-- CLOSE IS FINAL: after a Close call has returned, no dial starts — for every interleaving of any number of Close
callers and any number of goroutines entering `dial`: the signal precedes the lock in Close and `dial` checks it
under the lock, so either the re-dial sees the signal or Close closes the connection that re-dial installed -/
theorem close_final (acts : List CloseSlice.Act) (s : CloseSlice.St)
    (h : CloseSlice.run CloseSlice.init acts = some s) : s.dialsAfterReturn = 0 :=
  CloseSlice.no_dial_after_close_returned acts s h

/-- closing while the reader is tearing the connection down and a recovery is pending never deadlocks and never
re-enters the recovery from Close -/
theorem close_safe (acts : List Quartet.Act) (s : Quartet.St) (h : Quartet.run Quartet.init acts = some s) :
    s.closerReconnects = false := (Quartet.quartet_safe acts s h).1


/-! ### the same properties on view Recovery (the current `reconnecting` / retry loop / `dial` / `Close`, with the hit-max
Close running inside the retry goroutine, any number of notifiers and Close callers, every MaxReconnect m) -/

/-- the close callback runs at most once when user Close calls race the hit-max Close -/
theorem recovery_on_close_at_most_once (m : Nat) (acts : List Recovery.Act) (s : Recovery.St)
    (h : Recovery.run (Recovery.init m) acts = some s) : s.onCloseCalls ≤ 1 :=
  Recovery.on_close_at_most_once m acts s h

/-- CLOSE IS FINAL on the full recovery loop: no dial installs a connection after some Close call has returned -/
theorem recovery_close_final (m : Nat) (acts : List Recovery.Act) (s : Recovery.St)
    (h : Recovery.run (Recovery.init m) acts = some s) : s.dialsAfterReturn = 0 :=
  Recovery.no_dial_after_close_returned m acts s h

/-- giving up (hit-max) closes the client: signal set, close callback run exactly once -/
theorem recovery_hitmax_closes (m : Nat) (acts : List Recovery.Act) (s : Recovery.St)
    (h : Recovery.run (Recovery.init m) acts = some s) :
    (∀ t, s.rc t = .fin .hitmax → s.closedSig = true ∧ s.onCloseCalls = 1) ∧
    (0 < s.hitmaxExits → s.closedSig = true ∧ s.onCloseCalls = 1) :=
  Recovery.hitmax_closes m acts s h

/-! ### the connection's own Close (view ConnThreads: reader, writer, dispatcher of one connection and any number of
concurrent callers of `conn.Close`) -/

/-- `conn.Close` is idempotent and safe from any goroutine: whoever calls it — the reader on a read error, the writer
on a write error, any number of other goroutines, more than once, at the same time — closeCh is closed at most once (a
second close would panic), the socket at most once, the close callbacks run at most once; a completed Close has done
all three -/
theorem close_idempotent_conn (cfg : ConnThreads.Cfg) (acts : List ConnThreads.Act) (s : ConnThreads.St)
    (h : ConnThreads.run cfg (ConnThreads.init cfg) acts = some s) :
    s.sigCloses ≤ 1 ∧ s.sockCloses ≤ 1 ∧ s.closeCallbacks ≤ 1 ∧
    (s.once = .done → s.sigCloses = 1 ∧ s.sockCloses = 1 ∧ s.closeCallbacks = 1) :=
  have c := ConnThreads.close_once cfg acts s h
  ⟨c.1, c.2.1, c.2.2.1, c.2.2.2.2.2.2.2.2.2⟩

/-- a `conn.Close` call never blocks for ever: in every reachable state a caller inside Close has an enabled step of
its own, or waits at the Once for the goroutine inside the body — whose next operation is always enabled; a call made
after the signal (also from inside the close callbacks or a packet handler) returns at its `closed()` test -/
theorem close_conn_never_blocks (cfg : ConnThreads.Cfg) (acts : List ConnThreads.Act) (s : ConnThreads.St)
    (h : ConnThreads.run cfg (ConnThreads.init cfg) acts = some s) (i : Nat) (hx : s.ext i ≠ .idle) :
    ((ConnThreads.step cfg s (.xCloseTest i)).isSome = true ∨ (ConnThreads.step cfg s (.xCloseOnce i)).isSome = true ∨
      ((s.ext i = .close .once ∨ s.ext i = .close .body) ∧ (ConnThreads.step cfg s .body).isSome = true)) ∧
    (s.ext i = .close .test → s.closeSig = true →
      ConnThreads.step cfg s (.xCloseTest i) =
        some { s with ext := ConnThreads.upd s.ext i .idle, closeReturns := s.closeReturns + 1 }) :=
  ⟨ConnThreads.close_call_can_step cfg acts s h i hx, ConnThreads.close_after_signal_returns cfg s i⟩

end OAP.C14
