/-
C14 — Close is final and safe. Property theorems only (views CloseSlice: any number of Close callers and of
goroutines inside dial; Quartet: Close vs the reader's conn.Close/reconnecting vs the retry goroutine).
-/
import OAP.Model.Client.CloseSlice
import OAP.Model.Client.Quartet
import OAP.Gen.Facts
import OAP.Model.Client.Recovery
import OAP.Model.Client.ConnThreads
import OAP.Model.Client.LockWait
namespace OAP.C14
open OAP

/-- T2 structure facts, regenerated from go/client on every run (the operations themselves, in source order): Close = once { signal; read-lock; close conn; unlock; callback }; dial checks the signal under the write lock before dialling; closing a conn closes only its close signal and socket (never the data channels); the transports' write is closed-check then non-blocking send -/
theorem source_order :
    Gen.seq_client_Close = ["c.closeOnce.Do", "close:c.closeCh", "c.RLock", "c.conn.Close", "c.RUnlock", "c.onClose"] ∧
    Gen.seq_client_dial = ["c.Lock", "defer:c.Unlock", "c.closed", "dialer", "conn.OnPacket", "conn.OnClose"] ∧
    Gen.seq_tcpConn_Close = ["conn.closed", "conn.closeOnce.Do", "close:conn.closeCh", "conn.conn.Close", "conn.DispatchClose"] ∧
    Gen.seq_wsConn_Close = ["conn.closed", "conn.closeOnce.Do", "close:conn.closeCh", "conn.conn.Close", "conn.DispatchClose"] ∧
    Gen.seq_tcpConn_write = ["conn.closed", "select", "send:conn.writeCh", "default"] ∧
    Gen.seq_wsConn_write = ["conn.closed", "select", "send:conn.writeCh", "default"] := by
  decide


/-- the close callback runs at most once in every interleaving of any number of Close callers (user, hit-max) … -/
theorem on_close_at_most_once (acts : List CloseSlice.Act) (s : CloseSlice.St)
    (h : CloseSlice.run CloseSlice.init acts = some s) : s.onCloseCalls ≤ 1 :=
  CloseSlice.on_close_at_most_once acts s h

/-- CLOSE IS FINAL: after a Close call has returned, no dial starts — for every interleaving of any number of Close
callers and any number of goroutines entering `dial`: the signal precedes the lock in Close and `dial` checks it
under the lock, so either the re-dial sees the signal or Close closes the connection that re-dial installed -/
theorem close_final (acts : List CloseSlice.Act) (s : CloseSlice.St)
    (h : CloseSlice.run CloseSlice.init acts = some s) : s.dialsAfterReturn = 0 :=
  CloseSlice.no_dial_after_close_returned acts s h

/-- closing while the reader is tearing the connection down and a recovery is pending never deadlocks and never
re-enters the recovery from Close -/
theorem close_safe (acts : List Quartet.Act) (s : Quartet.St) (h : Quartet.run Quartet.init acts = some s) :
    s.closerReconnects = false := (Quartet.quartet_safe acts s h).1


/-! ### the same properties on view Recovery (the current `reconnecting` / retry loop / `dial` / `Close`, with the hit-max
Close running inside the retry goroutine, any number of notifiers and Close callers, every MaxReconnect m) -/

/-- the close callback runs at most once when user Close calls race the hit-max Close -/
theorem recovery_on_close_at_most_once (m : Nat) (acts : List Recovery.Act) (s : Recovery.St)
    (h : Recovery.run (Recovery.init m) acts = some s) : s.onCloseCalls ≤ 1 :=
  Recovery.on_close_at_most_once m acts s h

/-- CLOSE IS FINAL on the full recovery loop: no dial installs a connection after some Close call has returned -/
theorem recovery_close_final (m : Nat) (acts : List Recovery.Act) (s : Recovery.St)
    (h : Recovery.run (Recovery.init m) acts = some s) : s.dialsAfterReturn = 0 :=
  Recovery.no_dial_after_close_returned m acts s h

/-- giving up (hit-max) closes the client: signal set, close callback run exactly once -/
theorem recovery_hitmax_closes (m : Nat) (acts : List Recovery.Act) (s : Recovery.St)
    (h : Recovery.run (Recovery.init m) acts = some s) :
    (∀ t, s.rc t = .fin .hitmax → s.closedSig = true ∧ s.onCloseCalls = 1) ∧
    (0 < s.hitmaxExits → s.closedSig = true ∧ s.onCloseCalls = 1) :=
  Recovery.hitmax_closes m acts s h

/-! ### the connection's own Close (view ConnThreads: reader, writer, dispatcher of one connection and any number of
concurrent callers of `conn.Close`) -/

/-- `conn.Close` is idempotent and safe from any goroutine: whoever calls it — the reader on a read error, the writer
on a write error, any number of other goroutines, more than once, at the same time — closeCh is closed at most once (a
second close would panic), the socket at most once, the close callbacks run at most once; a completed Close has done
all three -/
theorem close_idempotent_conn (cfg : ConnThreads.Cfg) (acts : List ConnThreads.Act) (s : ConnThreads.St)
    (h : ConnThreads.run cfg (ConnThreads.init cfg) acts = some s) :
    s.sigCloses ≤ 1 ∧ s.sockCloses ≤ 1 ∧ s.closeCallbacks ≤ 1 ∧
    (s.once = .done → s.sigCloses = 1 ∧ s.sockCloses = 1 ∧ s.closeCallbacks = 1) :=
  have c := ConnThreads.close_once cfg acts s h
  ⟨c.1, c.2.1, c.2.2.1, c.2.2.2.2.2.2.2.2.2⟩

/-- a `conn.Close` call never blocks for ever: in every reachable state a caller inside Close has an enabled step of
its own, or waits at the Once for the goroutine inside the body — whose next operation is always enabled; a call made
after the signal (also from inside the close callbacks or a packet handler) returns at its `closed()` test -/
theorem close_conn_never_blocks (cfg : ConnThreads.Cfg) (acts : List ConnThreads.Act) (s : ConnThreads.St)
    (h : ConnThreads.run cfg (ConnThreads.init cfg) acts = some s) (i : Nat) (hx : s.ext i ≠ .idle) :
    ((ConnThreads.step cfg s (.xCloseTest i)).isSome = true ∨ (ConnThreads.step cfg s (.xCloseOnce i)).isSome = true ∨
      ((s.ext i = .close .once ∨ s.ext i = .close .body) ∧ (ConnThreads.step cfg s .body).isSome = true)) ∧
    (s.ext i = .close .test → s.closeSig = true →
      ConnThreads.step cfg s (.xCloseTest i) =
        some { s with ext := ConnThreads.upd s.ext i .idle, closeReturns := s.closeReturns + 1 }) :=
  ⟨ConnThreads.close_call_can_step cfg acts s h i hx, ConnThreads.close_after_signal_returns cfg s i⟩

/-! ### view LockWait: Close returns promptly — with requests in flight, in the middle of (failing) reconnect attempts

The client RWMutex with Go's writer preference (a goroutine blocked in `Lock()` blocks every new `RLock()`), `Do` calls
that hold the read lock while they wait, the loss notifiers, the retry goroutine with its auth request, any number of Close
callers.  Timers (request deadline, auth timeout, the 1 s sleep) and the environment (new calls, new losses, the peer's
answers) are separate actions; the theorems say what happens without them. -/

/-- the invariant of the view in every reachable state: mutual exclusion, `readers` = number of goroutines inside a
read-locked section, `pendW` = number of goroutines blocked in `Lock()`, the write holder is the goroutine whose pc is
inside a write-locked section, at most one notifier owns a recovery, at most one retry goroutine, the flags
`doReconnectting` / `recovering` are the owner's, the close signal is "the Once is past its first statement" -/
theorem lockwait_invariant (acts : List LockWait.Act) (s : LockWait.St) (h : LockWait.run LockWait.init acts = some s) :
    LockWait.WInv s := LockWait.inv_reach acts s h

/-- CLOSE RETURNS PROMPTLY.  From any reachable state in which Close has set its signal — whatever is in flight: requests
waiting for answers, a notifier queued in `Lock()`, a recovery between any two statements, its auth request waiting, the
retry loop asleep after a failed attempt — and along EVERY schedule from there (any interleaving, with new `Do` / `Close`
calls, new losses and answers of the peer arriving at any time):
(1) the signal stays set;
(2) the goroutine steps of the schedule are bounded by `mu s` plus a constant per new call (5 / 7 / 16): nothing spins;
(3) unless every Close caller has returned, some goroutine step is enabled that is not a timer (no request deadline, no
    auth timeout, not the 1 s sleep) and not an action of the environment (not the peer's answer);
(4) a schedule that cannot be extended by such a step ends with every Close caller returned;
(5) a schedule that has used up the budget ends with every Close caller and every `Do` caller returned.
The only step in (3) that is not the client's own is the return of a dialer entered before the signal
(`close_waits_for_dial_in_progress`). -/
theorem close_returns_promptly (acts0 acts : List LockWait.Act) (s s' : LockWait.St)
    (h0 : LockWait.run LockWait.init acts0 = some s) (hc : s.closeSig = true) (h : LockWait.run s acts = some s') :
    s'.closeSig = true ∧
    LockWait.mu s' + LockWait.threadSteps acts ≤ LockWait.mu s + LockWait.freshBudget acts ∧
    (¬ LockWait.closersDone s' → ∃ a, LockWait.isProg a = true ∧ LockWait.enabled s' a) ∧
    ((∀ a, LockWait.isProg a = true → LockWait.step s' a = none) → LockWait.closersDone s') ∧
    (LockWait.mu s + LockWait.freshBudget acts ≤ LockWait.threadSteps acts →
      LockWait.closersDone s' ∧ LockWait.doersDone s') :=
  LockWait.close_prompt acts0 acts s s' h0 hc h

/-- no dead end: from the moment somebody has won the Once of `Close`, a schedule of goroutine steps alone — no timer, no
help from the peer, no new call — ends with every Close caller returned -/
theorem close_leads_to_return (acts0 : List LockWait.Act) (s : LockWait.St)
    (h0 : LockWait.run LockWait.init acts0 = some s) (hh : s.once ≠ .free) :
    ∃ acts s', (∀ a ∈ acts, LockWait.isProg a = true) ∧ LockWait.run s acts = some s' ∧ LockWait.closersDone s' :=
  LockWait.close_leads_to_return acts0 s h0 hh

/-- the lock drains: after the signal, whenever `RLock` is refused (a writer holds the lock or is pending) some goroutine
has an enabled step that is neither a timer nor the environment's — the write holder's next statement, or a pending
writer taking the free lock, or a read holder on its way out (a waiting `Do` has its `case <-c.closeCh`) -/
theorem lock_drains_after_close (acts0 : List LockWait.Act) (s : LockWait.St)
    (h0 : LockWait.run LockWait.init acts0 = some s) (hc : s.closeSig = true)
    (hb : s.writer ≠ none ∨ s.pendW ≠ 0) : ∃ a, LockWait.isProg a = true ∧ LockWait.enabled s a :=
  LockWait.lock_progress s (LockWait.inv_reach acts0 s h0) hc hb

/-- the RWMutex as modelled is exclusive: with a write holder nobody is inside a read-locked section; the holder is the
goroutine whose pc is inside a write-locked section; at most one goroutine is -/
theorem lock_exclusive (acts : List LockWait.Act) (s : LockWait.St) (h : LockWait.run LockWait.init acts = some s) :
    (s.writer ≠ none → s.readers = 0 ∧ (∀ i, LockWait.rdD (s.dpc i) = 0) ∧ LockWait.rdOnce s.once = 0 ∧
      LockWait.rdR s.rc = 0) ∧
    (∀ t, s.writer = some (.n t) ↔ LockWait.nHoldsW (s.npc t) = true) ∧
    (s.writer = some .r ↔ LockWait.rHoldsW s.rc = true) ∧
    (∀ t u, LockWait.nHoldsW (s.npc t) = true → LockWait.nHoldsW (s.npc u) = true → t = u) ∧
    (∀ t, LockWait.nHoldsW (s.npc t) = true → LockWait.rHoldsW s.rc = false) :=
  LockWait.mutex_exclusive acts s h

/-- one loss, one recovery, one retry goroutine — also with the pending-writer semantics -/
theorem one_retry_goroutine (acts : List LockWait.Act) (s : LockWait.St) (h : LockWait.run LockWait.init acts = some s) :
    s.spawnClash = 0 ∧ (∀ t, s.npc t = .spawn → s.rc = .none) ∧
    (∀ t u, LockWait.owns (s.npc t) = true → LockWait.owns (s.npc u) = true → t = u) ∧
    (s.rc ≠ .none → s.npc s.own = .waitRC ∧ s.rcOwner = s.own) :=
  LockWait.one_retry_goroutine acts s h

/-- no goroutine enters the dialer once the signal is set; once Close's body is past its read-locked section (and for ever
after a Close call has returned) no goroutine is inside the dialer and no conn has been installed in such a state -/
theorem no_dial_after_close (acts : List LockWait.Act) (s : LockWait.St) (h : LockWait.run LockWait.init acts = some s) :
    s.lateInstalls = 0 ∧ (LockWait.pastR s.once = true → s.rc ≠ .dDialing) ∧
    (∀ a s', s.closeSig = true → LockWait.step s a = some s' → s'.rc = .dDialing → s.rc = .dDialing) :=
  have p := LockWait.no_dial_after_close_signal_installs_partial acts s h
  ⟨p.1, p.2, fun a s' hc hs hd => LockWait.no_dial_entered_after_signal s s' a hc hs hd⟩

/-! the two guards are necessary (decided concrete schedules of the variant + an invariance argument over all continuations) -/

/-- (a) `recv` without `case <-c.closeCh` (before the repair of D24): a `Do` waits, its conn is lost, a notifier queues in
`Lock()`, the user calls Close — Close's `RLock` is refused in every continuation without a request deadline and without
an answer from the peer: Close waits for a request timeout -/
theorem no_close_case_blocks_close :
    ∃ s, LockWait.runV .noCloseCase LockWait.init LockWait.demoA = some s ∧
      s.closeSig = true ∧ s.once = .held (.x 0) .wantR ∧ s.cpc 0 = .body ∧ s.dpc 0 = .wait ∧
      ∀ acts s', (∀ a ∈ acts, LockWait.quietA a = true) → LockWait.runV .noCloseCase s acts = some s' →
        s'.closeSig = true ∧ s'.once = .held (.x 0) .wantR ∧ s'.cpc 0 = .body ∧ s'.dpc 0 = .wait ∧
        LockWait.stepV .noCloseCase s' .body = none ∧ LockWait.stepV .noCloseCase s' (.c 0) = none :=
  LockWait.no_close_case_blocks_close

/-- (b) `reconnecting` without the atomic `recovering` test, and `recv` without the closeCh case (the tree in which D20 was
found): a recovery runs, its auth request waits, a second notifier of the same loss queues in `Lock()`, the user calls
Close — Close's `RLock` and every `Do`'s `RLock` are refused in every continuation without the auth timeout and without an
answer to the auth request: Close waits for the auth deadline -/
theorem no_fast_path_blocks_close :
    ∃ s, LockWait.runV .neither LockWait.init LockWait.demoB = some s ∧
      s.closeSig = true ∧ s.once = .held (.x 0) .wantR ∧ s.cpc 0 = .body ∧ s.rc = .aWait false ∧
      ∀ acts s', (∀ a ∈ acts, LockWait.quietB a = true) → LockWait.runV .neither s acts = some s' →
        s'.closeSig = true ∧ s'.once = .held (.x 0) .wantR ∧ s'.cpc 0 = .body ∧ s'.rc = .aWait false ∧
        LockWait.stepV .neither s' .body = none ∧
        (∀ i, s'.dpc i = .wantR → LockWait.stepV .neither s' (.d i) = none) :=
  LockWait.no_fast_path_blocks_close

/-- FINDING (the code as it is): Close called while a reconnect attempt is inside the dialer waits until the dialer
returns — `dial` holds the write lock across the network dial — i.e. up to `DialOptions.Timeout` with an unreachable peer.
Close's `RLock` is refused in every continuation that does not contain the dial's return. -/
theorem close_waits_for_dial_in_progress :
    ∃ s, LockWait.run LockWait.init LockWait.demoDial = some s ∧ s.closeSig = true ∧
      s.once = .held (.x 0) .wantR ∧ s.rc = .dDialing ∧
      ∀ acts s', (∀ a ∈ acts, LockWait.notDialReturn a = true) → LockWait.run s acts = some s' →
        s'.once = .held (.x 0) .wantR ∧ s'.rc = .dDialing ∧ LockWait.step s' .body = none :=
  LockWait.close_waits_for_dial

/-- T2 for view LockWait: the guards its theorems rest on, read off the regenerated operation sequences — `Do` takes the read
lock first and releases it by `defer` (so it is held while `recv` waits); `recv`'s select has the close-signal case (D24) and
looks into the slot once more; `reconnecting` tests `closed()` and the atomic `recovering` flag BEFORE it asks for the write lock
(D20); `Close` closes the signal BEFORE it takes the read lock; `dial` holds the write lock across the dialer (the one wait
`close_waits_for_dial_in_progress` describes) and tests `closed()` under it. The full sequences are pinned by `source_order`
here and in C05/C07/C08. -/
theorem lockwait_source :
    Gen.seq_client_Do.take 2 = ["c.RLock", "defer:c.RUnlock"] ∧ "c.recv" ∈ Gen.seq_client_Do ∧
    Gen.seq_client_recv = ["select", "recv:w.ch", "recv:ctx.Done()", "recv:c.closeCh", "select", "recv:w.ch", "default"] ∧
    Gen.seq_client_reconnecting.take 3 = ["c.closed", "atomic.LoadInt32:&c.recovering", "c.Lock"] ∧
    Gen.seq_client_Close.take 3 = ["c.closeOnce.Do", "close:c.closeCh", "c.RLock"] ∧
    Gen.seq_client_dial.take 4 = ["c.Lock", "defer:c.Unlock", "c.closed", "dialer"] := by decide

end OAP.C14
