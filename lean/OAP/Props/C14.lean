/-
C14 — Close is final and safe. Property theorems only (views CloseSlice: any number of Close callers and of
goroutines inside dial; Quartet: Close vs the reader's conn.Close/reconnecting vs the retry goroutine).
-/
import OAP.Model.Client.CloseSlice
import OAP.Model.Client.Quartet
import OAP.Gen.Facts
namespace OAP.C14
open OAP

/-- T2 structure facts, regenerated from go/client on every run (the operations themselves, in source order): Close = once { signal; read-lock; close conn; unlock; callback }; dial checks the signal under the write lock before dialling; closing a conn closes only its close signal and socket (never the data channels); the transports' write is closed-check then non-blocking send -/
theorem source_order :
    Gen.seq_client_Close = ["c.closeOnce.Do", "close:c.closeCh", "c.RLock", "c.conn.Close", "c.RUnlock", "c.onClose"] ∧
    Gen.seq_client_dial = ["c.Lock", "defer:c.Unlock", "c.closed", "dialer", "conn.OnPacket", "conn.OnClose"] ∧
    Gen.seq_tcpConn_Close = ["conn.closed", "conn.closeOnce.Do", "close:conn.closeCh", "conn.conn.Close", "conn.DispatchClose"] ∧
    Gen.seq_wsConn_Close = ["conn.closed", "conn.closeOnce.Do", "close:conn.closeCh", "conn.conn.Close", "conn.DispatchClose"] ∧
    Gen.seq_tcpConn_write = ["conn.closed", "select", "send:conn.writeCh", "default"] ∧
    Gen.seq_wsConn_write = ["conn.closed", "select", "send:conn.writeCh", "default"] := by
  decide


/-- the close callback runs at most once in every interleaving of any number of Close callers (user, hit-max) … -/
theorem on_close_at_most_once (acts : List CloseSlice.Act) (s : CloseSlice.St)
    (h : CloseSlice.run CloseSlice.init acts = some s) : s.onCloseCalls ≤ 1 :=
  CloseSlice.on_close_at_most_once acts s h

/-- CLOSE IS FINAL: after a Close call has returned, no dial starts — for every interleaving of any number of Close
callers and any number of goroutines entering `dial`: the signal precedes the lock in Close and `dial` checks it
under the lock, so either the re-dial sees the signal or Close closes the connection that re-dial installed -/
theorem close_final (acts : List CloseSlice.Act) (s : CloseSlice.St)
    (h : CloseSlice.run CloseSlice.init acts = some s) : s.dialsAfterReturn = 0 :=
  CloseSlice.no_dial_after_close_returned acts s h

/-- closing while the reader is tearing the connection down and a recovery is pending never deadlocks and never
re-enters the recovery from Close -/
theorem close_safe (acts : List Quartet.Act) (s : Quartet.St) (h : Quartet.run Quartet.init acts = some s) :
    s.closerReconnects = false := (Quartet.quartet_safe acts s h).1

end OAP.C14
