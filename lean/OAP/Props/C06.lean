/-
C06 — Request calls always terminate and never crash the process. Property theorems only.
Safety core, for every interleaving of the modelled threads (Close, a connection's reader running
conn.Close → close callback → reconnecting, the retry goroutine; calls in the Waiters view):
no self-deadlock / lock upgrade, no state in which every unfinished thread is blocked, every wait of a
request call other than the lock acquisition has a deadline alternative. Liveness under the Go
scheduler and the wall-clock bound are checked on scenarios (partial).
-/
import OAP.Model.Client.Quartet
import OAP.Model.Client.SingleFlight
import OAP.Proofs.Waiters
import OAP.Gen.Facts
import OAP.Model.Client.LockWait
namespace OAP.C06
open OAP

/-- T2 structure facts, regenerated from go/client on every run (the operations themselves, in source order): closeByServer closes the conn WITHOUT holding the client lock; Do holds the read lock for the whole call and checks conn before use; the close notification checks the closed signal first -/
theorem source_order :
    Gen.seq_client_closeByServer = ["conn.Close", "c.reconnecting"] ∧
    Gen.seq_client_Do = ["c.RLock", "defer:c.RUnlock", "protocol.NewRequest", "c.register", "defer:c.unregister", "conn.Write", "c.recv"] ∧
    Gen.seq_client_onConnClose = ["select", "recv:c.closeCh", "default", "c.reconnecting"] := by
  decide


/-- LOCK DISCIPLINE + NO DEADLOCK: in every reachable state of the lifecycle quartet (user Close; a reader whose
read error runs conn.Close → close callback → reconnecting with the write lock, the flag, the spawned retry goroutine
and the rendez-vous; the retry goroutine re-dialling under the write lock) Close's nested conn.Close never enters
reconnecting — no read→write upgrade on the client lock, the defect D5 of the pinned tree — and it is never the case
that all unfinished threads are blocked (RWMutex, the connection's Once, the wait for the retry goroutine). -/
theorem lock_discipline_no_deadlock (acts : List Quartet.Act) (s : Quartet.St) (h : Quartet.run Quartet.init acts = some s) :
    s.closerReconnects = false ∧
    ((Quartet.cActive s ∨ Quartet.rActive s ∨ Quartet.kActive s) →
      ¬ ((Quartet.cActive s → Quartet.cBlocked s) ∧ (Quartet.rActive s → Quartet.rBlocked s) ∧
         (Quartet.kActive s → Quartet.kBlocked s))) :=
  Quartet.quartet_safe acts s h

/-- the writers of the client lock are single-flight: at most one retry goroutine is ever alive, so the write lock is
requested by at most one recovery at a time, whatever number of loss notifications arrive -/
theorem single_flight (acts : List SingleFlight.Act) (s : SingleFlight.St) (h : SingleFlight.run SingleFlight.init acts = some s)
    (t u : Nat) (ht : SingleFlight.rAlive (s.rc t)) (hu : SingleFlight.rAlive (s.rc u)) : t = u :=
  SingleFlight.single_flight acts s h t u ht hu

/-- DO'S WAITS ARE TIMED: a call in flight can always take its deadline branch (the wait for the response is a select
with a deadline), a call with a registered waiter can always finish its write (the enqueue is non-blocking, see C12),
and an idle call can always start — no state of the Waiters view blocks a call -/
theorem do_waits_timed (s : Waiters.St) (i : Nat) :
    (∀ c r, s.call i = .written c r → (Waiters.step s (.giveUp i)).isSome = true) ∧
    (∀ c r, s.call i = .registered c r → (Waiters.step s (.write i true)).isSome = true ∧ (Waiters.step s (.write i false)).isSome = true) ∧
    (∀ rid, s.call i = .idle → s.issued rid = false → (Waiters.step s (.start i rid)).isSome = true) := by
  refine ⟨?_, ?_, ?_⟩
  · intro c r h; simp [Waiters.step, h]
  · intro c r h; simp [Waiters.step, h]
  · intro rid h hi; simp [Waiters.step, h, hi]

/-- a call whose waiter is closed by the recovery's fail-all returns an error — it does not receive a nil packet and
never closes the channel a second time (the channel is closed in exactly one place): the step is a plain transition -/
theorem failed_waiter_returns_error (s : Waiters.St) (i c r : Nat) (h : s.call i = .written c r) (hc : s.chan i = .closed) :
    Waiters.step s (.wake i) = some { s with call := Waiters.upd s.call i (.returning c r none) } ∧
    (∀ s', s'.call i = Waiters.CallPc.returning c r none → (Waiters.step s' (.finish i)).isSome = true) := by
  refine ⟨by simp [Waiters.step, h, hc], ?_⟩
  intro s' h'; simp [Waiters.step, h']


/-- T2 structure fact: the write helper that keepalive's ping calls WHILE HOLDING the client read lock takes no lock itself (a second,
recursive read lock would deadlock against a recovery that asks for the write lock in between) -/
theorem write_helper_lock_free :
    Gen.seq_client_write = ["c.conn.Write"] := by
  decide

/-! ### view LockWait: every request call returns — after Close without waiting for its deadline -/

/-- EVERY REQUEST CALL RETURNS once the client is closed, and not by its deadline: in every reachable state with the close
signal set, a caller inside `Do` has an enabled step of its own that is not its timeout (at the select of `recv`:
`case <-c.closeCh`), or it is blocked in `RLock` behind a writer and then some goroutine step that is neither a timer nor
the peer's is enabled; by the budget of `C14.close_returns_promptly` (5) every such call has returned when the budget is
used up -/
theorem request_returns_after_close (acts0 : List LockWait.Act) (s : LockWait.St)
    (h0 : LockWait.run LockWait.init acts0 = some s) (hc : s.closeSig = true)
    (i : Nat) (h1 : s.dpc i ≠ .idle) (h2 : s.dpc i ≠ .ret) :
    (∃ a, LockWait.isDo i a = true ∧ LockWait.isProg a = true ∧ LockWait.enabled s a) ∨
    (s.dpc i = .wantR ∧ (s.writer ≠ none ∨ s.pendW ≠ 0) ∧ ∃ a, LockWait.isProg a = true ∧ LockWait.enabled s a) :=
  LockWait.do_returns_after_close acts0 s h0 hc i h1 h2

/-- what the atomic fast path of `reconnecting` buys the requests (variant `noFastPath`, D24 repaired, D20 not): with a
recovery running and its auth request waiting, a second notifier of the same loss queues in `Lock()` and from then on the
`RLock` of EVERY `Do` is refused — in every continuation without the auth timeout, without an answer to the auth request
and without a Close: every request is delayed by up to the auth timeout -/
theorem no_fast_path_blocks_requests :
    ∃ s, LockWait.runV .noFastPath LockWait.init LockWait.demoC = some s ∧ s.dpc 0 = .wantR ∧ s.rc = .aWait false ∧
      ∀ acts s', (∀ a ∈ acts, LockWait.quietC a = true) → LockWait.runV .noFastPath s acts = some s' →
        s'.dpc 0 = .wantR ∧ s'.rc = .aWait false ∧
        (∀ i, s'.dpc i = .wantR → LockWait.stepV .noFastPath s' (.d i) = none) :=
  LockWait.no_fast_path_blocks_do_partial

end OAP.C06
