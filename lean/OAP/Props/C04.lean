/-
C04 — Decoders are total and resource-safe on arbitrary bytes. Property theorems only.
Totality = the modelled panics (index / slice out of range, integer division by zero, nil map …) are
unreachable for EVERY input; termination is part of every definition being accepted by Lean
(structural or well-founded recursion on the remaining bytes).
The one-shot frame decoder's and the streaming decoder's theorems live in OAP/Props/C04a.lean and
OAP/Props/C04b.lean (added when proved).
-/
import OAP.Props.C09
import OAP.Props.C10
import OAP.Props.C18
import OAP.Model.PacketErr
namespace OAP.C04
open OAP

/-- handshake decode: any byte string gives a value or an error -/
theorem handshake_total (bs : Bytes) : (Handshake.unpack bs).isPanic = false := C18.unpack_total bs

/-- metadata block decode: any byte string gives pairs or an error, and the loop terminates -/
theorem metadata_total (lower : Bytes → Bytes) (data : Bytes) :
    (Metadata.unmarshalValues lower data).isPanic = false := C09.unmarshal_total lower data

/-- the metadata decoder returns no more data than it was given (its allocations are bounded by the input) -/
theorem metadata_bounded (data : Bytes) (ps : List Metadata.Pair) (h : Metadata.rawPairs data = .ok ps) :
    (Metadata.encPairs ps).length = data.length := by
  rw [(C09.decode_canonical data ps h).1]

/-- gzip decode: a result or an error -/
theorem gzip_total (gz : GzOracle) (bs : Bytes) : (Gzip.decompress gz bs).isPanic = false := by
  unfold Gzip.decompress; split <;> rfl

/-- gzip decode: the buffer requested is bounded by the input supplied (× 1032) + 512, never by the ISIZE field alone -/
theorem gzip_alloc_bounded (bs : Bytes) : Gzip.allocDecompress bs ≤ bs.length * 1032 + 512 := C10.alloc_gzip bs

/-- typed error extraction never fails: success for non-responses and status 0, otherwise a typed error with
that status and either the decoded code/message or the code-500 fallback -/
theorem err_total (dec : ErrDecoder) (p : Packet) :
    (Packet.err dec p = none ↔ (p.type ≠ .response ∨ p.status = 0)) ∧
    (∀ e, Packet.err dec p = some e → e.status = p.status ∧
      ((∃ c m, dec p.codec p.body = some (c, m) ∧ e.code = c ∧ e.msg = m) ∨
       (dec p.codec p.body = none ∧ e.code = 500 ∧ e.msg = "unknown error, cant unmarshal body"))) := by
  have hs : UInt8.ofNat Gen.protocol_StatusSuccess = 0 := rfl
  unfold Packet.err
  rw [hs]
  by_cases ht : p.type ≠ .response
  · simp [ht]
  · by_cases h0 : p.status = 0
    · simp [h0]
    · simp only [ht, ↓reduceIte, h0]
      cases hd : dec p.codec p.body with
      | none => simp [fallbackCode, fallbackMsg]
      | some cm => obtain ⟨c, m⟩ := cm; simp

end OAP.C04
