/-
C03 — Stream reassembly is independent of segmentation and buffer geometry.
Property theorems only (helpers: OAP/Proofs/Ring.lean, OAP/Proofs/Stream.lean).

Layer 1: the ring buffer (model after the dependency's source) refines a byte queue for EVERY
geometry — capacity, read/write offsets, wrap position.
Layer 2: one call of the streaming decoder over the ring computes exactly the abstract decoder
`unpackAbs` over `rb.abs` (`unpackRing_eq_abs`): the quantification over `rb` covers every wrap
position of every multi-byte field, every capacity, every offset.
Layer 3: the abstract decoder's read loop is independent of how the stream is cut into chunks
(`chunking_independent`), and so is the loop over the real ring (`ring_chunking_independent`).
-/
import OAP.Model.Ring
import OAP.Model.Stream
import OAP.Proofs.Ring
import OAP.Proofs.Stream
import OAP.Proofs.StreamComplete
import OAP.Proofs.Reading
import OAP.Props.C02
import OAP.Proofs.GenFuncsStream
import OAP.Proofs.GenFuncsUnpack
namespace OAP.C03
open OAP OAP.Frame

/-! ### Layer 1: the ring buffer is a byte queue -/

/-- `Length()` is the number of queued bytes -/
theorem ring_length (rb : Ring) (h : rb.WF) : rb.length = rb.abs.length := Ring.length_abs rb h

/-- `Peek(n)`: the two slices, concatenated, are the first `n` queued bytes — wherever the wrap falls -/
theorem ring_peek (rb : Ring) (h : rb.WF) (n : Nat) : (rb.peek n).1 ++ (rb.peek n).2 = rb.abs.take n :=
  Ring.peek_abs rb h n

/-- `Retrieve(n)` drops `n` bytes from the front and keeps the representation invariant -/
theorem ring_retrieve (rb : Ring) (h : rb.WF) (n : Nat) :
    (rb.retrieve n).WF ∧ (rb.retrieve n).abs = rb.abs.drop n := Ring.retrieve_spec rb h n

/-- `Write(p)` appends `p` — including the split copy across the end of the buffer and the growth path -/
theorem ring_write (rb : Ring) (h : rb.WF) (p : Bytes) :
    (rb.write p).WF ∧ (rb.write p).abs = rb.abs ++ p := Ring.write_spec rb h p

/-- the constructors establish the invariant -/
theorem ring_new (n : Nat) : (Ring.new n).WF ∧ (Ring.new n).abs = [] := by
  refine ⟨?_, by simp [Ring.new, Ring.abs]⟩
  constructor <;> simp [Ring.new]

theorem ring_newWithData (d : Bytes) : (Ring.newWithData d).WF ∧ (Ring.newWithData d).abs = d := by
  refine ⟨?_, by simp [Ring.newWithData, Ring.abs]⟩
  constructor <;> simp [Ring.newWithData] <;> omega

/-- `Read(p)` with `len(p) = n > 0` on a ring holding at least one byte returns the first `n`
queued bytes (fewer if fewer are queued) and drops them. The precondition `0 < rb.length` is the
precise one: it implies the ring is not flagged empty and has positive capacity. -/
theorem read_spec (rb : Ring) (h : rb.WF) (n : Nat) (hn : 0 < n) (hl : 0 < rb.length) :
    ∃ rb', rb.read n = .ok (rb.abs.take n, rb') ∧ rb'.WF ∧ rb'.abs = rb.abs.drop n :=
  Ring.read_spec rb h n hn hl

/-- `Read` of an empty slice is a no-op -/
theorem read_zero (rb : Ring) : rb.read 0 = .ok ([], rb) := Ring.read_zero rb

/-- `Read` on a ring flagged empty is `ErrIsEmpty` (an error, not a panic) -/
theorem read_empty (rb : Ring) (n : Nat) (hn : 0 < n) (he : rb.isEmpty = true) :
    ∃ e, rb.read n = .err e := ⟨_, Ring.read_empty rb n hn he⟩

/-- the only way `Read` panics: a zero-capacity ring that is flagged non-empty (`NewWithData(nil)`) -/
example : (Ring.newWithData []).WF ∧ (Ring.newWithData []).read 1 = .panic "integer divide by zero" :=
  ⟨(ring_newWithData []).1, rfl⟩

/-- `PeekAll()`: the two slices concatenated are the whole queue -/
theorem peekAll_abs (rb : Ring) (h : rb.WF) : (rb.peekAll).1 ++ (rb.peekAll).2 = rb.abs :=
  Ring.peekAll_abs rb h

/-- `PeekUint8()`: the first queued byte -/
theorem peekUint8_spec (rb : Ring) (h : rb.WF) (a : UInt8) (t : Bytes) (habs : rb.abs = a :: t) :
    rb.peekUint8 = .ok a := Ring.peekUint8_spec rb h a t habs

/-- `PeekUint16()`: big-endian over the first two queued bytes, wherever the wrap falls -/
theorem peekUint16_spec (rb : Ring) (h : rb.WF) (a b : UInt8) (t : Bytes) (habs : rb.abs = a :: b :: t) :
    rb.peekUint16 = .ok (rd16 a b) := Ring.peekUint16_spec rb h a b t habs

theorem peekUint32_spec (rb : Ring) (h : rb.WF) (a b c d : UInt8) (t : Bytes)
    (habs : rb.abs = a :: b :: c :: d :: t) : rb.peekUint32 = .ok (rd32 a b c d) :=
  Ring.peekUint32_spec rb h a b c d t habs

theorem peekUint64_spec (rb : Ring) (h : rb.WF) (a b c d e f g i : UInt8) (t : Bytes)
    (habs : rb.abs = a :: b :: c :: d :: e :: f :: g :: i :: t) :
    rb.peekUint64 = .ok (rd64 a b c d e f g i) := Ring.peekUint64_spec rb h a b c d e f g i t habs

/-- the `PeekUintN` methods are total: on a short ring they return 0, never panic -/
theorem peekUint_total (rb : Ring) (h : rb.WF) :
    rb.peekUint8 = .ok (Q.u8 rb.abs) ∧ rb.peekUint16 = .ok (Q.u16 rb.abs) ∧
    rb.peekUint32 = .ok (Q.u32 rb.abs) ∧ rb.peekUint64 = .ok (Q.u64 rb.abs) :=
  ⟨Ring.peekUint8_abs rb h, Ring.peekUint16_abs rb h, Ring.peekUint32_abs rb h, Ring.peekUint64_abs rb h⟩

/-! non-vacuity: a wrapped ring (r = 3, w = 1 in a buffer of 4) -/
example : (⟨[5, 0, 0, 4], 4, 3, 1, false⟩ : Ring).abs = [4, 5] := by decide
example : (⟨[5, 0, 0, 4], 4, 3, 1, false⟩ : Ring).peek 2 = ([4], [5]) := by decide
example : (⟨[5, 0, 0, 4], 4, 3, 1, false⟩ : Ring).WF := by constructor <;> decide
example : (⟨[5, 0, 0, 4], 4, 3, 1, false⟩ : Ring).peekUint16 = .ok 0x0405 := by decide
example : ((⟨[5, 0, 0, 4], 4, 3, 1, false⟩ : Ring).read 2).toOption.map (·.1) = some [4, 5] := by decide

/-! ### Layer 2: one decoder call over the ring = one call over the queue, for every geometry -/

/-- GEOMETRY INDEPENDENCE. For every well-formed ring — any capacity, any read/write offsets, any
wrap position, hence every way a multi-byte field or the body can straddle the end of the buffer —
and for ANY parked header (not only reachable ones), `protocolVx.Unpack` over the ring returns the
result of the abstract decoder over the queued bytes, parks the same header, and leaves a
well-formed ring holding exactly the abstract decoder's remaining queue. -/
theorem unpackRing_eq_abs (v : Ver) (gz : GzOracle) (codec : UInt8) (pend : Option Header) (rb : Ring)
    (wf : rb.WF) :
    let o := unpackRing v gz codec pend rb
    let a := unpackAbs v gz codec pend rb.abs
    o.res = a.1 ∧ o.pend = a.2.1 ∧ o.rb.WF ∧ o.rb.abs = a.2.2 :=
  Frame.unpackRing_eq_abs v gz codec pend rb wf

/-- corollary: two rings holding the same bytes are indistinguishable to the decoder -/
theorem unpackRing_geometry (v : Ver) (gz : GzOracle) (codec : UInt8) (pend : Option Header)
    (rb₁ rb₂ : Ring) (wf₁ : rb₁.WF) (wf₂ : rb₂.WF) (h : rb₁.abs = rb₂.abs) :
    (unpackRing v gz codec pend rb₁).res = (unpackRing v gz codec pend rb₂).res ∧
    (unpackRing v gz codec pend rb₁).pend = (unpackRing v gz codec pend rb₂).pend ∧
    (unpackRing v gz codec pend rb₁).rb.abs = (unpackRing v gz codec pend rb₂).rb.abs := by
  obtain ⟨a1, a2, _, a4⟩ := Frame.unpackRing_eq_abs v gz codec pend rb₁ wf₁
  obtain ⟨b1, b2, _, b4⟩ := Frame.unpackRing_eq_abs v gz codec pend rb₂ wf₂
  rw [a1, a2, a4, b1, b2, b4, h]; exact ⟨rfl, rfl, rfl⟩

/-- the parked-header invariant (`PendOK v pend`: the header is one the decoder itself parks after
consuming some prefix of a frame) holds initially and is preserved by every call -/
theorem pend_ok_none (v : Ver) : PendOK v none := pendOK_none v

theorem pend_ok_preserved (v : Ver) (gz : GzOracle) (codec : UInt8) (pend : Option Header) (rb : Ring)
    (wf : rb.WF) (hp : PendOK v pend) : PendOK v (unpackRing v gz codec pend rb).pend := by
  rw [(Frame.unpackRing_eq_abs v gz codec pend rb wf).2.1]
  exact Frame.pend_ok_preserved v gz codec pend rb.abs hp

/-! non-vacuity: a v1 push frame `03 07 000002 09 08` in a ring of 8 with r = 5, w = 4: the 3-byte
body length straddles the end of the buffer (1 byte before the wrap, 2 after) -/
private def gz0 : GzOracle := ⟨fun _ => .err "none", fun _ => none⟩
private def wrapped : Ring := ⟨[0, 2, 9, 8, 0, 3, 7, 0], 8, 5, 4, false⟩
example : wrapped.WF := by constructor <;> decide
example : wrapped.abs = [3, 7, 0, 0, 2, 9, 8] := by decide
example : ((wrapped.retrieve 2).peek 3) = ([0], [0, 2]) := by decide
example : (unpackRing .v1 gz0 0 none wrapped).res = .pkt { type := .push, cmd := 7, body := [9, 8] } := by
  decide
example : (unpackRing .v1 gz0 0 none wrapped).rb.abs = [] := by decide
example : unpackAbs .v1 gz0 0 none [3, 7, 0, 0, 2, 9, 8] =
    (.pkt { type := .push, cmd := 7, body := [9, 8] }, none, []) := by decide

/-! ### Layer 3: chunking independence -/

/-- KEY LAW: a call depends only on the undelivered bytes. `Parked v pend u` says that `pend` is the
header parked after consuming the bytes `u` of the current frame; then resuming with queue `q`
is decoding `u ++ q` from scratch. -/
theorem unpack_unread (v : Ver) (gz : GzOracle) (codec : UInt8) (pend : Option Header) (u q : Bytes)
    (hp : Parked v pend u) :
    unpackAbs v gz codec pend q = unpackAbs v gz codec none (u ++ q) :=
  Frame.unpack_unread v gz codec pend u q hp

/-- a packet consumes at least a whole header of the stream -/
theorem unpack_pkt_lt (v : Ver) (gz : GzOracle) (codec : UInt8) (u : Bytes) (k : Packet)
    (p' : Option Header) (r : Bytes) (h : unpackAbs v gz codec none u = (.pkt k, p', r)) :
    r.length + pushLen v ≤ u.length := Frame.unpack_pkt_lt v gz codec u k p' r h

/-- appending bytes never changes a decision already made (a packet or an error) -/
theorem unpack_append_pkt (v : Ver) (gz : GzOracle) (codec : UInt8) (u c : Bytes) (s : SRes)
    (p' : Option Header) (r : Bytes) (h : unpackAbs v gz codec none u = (s, p', r)) (hs : s ≠ .more) :
    unpackAbs v gz codec none (u ++ c) = (s, p', r ++ c) := Frame.unpack_append v gz codec u c s p' r h hs

/-- a "need more data" result leaves the undelivered stream unchanged -/
theorem unpack_more_unread (v : Ver) (gz : GzOracle) (codec : UInt8) (u : Bytes) (p' : Option Header)
    (q' : Bytes) (h : unpackAbs v gz codec none u = (.more, p', q')) :
    ∃ u', Parked v p' u' ∧ u' ++ q' = u := Frame.unpack_more_unread v gz codec u p' q' h

/-- the same laws with the undelivered stream as a FUNCTION of the state: `unread v pend q` is the
parked header re-encoded by the codec's own `Header.Pack` (nothing / byte 0 / the whole header),
followed by the queue. `PendOK v pend` ↔ `Parked v pend (s_hdrBytes v pend)`. -/
theorem unpack_unread_fn (v : Ver) (gz : GzOracle) (codec : UInt8) (pend : Option Header) (q : Bytes)
    (hp : PendOK v pend) :
    unpackAbs v gz codec pend q = unpackAbs v gz codec none (unread v pend q) :=
  unpack_unread' v gz codec pend q hp

theorem unpack_more_unread_fn (v : Ver) (gz : GzOracle) (codec : UInt8) (pend : Option Header) (q : Bytes)
    (hp : PendOK v pend) (hm : (unpackAbs v gz codec pend q).1 = .more) :
    unread v (unpackAbs v gz codec pend q).2.1 (unpackAbs v gz codec pend q).2.2 = unread v pend q :=
  unpack_more_unread' v gz codec pend q hp hm

/-- by-product: `Header.Pack` inverts the streaming header decoder on every complete header -/
theorem pack_inverts_stream_header (v : Ver) (b : UInt8) (w : Bytes) (hk : isUnknown (usType v b) = false)
    (hw : w.length = hdrLen v (usType v b) - 1) :
    Header.pack v (restAbs v (parse0 v {} b) w).1 = .ok (b :: w) := pack_restAbs v b w hk hw

/-- the read loop from a parked state is the read loop over the re-assembled stream -/
theorem drain_spec (v : Ver) (gz : GzOracle) (codec : UInt8) (pend : Option Header) (u q : Bytes)
    (hp : Parked v pend u) : drain v gz codec pend q = run v gz codec (u ++ q) :=
  Frame.drain_spec v gz codec pend u q hp

/-- resumability of the read loop -/
theorem drain_append (v : Ver) (gz : GzOracle) (codec : UInt8) (c u : Bytes) (ks : List Packet)
    (p : Option Header) (r : Bytes) (h : run v gz codec u = (ks, (.more, p, r))) :
    run v gz codec (u ++ c) = (ks ++ (drain v gz codec p (r ++ c)).1, (drain v gz codec p (r ++ c)).2) :=
  Frame.drain_append v gz codec c u ks p r h

/-- what feeding chunk by chunk delivers is what the one-shot loop over the whole stream delivers -/
theorem feed_spec (v : Ver) (gz : GzOracle) (codec : UInt8) (chunks : List Bytes) :
    (feed v gz codec chunks).obs =
      ((run v gz codec chunks.flatten).1,
       if (run v gz codec chunks.flatten).2.1 = .more then none else some (run v gz codec chunks.flatten).2.1) :=
  tracks_obs v gz codec _ _ (feed_tracks v gz codec chunks)

/-- CHUNKING INDEPENDENCE (abstract decoder): the delivered packets and the error verdict after
feeding the chunks one by one (running the read loop after each, stopping at the first error)
are those of feeding the whole stream at once -/
theorem chunking_independent (v : Ver) (gz : GzOracle) (codec : UInt8) (chunks : List Bytes) :
    (feed v gz codec chunks).obs = (feed v gz codec [chunks.flatten]).obs :=
  Frame.chunking_independent v gz codec chunks

/-- the connection over the real ring buffer (`Write` each chunk, loop `Unpack`) observes what the
queue connection observes, from ANY well-formed empty ring -/
theorem ring_feed_eq (v : Ver) (gz : GzOracle) (codec : UInt8) (rb0 : Ring) (wf : rb0.WF)
    (he : rb0.abs = []) (chunks : List Bytes) :
    (rfeed v gz codec rb0 chunks).obs = (feed v gz codec chunks).obs :=
  rfeed_obs v gz codec rb0 wf he chunks

/-- CHUNKING AND GEOMETRY INDEPENDENCE (ring decoder): any two well-formed empty rings — different
capacities, different offsets — fed the same stream cut in any way deliver the same packets and
the same verdict -/
theorem ring_chunking_independent (v : Ver) (gz : GzOracle) (codec : UInt8) (rb₁ rb₂ : Ring)
    (wf₁ : rb₁.WF) (wf₂ : rb₂.WF) (he₁ : rb₁.abs = []) (he₂ : rb₂.abs = []) (chunks : List Bytes) :
    (rfeed v gz codec rb₁ chunks).obs = (rfeed v gz codec rb₂ [chunks.flatten]).obs := by
  rw [rfeed_obs v gz codec rb₁ wf₁ he₁, rfeed_obs v gz codec rb₂ wf₂ he₂]
  exact Frame.chunking_independent v gz codec chunks

/-- instance: `New(cap₁)` against `New(cap₂)` whose pointers were first moved to an arbitrary
offset by writing `pre` and reading it back (`Read` leaves r = w at that offset) -/
theorem ring_chunking_independent_new (v : Ver) (gz : GzOracle) (codec : UInt8) (cap₁ cap₂ : Nat)
    (pre d : Bytes) (rb₂ : Ring) (hrd : ((Ring.new cap₂).write pre).read pre.length = .ok (d, rb₂))
    (chunks : List Bytes) :
    (rfeed v gz codec (Ring.new cap₁) chunks).obs = (rfeed v gz codec rb₂ [chunks.flatten]).obs := by
  have w := Ring.write_spec (Ring.new cap₂) (ring_new cap₂).1 pre
  obtain ⟨rb', h1, h2, h3⟩ := Ring.read_abs _ w.1 pre.length (by
    rw [Ring.length_abs _ w.1, w.2, (ring_new cap₂).2]; simp)
  rw [h1] at hrd
  simp only [Res.ok.injEq, Prod.mk.injEq] at hrd
  obtain ⟨_, rfl⟩ := hrd
  exact ring_chunking_independent v gz codec _ _ (ring_new cap₁).1 h2 (ring_new cap₁).2
    (by rw [h3, w.2, (ring_new cap₂).2]; simp) chunks

/-! non-vacuity: the frame above cut as 3 + 3 + 1 bytes is delivered once, by the last chunk -/
example : (feed .v1 gz0 0 [[3, 7, 0], [0, 2, 9], [8]]).obs =
    ([{ type := .push, cmd := 7, body := [9, 8] }], none) := by
  rw [feed_spec]
  have h1 : unpackAbs .v1 gz0 0 none [3, 7, 0, 0, 2, 9, 8] =
      (.pkt { type := .push, cmd := 7, body := [9, 8] }, none, []) := by decide
  have : run .v1 gz0 0 [3, 7, 0, 0, 2, 9, 8] =
      ([{ type := .push, cmd := 7, body := [9, 8] }], (.more, some {}, [])) := by
    rw [run_eq_drain, drain, h1]; simp only
    rw [run_eq_drain, drain, unpackAbs_nil]
  simp [this]
/-- the ring with r = 6 after the move wraps inside the frame -/
example : (((Ring.new 8).write [1, 2, 3, 4, 5, 6]).read 6).toOption.map (fun x => (x.2.r, x.2.w, x.2.isEmpty)) =
    some (6, 6, true) := by decide

/-! ### Layer 4: back-to-back frames — the stream yields what each frame yields on its own -/

/-- COMPLETENESS of one call: a valid layout frame at the head of the queue, followed by ANY bytes
(the next frame, a partial frame, nothing), is delivered by one call from a fresh context as
exactly `packetOf` — the packet `C02.decode_accepts` says the one-shot decoder returns on the
frame alone — with nothing parked and exactly the following bytes left in the queue -/
theorem decode_accepts_stream (v : Ver) (gz : GzOracle) (codec : UInt8) (f : Spec.Frame) (content : Bytes)
    (ps : List Metadata.Pair) (rest : Bytes) (hv : ValidFrame v gz f content ps) :
    unpackAbs v gz codec none (Spec.encode v f ++ rest) = (.pkt (packetOf f codec content ps), none, rest) :=
  Frame.decode_accepts_stream v gz codec f content ps rest hv

/-- … and over the ring: any well-formed ring (any geometry) holding such bytes -/
theorem decode_accepts_ring (v : Ver) (gz : GzOracle) (codec : UInt8) (f : Spec.Frame) (content : Bytes)
    (ps : List Metadata.Pair) (rest : Bytes) (hv : ValidFrame v gz f content ps) (rb : Ring) (wf : rb.WF)
    (hq : rb.abs = Spec.encode v f ++ rest) :
    (unpackRing v gz codec none rb).res = .pkt (packetOf f codec content ps) ∧
    (unpackRing v gz codec none rb).pend = none ∧
    (unpackRing v gz codec none rb).rb.WF ∧ (unpackRing v gz codec none rb).rb.abs = rest := by
  obtain ⟨e1, e2, e3, e4⟩ := Frame.unpackRing_eq_abs v gz codec none rb wf
  rw [hq, Frame.decode_accepts_stream v gz codec f content ps rest hv] at e1 e2 e4
  exact ⟨e1, e2, e3, e4⟩

/-- the read loop over back-to-back valid frames: the packets the frames denote, in order, then
"need more data" on an empty queue (a fresh header parked: `some {}`, the idle state) -/
theorem frames_decode_in_order (v : Ver) (gz : GzOracle) (codec : UInt8)
    (fs : List (Spec.Frame × Bytes × List Metadata.Pair))
    (hv : ∀ x ∈ fs, ValidFrame v gz x.1 x.2.1 x.2.2) :
    run v gz codec (fs.map (fun x => Spec.encode v x.1)).flatten =
      (fs.map (fun x => packetOf x.1 codec x.2.1 x.2.2), (.more, some {}, [])) :=
  Frame.frames_decode_in_order v gz codec fs hv

/-- THE STREAM YIELDS EACH FRAME. For any list of valid frames of the published layout sent back to
back, and ANY chunking of the concatenation (cuts anywhere: inside a header, a length field, the
metadata block, the body, the trailer; several frames per chunk; empty chunks), the connection
delivers exactly one packet per frame, in order, and the i-th packet is the packet the one-shot
decoder `UnpackBytes` returns on the i-th frame alone; no error verdict.
(`Forall₂`: same length, related index by index — `forall₂_iff_getElem`.) -/
theorem stream_yields_each_frame (v : Ver) (gz : GzOracle) (codec : UInt8) (fs : List Spec.Frame)
    (hv : ∀ f ∈ fs, ∃ content ps, ValidFrame v gz f content ps)
    (chunks : List Bytes) (hc : chunks.flatten = (fs.map (Spec.encode v)).flatten) :
    ∃ qs, (feed v gz codec chunks).obs = (qs, none) ∧
      Forall₂ (fun f q => unpackBytes v gz codec (Spec.encode v f) = .ok q) fs qs := by
  have hden : ∃ qs, Forall₂ (Denotes v gz codec) fs qs := by
    clear hc
    induction fs with
    | nil => exact ⟨[], .nil⟩
    | cons f fs ih =>
      obtain ⟨content, ps, hf⟩ := hv f (by simp)
      obtain ⟨qs, hqs⟩ := ih (fun g hg => hv g (by simp [hg]))
      exact ⟨_, .cons ⟨content, ps, hf, rfl⟩ hqs⟩
  obtain ⟨qs, hqs⟩ := hden
  refine ⟨qs, feed_frames v gz codec fs qs hqs chunks hc, hqs.imp ?_⟩
  rintro f q ⟨content, ps, hf, rfl⟩
  exact C02.decode_accepts v gz codec f content ps hf

/-- the same as an equation between lists of results -/
theorem stream_yields_each_frame_eq (v : Ver) (gz : GzOracle) (codec : UInt8) (fs : List Spec.Frame)
    (hv : ∀ f ∈ fs, ∃ content ps, ValidFrame v gz f content ps)
    (chunks : List Bytes) (hc : chunks.flatten = (fs.map (Spec.encode v)).flatten) :
    (feed v gz codec chunks).obs.2 = none ∧
    (feed v gz codec chunks).obs.1.map Res.ok = fs.map (fun f => unpackBytes v gz codec (Spec.encode v f)) := by
  obtain ⟨qs, h1, h2⟩ := stream_yields_each_frame v gz codec fs hv chunks hc
  rw [h1]
  refine ⟨rfl, ?_⟩
  clear h1 hv hc
  induction h2 with
  | nil => rfl
  | cons hab _ ih => simp only [List.map_cons, hab]; exact congrArg _ ih

/-- … and over the real ring buffer, from any well-formed empty ring (any capacity, any offsets) -/
theorem ring_stream_yields_each_frame (v : Ver) (gz : GzOracle) (codec : UInt8) (fs : List Spec.Frame)
    (hv : ∀ f ∈ fs, ∃ content ps, ValidFrame v gz f content ps)
    (rb0 : Ring) (wf : rb0.WF) (he : rb0.abs = [])
    (chunks : List Bytes) (hc : chunks.flatten = (fs.map (Spec.encode v)).flatten) :
    ∃ qs, (rfeed v gz codec rb0 chunks).obs = (qs, none) ∧
      Forall₂ (fun f q => unpackBytes v gz codec (Spec.encode v f) = .ok q) fs qs := by
  rw [rfeed_obs v gz codec rb0 wf he chunks]
  exact stream_yields_each_frame v gz codec fs hv chunks hc

/-! non-vacuity: a v1 push frame and a v1 request frame (reserve bits 01) back to back, 19 bytes;
whatever the chunking, both packets are delivered, in order -/
private def fPush : Spec.Frame := { type := 3, verify := 0, gzip := 0, reserve := 0, cmd := 7, body := [9, 8] }
private def fReq : Spec.Frame :=
  { type := 1, verify := 0, gzip := 0, reserve := 1, cmd := 5, rid := 258, timeout := 3, body := [1] }

private theorem fPush_valid : ValidFrame .v1 gz0 fPush [9, 8] [] :=
  { type := by decide, verify := by decide, gzip := by decide, reserve := by decide, cmd := by decide
    rid := by decide, timeout := by decide, status := by decide, nonce := by decide, sig := by decide
    body := by decide, md1 := fun _ => ⟨rfl, rfl⟩, mdlen := by decide
    md2 := by intro h; cases h
    gz1 := by intro h; cases h
    gz0 := fun _ => rfl }

private theorem fReq_valid : ValidFrame .v1 gz0 fReq [1] [] :=
  { type := by decide, verify := by decide, gzip := by decide, reserve := by decide, cmd := by decide
    rid := by decide, timeout := by decide, status := by decide, nonce := by decide, sig := by decide
    body := by decide, md1 := fun _ => ⟨rfl, rfl⟩, mdlen := by decide
    md2 := by intro h; cases h
    gz1 := by intro h; cases h
    gz0 := fun _ => rfl }

example : Spec.encode .v1 fPush ++ Spec.encode .v1 fReq =
    [3, 7, 0, 0, 2, 9, 8, 65, 5, 0, 0, 1, 2, 0, 3, 0, 0, 1, 1] := by decide

example (chunks : List Bytes)
    (hc : chunks.flatten = [3, 7, 0, 0, 2, 9, 8, 65, 5, 0, 0, 1, 2, 0, 3, 0, 0, 1, 1]) :
    (feed .v1 gz0 0 chunks).obs =
      ([{ type := .push, cmd := 7, body := [9, 8] },
        { type := .request, cmd := 5, rid := 258, timeout := 3, body := [1] }], none) := by
  have hv : ∀ f ∈ [fPush, fReq], ∃ content ps, ValidFrame .v1 gz0 f content ps := by
    intro f hf
    simp only [List.mem_cons, List.not_mem_nil, or_false] at hf
    rcases hf with rfl | rfl
    · exact ⟨_, _, fPush_valid⟩
    · exact ⟨_, _, fReq_valid⟩
  obtain ⟨qs, h1, h2⟩ := stream_yields_each_frame .v1 gz0 0 [fPush, fReq] hv chunks (by rw [hc]; decide)
  have d1 : unpackBytes .v1 gz0 0 (Spec.encode .v1 fPush) = .ok { type := .push, cmd := 7, body := [9, 8] } := by
    decide
  have d2 : unpackBytes .v1 gz0 0 (Spec.encode .v1 fReq) =
      .ok { type := .request, cmd := 5, rid := 258, timeout := 3, body := [1] } := by decide
  cases h2 with
  | cons e1 ht => cases ht with
    | cons e2 ht2 =>
      cases ht2
      rw [d1] at e1; rw [d2] at e2
      injection e1 with e1; injection e2 with e2
      rw [h1, ← e1, ← e2]

/-- one concrete chunking, cut inside the first body-length field and inside the second request id -/
example : (feed .v1 gz0 0 [[3, 7, 0], [0, 2, 9, 8, 65, 5, 0], [], [0, 1, 2, 0, 3, 0, 0, 1, 1]]).obs.1.length = 2 := by
  have hv : ∀ f ∈ [fPush, fReq], ∃ content ps, ValidFrame .v1 gz0 f content ps := by
    intro f hf
    simp only [List.mem_cons, List.not_mem_nil, or_false] at hf
    rcases hf with rfl | rfl
    · exact ⟨_, _, fPush_valid⟩
    · exact ⟨_, _, fReq_valid⟩
  obtain ⟨qs, h1, h2⟩ := stream_yields_each_frame .v1 gz0 0 [fPush, fReq] hv
    [[3, 7, 0], [0, 2, 9, 8, 65, 5, 0], [], [0, 1, 2, 0, 3, 0, 0, 1, 1]] (by decide)
  rw [h1]; exact h2.length_eq.symm

/-- one call, v2: the example frame of C02 (response, verify, reserve = 2, one metadata pair) followed
by arbitrary bytes is delivered in full — 16-byte signature, not "all trailing bytes" — and exactly
the trailing bytes stay queued -/
example (gz : GzOracle) (rest : Bytes) :
    unpackAbs .v2 gz 1 none (Spec.encode .v2 C02.exFrame ++ rest) =
      (.pkt { type := .response, cmd := 7, rid := 0x01020304, status := 9, verify := true, nonce := 5
              signature := List.replicate 16 0xAA, values := [([0x61], [0x78])], codec := 1, body := [1, 2, 3] },
       none, rest) := by
  rw [decode_accepts_stream .v2 gz 1 C02.exFrame _ _ rest (C02.exFrame_valid gz)]
  have : packetOf C02.exFrame 1 [1, 2, 3] [([0x61], [0x78])] =
      { type := .response, cmd := 7, rid := 0x01020304, status := 9, verify := true, nonce := 5
        signature := List.replicate 16 0xAA, values := [([0x61], [0x78])], codec := 1, body := [1, 2, 3] } := by decide
  rw [this]

private def twoFrames : List (Spec.Frame × Bytes × List Metadata.Pair) := [(fPush, [9, 8], []), (fReq, [1], [])]

/-- the read loop on the two v1 frames above -/
example : run .v1 gz0 0 [3, 7, 0, 0, 2, 9, 8, 65, 5, 0, 0, 1, 2, 0, 3, 0, 0, 1, 1] =
    ([{ type := .push, cmd := 7, body := [9, 8] }, { type := .request, cmd := 5, rid := 258, timeout := 3, body := [1] }],
     (.more, some {}, [])) := by
  have := frames_decode_in_order .v1 gz0 0 twoFrames (by
    unfold twoFrames
    intro x hx
    simp only [List.mem_cons, List.not_mem_nil, or_false] at hx
    rcases hx with rfl | rfl
    · exact fPush_valid
    · exact fReq_valid)
  have e : (twoFrames.map (fun x => Spec.encode .v1 x.1)).flatten =
      [3, 7, 0, 0, 2, 9, 8, 65, 5, 0, 0, 1, 2, 0, 3, 0, 0, 1, 1] := by decide
  rw [e] at this
  rw [this]; decide

/-! ### Layer 5: the TCP connection's reader goroutine (`(*tcpConn).reading`, go/client/tcp_conn.go)

The reader does not write every socket read into one ring (that is `rfeed` above). When the left-over
ring `conn.readBuf` is empty it decodes the chunk in place through `ringbuffer.NewWithData(conn.buf[:n])`
and saves what is left with `first, _ := buffer.PeekAll(); conn.readBuf.Write(first)`; otherwise it
writes the chunk behind the left-over and decodes `conn.readBuf`. The parked header is shared by both
paths. Model: OAP/Model/Client/Reading.lean; proofs: OAP/Proofs/Reading.lean. -/
section TcpReader
open OAP.Reading

/-- KEY LEMMA of the fast path: on every ring reachable from `NewWithData(d)` by `Retrieve` / `Read` /
peeks only (no `Write`) — whatever was consumed, everything, nothing; empty `d` included — the write
position is still 0, so `PeekAll` returns an EMPTY second slice and ALL unread bytes, a suffix of `d`,
in the first: keeping only `first` loses nothing -/
theorem tcp_fast_path_first_is_everything (d : Bytes) (b : Ring) (h : Reach (Ring.newWithData d) b) :
    b.WF ∧ b.w = 0 ∧ b.peekAll.2 = [] ∧ b.peekAll.1 = b.abs ∧ ∃ k, b.abs = d.drop k := by
  obtain ⟨h1, h2, _, _, h3, h4, h5⟩ := reach_newWithData d b h
  exact ⟨h1, h2, h3, h4, h5⟩

/-- one `Unpack` call, and the whole `readPacket` loop, only move the ring by `Retrieve` / `Read` -/
theorem tcp_unpack_only_consumes (v : Ver) (gz : GzOracle) (codec : UInt8) (pend : Option Header) (rb : Ring) :
    Reach rb (unpackRing v gz codec pend rb).rb ∧ Reach rb (readPacket v gz codec pend rb).2.2.2 :=
  ⟨unpackRing_reach v gz codec pend rb rb .refl, readPacket_reach v gz codec pend rb⟩

/-- `readPacket` is the read loop `drainRing` of Layer 3 on every well-formed ring (its fuel never runs out) -/
theorem tcp_readPacket_is_drainRing (v : Ver) (gz : GzOracle) (codec : UInt8) (pend : Option Header)
    (rb : Ring) (wf : rb.WF) : readPacket v gz codec pend rb = drainRing v gz codec pend rb :=
  readPacket_eq_drainRing v gz codec pend rb wf

/-- REFINEMENT: from any well-formed empty `conn.readBuf`, for any sequence of socket reads, the
reader goroutine delivers the packets and reaches the verdict of the abstract queue connection -/
theorem tcp_reader_eq_feed (v : Ver) (gz : GzOracle) (codec : UInt8) (rb0 : Ring) (wf : rb0.WF)
    (he : rb0.abs = []) (chunks : List Bytes) :
    (reading v gz codec rb0 chunks).obs = (feed v gz codec chunks).obs :=
  reading_eq_feed v gz codec rb0 wf he chunks

/-- … so what it observes is the one-shot read loop over the concatenated stream -/
theorem tcp_reader_spec (v : Ver) (gz : GzOracle) (codec : UInt8) (rb0 : Ring) (wf : rb0.WF)
    (he : rb0.abs = []) (chunks : List Bytes) :
    (reading v gz codec rb0 chunks).obs =
      ((run v gz codec chunks.flatten).1,
       if (run v gz codec chunks.flatten).2.1 = .more then none else some (run v gz codec chunks.flatten).2.1) :=
  reading_spec v gz codec rb0 wf he chunks

/-- the reader goroutine never panics in the decoder or the ring buffer, whatever arrives -/
theorem tcp_reader_no_panic (v : Ver) (gz : GzOracle) (codec : UInt8) (rb0 : Ring) (wf : rb0.WF)
    (he : rb0.abs = []) (chunks : List Bytes) (w : String) :
    (reading v gz codec rb0 chunks).stopped ≠ some (.panic w) :=
  reading_no_panic v gz codec rb0 wf he chunks w

/-- the reader's invariant (see `Reading.RInv`): well-formed left-over ring, a parked header the decoder
itself parks, and — while running — parked header ++ left-over bytes = the undelivered stream -/
theorem tcp_reader_invariant (v : Ver) (gz : GzOracle) (codec : UInt8) (rb0 : Ring) (wf : rb0.WF)
    (he : rb0.abs = []) (chunks : List Bytes) :
    RInv v gz codec (reading v gz codec rb0 chunks) chunks.flatten :=
  reading_invariant v gz codec rb0 wf he chunks

/-- SEGMENTATION INDEPENDENCE of the TCP reader, general form: two well-formed empty left-over rings
(any capacities, any offsets), two segmentations of the same byte stream (cuts anywhere, empty reads
allowed) — hence any two interleavings of fast-path and slow-path reads — same packets, same verdict -/
theorem tcp_reader_segmentation_independent' (v : Ver) (gz : GzOracle) (codec : UInt8) (rb₁ rb₂ : Ring)
    (wf₁ : rb₁.WF) (wf₂ : rb₂.WF) (he₁ : rb₁.abs = []) (he₂ : rb₂.abs = [])
    (chunks₁ chunks₂ : List Bytes) (h : chunks₁.flatten = chunks₂.flatten) :
    (reading v gz codec rb₁ chunks₁).obs = (reading v gz codec rb₂ chunks₂).obs := by
  rw [reading_spec v gz codec rb₁ wf₁ he₁, reading_spec v gz codec rb₂ wf₂ he₂, h]

/-- SEGMENTATION INDEPENDENCE of the TCP reader as dialled: `readBuf = ringbuffer.New(ReadBufferSize)`,
for any two buffer sizes -/
theorem tcp_reader_segmentation_independent (v : Ver) (gz : GzOracle) (codec : UInt8) (cap₁ cap₂ : Nat)
    (chunks₁ chunks₂ : List Bytes) (h : chunks₁.flatten = chunks₂.flatten) :
    (reading v gz codec (Ring.new cap₁) chunks₁).obs = (reading v gz codec (Ring.new cap₂) chunks₂).obs :=
  tcp_reader_segmentation_independent' v gz codec _ _ (ring_new cap₁).1 (ring_new cap₂).1
    (ring_new cap₁).2 (ring_new cap₂).2 chunks₁ chunks₂ h

/-- THE TCP READER DELIVERS EACH FRAME: for a stream of back-to-back valid frames of the published
layout, cut into socket reads in ANY way, from any well-formed empty `conn.readBuf`, the reader
delivers exactly one packet per frame, in order — the packet the one-shot decoder returns on that
frame alone — and no error -/
theorem tcp_reader_delivers_frames (v : Ver) (gz : GzOracle) (codec : UInt8) (fs : List Spec.Frame)
    (hv : ∀ f ∈ fs, ∃ content ps, ValidFrame v gz f content ps)
    (rb0 : Ring) (wf : rb0.WF) (he : rb0.abs = [])
    (chunks : List Bytes) (hc : chunks.flatten = (fs.map (Spec.encode v)).flatten) :
    ∃ qs, (reading v gz codec rb0 chunks).obs = (qs, none) ∧
      Forall₂ (fun f q => unpackBytes v gz codec (Spec.encode v f) = .ok q) fs qs := by
  rw [reading_eq_feed v gz codec rb0 wf he chunks]
  exact stream_yields_each_frame v gz codec fs hv chunks hc

/-- … with the packets named: the ones the frames denote (`Denotes`, OAP/Proofs/StreamComplete.lean) -/
theorem tcp_reader_delivers_denoted (v : Ver) (gz : GzOracle) (codec : UInt8) (fs : List Spec.Frame)
    (qs : List Packet) (h : Forall₂ (Denotes v gz codec) fs qs)
    (cap : Nat) (chunks : List Bytes) (hc : chunks.flatten = (fs.map (Spec.encode v)).flatten) :
    (reading v gz codec (Ring.new cap) chunks).obs = (qs, none) := by
  rw [reading_eq_feed v gz codec _ (ring_new cap).1 (ring_new cap).2 chunks]
  exact feed_frames v gz codec fs qs h chunks hc

/-! non-vacuity: the two v1 frames of Layer 4 (push `03 07 000002 09 08`, request `41 05 00000102 0003 000001 01`),
`readBuf = New(8)` -/

private def pPush : Packet := { type := .push, cmd := 7, body := [9, 8] }
private def pReq : Packet := { type := .request, cmd := 5, rid := 258, timeout := 3, body := [1] }
private def chunkA2 : Bytes := [0, 2, 9, 8, 65, 5, 0, 0, 1, 2, 0, 3, 0, 0, 1, 1]

/-- (a) the first read `03 07 00` ends in mid-header. FAST path: byte 0 goes into the parked header
while the temporary ring is decoded, `07 00` is the left-over copied into `readBuf` — the parked
header belongs to bytes that now live in the other buffer; undelivered = `03 07 00` -/
private def sA := reading .v1 gz0 0 (Ring.new 8) [[3, 7, 0]]
example : pathOf { readBuf := Ring.new 8 } [3, 7, 0] = .fast := by decide
example : sA.readBuf.abs = [7, 0] ∧ sA.pkts = [] ∧ sA.stopped = none := by decide
example : sA.pend.map (fun h => (h.beginUnpack, h.isUnpacked, h.type)) = some (true, false, 3) := by decide
example : sA.unread .v1 = [3, 7, 0] := by decide
/-- … the next read takes the SLOW path (write behind `07 00`, decode `readBuf`, which has to grow
from 8 to 18 bytes) and both packets come out -/
example : pathOf sA chunkA2 = .slow := by decide
example : (reading .v1 gz0 0 (Ring.new 8) [[3, 7, 0], chunkA2]).obs = ([pPush, pReq], none) := by decide
example : (reading .v1 gz0 0 (Ring.new 8) [[3, 7, 0], chunkA2]).readBuf.size = 18 := by decide

/-- (b) the first read delivers the push packet and leaves a partial second frame `41 05 00`: FAST
path, byte 0 of the second frame parked, `05 00` left over -/
private def sB := reading .v1 gz0 0 (Ring.new 8) [[3, 7, 0, 0, 2, 9, 8, 65, 5, 0]]
example : pathOf { readBuf := Ring.new 8 } [3, 7, 0, 0, 2, 9, 8, 65, 5, 0] = .fast := by decide
example : sB.pkts = [pPush] ∧ sB.readBuf.abs = [5, 0] ∧ sB.stopped = none := by decide
example : sB.unread .v1 = [65, 5, 0] := by decide
example : pathOf sB [0, 1, 2, 0, 3, 0, 0, 1, 1] = .slow := by decide
example : (reading .v1 gz0 0 (Ring.new 8) [[3, 7, 0, 0, 2, 9, 8, 65, 5, 0], [0, 1, 2, 0, 3, 0, 0, 1, 1]]).obs =
    ([pPush, pReq], none) := by decide

/-- (c) a read that ends inside the body: the COMPLETE header is parked on the fast path, `09` is the
left-over; an empty read is skipped; the slow path then finishes the frame, the left-over ring is
empty again and the following read is decoded in place (fast) -/
private def sC := reading .v1 gz0 0 (Ring.new 8) [[3, 7, 0, 0, 2, 9]]
example : sC.readBuf.abs = [9] ∧ sC.unread .v1 = [3, 7, 0, 0, 2, 9] := by decide
example : sC.pend.map (fun h => (h.isUnpacked, h.bodyLength)) = some (true, 2) := by decide
example : pathOf sC [] = .skip ∧ pathOf sC [8] = .slow := by decide
example : pathOf (reading .v1 gz0 0 (Ring.new 8) [[3, 7, 0, 0, 2, 9], [], [8]]) [65] = .fast := by decide
example : (reading .v1 gz0 0 (Ring.new 8)
    [[3, 7, 0, 0, 2, 9], [], [8], [65, 5, 0, 0, 1, 2, 0, 3, 0, 0, 1, 1]]).obs = ([pPush, pReq], none) := by decide

/-- (d) an error closes the connection: type 0 is invalid; later reads are ignored -/
example : (reading .v1 gz0 0 (Ring.new 8) [[3, 7, 0, 0, 2, 9, 8, 0, 1], [3, 7, 0, 0, 2, 9, 8]]).obs =
    ([pPush], some (.err "invalid packet type")) := by decide
example : pathOf (reading .v1 gz0 0 (Ring.new 8) [[3, 7, 0, 0, 2, 9, 8, 0, 1]]) [3] = .returned := by decide

/-- the general theorem on this stream: every segmentation, every buffer size -/
example (cap : Nat) (chunks : List Bytes)
    (hc : chunks.flatten = [3, 7, 0, 0, 2, 9, 8, 65, 5, 0, 0, 1, 2, 0, 3, 0, 0, 1, 1]) :
    (reading .v1 gz0 0 (Ring.new cap) chunks).obs = ([pPush, pReq], none) := by
  have h : Forall₂ (Denotes .v1 gz0 0) [fPush, fReq] [pPush, pReq] :=
    .cons ⟨_, _, fPush_valid, by decide⟩ (.cons ⟨_, _, fReq_valid, by decide⟩ .nil)
  exact tcp_reader_delivers_denoted .v1 gz0 0 _ _ h cap chunks (by rw [hc]; decide)

end TcpReader

/-! ### generated translation of the streaming header decoder (T2, function level)

`Gen.Fn.v1_Header_Unpack` and `Gen.Fn.v2_Header_Unpack` are rewritten from go/v1/header.go and go/v2/v2_header.go by every run:
the `buffer.Length()` guards, the `IsUnpacked` / `BeginUnpack` resumption flags, every `PeekUintN` / `Retrieve(n)` pair in the order of
the source, the `Peek(3)` into two slices and the four-way `switch len(f)` with its index expressions (`panic` where Go would panic),
over the ring-buffer model of OAP/Model/Ring.lean. Layers 2 and 3 above are about the hand-written `Header.unpackRing`
(inside `unpackRing`); this says it is the same function. -/

/-- `func (h *Header) Unpack(ctx, buffer *ringbuffer.RingBuffer) (done bool, err error)` of v1 and v2 as translated, for EVERY header
state (fresh, byte 0 already parsed, already done — whatever the fields hold) and EVERY ring (any capacity, offsets, wrap position; no
well-formedness needed): the same header fields afterwards (`BeginUnpack`, `IsUnpacked` included), the same ring afterwards, the same
`done`, the same error — returned together with the state the call leaves behind — and a panic exactly where the model panics
(`GenFuncs.hout` puts the model's outcome record into the shape of the generated result) -/
theorem header_unpack_is_generated (h : Header) (rb : Ring) :
    (Gen.Fn.v1_Header_Unpack (GenFuncs.v1G h) rb).map (fun p => (GenFuncs.v1B h.metadataLength p.1, p.2))
      = GenFuncs.hout (Header.unpackRing .v1 h rb) ∧
    (Gen.Fn.v2_Header_Unpack (GenFuncs.v2G h) rb).map (fun p => (GenFuncs.v2M p.1, p.2))
      = GenFuncs.hout (Header.unpackRing .v2 h rb) :=
  ⟨GenFuncs.v1_header_unpack_gen h rb, GenFuncs.v2_header_unpack_gen h rb⟩

/-- the same read from the generated side: every value of the generated structs is covered -/
theorem header_unpack_is_generated' (g1 : Gen.Fn.V1Header) (g2 : Gen.Fn.V2Header) (rb : Ring) :
    (Gen.Fn.v1_Header_Unpack g1 rb).map (fun p => (GenFuncs.v1M p.1, p.2)) = GenFuncs.hout (Header.unpackRing .v1 (GenFuncs.v1M g1) rb) ∧
    (Gen.Fn.v2_Header_Unpack g2 rb).map (fun p => (GenFuncs.v2M p.1, p.2)) = GenFuncs.hout (Header.unpackRing .v2 (GenFuncs.v2M g2) rb) :=
  ⟨GenFuncs.v1_header_unpack_gen' g1 rb, GenFuncs.v2_header_unpack_gen' g2 rb⟩

/-- non-vacuity: the translated v1 decoder on a ring whose push header wraps around the end of the buffer -/
example :
    (match Gen.Fn.v1_Header_Unpack {} { buf := [0x01, 0x02, 0x03, 0, 0, 0, 0x03, 0x07], size := 8, r := 6, w := 3, isEmpty := false } with
     | .ok (g, rb', done, err) =>
       g.type == 3 && g.cmdCode == 7 && g.bodyLength == 0x010203 && g.beginUnpack && g.isUnpacked && rb'.isEmpty && done && err.isNone
     | _ => false) = true := GenFuncs.v1_unpack_wrapped_example

/-- both streaming header decoders and both protocol-level streaming decoders were inside the translatable subset in this run -/
theorem functions_translated :
    "v1.Header.Unpack" ∈ Gen.Fn.translated ∧ "v2.Header.Unpack" ∈ Gen.Fn.translated ∧
    "v1.protocolV1.Unpack" ∈ Gen.Fn.translated ∧ "v2.protocolV2.Unpack" ∈ Gen.Fn.translated := by decide

/-! ### the protocol-level streaming decoder is generated, too

`func (p *protocolV1) Unpack(ctx, buf) (packet, done, err)` (go/v1/v1.go) is translated on every run (`Gen.Fn.v1_protocolV1_Unpack`): the header
slot of the connection context is the threaded variable `pend : Option V1Header`, `header.Unpack(ctx, buf)` is the call of the translated
header decoder, `buf.Read` is the ring model's `Ring.read`, the deferred conditional release runs at every return. -/

/-- the translated `(*protocolV1).Unpack` is `Frame.unpackRing .v1` — the function layers 2 and 3 above are about — for every oracle, codec,
parked header (`none`: nothing parked) and every well-formed ring (`Ring.WF`, kept by every ring operation): the same parked header and the
same ring afterwards, the same packet / `done` / error, a panic exactly where the model panics (`GenFuncs.sout` puts the model's outcome
record into the shape of the generated result; `GenFuncs.gout` converts the generated structs and drops the packet next to an error) -/
theorem protocol_unpack_is_generated (gz : GzOracle) (codec : UInt8) (pend : Option Gen.Fn.V1Header) (rb : Ring) (wf : rb.WF) :
    (Gen.Fn.v1_protocolV1_Unpack gz codec pend rb).map GenFuncs.gout
      = GenFuncs.sout (unpackRing .v1 gz codec (pend.map GenFuncs.v1M) rb) :=
  GenFuncs.v1_protocol_unpack_gen gz codec pend rb wf

/-- the same read from the model's side: every model header without a metadata length (v1 has none) parked -/
theorem protocol_unpack_is_generated' (gz : GzOracle) (codec : UInt8) (pend : Option Header) (rb : Ring) (wf : rb.WF)
    (hm : ∀ h, pend = some h → h.metadataLength = 0) :
    (Gen.Fn.v1_protocolV1_Unpack gz codec (pend.map GenFuncs.v1G) rb).map GenFuncs.gout = GenFuncs.sout (unpackRing .v1 gz codec pend rb) :=
  GenFuncs.v1_protocol_unpack_gen' gz codec pend rb wf hm

/-- `func (p *protocolV2) Unpack` as translated is `Frame.unpackRing .v2` followed by the key lower-casing of `Metadata.UnmarshalValues`
(`lower` = strings.ToLower; the hand-written streaming model keeps the raw pairs, exactly as in the one-shot case C01.unpackBytes_is_generated):
every oracle, codec, parked header, every well-formed ring -/
theorem protocol_unpack_is_generated_v2 (gz : GzOracle) (lower : Bytes → Bytes) (codec : UInt8) (pend : Option Gen.Fn.V2Header) (rb : Ring)
    (wf : rb.WF) :
    (Gen.Fn.v2_protocolV2_Unpack gz lower codec pend rb).map GenFuncs.gout2
      = GenFuncs.soutL lower (unpackRing .v2 gz codec (pend.map GenFuncs.v2M) rb) :=
  GenFuncs.v2_protocol_unpack_gen gz lower codec pend rb wf

/-- … and with keys that are lower case already (`lower` the identity) exactly the model -/
theorem protocol_unpack_is_generated_v2_id (gz : GzOracle) (codec : UInt8) (pend : Option Gen.Fn.V2Header) (rb : Ring) (wf : rb.WF) :
    (Gen.Fn.v2_protocolV2_Unpack gz id codec pend rb).map GenFuncs.gout2
      = GenFuncs.sout (unpackRing .v2 gz codec (pend.map GenFuncs.v2M) rb) :=
  GenFuncs.v2_protocol_unpack_gen_id gz codec pend rb wf

/-- non-vacuity: a frame delivered in two pieces — the first call parks the unpacked header and asks for more, the second call, given the
parked header, returns the packet and releases it; an unknown type returns the error with the header released -/
example :
    (match Gen.Fn.v1_protocolV1_Unpack ⟨fun _ => .err "none", fun _ => none⟩ 0 none
        { buf := [0x03, 0x07, 0, 0, 2, 0, 0, 0], size := 8, r := 0, w := 5, isEmpty := false } with
     | .ok (some g, rb', none, false, none) =>
       g.isUnpacked && g.bodyLength == 2 && rb'.isEmpty &&
       (match Gen.Fn.v1_protocolV1_Unpack ⟨fun _ => .err "none", fun _ => none⟩ 0 (some g)
          { buf := [0x03, 0x07, 0, 0, 2, 0xAA, 0xBB, 0], size := 8, r := 5, w := 7, isEmpty := false } with
        | .ok (none, rb'', some p, true, none) => p.body == [0xAA, 0xBB] && p.metadata.cmdCode == 7 && rb''.isEmpty
        | _ => false)
     | _ => false) = true := GenFuncs.v1_unpack_resume_example

end OAP.C03
