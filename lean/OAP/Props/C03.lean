/-
C03 — Stream reassembly is independent of segmentation and buffer geometry.
Property theorems only. Layer 1: the ring buffer (model after the dependency's source) refines a
byte queue for EVERY geometry — capacity, read/write offsets, wrap position — so a decoder that
only uses these operations cannot depend on the geometry.
-/
import OAP.Model.Ring
import OAP.Model.Stream
namespace OAP.C03
open OAP

/-- `Length()` is the number of queued bytes -/
theorem ring_length (rb : Ring) (h : rb.WF) : rb.length = rb.abs.length := Ring.length_abs rb h

/-- `Peek(n)`: the two slices, concatenated, are the first `n` queued bytes — wherever the wrap falls -/
theorem ring_peek (rb : Ring) (h : rb.WF) (n : Nat) : (rb.peek n).1 ++ (rb.peek n).2 = rb.abs.take n :=
  Ring.peek_abs rb h n

/-- `Retrieve(n)` drops `n` bytes from the front and keeps the representation invariant -/
theorem ring_retrieve (rb : Ring) (h : rb.WF) (n : Nat) :
    (rb.retrieve n).WF ∧ (rb.retrieve n).abs = rb.abs.drop n := Ring.retrieve_spec rb h n

/-- `Write(p)` appends `p` — including the split copy across the end of the buffer and the growth path -/
theorem ring_write (rb : Ring) (h : rb.WF) (p : Bytes) :
    (rb.write p).WF ∧ (rb.write p).abs = rb.abs ++ p := Ring.write_spec rb h p

/-- the constructors establish the invariant -/
theorem ring_new (n : Nat) : (Ring.new n).WF ∧ (Ring.new n).abs = [] := by
  refine ⟨?_, by simp [Ring.new, Ring.abs]⟩
  constructor <;> simp [Ring.new]

theorem ring_newWithData (d : Bytes) : (Ring.newWithData d).WF ∧ (Ring.newWithData d).abs = d := by
  refine ⟨?_, by simp [Ring.newWithData, Ring.abs]⟩
  constructor <;> simp [Ring.newWithData] <;> omega

/-! non-vacuity: a wrapped ring (r = 3, w = 1 in a buffer of 4) -/
example : (⟨[5, 0, 0, 4], 4, 3, 1, false⟩ : Ring).abs = [4, 5] := by decide
example : (⟨[5, 0, 0, 4], 4, 3, 1, false⟩ : Ring).peek 2 = ([4], [5]) := by decide

end OAP.C03
