/-
C04 (streaming part) — the streaming decoder never panics and always makes progress.
Property theorems only (helpers: OAP/Proofs/Ring.lean, OAP/Proofs/Stream.lean).
-/
import OAP.Model.Stream
import OAP.Proofs.Stream
namespace OAP.C04
open OAP OAP.Frame

/-- NO PANIC: `protocolVx.Unpack` over the ring never panics — for every well-formed ring (any
capacity, offsets, wrap position), any bytes in it, and ANY parked header (reachable or not) -/
theorem unpackRing_no_panic (v : Ver) (gz : GzOracle) (codec : UInt8) (pend : Option Header) (rb : Ring)
    (wf : rb.WF) (w : String) : (unpackRing v gz codec pend rb).res ≠ .panic w := by
  rw [(unpackRing_eq_abs v gz codec pend rb wf).1]
  exact unpackAbs_no_panic v gz codec pend rb.abs w

/-- and it leaves a well-formed ring behind, so the next call is covered again -/
theorem unpackRing_wf (v : Ver) (gz : GzOracle) (codec : UInt8) (pend : Option Header) (rb : Ring)
    (wf : rb.WF) : (unpackRing v gz codec pend rb).rb.WF := (unpackRing_eq_abs v gz codec pend rb wf).2.2.1

/-- the whole read loop over the ring never panics either (in particular the termination guard of
`runRing` never fires) -/
theorem drainRing_no_panic (v : Ver) (gz : GzOracle) (codec : UInt8) (pend : Option Header) (rb : Ring)
    (wf : rb.WF) (w : String) : (drainRing v gz codec pend rb).2.1 ≠ .panic w := by
  obtain ⟨_, a2, _⟩ := drainRing_abs v gz codec pend rb wf
  rw [a2]
  unfold drain
  split
  · rename_i k p r _
    have hr : ∀ (n : Nat) (u : Bytes), u.length = n → (run v gz codec u).2.1 ≠ .panic w := by
      intro n
      induction n using Nat.strongRecOn with
      | _ n ih =>
        intro u hn
        rw [run_eq_drain, drain]
        split
        · rename_i k1 p1 r1 hu
          have := Frame.unpack_pkt_lt v gz codec u k1 p1 r1 hu
          have := pushLen_pos v
          exact ih r1.length (by omega) r1 rfl
        · rename_i e hne
          exact unpackAbs_no_panic v gz codec none u w
    exact hr _ r rfl
  · exact unpackAbs_no_panic v gz codec pend rb.abs w

/-- PROGRESS (ring): from any state the decoder can be in (`PendOK`), a call that reports a packet
takes at least one byte off the ring -/
theorem progress (v : Ver) (gz : GzOracle) (codec : UInt8) (pend : Option Header) (rb : Ring)
    (wf : rb.WF) (hp : PendOK v pend) (p : Packet)
    (h : (unpackRing v gz codec pend rb).res = .pkt p) :
    (unpackRing v gz codec pend rb).rb.length < rb.length ∧ (unpackRing v gz codec pend rb).pend = none := by
  obtain ⟨e1, e2, e3, e4⟩ := unpackRing_eq_abs v gz codec pend rb wf
  obtain ⟨u, hu⟩ := hp
  rw [e1] at h
  have := unpack_pkt_progress v gz codec pend u rb.abs p _ _ hu (Prod.ext h (Prod.ext rfl rfl))
  rw [Ring.length_abs _ e3, Ring.length_abs _ wf, e4, e2]
  exact ⟨this.1, this.2.2⟩

/-- PROGRESS (stream): in terms of the undelivered stream `u ++ rb.abs` (the bytes `u` of the current
frame already taken into the parked header, then the ring), every reported packet shrinks it by at
least a whole header: 5 bytes (v1), 7 bytes (v2) -/
theorem progress_unread (v : Ver) (gz : GzOracle) (codec : UInt8) (pend : Option Header) (u : Bytes)
    (rb : Ring) (wf : rb.WF) (hp : Parked v pend u) (p : Packet)
    (h : (unpackRing v gz codec pend rb).res = .pkt p) :
    (unpackRing v gz codec pend rb).rb.abs.length + pushLen v ≤ (u ++ rb.abs).length := by
  obtain ⟨e1, e2, e3, e4⟩ := unpackRing_eq_abs v gz codec pend rb wf
  rw [e1] at h
  have := unpack_pkt_progress v gz codec pend u rb.abs p _ _ hp (Prod.ext h (Prod.ext rfl rfl))
  rw [e4]; exact this.2.1

/-- PROGRESS (fresh context): a packet reported with no header parked consumes at least 5 (v1) /
7 (v2) bytes of the ring -/
theorem progress_fresh (v : Ver) (gz : GzOracle) (codec : UInt8) (rb : Ring) (wf : rb.WF) (p : Packet)
    (h : (unpackRing v gz codec none rb).res = .pkt p) :
    (unpackRing v gz codec none rb).rb.length + (match v with | .v1 => 5 | .v2 => 7) ≤ rb.length := by
  have := progress_unread v gz codec none [] rb wf .fresh p h
  rw [Ring.length_abs _ (unpackRing_wf v gz codec none rb wf), Ring.length_abs _ wf]
  cases v <;> simpa [pushLen, Gen.v1_PushHeaderLen, Gen.v2_PushHeaderLen] using this

/-- PROGRESS in terms of `unread` (the parked header re-encoded ++ the ring's bytes): a call that
reports a packet leaves an undelivered stream shorter by at least a whole header -/
theorem progress_unread_fn (v : Ver) (gz : GzOracle) (codec : UInt8) (pend : Option Header) (rb : Ring)
    (wf : rb.WF) (hp : PendOK v pend) (p : Packet)
    (h : (unpackRing v gz codec pend rb).res = .pkt p) :
    (unread v (unpackRing v gz codec pend rb).pend (unpackRing v gz codec pend rb).rb.abs).length + pushLen v
      ≤ (unread v pend rb.abs).length := by
  obtain ⟨e1, e2, e3, e4⟩ := unpackRing_eq_abs v gz codec pend rb wf
  rw [e1] at h
  rw [e2, e4]
  exact unpack_pkt_unread v gz codec pend rb.abs hp p h

/-- SOUNDNESS w.r.t. the one-shot decoder: a packet the streaming decoder completes from a fresh
context is EXACTLY (every field) what `UnpackBytes` returns on exactly the bytes consumed from the
ring. (On a longer input the one-shot decoder would return all trailing bytes as the signature;
the streaming decoder reads exactly 16 — on the frame's own bytes they coincide.) -/
theorem stream_matches_oneshot (v : Ver) (gz : GzOracle) (codec : UInt8) (rb : Ring) (wf : rb.WF)
    (p : Packet) (h : (unpackRing v gz codec none rb).res = .pkt p) :
    ∃ n, n ≤ rb.abs.length ∧ (unpackRing v gz codec none rb).rb.abs = rb.abs.drop n ∧
      unpackBytes v gz codec (rb.abs.take n) = .ok p := by
  obtain ⟨e1, e2, e3, e4⟩ := unpackRing_eq_abs v gz codec none rb wf
  rw [e1] at h
  rw [e4]
  exact stream_matches_oneshot_abs v gz codec rb.abs p _ _ (Prod.ext h (Prod.ext rfl rfl))

/-- the same for errors raised after the header: once the whole frame is queued, the streaming body
phase and the one-shot decoder return the same packet or the same error -/
theorem body_matches_oneshot (v : Ver) (gz : GzOracle) (codec : UInt8) (bs : Bytes) (h : Header) (data : Bytes)
    (hh : Header.unpackBytes v bs = .ok (coreHdr h, data)) (hlen : data.length = needLen v h) :
    unpackBytes v gz codec bs = sresToRes (bodyFull v gz codec h data).1 :=
  unpackBytes_body v gz codec bs h data hh hlen

/-! non-vacuity and sharpness. `PendOK` is needed for `progress`: a context holding a complete header
of an empty frame (IsUnpacked, body length 0, no trailer) makes `Unpack` report a packet from an
empty ring without consuming anything. The decoder itself never parks such a header: a call that
completes a header goes on to the body in the same call and delivers an empty frame at once
(`Parked.header` carries `0 < needLen`, and `pend_ok_preserved` proves the invariant). -/
example (gz : GzOracle) :
    (unpackRing .v1 gz 0 (some { isUnpacked := true, beginUnpack := true, type := 3 }) (Ring.new 4)).res
      = .pkt { type := .push } ∧
    (unpackRing .v1 gz 0 (some { isUnpacked := true, beginUnpack := true, type := 3 }) (Ring.new 4)).rb.length = 0 :=
  ⟨rfl, rfl⟩

/-- the hypotheses of `progress` are satisfiable: a parked byte-0 header, the rest of a v1 push frame
wrapped in the ring -/
example : PendOK .v1 (some (parse0 .v1 {} 3)) := ⟨[3], .byte0 3 (by decide)⟩
private def gz0 : GzOracle := ⟨fun _ => .err "none", fun _ => none⟩
example : (unpackRing .v1 gz0 0 (some (parse0 .v1 {} 3)) ⟨[0, 2, 9, 8, 0, 0, 7, 0], 8, 6, 4, false⟩).res =
    .pkt { type := .push, cmd := 7, body := [9, 8] } := by decide
/-- the one-shot decoder on the same frame -/
example : unpackBytes .v1 gz0 0 [3, 7, 0, 0, 2, 9, 8] = .ok { type := .push, cmd := 7, body := [9, 8] } := by
  decide
/-- `unread` of that parked state is the frame again -/
example : unread .v1 (some (parse0 .v1 {} 3)) [7, 0, 0, 2, 9, 8] = [3, 7, 0, 0, 2, 9, 8] := by decide

end OAP.C04
