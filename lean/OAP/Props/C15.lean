/-
C15 — Keepalive detects dead peers, and only dead peers. Property theorems only (view Keepalive, timed).
-/
import OAP.Model.Client.Keepalive
namespace OAP.C15
open OAP OAP.Keepalive

/-- with timeout ≥ interval a peer that answers every heartbeat is NEVER recycled by keepalive — whatever recoveries
(resume, re-auth, no auth) happen in between: the bookkeeping is reset by every successful recovery -/
theorem no_false_positive (cfg : Cfg) (hc : cfg.interval ≤ cfg.timeout) (p : Nat) (es : List Ev)
    (h : Healthy cfg p es) (k : K) (hk : k.lastPong = p) : Act.recycle ∉ (runK cfg k es).2 :=
  Keepalive.no_false_positive cfg hc p es h k hk

/-- once a ping is outstanding and no pong arrives, the first tick later than lastPong + timeout recycles the connection -/
theorem detects_dead (cfg : Cfg) (k : K) (t : Nat) (hid : k.lastId ≠ 0) (ht : k.lastPong + cfg.timeout < t) :
    (step cfg k (.tick t)).2 = [.recycle] := Keepalive.detects_dead cfg k t hid ht

/-- every heartbeat carries a fresh id, which is also the heartbeat id of its body -/
theorem ping_fresh (cfg : Cfg) (k : K) (t : Nat) (h : checkFails cfg k t = false) :
    (step cfg k (.tick t)).2 = [.ping k.nextId] ∧ (step cfg k (.tick t)).1.nextId = k.nextId + 1 ∧
    (step cfg k (.tick t)).1.lastId = k.nextId := Keepalive.ping_fresh cfg k t h

end OAP.C15
