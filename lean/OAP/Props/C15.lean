/-
C15 — Keepalive detects dead peers, and only dead peers. Property theorems only (view Keepalive, timed).
-/
import OAP.Model.Client.Keepalive
namespace OAP.C15
open OAP OAP.Keepalive

/-- with timeout ≥ interval a peer that answers every heartbeat is NEVER recycled by keepalive — whatever recoveries
(resume, re-auth, no auth) happen in between: the bookkeeping is reset by every successful recovery -/
theorem no_false_positive (cfg : Cfg) (hc : cfg.interval ≤ cfg.timeout) (p : Nat) (es : List Ev)
    (h : Healthy cfg p es) (k : K) (hk : k.lastPong = p) : Act.recycle ∉ (runK cfg k es).2 :=
  Keepalive.no_false_positive cfg hc p es h k hk

/-- once a ping is outstanding and no pong arrives, the first tick later than lastPong + timeout recycles the connection -/
theorem detects_dead (cfg : Cfg) (k : K) (t : Nat) (hid : k.lastId ≠ 0) (ht : k.lastPong + cfg.timeout < t) :
    (step cfg k (.tick t)).2 = [.recycle] := Keepalive.detects_dead cfg k t hid ht

/-- the rule itself: recycle iff a ping is outstanding and nothing has been heard for more than the timeout — independent of
the peer's latency -/
theorem check_fails_iff (cfg : Cfg) (k : K) (t : Nat) :
    checkFails cfg k t = true ↔ (k.lastId ≠ 0 ∧ k.lastPong + cfg.timeout < t) := Keepalive.check_fails_iff cfg k t

/-- after every recovery the pong clock restarts: no tick within `timeout` of the re-dial recycles the fresh connection,
however late its first pong arrives -/
theorem after_recovery_grace (cfg : Cfg) (k : K) (r t : Nat) (ht : t ≤ r + cfg.timeout) (acts : List Ev)
    (hq : ∀ e ∈ acts, ∃ u, e = .tick u ∧ u ≤ r + cfg.timeout) :
    Act.recycle ∉ (runK cfg (step cfg k (.recovered r)).1 (acts ++ [.tick t])).2 :=
  Keepalive.after_recovery_grace cfg k r t ht acts hq

/-- every heartbeat carries a fresh id, which is also the heartbeat id of its body -/
theorem ping_fresh (cfg : Cfg) (k : K) (t : Nat) (h : checkFails cfg k t = false) :
    (step cfg k (.tick t)).2 = [.ping k.nextId] ∧ (step cfg k (.tick t)).1.nextId = k.nextId + 1 ∧
    (step cfg k (.tick t)).1.lastId = k.nextId := Keepalive.ping_fresh cfg k t h

end OAP.C15
