/-
C15 — Keepalive detects dead peers, and only dead peers. Property theorems only (view Keepalive, timed).
-/
import OAP.Model.Client.Keepalive
import OAP.Model.Client.KeepaliveBounds
import OAP.Gen.Facts
namespace OAP.C15
open OAP OAP.Keepalive

/-- with timeout ≥ interval a peer that answers every heartbeat is NEVER recycled by keepalive — whatever recoveries
(resume, re-auth, no auth) happen in between: the bookkeeping is reset by every successful recovery -/
theorem no_false_positive (cfg : Cfg) (hc : cfg.interval ≤ cfg.timeout) (p : Nat) (es : List Ev)
    (h : Healthy cfg p es) (k : K) (hk : k.lastPong = p) : Act.recycle ∉ (runK cfg k es).2 :=
  Keepalive.no_false_positive cfg hc p es h k hk

/-- once a ping is outstanding and no pong arrives, the first tick later than lastPong + timeout recycles the connection -/
theorem detects_dead (cfg : Cfg) (k : K) (t : Nat) (hid : k.lastId ≠ 0) (ht : k.lastPong + cfg.timeout < t) :
    (step cfg k (.tick t)).2 = [.recycle] := Keepalive.detects_dead cfg k t hid ht

/-- the rule itself: recycle iff a ping is outstanding and nothing has been heard for more than the timeout — independent of
the peer's latency -/
theorem check_fails_iff (cfg : Cfg) (k : K) (t : Nat) :
    checkFails cfg k t = true ↔ (k.lastId ≠ 0 ∧ k.lastPong + cfg.timeout < t) := Keepalive.check_fails_iff cfg k t

/-- after every recovery the pong clock restarts: no tick within `timeout` of the re-dial recycles the fresh connection,
however late its first pong arrives -/
theorem after_recovery_grace (cfg : Cfg) (k : K) (r t : Nat) (ht : t ≤ r + cfg.timeout) (acts : List Ev)
    (hq : ∀ e ∈ acts, ∃ u, e = .tick u ∧ u ≤ r + cfg.timeout) :
    Act.recycle ∉ (runK cfg (step cfg k (.recovered r)).1 (acts ++ [.tick t])).2 :=
  Keepalive.after_recovery_grace cfg k r t ht acts hq

/-- every heartbeat carries a fresh id, which is also the heartbeat id of its body -/
theorem ping_fresh (cfg : Cfg) (k : K) (t : Nat) (h : checkFails cfg k t = false) :
    (step cfg k (.tick t)).2 = [.ping k.nextId] ∧ (step cfg k (.tick t)).1.nextId = k.nextId + 1 ∧
    (step cfg k (.tick t)).1.lastId = k.nextId := Keepalive.ping_fresh cfg k t h


/-- T2 structure facts, regenerated from go/client on every run: the statements of `keepalive` (ticker on the interval; pong clock started; `check`: no ping outstanding → healthy, else elapsed > KeepaliveTimeout → dead; `ping`: skipped while recovering, fresh id, bookkeeping after the write; the loop snapshots the conn under the read lock BEFORE check and hands that snapshot to `reconnecting`), of `handlePing` (callback, echo with the request's id and body through the ordinary write path) and `handlePong` (callback, pong clock), the keepalive option setters and the defaults constructor (no rewriting of the configured values), and the operation order of `keepalive` -/
/- (instrumentation statements — `verifhook.Point(…)`, empty without the build tag — are stripped by the extractor before the statement
lists are emitted: a new yield point does not change what is pinned here) -/
theorem keepalive_source :
    Gen.stmts_client_keepalive = ["t := time.NewTicker(c.dialOptions.Keepalive)", "now := time.Now()", "c.stateMu.Lock()", "c.lastPongAt = now", "c.stateMu.Unlock()", "check := func() error { c.stateMu.Lock() id, at := c.lastKeepaliveId, c.lastPongAt c.stateMu.Unlock() if id == 0 { return nil } if d := time.Since(at); d > c.dialOptions.KeepaliveTimeout { return errors.Errorf(\"keepalive timeout %s\", d.String()) } return nil }", "ping := func() error { c.RLock() defer c.RUnlock() if c.doReconnectting { return nil } if c.conn == nil || c.conn.Context() == nil { return nil } id := c.conn.Context().NextReqId() hid := new(int32) *hid = int32(id) p, err := protocol.NewPacket(c.conn.Context(), protocol.RequestPacket, uint32(control.Command_CMD_HEARTBEAT), &control.Heartbeat{Timestamp: time.Now().UnixNano() / int64(time.Millisecond), HeartbeatId: hid}, protocol.WithRequestId(id)) if err != nil { return err } if err = c.write(&p); err != nil { return err } c.stateMu.Lock() c.lastKeepaliveId = id c.stateMu.Unlock() return nil }", "for { select { case <-c.closeCh: return case <-t.C: c.RLock() conn := c.conn c.RUnlock() if err := check(); err != nil { c.Logger.Errorf(\"keepalive error: %v\", err) c.reconnecting(conn) continue } if err := ping(); err != nil { c.Logger.Errorf(\"keepalive failed to ping, err: %v\", err) c.reconnecting(conn) continue } } }"] ∧
    Gen.stmts_client_handlePing = ["if c.onPing != nil { c.onPing(packet) }", "if !conn.NeedHandleControl() { return }", "res, _ := protocol.NewResponse(conn.Context(), uint32(control.Command_CMD_HEARTBEAT), protocol.StatusSuccess, packet.Body, protocol.WithRequestId(packet.Metadata.RequestId))", "if err := conn.Write(&res, protocol.GzipSize(c.dialOptions.MinGzipSize)); err != nil { c.Logger.Errorf(\"failed to send heartbeat ack, err: %v\", err) }"] ∧
    Gen.stmts_client_handlePong = ["if c.onPong != nil { c.onPong(packet) }", "c.stateMu.Lock()", "c.lastPongAt = time.Now()", "c.stateMu.Unlock()"] ∧
    Gen.stmts_opt_newDialOptions = ["o := &DialOptions{ Timeout: defaultDialTimeout, AuthTimeout: defaultAuthTimeout, KeepaliveTimeout: defaultKeepaliveTimeout, Keepalive: defaultKeepalive, ReadBufferSize: defaultReadBufferSize, ReadQueueSize: defaultReadQueueSize, WriteQueueSize: defaultWriteQueueSize, MinGzipSize: defaultMinGzipSize, }", "for _, opt := range opts { opt(o) }", "return o"] ∧
    Gen.stmts_opt_Keepalive = ["return func(o *DialOptions) { if d > 0 { o.Keepalive = d } }"] ∧
    Gen.stmts_opt_KeepaliveTimeout = ["return func(o *DialOptions) { if d > 0 { o.KeepaliveTimeout = d } }"] ∧
    Gen.seq_client_keepalive = ["c.stateMu.Lock", "c.stateMu.Unlock", "c.stateMu.Lock", "c.stateMu.Unlock", "c.RLock", "defer:c.RUnlock", "c.write", "c.stateMu.Lock", "c.stateMu.Unlock", "select", "recv:c.closeCh", "recv:t.C", "c.RLock", "c.RUnlock", "c.reconnecting", "c.reconnecting"] :=
  ⟨rfl, rfl, rfl, rfl, rfl, rfl, rfl⟩

end OAP.C15

/-! Quantitative part (view KeepaliveBounds): detection latency and absence of false positives under scheduling slack -/
namespace OAP.C15
open OAP OAP.Keepalive

/-- "detected … within keepalive interval + keepalive timeout plus scheduling slack": `J` bounds the lateness of ticks
(first tick at most `interval + J` after the last pong, consecutive ticks at most `interval + J` apart: `Spaced`). Once
the peer stops answering — the events are ticks only — and a ping is outstanding or sent in time by the first tick, the
FIRST `.recycle` of the run is produced by a tick at a time in (lastPong + timeout, lastPong + timeout + interval + J],
and no tick up to lastPong + timeout recycles. (`hout` holds by itself when `interval + J ≤ timeout`:
`Keepalive.detection_bound_of_slack`; without it a fresh connection needs up to max(timeout, interval + J) + interval + J:
`Keepalive.detection_bound_fresh`, `Keepalive.fresh_late_first_tick_exceeds_bound`.) -/
theorem detection_bound (cfg : Cfg) (J : Nat) (k : K) (ticks : List Nat)
    (hgen : k.nextId ≠ 0)
    (hout : k.lastId ≠ 0 ∨ ∃ t ts, ticks = t :: ts ∧ t ≤ k.lastPong + cfg.timeout)
    (hsp : Spaced (cfg.interval + J) k.lastPong ticks)
    (hlong : ∃ t ∈ ticks, k.lastPong + cfg.timeout < t) :
    Act.recycle ∈ (runK cfg k (ticks.map .tick)).2 ∧
    (∃ (i t : Nat), ticks[i]? = some t ∧ (runK cfg k (ticks.map .tick)).2[i]? = some Act.recycle ∧
      (∀ j : Nat, j < i → (runK cfg k (ticks.map .tick)).2[j]? ≠ some Act.recycle) ∧
      k.lastPong + cfg.timeout < t ∧ t ≤ k.lastPong + cfg.timeout + cfg.interval + J) ∧
    (∀ (i t : Nat), ticks[i]? = some t → t ≤ k.lastPong + cfg.timeout →
      (runK cfg k (ticks.map .tick)).2[i]? ≠ some Act.recycle) :=
  Keepalive.detection_bound cfg J k ticks hgen hout hsp hlong

/-- "a peer that answers every heartbeat is never declared dead" — under late ticks (slack `J`) and slow pongs (at no
tick a ping older than `L` is unanswered; pongs may arrive after the next tick; `L = 0` for a peer that always answers
before the next tick) this needs `interval + J + L ≤ timeout`, and then holds for every such event list, whatever
recoveries happen in between. `Keepalive.healthy_healthyJ`: the hypothesis of `no_false_positive` is the case
J = L = 0; `Keepalive.jitter_condition_tight`: the condition cannot be weakened. -/
theorem no_false_positive_jitter (cfg : Cfg) (J L : Nat) (hc : cfg.interval + J + L ≤ cfg.timeout)
    (k : K) (es : List Ev) (h : HealthyJ cfg J L k.lastPong none es) : Act.recycle ∉ (runK cfg k es).2 :=
  Keepalive.no_false_positive_jitter cfg J L hc k es h

/-- the premise "timeout ≥ interval" of the property is NOT sufficient once ticks can be late: timeout = interval =
200, the peer answers within 5 ms, the second tick is 10 ms late — the healthy peer is recycled. The property holds
with the premise `interval + slack ≤ timeout` (`no_false_positive_jitter`). -/
theorem timeout_eq_interval_needs_slack :
    HealthyJ ⟨200, 200⟩ 10 0 0 none [.tick 200, .pong 205, .tick 410] ∧
    (runK ⟨200, 200⟩ ⟨0, 0, 1⟩ [.tick 200, .pong 205, .tick 410]).2 = [.ping 1, .recycle] :=
  Keepalive.timeout_eq_interval_needs_slack

end OAP.C15
