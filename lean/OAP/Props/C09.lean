/-
C09 — Metadata block codec: canonical, bounded, all-or-nothing pairs.
Property theorems only (helpers in OAP/Proofs/Metadata.lean and OAP/Model/Metadata.lean).
`lower` (strings.ToLower) is arbitrary in every statement.
-/
import OAP.Proofs.Metadata
import OAP.Proofs.GenFuncsMd
namespace OAP.C09
open OAP OAP.Metadata

/-- a string is refused as too long exactly above 32767 bytes … -/
theorem marshalString_none_iff (s : Bytes) : marshalString s = none ↔ 32767 < s.length := by
  constructor
  · intro h
    by_cases hl : s.length ≤ 32767
    · rw [marshalString_eq s hl] at h; cases h
    · omega
  · exact marshalString_none s

/-- … and otherwise gets the canonical prefix: one byte up to 127, two bytes with the top bit set above -/
theorem marshalString_canonical (s : Bytes) (h : s.length ≤ 32767) :
    marshalString s = some (encLen s.length ++ s) ∧
    (encLen s.length).length = (if s.length ≤ 127 then 1 else 2) := by
  refine ⟨marshalString_eq s h, ?_⟩
  unfold encLen; split <;> simp

/-- the length decoder inverts the length encoder for every representable length -/
theorem strlen_roundtrip (s : Bytes) (h : s.length ≤ 32767) :
    ∃ out, marshalString s = some out ∧
      unmarshalStringLength out = .ok (s.length, if s.length ≤ 127 then len7 else len15) := by
  refine ⟨enc s, marshalString_eq s h, ?_⟩
  unfold enc encLen
  by_cases h7 : s.length ≤ 127
  · have e : (UInt8.ofNat s.length).toNat = s.length := ofNat_toNat_lt _ (by omega)
    have := usl_lo (UInt8.ofNat s.length) s (by omega)
    simp only [h7, ↓reduceIte, List.cons_append, List.nil_append, this, e]
  · have e0 : (UInt8.ofNat (s.length / 256 + 128)).toNat = s.length / 256 + 128 := ofNat_toNat_lt _ (by omega)
    have e1 : (UInt8.ofNat (s.length % 256)).toNat = s.length % 256 := ofNat_toNat_lt _ (by omega)
    have := usl_hi (UInt8.ofNat (s.length / 256 + 128)) (UInt8.ofNat (s.length % 256)) s (by omega)
    have el : (s.length / 256 + 128 - 128) * 256 + s.length % 256 = s.length := by omega
    simp only [h7, ↓reduceIte, List.cons_append, List.nil_append, this, e0, e1, el]

/-- a two-byte prefix whose value fits one byte is rejected (non-canonical) -/
theorem strlen_rejects_noncanonical (b0 b1 : UInt8) (rest : Bytes) (hb : 128 ≤ b0.toNat)
    (h : (b0.toNat - 128) * 256 + b1.toNat ≤ 127) :
    ∃ e, unmarshalStringLength (b0 :: b1 :: rest) = .err e := by
  rw [usl_hi b0 b1 rest hb]; simp [h]

/-- parser soundness, for ALL byte strings: whatever the decoder accepts is exactly the canonical
encoding of the pairs it returns — so truncated blocks, non-canonical prefixes and dangling keys are rejected -/
theorem decode_canonical (data : Bytes) (ps : List Pair) (h : rawPairs data = .ok ps) :
    data = encPairs ps ∧ ∀ kv ∈ ps, kv.1.length ≤ 32767 ∧ kv.2.length ≤ 32767 := by
  unfold rawPairs at h
  split at h
  · rename_i h0
    simp at h; subst h
    have : data = [] := List.eq_nil_of_length_eq_zero h0
    simp [this, encPairs]
  · split at h
    · simp at h
    · exact pairsLoop_sound data.length data ps (Nat.le_refl _) h

/-- parser completeness: every canonical block of representable strings is accepted and yields its pairs -/
theorem decode_complete (ps : List Pair) (h : ∀ kv ∈ ps, kv.1.length ≤ 32767 ∧ kv.2.length ≤ 32767) :
    rawPairs (encPairs ps) = .ok ps := by
  unfold rawPairs
  cases ps with
  | nil => simp [encPairs]
  | cons kv rest =>
    have l1 := encPair_length_pos kv
    have h2 : 2 ≤ (encPair kv).length := by
      unfold encPair enc encLen; split <;> split <;> simp <;> omega
    have : (encPairs (kv :: rest)).length = (encPair kv).length + (encPairs rest).length := by
      simp [encPairs]
    have hn0 : ¬ (encPairs (kv :: rest)).length = 0 := by omega
    have hn2 : ¬ (encPairs (kv :: rest)).length < 2 := by omega
    simp only [hn0, hn2, ↓reduceIte]
    exact pairsLoop_encPairs _ h

/-- the decoder never panics and always terminates (it is a total function by well-founded
recursion on the remaining length; every string consumes at least one byte) -/
theorem decode_total (data : Bytes) : (rawPairs data).isPanic = false := by
  unfold rawPairs
  split
  · rfl
  · split
    · rfl
    · exact pairsLoop_total data.length data (Nat.le_refl _)

theorem unmarshal_total (lower : Bytes → Bytes) (data : Bytes) : (unmarshalValues lower data).isPanic = false := by
  have := decode_total data
  unfold unmarshalValues
  cases h : rawPairs data <;> simp_all [Res.map, Res.isPanic]

/-- the block never exceeds the budget -/
theorem budget (o : List Pair) (max : Int) (h : 0 ≤ max) : ((marshalValues o max).length : Int) ≤ max := by
  unfold marshalValues
  split
  · simpa using h
  · exact marshalLoop_budget max o [] (by simpa using h)

/-- only whole pairs: the block is the canonical encoding of a prefix (in visiting order) of the
valid pairs — non-empty key, both strings ≤ 32767 — and it stops only when the next valid pair no
longer fits. Entries with an empty key or an over-long string are omitted entirely, nothing is truncated. -/
theorem whole_pairs (o : List Pair) (max : Int) :
    ∃ inc, inc <+: o.filter validPair ∧ marshalValues o max = encPairs inc ∧
      (inc = o.filter validPair ∨
        ∃ nxt tl, o.filter validPair = inc ++ nxt :: tl ∧
          ((encPair nxt).length + (encPairs inc).length : Int) > max) := by
  unfold marshalValues
  split
  · rename_i h; subst h; exact ⟨[], by simp, by simp [encPairs], Or.inl (by simp)⟩
  · obtain ⟨inc, h1, h2, h3⟩ := marshalLoop_spec max o []
    exact ⟨inc, h1, by simpa using h2, by simpa using h3⟩

/-- when every entry is valid and the whole map fits, everything is encoded -/
theorem marshal_all_fit (o : List Pair) (max : Int) (hv : ∀ kv ∈ o, validPair kv = true)
    (hfit : ((encPairs o).length : Int) ≤ max) : marshalValues o max = encPairs o := by
  obtain ⟨inc, h1, h2, h3⟩ := whole_pairs o max
  have hf : o.filter validPair = o := List.filter_eq_self.mpr hv
  rw [hf] at h1 h3
  rcases h3 with h3 | ⟨nxt, tl, h3, h4⟩
  · rw [h2, h3]
  · exfalso
    have : (encPairs o).length = (encPairs inc).length + (encPair nxt).length + (encPairs tl).length := by
      rw [h3]; simp [encPairs]; omega
    omega

/-- ROUND TRIP: encoding a valid map that fits the budget and decoding the result gives back the
same entries with lower-cased keys (in sorted key order) -/
theorem roundtrip (lower : Bytes → Bytes) (m : List Pair) (max : Int)
    (hv : ∀ kv ∈ m, validPair kv = true) (hfit : ((encPairs (sortPairs m)).length : Int) ≤ max) :
    unmarshalValues lower (marshalMap m max) = .ok ((sortPairs m).map (fun kv => (lower kv.1, kv.2))) := by
  have hp : (sortPairs m).Perm m := List.mergeSort_perm m keyLe
  have hv' : ∀ kv ∈ sortPairs m, validPair kv = true := fun kv h => hv kv (hp.subset h)
  unfold marshalMap unmarshalValues
  rw [marshal_all_fit _ _ hv' hfit, decode_complete]
  · rfl
  · intro kv h
    have := hv' kv h
    simp [validPair] at this
    exact ⟨this.1.2, this.2⟩

/-- the decoded entries are the map's entries: same multiset (hence same lookups when the lower-cased keys are distinct) -/
theorem roundtrip_perm (lower : Bytes → Bytes) (m : List Pair) :
    ((sortPairs m).map (fun kv => (lower kv.1, kv.2))).Perm (m.map (fun kv => (lower kv.1, kv.2))) :=
  (List.mergeSort_perm m keyLe).map _

/-- DETERMINISM: the block is a function of the map and the budget — any two orderings of the same
map (distinct keys, as in a Go map) give the same bytes -/
theorem deterministic (m₁ m₂ : List Pair) (max : Int) (hp : m₁.Perm m₂)
    (hk : (m₁.map (·.1)).Nodup) : marshalMap m₁ max = marshalMap m₂ max := by
  unfold marshalMap; rw [sort_unique m₁ m₂ hp hk]

/-- setting an over-long key or value is refused, anything else accepted -/
theorem set_guard (lower : Bytes → Bytes) (m : List Pair) (k v : Bytes) :
    (Metadata.set lower m k v).isOk = (decide (k.length ≤ 32767) && decide (v.length ≤ 32767)) := by
  unfold Metadata.set
  have ms : Gen.protocol_maxStringLength = 32767 := rfl
  simp only [ms]
  by_cases hk : k.length > 32767
  · have : ¬ k.length ≤ 32767 := by omega
    simp [hk, this, Res.isOk]
  · by_cases hv : v.length > 32767
    · have : ¬ v.length ≤ 32767 := by omega
      simp [hk, hv, this, Res.isOk]
    · have h1 : k.length ≤ 32767 := by omega
      have h2 : v.length ≤ 32767 := by omega
      simp [hk, hv, h1, h2, Res.isOk]

theorem set_get (lower : Bytes → Bytes) (m m' : List Pair) (k v : Bytes) (h : Metadata.set lower m k v = .ok m') :
    get lower m' k = v := by
  unfold Metadata.set at h
  split at h
  · cases h
  · split at h
    · cases h
    · cases h
      simp [Metadata.get, lookup]

/-! non-vacuity: concrete instances (hypotheses are satisfiable, statements are not empty) -/
example : rawPairs [1, 0x61, 1, 0x78] = .ok [([0x61], [0x78])] :=
  decode_complete [([0x61], [0x78])] (by decide)
example : validPair ([0x61], [0x78]) = true := by decide
example : marshalValues [([0x61], [0x78]), ([0x62], [0x79])] 7 = [1, 0x61, 1, 0x78] := by decide  -- budget cuts a whole pair
example : marshalValues [([], [0x78]), ([0x62], [0x79])] 100 = [1, 0x62, 1, 0x79] := by decide   -- empty key omitted
example : ∃ e, unmarshalStringLength [0x80, 0x05, 1, 2, 3, 4, 5] = .err e :=
  strlen_rejects_noncanonical 0x80 0x05 _ (by decide) (by decide)
example : (Metadata.set id [] (List.replicate 32768 0x61) []).isOk = false := by
  rw [set_guard, List.length_replicate]; decide

/-! ### generated translations of the two string-length helpers (T2, function level) -/

/-- `func marshalString(str string) (data []byte, tooLong bool)`, as translated from go/metadata.go in this run, is the model's
`marshalString` (`none` = tooLong with empty data) -/
theorem marshalString_is_generated (s : Bytes) :
    Gen.Fn.protocol_marshalString s =
      .ok (match marshalString s with | some d => (d, false) | none => ([], true)) :=
  GenFuncs.marshalString_gen s

/-- `func unmarshalStringLength(data []byte) (l int, bitSize uint8, err error)`, as translated from the source (the switch over the
size bit, the second-byte test, the canonical-form test, every index operation), is the model's function: same length, same size
bit, same error, and no index out of range on any input -/
theorem unmarshalStringLength_is_generated (data : Bytes) :
    Gen.Fn.protocol_unmarshalStringLength data = unmarshalStringLength data :=
  GenFuncs.unmarshalStringLength_gen data

/-- both helpers were inside the translatable subset in this run -/
theorem functions_translated :
    "protocol..marshalString" ∈ Gen.Fn.translated ∧ "protocol..unmarshalStringLength" ∈ Gen.Fn.translated := by decide

/-- the budget v2 `Pack` hands to the encoder (`v2.MaxMetadataLength`, regenerated) fits the 16-bit `metadata_len` field of the frame: a
block that exceeds it loses whole pairs (`budget`, `whole_pairs`), it can never lose the high bit of its length -/
theorem budget_fits_length_field : Gen.v2_MaxMetadataLength < 2 ^ 16 ∧ Gen.v2_MaxMetadataLength = 65535 := by decide

end OAP.C09
