/-
C08 — Connection recovery re-establishes an authenticated session. Property theorems only.
The decision logic as a pure function over per-attempt outcomes (view Reconnect), for ALL outcome sequences and
configurations; single-flight / one recovery per loss over every interleaving (view SingleFlight).
-/
import OAP.Model.Client.Reconnect
import OAP.Model.Client.SingleFlight
import OAP.Gen.Facts
import OAP.Model.Client.Recovery
namespace OAP.C08
open OAP OAP.Reconnect

/-- T2 structure facts, regenerated from go/client on every run (the operations themselves, in source order): reconnect(): old conn closed, waiters failed under their mutex, THEN dial, then auth / resume; the retry loop checks the closed signal at the top and before the callback, hit-max goes through Close; `reconnecting` reads the atomic `recovering` flag BEFORE it asks for the write lock and sets/clears it under that lock together with doReconnectting (D20's repair); reconnectDial falls back to auth -/
theorem source_order :
    Gen.seq_client_reconnect = ["c.stateMu.Lock", "c.stateMu.Unlock", "c.stateMu.Unlock", "c.RLock", "c.RUnlock", "old.Close", "c.recvsMu.Lock", "close:w.ch", "c.recvsMu.Unlock", "c.dial", "c.stateMu.Lock", "c.stateMu.Unlock", "c.isAuthExpired", "c.auth", "c.reconnectDial"] ∧
    Gen.seq_client_reconnecting = ["c.closed", "atomic.LoadInt32:&c.recovering", "c.Lock", "c.Unlock", "atomic.StoreInt32:&c.recovering=1", "c.Unlock", "go", "defer:send:waitCh", "c.closed", "c.reconnect", "c.closed", "c.afterReconnected", "c.Close", "time.Sleep", "recv:waitCh", "c.Lock", "atomic.StoreInt32:&c.recovering=0", "c.Unlock"] ∧
    Gen.seq_client_reconnectDial = ["c.Do", "c.auth", "c.stateMu.Lock", "c.stateMu.Unlock"] := by
  decide


/-- the stored session is presented exactly when there is one and it is unexpired (10 s safety margin) -/
theorem uses_session_iff_unexpired (cfg : Cfg) (st : RS) (env : Env) :
    Act.sendReconnect ∈ (attempt cfg st env).2.1 ↔
      (¬ (cfg.maxReconnect > 0 ∧ st.count ≥ cfg.maxReconnect)) ∧ env.dialOk = true ∧
      ∃ exp, st.session = some exp ∧ expired env.now exp = false :=
  Reconnect.uses_session_iff_unexpired cfg st env

/-- a session rejected as unauthenticated makes THE SAME attempt continue with a full authentication -/
theorem fallback_on_unauthenticated (cfg : Cfg) (st : RS) (env : Env) (exp : Nat)
    (hm : ¬ (cfg.maxReconnect > 0 ∧ st.count ≥ cfg.maxReconnect)) (hd : env.dialOk = true)
    (hs : st.session = some exp) (he : expired env.now exp = false)
    (hu : env.first = .unauthenticated) (ht : cfg.hasToken = true) :
    Act.sendAuth ∈ (attempt cfg st env).2.1 ∧
    ((attempt cfg st env).2.2 = .success ↔ ∃ e, env.second = .ok e) :=
  Reconnect.fallback_on_unauthenticated cfg st env exp hm hd hs he hu ht

/-- the configured maximum: an attempt gives up with hit-max exactly when the count has reached it -/
theorem hitmax_iff (cfg : Cfg) (st : RS) (env : Env) :
    (attempt cfg st env).2.2 = .hitMax ↔ (cfg.maxReconnect > 0 ∧ st.count ≥ cfg.maxReconnect) :=
  Reconnect.hitmax_iff cfg st env

/-- in every attempt the old connection is closed and the waiters are failed BEFORE the new dial -/
theorem old_closed_first (cfg : Cfg) (st : RS) (env : Env)
    (hm : ¬ (cfg.maxReconnect > 0 ∧ st.count ≥ cfg.maxReconnect)) :
    ∃ rest, (attempt cfg st env).2.1 = [.closeOld, .failWaiters, .dial] ++ rest :=
  Reconnect.old_closed_first cfg st env hm

/-- the after-reconnect callback is reported exactly when the loop ended with a successful attempt and is then the last
action; hit-max ends with the close (reported through the close callback) and never reports a reconnect -/
theorem after_cb_only_on_success (cfg : Cfg) (es : List Env) (st : RS) :
    ((recover cfg st es).2.2 = some .success → (recover cfg st es).2.1.getLast? = some .afterReconnected) ∧
    ((recover cfg st es).2.2 = some .hitMax → (recover cfg st es).2.1.getLast? = some .closeClientHitMax) ∧
    ((recover cfg st es).2.2 ≠ some .success → Act.afterReconnected ∉ (recover cfg st es).2.1) :=
  Reconnect.after_cb_only_on_success cfg es st

/-- single-flight and one recovery per loss, for every interleaving of any number of loss notifiers -/
theorem single_flight (acts : List SingleFlight.Act) (s : SingleFlight.St) (h : SingleFlight.run SingleFlight.init acts = some s)
    (t u : Nat) (ht : SingleFlight.rAlive (s.rc t)) (hu : SingleFlight.rAlive (s.rc u)) : t = u :=
  SingleFlight.single_flight acts s h t u ht hu
theorem one_recovery_per_loss (acts : List SingleFlight.Act) (s : SingleFlight.St)
    (h : SingleFlight.run SingleFlight.init acts = some s) (c : Nat) : s.spawns c ≤ 1 :=
  SingleFlight.one_recovery_per_loss acts s h c


/-! ### the same properties on the view that mirrors the CURRENT `reconnecting` statement by statement
(view Recovery: closed() tests, atomic fast path, guard, retry loop with hit-max, dial, Close — any number of notifiers,
Close callers, every interleaving, every MaxReconnect m) -/

/-- at most one retry-goroutine slot is occupied (running, or finished and not yet received from) -/
theorem recovery_single_flight (m : Nat) (acts : List Recovery.Act) (s : Recovery.St)
    (h : Recovery.run (Recovery.init m) acts = some s) (t u : Nat)
    (ht : Recovery.rLive (s.rc t)) (hu : Recovery.rLive (s.rc u)) : t = u :=
  Recovery.single_flight m acts s h t u ht hu

/-- one recovery per loss, as far as it holds of the code: while the client is open at most one retry goroutine has been
started for a connection; at most one was ever started for it before the close signal; one started after the signal never
calls `reconnect()` -/
theorem recovery_one_per_loss_partial (m : Nat) (acts : List Recovery.Act) (s : Recovery.St)
    (h : Recovery.run (Recovery.init m) acts = some s) (c : Nat) :
    (s.closedSig = false → s.spawns c ≤ 1) ∧ s.spawnsOpen c ≤ 1 ∧ s.lateAttempts = 0 :=
  Recovery.one_recovery_per_loss_partial m acts s h c

/-- … and the unconditional statement is false of the code: after Close, a notifier that had passed the `closed()` test and
the fast path earlier starts a second (idle) retry goroutine for the same connection -/
theorem recovery_one_per_loss_false :
    ¬ (∀ (m : Nat) (acts : List Recovery.Act) (s : Recovery.St),
        Recovery.run (Recovery.init m) acts = some s → ∀ c, s.spawns c ≤ 1) :=
  Recovery.one_recovery_per_loss_false

/-- the atomic mirror equals `doReconnectting` whenever nobody holds the write lock -/
theorem recovery_flag_agrees (m : Nat) (acts : List Recovery.Act) (s : Recovery.St)
    (h : Recovery.run (Recovery.init m) acts = some s) : s.writer = false → s.recovering = s.reconn :=
  Recovery.flag_agrees m acts s h

/-- a notifier that read `recovering = 1` has returned and never took the write lock in that call -/
theorem recovery_fast_path_no_lock (m : Nat) (acts : List Recovery.Act) (s : Recovery.St)
    (h : Recovery.run (Recovery.init m) acts = some s) :
    s.fastLockReqs = 0 ∧ ∀ t, s.fastTaken t = true → s.notif t = .done :=
  Recovery.fast_path_no_lock m acts s h

/-- every after-reconnect callback was preceded by a `closed()` test that returned false … -/
theorem recovery_after_cb_guarded (m : Nat) (acts : List Recovery.Act) (s : Recovery.St)
    (h : Recovery.run (Recovery.init m) acts = some s) :
    s.afterUnguarded = 0 ∧ ∀ t, s.rc t = .cb → s.guardSaw t = false :=
  Recovery.after_cb_guarded m acts s h

/-- … so an attempt whose dial completed with the signal already set never reports a reconnect -/
theorem recovery_after_cb_not_after_closed_dial (m : Nat) (acts : List Recovery.Act) (s : Recovery.St)
    (h : Recovery.run (Recovery.init m) acts = some s) :
    s.afterClosedDial = 0 ∧ ∀ t, s.rc t = .cb → s.sigAtDial t = false :=
  Recovery.after_cb_not_after_closed_dial m acts s h

/-- a hit-max exit leaves the close signal set and the close callback run exactly once -/
theorem recovery_hitmax_closes (m : Nat) (acts : List Recovery.Act) (s : Recovery.St)
    (h : Recovery.run (Recovery.init m) acts = some s) :
    (∀ t, s.rc t = .fin .hitmax → s.closedSig = true ∧ s.onCloseCalls = 1) ∧
    (0 < s.hitmaxExits → s.closedSig = true ∧ s.onCloseCalls = 1) :=
  Recovery.hitmax_closes m acts s h


/-- T2 structure facts: `isAuthExpired` (10 s margin, `>= 0`), `auth` (no token getter → nothing to do; fresh token; AUTH request under the auth timeout and the background context; session stored on success) and the option setters the recovery reads -/
theorem auth_source :
    Gen.stmts_client_isAuthExpired = ["info := c.AuthInfo()", "if info == nil { return true }", "expireAt := time.Unix(info.GetExpires()/1000-10, info.GetExpires()%1000*int64(time.Millisecond))", "return time.Since(expireAt) >= 0"] ∧
    Gen.stmts_client_auth = ["if c.dialOptions.AuthTokenGetter == nil { return nil }", "token, err := c.dialOptions.AuthTokenGetter()", "if err != nil { return err }", "res, err := c.Do(context.Background(), &Request{ Cmd: uint32(control.Command_CMD_AUTH), Body: &control.AuthRequest{Token: token, Metadata: c.connectMetadata}, }, RequestTimeout(c.dialOptions.AuthTimeout))", "if err != nil { return errors.Wrap(err, \"do auth\") }", "var info control.AuthResponse", "if err = res.Unmarshal(&info); err != nil { return errors.Wrap(err, \"auth unmarshal res\") }", "c.setAuthInfo(&info)", "return nil"] ∧
    Gen.stmts_opt_MaxReconnect = ["return func(o *DialOptions) { if i > 0 { o.MaxReconnect = i } }"] ∧
    Gen.stmts_opt_AuthTimeout = ["return func(o *DialOptions) { if d > 0 { o.AuthTimeout = d } }"] ∧
    Gen.stmts_opt_DialTimeout = ["return func(o *DialOptions) { if d > 0 { o.Timeout = d } }"] :=
  ⟨rfl, rfl, rfl, rfl, rfl⟩

end OAP.C08
