/-
C19 — Request ids are unique and increasing per connection. Property theorems only.
-/
import OAP.Model.Request
namespace OAP.C19
open OAP OAP.Request

/-- T2 structure facts, regenerated from go/context.go and go/packet.go on every run: the generator is one
atomic add-and-fetch, and the request constructors append the fresh id after the caller's options — to a COPY of the caller's
slice (`opts[:len(opts):len(opts)]`: the append cannot write into spare capacity of a slice that goroutines share; defect D23
of the pinned tree, where concurrent constructors given one shared option slice picked up each other's id) — while the
response/push constructors do not stamp an id. The list model of `Request` (`opts ++ [id]`, a value) is faithful only with that copy. -/
theorem source_structure :
    Gen.stmts_GetRequestIDGen = ["var id uint32", "return func() uint32 { return atomic.AddUint32(&id, 1) }"] ∧
    Gen.stmts_NewRequest = ["opts = append(opts[:len(opts):len(opts)], WithRequestId(ctx.NextReqId()))",
                            "return NewPacket(ctx, RequestPacket, cmd, body, opts...)"] ∧
    Gen.stmts_MustNewRequest.take 2 = ["opts = append(opts[:len(opts):len(opts)], WithRequestId(ctx.NextReqId()))",
                                      "p, e := NewPacket(ctx, RequestPacket, cmd, body, opts...)"] ∧
    Gen.stmts_NewResponse = ["opts = append(opts, WithStatusCode(sc))", "return NewPacket(ctx, ResponsePacket, cmd, body, opts...)"] ∧
    Gen.stmts_MustNewResponse.take 2 = ["opts = append(opts, WithStatusCode(code))", "p, e := NewPacket(ctx, ResponsePacket, cmd, body, opts...)"] ∧
    Gen.stmts_NewPush = ["return NewPacket(ctx, PushPacket, cmd, body, opts...)"] ∧
    Gen.stmts_MustNewPush.take 1 = ["p, e := NewPacket(ctx, PushPacket, cmd, body, opts...)"] := by
  decide

/-- the ids a generator at counter `c` hands out in its next `n` steps -/
def idsFrom (c : UInt32) : Nat → List UInt32
  | 0 => []
  | n + 1 => (c + 1) :: idsFrom (c + 1) n

private theorem run_spec : ∀ (sched : List Nat) (g : IdGen),
    (run g sched).issued = g.issued ++ idsFrom g.counter sched.length := by
  intro sched
  induction sched with
  | nil => intro g; simp [run, idsFrom]
  | cons t ts ih =>
    intro g
    rw [run, ih]
    simp [IdGen.next, idsFrom]

private theorem idsFrom_eq : ∀ (n : Nat) (c : UInt32),
    idsFrom c n = (List.range' 1 n).map (fun k => c + UInt32.ofNat k) := by
  intro n
  induction n with
  | zero => intro c; simp [idsFrom]
  | succ n ih =>
    intro c
    rw [idsFrom, ih, List.range'_succ, List.map_cons]
    congr 1
    have : List.range' 2 n = List.map (fun x => 1 + x) (List.range' 1 n) :=
      (List.map_add_range' (a := 1) 1 n 1).symm
    rw [this, List.map_map]
    apply List.map_congr_left
    intro k _
    simp only [Function.comp]
    apply UInt32.toNat_inj.mp
    simp only [UInt32.toNat_add, UInt32.toNat_ofNat']
    have : UInt32.toNat 1 = 1 := rfl
    omega

/-- for EVERY schedule of N atomic steps on a fresh context (any number of goroutines, any interleaving)
the k-th id handed out is k: the ids are exactly 1..N in issue order (as uint32: the wrap is stated, not hidden) -/
theorem ids_concurrent (sched : List Nat) :
    (run {} sched).issued = (List.range' 1 sched.length).map UInt32.ofNat := by
  rw [run_spec, idsFrom_eq]
  simp

/-- hence pairwise distinct and strictly increasing in issue order, below the 32-bit wrap -/
theorem ids_increasing (sched : List Nat) (h : sched.length < 4294967296) :
    (run {} sched).issued.Pairwise (· < ·) := by
  rw [ids_concurrent]
  rw [List.pairwise_map]
  refine List.Pairwise.imp_of_mem ?_ (List.pairwise_lt_range' (s := 1) (n := sched.length))
  intro a b ha hb hab
  simp only [List.mem_range'_1] at ha hb
  rw [UInt32.lt_iff_toNat_lt]
  simp only [UInt32.toNat_ofNat']
  omega

theorem ids_distinct (sched : List Nat) (h : sched.length < 4294967296) : (run {} sched).issued.Nodup := by
  have := ids_increasing sched h
  exact this.imp (fun hab => by intro e; subst e; exact absurd hab (by simp [UInt32.lt_irrefl]))

/-- caller-supplied options cannot override the fresh id of a request -/
theorem request_id_not_overridable (g : IdGen) (opts : List Opt) :
    (newRequest g opts).1.rid = g.counter + 1 ∧ (newRequest g opts).2.counter = g.counter + 1 := by
  simp [newRequest, newPacket, IdGen.next, List.foldl_append, applyOpt]

/-- response and push constructors leave the id to the caller (default 0) and do not touch the generator -/
theorem response_id_from_caller (code : UInt8) (opts : List Opt) :
    (newResponse code opts).rid = (newPacket opts).rid ∧ (newResponse code opts).status = code := by
  simp [newResponse, newPacket, List.foldl_append, applyOpt]

theorem push_id_from_caller (opts : List Opt) : (newPush opts).rid = (newPacket opts).rid := rfl

/-- independent contexts are independent: a generator's ids depend on its own steps only (it is a function of its own schedule) -/
theorem contexts_independent (s₁ s₂ : List Nat) (h : s₁.length = s₂.length) :
    (run {} s₁).issued = (run {} s₂).issued := by
  rw [ids_concurrent, ids_concurrent, h]

/-! non-vacuity -/
example : (run {} [0, 1, 0, 2, 1]).issued = [1, 2, 3, 4, 5] := by decide
example : (newRequest { counter := 41, issued := [] } [.withRequestId 7, .withStatusCode 3]).1.rid = 42 := by decide
example : (newResponse 5 [.withRequestId 7]).rid = 7 := by decide

end OAP.C19
