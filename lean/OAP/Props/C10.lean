/-
C10 — Gzip transparency and integrity. The glue of go/gzip/gzip.go around compress/gzip
(an oracle, `GzOracle`) and the frame-level threshold rule. Property theorems only.
-/
import OAP.Model.Frame
import OAP.Proofs.Frame
import OAP.Model.PoolGzip
import OAP.Proofs.Inflate
namespace OAP.C10
open OAP OAP.Frame

/-- Compress then Decompress is the identity (under the oracle's soundness assumption) -/
theorem decompress_compress (gz : GzOracle) (hs : gz.Sound) (x : Bytes) :
    ∃ c, gz.compress x = .ok c ∧ Gzip.decompress gz c = .ok x := by
  obtain ⟨c, h1, h2⟩ := hs x
  exact ⟨c, h1, by simp [Gzip.decompress, h2]⟩

/-- Decompress succeeds ONLY for a complete, checksum-valid stream, and then returns its full content -/
theorem decompress_ok_iff (gz : GzOracle) (bs out : Bytes) :
    Gzip.decompress gz bs = .ok out ↔ gz.read bs = some (out, true) := by
  unfold Gzip.decompress
  constructor
  · intro h
    split at h
    · rename_i p hp; cases h; exact hp
    · cases h
  · intro h; simp [h]

/-- anything else is an error: never a truncated or altered prefix returned as success, never a panic -/
theorem decompress_err_otherwise (gz : GzOracle) (bs : Bytes) (h : ∀ out, gz.read bs ≠ some (out, true)) :
    ∃ e, Gzip.decompress gz bs = .err e := by
  unfold Gzip.decompress
  split
  · rename_i p hp; exact absurd hp (h p)
  · exact ⟨_, rfl⟩

/-- the buffer Decompress asks for is bounded by the input actually supplied times the format's
maximum expansion ratio — whatever the (untrusted) ISIZE trailer says -/
theorem alloc_gzip (bs : Bytes) : Gzip.allocDecompress bs ≤ bs.length * Gzip.maxExpansion + Gzip.minRead := by
  unfold Gzip.allocDecompress
  generalize bs.length * Gzip.maxExpansion = cap
  simp only
  split
  · split <;> omega
  · omega

/-- the threshold rule of the extracted condition: compress exactly when thr ≠ 0 and the body reaches it -/
theorem gzipCond_iff (v : Ver) (thr : Int) (n : Nat) :
    gzipCond v thr n = true ↔ (thr ≠ 0 ∧ thr ≤ n) := by
  cases v <;> simp [gzipCond, Gen.v1GzipCond, Gen.v2GzipCond]

private theorem bind_ok_inv {α β} (r : Res α) (f : α → Res β) (x : β) (h : (r >>= f) = .ok x) :
    ∃ a, r = .ok a ∧ f a = .ok x := by
  cases r with
  | ok a => exact ⟨a, rfl, h⟩
  | err e => cases h
  | panic w => cases h

/-- the packet as it leaves Pack: the compressor's output as body and the flag set when the threshold
rule engaged; otherwise the body untouched and the flag CLEAR (a flag left over from the frame the
packet was decoded from — a relayed packet — is not carried into this frame) -/
theorem pack_packet (v : Ver) (gz : GzOracle) (p p' : Packet) (thr : Int) (bs : Bytes)
    (h : pack v gz p thr = .ok (bs, p')) :
    (gzipCond v thr p.body.length = true ∧ ∃ c, gz.compress p.body = .ok c ∧ p' = { p with body := c, gzip := true }) ∨
    (gzipCond v thr p.body.length = false ∧ p' = { p with gzip := false }) := by
  unfold pack at h
  obtain ⟨p1, h1, h2⟩ := bind_ok_inv _ _ _ h
  have hp' : p' = p1 := by
    simp only at h2
    by_cases hl : p1.body.length > Gen.v1_MaxBodyLength
    · simp [hl] at h2
    · simp only [hl, ↓reduceIte] at h2
      obtain ⟨hd, _, h3⟩ := bind_ok_inv _ _ _ h2
      cases h3; rfl
  subst hp'
  by_cases hc : gzipCond v thr p.body.length = true
  · left
    refine ⟨hc, ?_⟩
    simp only [hc, ↓reduceIte] at h1
    cases hcomp : gz.compress p.body with
    | ok c => rw [hcomp] at h1; cases h1; exact ⟨c, rfl, rfl⟩
    | err e => rw [hcomp] at h1; cases h1
    | panic w => rw [hcomp] at h1; cases h1
  · right
    have hc' : gzipCond v thr p.body.length = false := by simpa using hc
    simp only [hc', Bool.false_eq_true, ↓reduceIte] at h1
    cases h1; exact ⟨hc', rfl⟩

/-- under the hypothesis of the round-trip theorems (`p.gzip = false`, part of `C01.InDomain`) the packet
that was not compressed leaves Pack untouched, as before the repair -/
theorem pack_packet_clear (v : Ver) (gz : GzOracle) (p p' : Packet) (thr : Int) (bs : Bytes)
    (h0 : p.gzip = false) (h : pack v gz p thr = .ok (bs, p')) :
    (gzipCond v thr p.body.length = true ∧ ∃ c, gz.compress p.body = .ok c ∧ p' = { p with body := c, gzip := true }) ∨
    (gzipCond v thr p.body.length = false ∧ p' = p) := by
  rcases pack_packet v gz p p' thr bs h with hx | ⟨hc, hp⟩
  · exact .inl hx
  · refine .inr ⟨hc, ?_⟩
    rw [hp, ← h0]

/-- frame level, for EVERY packet — whatever its incoming gzip flag: it leaves Pack flagged exactly when
the threshold rule engaged, and then its body is what the compressor returned; otherwise its body is
untouched -/
theorem gzip_flag_iff (v : Ver) (gz : GzOracle) (p p' : Packet) (thr : Int) (bs : Bytes)
    (h : pack v gz p thr = .ok (bs, p')) :
    (p'.gzip = true ↔ (thr ≠ 0 ∧ thr ≤ p.body.length)) ∧
    (p'.gzip = true → gz.compress p.body = .ok p'.body) ∧ (p'.gzip = false → p'.body = p.body) := by
  rcases pack_packet v gz p p' thr bs h with ⟨hc, c, hcomp, hp⟩ | ⟨hc, hp⟩
  · have hi := (gzipCond_iff v thr p.body.length).mp hc
    subst hp
    simp [hi, hcomp]
  · have hi : ¬ (thr ≠ 0 ∧ thr ≤ (p.body.length : Int)) := by
      intro hx; have := (gzipCond_iff v thr p.body.length).mpr hx; rw [hc] at this; cases this
    subst hp
    refine ⟨?_, ?_, ?_⟩
    · constructor
      · intro hx; cases hx
      · intro hx; exact absurd hx hi
    · intro hx; cases hx
    · intro _; rfl

/-- the repaired case made explicit. A RELAYED packet: its gzip flag is set (as the decoder returns it
for a compressed frame — the body it carries is the decompressed content) and it is packed again with
a threshold that does not engage. It leaves Pack with the flag clear and the body untouched: the flag
was changed (`p'.gzip ≠ p.gzip`), nothing else was (`p' = { p with gzip := false }`) -/
theorem relayed_packet_flag (v : Ver) (gz : GzOracle) (p p' : Packet) (thr : Int) (bs : Bytes)
    (hg : p.gzip = true) (hc : gzipCond v thr p.body.length = false)
    (h : pack v gz p thr = .ok (bs, p')) :
    p'.gzip = false ∧ p'.body = p.body ∧ p'.gzip ≠ p.gzip ∧ p' = { p with gzip := false } := by
  rcases pack_packet v gz p p' thr bs h with ⟨hc', _⟩ | ⟨_, hp⟩
  · rw [hc] at hc'; cases hc'
  · subst hp
    refine ⟨rfl, rfl, ?_, rfl⟩
    rw [hg]; intro hx; cases hx

/-- ON THE WIRE: the gzip bit (bit 5) of byte 0 of the frame Pack emits IS the engagement of the
threshold rule — for every packet Pack accepts (so: of a known type), whatever its incoming gzip flag.
Stated three ways: arithmetically on byte 0, as the decoder extracts it (`ubGzip`), and on the frame of
the published layout that the output is (`C02.pack_conforms`: `bs = Spec.encode v (specOf v p')`) -/
theorem frame_flag_is_engagement (v : Ver) (gz : GzOracle) (p p' : Packet) (thr : Int) (bs : Bytes)
    (h : pack v gz p thr = .ok (bs, p')) :
    ∃ b0 rest, bs = b0 :: rest ∧
      (b0.toNat / 32 % 2 = 1 ↔ (thr ≠ 0 ∧ thr ≤ p.body.length)) ∧
      (ubGzip v b0 = 1 ↔ (thr ≠ 0 ∧ thr ≤ p.body.length)) ∧
      ((specOf v p').gzip = 1 ↔ (thr ≠ 0 ∧ thr ≤ p.body.length)) := by
  obtain ⟨hflag, _, _⟩ := gzip_flag_iff v gz p p' thr bs h
  obtain ⟨t, rest, ht, hbs⟩ := pack_byte0 v gz p p' thr bs h
  refine ⟨_, rest, hbs, ?_, ?_, ?_⟩
  · rw [← hflag, UInt8.toNat_ofNat']
    cases p'.verify <;> cases p'.gzip <;> rcases ht with rfl | rfl | rfl <;> decide
  · rw [← hflag]
    obtain ⟨_, _, e3, _⟩ := b0_fields v t (if p'.verify then 1 else 0) (if p'.gzip then 1 else 0) 0
      (by rcases ht with rfl | rfl | rfl <;> decide) (by split <;> decide) (by split <;> decide) (by decide)
    rw [e3]
    cases p'.gzip <;> decide
  · rw [← hflag]
    simp only [specOf]
    cases p'.gzip <;> decide

/-! non-vacuity -/
example : gzipCond .v1 1024 1024 = true ∧ gzipCond .v1 1024 1023 = false ∧ gzipCond .v2 0 5000 = false ∧
    gzipCond .v2 (-1) 0 = true := by decide
example : Gzip.allocDecompress [0x1f, 0x8b, 8, 0, 0xff, 0xff, 0xff, 0x7f] ≤ 8 * 1032 + 512 := by decide

/-! non-vacuity of the relayed case. `relayed`: a push packet as a decoder returns it for a compressed
frame (gzip flag set, the body the decompressed content, 3 bytes). `idGz`: the identity "compressor"
(the one of C01's examples), which is Sound. -/

def idGz : GzOracle := { compress := fun x => .ok x, read := fun c => some (c, true) }
def relayed : Packet := { type := .push, cmd := 7, gzip := true, body := [1, 2, 3] }

example : idGz.Sound := fun x => ⟨x, rfl, rfl⟩

/-- v1, threshold 0 (never compress): the frame's byte 0 is 0x03 — gzip bit (bit 5, mask 0x20) CLEAR
although the packet came in flagged —, the body goes out as it is, and `UnpackBytes` returns it -/
example :
    pack .v1 idGz relayed 0 = .ok ([0x03, 7, 0, 0, 3, 1, 2, 3], { relayed with gzip := false }) ∧
    (0x03 : UInt8) &&& 0x20 = 0 ∧ (0x03 : UInt8).toNat / 32 % 2 = 0 ∧
    unpackBytes .v1 idGz 0 [0x03, 7, 0, 0, 3, 1, 2, 3] = .ok { type := .push, cmd := 7, body := [1, 2, 3] } := by decide

/-- v1, threshold 3 ≤ 3 bytes (engages): byte 0 is 0x23 — gzip bit SET -/
example :
    pack .v1 idGz relayed 3 = .ok ([0x23, 7, 0, 0, 3, 1, 2, 3], relayed) ∧
    (0x23 : UInt8) &&& 0x20 = 0x20 ∧ (0x23 : UInt8).toNat / 32 % 2 = 1 ∧
    unpackBytes .v1 idGz 0 [0x23, 7, 0, 0, 3, 1, 2, 3] = .ok relayed := by decide

/-- v2 (two more header bytes: metadata_len = 0), threshold 0: gzip bit clear, body returned.
(`decide +kernel`: `pack .v2` runs the metadata block's merge sort, which only the kernel unfolds.) -/
example :
    pack .v2 idGz relayed 0 = .ok ([0x03, 7, 0, 0, 0, 0, 3, 1, 2, 3], { relayed with gzip := false }) ∧
    (0x03 : UInt8) &&& 0x20 = 0 ∧
    unpackBytes .v2 idGz 0 [0x03, 7, 0, 0, 0, 0, 3, 1, 2, 3] = .ok { type := .push, cmd := 7, body := [1, 2, 3] } := by
  decide +kernel

/-- v2, threshold 3 (engages): gzip bit set -/
example :
    pack .v2 idGz relayed 3 = .ok ([0x23, 7, 0, 0, 0, 0, 3, 1, 2, 3], relayed) ∧
    (0x23 : UInt8) &&& 0x20 = 0x20 ∧
    unpackBytes .v2 idGz 0 [0x23, 7, 0, 0, 0, 0, 3, 1, 2, 3] = .ok relayed := by
  decide +kernel

/-- the hypotheses of `relayed_packet_flag` are jointly satisfiable (both versions), and its conclusion
is what the first and third example show -/
example : relayed.gzip = true ∧ gzipCond .v1 0 relayed.body.length = false ∧ gzipCond .v2 0 relayed.body.length = false ∧
    (pack .v1 idGz relayed 0).isOk = true := by decide

end OAP.C10

/-! ## concurrent use of the pooled compressors (Pool view)

"… ALSO UNDER CONCURRENT USE: N goroutines sharing the pooled compressors/decompressors get the same results as
sequential calls." Small-step interleaving model `OAP.Pool` (generic) with the instances `PoolGzip.WB` (writer pool)
and `PoolGzip.RB` (reader pool); the theorems quantify over EVERY interleaving (`acts`) and EVERY initial pool content. -/
namespace OAP.C10
open OAP OAP.Frame OAP.Pool OAP.PoolGzip

/-- `pool_exclusive`, generic: any pooled object whose `Reset` erases (`ResetErases`), any number of threads, any
interleaving of their get / reset / use / park / resume / finish(put or drop) steps and of the pool's own drops, any
initial pool (`InitOk`: no duplicates, identities below the allocation counter) with ARBITRARY stale object states:
a thread that has finished the call `Reset(i); use u₁ … use uₖ` has returned `seqResult i [u₁ … uₖ]`, the result of
that call made alone on a fresh object. -/
theorem pool_exclusive {σ In U Out : Type} (B : Beh σ In U Out) (he : B.ResetErases)
    (pool : List Nat) (obj : Nat → σ) (next : Nat) (h0 : InitOk pool next)
    (acts : List (Act In U)) (s : St σ In U Out) (h : Pool.run B (Pool.init pool obj next) acts = some s)
    (t : Nat) (i : In) (us : List U) (out : Out) (hf : s.pc t = .fin i us out) : out = B.seqResult i us :=
  Pool.pool_exclusive B he pool obj next h0 acts s h t i us out hf

/-- the ownership half: in every reachable state no two threads hold the same object, a held object is not in the
pool, and the pool holds no object twice -/
theorem no_shared_object {σ In U Out : Type} (B : Beh σ In U Out) (he : B.ResetErases)
    (pool : List Nat) (obj : Nat → σ) (next : Nat) (h0 : InitOk pool next)
    (acts : List (Act In U)) (s : St σ In U Out) (h : Pool.run B (Pool.init pool obj next) acts = some s) :
    (∀ t u o, t ≠ u → (s.pc t).holds = some o → (s.pc u).holds ≠ some o) ∧
    (∀ t o, (s.pc t).holds = some o → o ∉ s.pool) ∧ s.pool.Nodup :=
  Pool.no_shared_object B he pool obj next h0 acts s h

/-- "the same results as sequential calls", literally: for any list of calls by distinct threads the SERIAL schedule
(one call after the other, all on one recycled object) is a run, and a thread that has finished one of these calls in
an arbitrary interleaving is in the same final state — same input, same uses, same result — as in the serial run -/
theorem concurrent_eq_serial {σ In U Out : Type} (B : Beh σ In U Out) (he : B.ResetErases)
    (pool : List Nat) (obj : Nat → σ) (next : Nat) (h0 : InitOk pool next)
    (acts : List (Act In U)) (s : St σ In U Out) (h : Pool.run B (Pool.init pool obj next) acts = some s)
    (cs : List (Call In U)) (hnd : (cs.map (·.1)).Nodup) (c : Call In U) (hc : c ∈ cs) (out : Out)
    (hf : s.pc c.1 = .fin c.2.1 c.2.2 out) :
    ∃ s', Pool.run B (Pool.init pool obj next) (serialActs next cs) = some s' ∧ s'.pc c.1 = s.pc c.1 :=
  Pool.concurrent_eq_serial B he pool obj next h0 acts s h cs hnd c hc out hf

/-- N concurrent `gzip.Compress` calls over the shared `poolCompressor`: each returns `gz.compress` of ITS input (of
the concatenation of its writes), and no two of them ever hold the same writer -/
theorem compress_concurrent_eq_seq (gz : GzOracle) (pool : List Nat) (obj : Nat → Bytes) (next : Nat)
    (h0 : InitOk pool next) (acts : List (Act Unit Bytes)) (s : St Bytes Unit Bytes (Res Bytes))
    (h : Pool.run (WB gz) (Pool.init pool obj next) acts = some s) :
    (∀ t x out, s.pc t = .fin () [x] out → out = gz.compress x) ∧
    (∀ t ps out, s.pc t = .fin () ps out → out = gz.compress ps.flatten) ∧
    (∀ t u o, t ≠ u → (s.pc t).holds = some o → (s.pc u).holds ≠ some o) :=
  PoolGzip.compress_concurrent_eq_seq gz pool obj next h0 acts s h

/-- N concurrent `gzip.Decompress` calls over the shared `poolDecompressor` — readers put back on EOF and after a
failed Reset, DROPPED after a stream error: each returns its sequential result; one that ran to its end (`Done`: what
`ReadFrom` does) returns `Gzip.decompress gz` of ITS input, however its reads were chunked -/
theorem decompress_concurrent_eq_seq (gz : GzOracle) (pool : List Nat) (obj : Nat → RState) (next : Nat)
    (h0 : InitOk pool next) (acts : List (Act Bytes Nat)) (s : St RState Bytes Nat (Res Bytes))
    (h : Pool.run (RB gz) (Pool.init pool obj next) acts = some s) :
    (∀ t src ns out, s.pc t = .fin src ns out → out = (RB gz).seqResult src ns) ∧
    (∀ t src ns out, s.pc t = .fin src ns out → Done gz src ns → out = Gzip.decompress gz src) ∧
    (∀ t u o, t ≠ u → (s.pc t).holds = some o → (s.pc u).holds ≠ some o) :=
  PoolGzip.decompress_concurrent_eq_seq gz pool obj next h0 acts s h

/-- Compress followed by Decompress is the identity also when both run among concurrent users of the two pools -/
theorem roundtrip_concurrent (gz : GzOracle) (hs : gz.Sound)
    (pool : List Nat) (obj : Nat → Bytes) (next : Nat) (h0 : InitOk pool next)
    (acts : List (Act Unit Bytes)) (s : St Bytes Unit Bytes (Res Bytes))
    (h : Pool.run (WB gz) (Pool.init pool obj next) acts = some s)
    (pool' : List Nat) (obj' : Nat → RState) (next' : Nat) (h0' : InitOk pool' next')
    (acts' : List (Act Bytes Nat)) (s' : St RState Bytes Nat (Res Bytes))
    (h' : Pool.run (RB gz) (Pool.init pool' obj' next') acts' = some s')
    (t t' : Nat) (x c : Bytes) (ns : List Nat) (out : Res Bytes)
    (hf : s.pc t = .fin () [x] (.ok c)) (hf' : s'.pc t' = .fin c ns out) (hd : Done gz c ns) : out = .ok x :=
  PoolGzip.roundtrip_concurrent gz hs pool obj next h0 acts s h pool' obj' next' h0' acts' s' h' t t' x c ns out hf hf' hd

/-- the theorem is not vacuous and its hypotheses are needed: each of the four classic pool bugs is expressible in the
model and breaks it on a concrete run (decided) — a double `Put`, a `Put` before the last use, a `Reset` that keeps
one field, a `New` that hands out one shared object -/
theorem pool_bugs_break_it :
    -- double put: two threads hold object 0 at once
    (runWith (stepDoublePut accB) emptyInit
      [.get 0 5 none, .reset 0, .finish 0 true, .get 1 1 (some 0), .get 2 2 (some 0)]).map
        (fun s => ((s.pc 1).holds, (s.pc 2).holds)) = some (some 0, some 0) ∧
    -- use after put: thread 0 returns 205 for a call whose result alone is 105
    ((runWith (stepEarlyPut accB) emptyInit
      [.get 0 1 none, .reset 0, .get 1 2 (some 0), .reset 1, .use 0 5, .finish 0 true]).map (fun s => s.pc 0) =
        some (.fin 1 [5] 205) ∧ accB.seqResult 1 [5] = 105) ∧
    -- stale reset: the same call returns 145 on one recycled object and 135 on another
    ((Pool.run leakyB demoInit [.get 0 1 (some 0), .reset 0, .use 0 5, .finish 0 true]).map (fun s => s.pc 0) =
        some (.fin 1 [5] 145) ∧
     (Pool.run leakyB demoInit [.get 0 1 (some 1), .reset 0, .use 0 5, .finish 0 true]).map (fun s => s.pc 0) =
        some (.fin 1 [5] 135)) ∧
    -- shared New: two misses hand out the same object
    (runWith (stepSharedNew accB) emptyInit [.get 0 1 none, .get 1 2 none]).map
        (fun s => ((s.pc 0).holds, (s.pc 1).holds)) = some (some 0, some 0) :=
  ⟨double_put_breaks.1, ⟨use_after_put_breaks.2.1, use_after_put_breaks.2.2⟩,
   ⟨stale_reset_breaks.1, stale_reset_breaks.2.1⟩, shared_new_breaks.1⟩

/-- T2 structure facts, regenerated from go/gzip/gzip.go on every run: the statements of the eight functions that
touch the two pools, each the model step named in `OAP.Model.PoolGzip`.
`compressor.Compress`: `Get` (model `get`: hit or miss) then `z.Writer.Reset(w)` (model `reset`; `ResetErases` is the
  assumption on compress/gzip) — nothing between them, the writer is not touched before its Reset.
`writer.Close`: `defer z.pool.Put(z)` + `return z.Writer.Close()`: model `finish … true` — ONE Put per Close, after the
  stream is finished, on every path.
`compressor.Decompress`: `Get`; miss (`!inPool`, this pool has no `New`) → `gzip.NewReader(r)` = model `get none` + `reset`,
  on error `return nil, err` with nothing pooled (`finish … false`); hit → `z.Reset(r)` (model `reset`), on error
  `c.poolDecompressor.Put(z)` + return (`finish … true`: put back on a Reset error).
`reader.Read`: the underlying Read (model `use`), then `if err == io.EOF { z.pool.Put(z) }` — Put on io.EOF ONLY
  (`finish … true`); with any other error the reader is never put (`finish … false`: dropped).
`Compress`: a new private buffer, `defaultCompressor.Compress(buf)`, ONE `z.Write(in)`, ONE `z.Close()`, then
  `buf.Bytes()`: the call `Reset; use in; finish` of `compress_concurrent_eq_seq`; the writer does not escape.
`Decompress`: `defaultCompressor.Decompress(r)` then `buf.ReadFrom(or)` — which returns at the first io.EOF or error, so
  `Read` is not called again after the Put (no double put, no use after put); the reader does not escape.
`init` / `SetLevel`: `poolCompressor.New` is a closure whose body is `return &writer{Writer: gzip.NewWriter(…), …}` /
  `w, err := gzip.NewWriterLevel(…) … return &writer{Writer: w, …}`: the writer is allocated INSIDE the closure, at every
  call — the model's fresh identities (`get … none` hands out `next`, invariant clauses `poolLt` / `heldLt`); a closure
  returning a captured writer would be `Pool.stepSharedNew`, for which the theorem fails (`shared_new_breaks`).
  (`SetLevel` replaces `New` only — documented "not thread-safe, init time only"; the pooled writers keep their level.) -/
theorem pool_source :
    Gen.stmts_gzip_compressor_Compress = ["z := c.poolCompressor.Get().(*writer)", "z.Writer.Reset(w)", "return z, nil"] ∧
    Gen.stmts_gzip_writer_Close = ["defer z.pool.Put(z)", "return z.Writer.Close()"] ∧
    Gen.stmts_gzip_compressor_Decompress = ["z, inPool := c.poolDecompressor.Get().(*reader)", "if !inPool { newZ, err := gzip.NewReader(r) if err != nil { return nil, err } return &reader{Reader: newZ, pool: &c.poolDecompressor}, nil }", "if err := z.Reset(r); err != nil { c.poolDecompressor.Put(z) return nil, err }", "return z, nil"] ∧
    Gen.stmts_gzip_reader_Read = ["n, err = z.Reader.Read(p)", "if err == io.EOF { z.pool.Put(z) }", "return n, err"] ∧
    Gen.stmts_gzip_Compress = ["buf := &bytes.Buffer{}", "var z io.WriteCloser", "if z, err = defaultCompressor.Compress(buf); err != nil { err = errors.Wrap(err, \"create gzip writer\") return }", "if _, err = z.Write(in); err != nil { err = errors.Wrap(err, \"compress data\") return }", "if err = z.Close(); err != nil { err = errors.Wrap(err, \"finish gzip compress\") return }", "out = buf.Bytes()", "return"] ∧
    Gen.stmts_gzip_Decompress = ["r := bytes.NewReader(in)", "var or io.Reader", "if or, err = defaultCompressor.Decompress(r); err != nil { err = errors.Wrap(err, \"create gzip reader\") return }", "dsize := defaultCompressor.DecompressedSize(in)", "if max := len(in) * maxExpansionRatio; dsize < 0 || dsize > max { dsize = max }", "buf := bytes.NewBuffer(make([]byte, 0, dsize+bytes.MinRead))", "var rn int64", "rn, err = buf.ReadFrom(or)", "n = int(rn)", "out = buf.Bytes()", "return"] ∧
    Gen.stmts_gzip_SetLevel = ["if level < gzip.DefaultCompression || level > gzip.BestCompression { return fmt.Errorf(\"grpc: invalid gzip compression level: %d\", level) }", "defaultCompressor.poolCompressor.New = func() interface{} { w, err := gzip.NewWriterLevel(ioutil.Discard, level) if err != nil { panic(err) } return &writer{Writer: w, pool: &defaultCompressor.poolCompressor} }", "return nil"] ∧
    Gen.stmts_gzip_init = ["defaultCompressor = &compressor{}", "defaultCompressor.poolCompressor.New = func() interface{} { return &writer{Writer: gzip.NewWriter(ioutil.Discard), pool: &defaultCompressor.poolCompressor} }"] :=
  ⟨rfl, rfl, rfl, rfl, rfl, rfl, rfl, rfl⟩

/-! ### the oracle made concrete: a native gzip (round 2; `Model/Inflate.lean`, `Proofs/Inflate.lean`)

Every theorem above takes compress/gzip as a parameter `gz : GzOracle` and, where it needs it, the hypothesis `gz.Sound`. Here the
parameter is INSTANTIATED by code written in Lean: `Inflate.gunzip` — the RFC 1952 container as Go's reader accepts it (magic, CM,
flag bits, FEXTRA/FNAME/FCOMMENT/FHCRC, multistream as the library's `Decompress` uses it), the RFC 1951 inflater (stored, fixed and
dynamic Huffman blocks with Go's acceptance rules for incomplete and over-subscribed codes) and CRC-32 — and `Inflate.storedGzip`, a
compressor emitting stored blocks. So `gz.Sound` is satisfiable by an actual gzip implementation (not only by the identity), the
expansion bound C04 relies on is a theorem of that implementation, and the harness compares the REAL `Decompress` with this reader on
every stream of the C10/C04 batches (`gunzip hex=…` lines: valid, truncated at every byte, corrupted, multi-member, hostile trailers). -/

/-- the native gzip is a sound oracle: reading what its compressor produced yields the input, whole and valid — for every input -/
theorem native_oracle_sound : Inflate.nativeGz.Sound := Inflate.nativeGz_sound

/-- hence Compress ∘ Decompress = id holds outright for the native gzip, no hypothesis left -/
theorem decompress_compress_native (x : Bytes) :
    Gzip.decompress Inflate.nativeGz (Inflate.storedGzip x) = .ok x := by
  obtain ⟨c, h1, h2⟩ := decompress_compress Inflate.nativeGz Inflate.nativeGz_sound x
  have : c = Inflate.storedGzip x := by
    have := h1; simp [Inflate.nativeGz] at this; exact this.symm
  rw [← this]; exact h2

/-- what the native reader accepts it returns in full, and its output is at most 1032 × the input (DEFLATE's maximum
expansion): the bound `alloc_gzip` and C04's allocation check assume of the library is a THEOREM of this implementation — for
every byte string, all members of a multi-member stream, and the prefix produced before an error included -/
theorem native_decompress_bounded (bs out : Bytes) (h : Gzip.decompress Inflate.nativeGz bs = .ok out) :
    out.length ≤ bs.length * Gzip.maxExpansion :=
  Inflate.nativeGz_decompress_bound h

/-- first-member reading (`Multistream(false)`) of a native stream followed by anything yields the member's content -/
theorem native_first_member (x rest : Bytes) : Inflate.gunzipFirst (Inflate.storedGzip x ++ rest) = some (x, true) :=
  Inflate.gunzipFirst_storedGzip x rest

/-- non-vacuity: concrete streams through the native reader -/
example : Inflate.gunzip (Inflate.storedGzip [104, 105]) = some ([104, 105], true) := by decide +kernel
example : Inflate.gunzip [0x1f, 0x8b, 8, 0] = none := by decide +kernel
example : Inflate.gunzip [0x1f, 0x8c, 8, 0, 0, 0, 0, 0, 0, 0xff, 1, 0, 0, 0xff, 0xff, 0, 0, 0, 0, 0, 0, 0, 0] = none := by decide +kernel
example : Inflate.gunzip [0x1f, 0x8b, 8, 0, 0, 0, 0, 0, 0, 0xff, 1, 0, 0, 0xff, 0xff, 0, 0, 0, 0, 0, 0, 0, 0] = some ([], true) := by decide +kernel

end OAP.C10
