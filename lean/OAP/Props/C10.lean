/-
C10 — Gzip transparency and integrity. The glue of go/gzip/gzip.go around compress/gzip
(an oracle, `GzOracle`) and the frame-level threshold rule. Property theorems only.
-/
import OAP.Model.Frame
import OAP.Proofs.Frame
namespace OAP.C10
open OAP OAP.Frame

/-- Compress then Decompress is the identity (under the oracle's soundness assumption) -/
theorem decompress_compress (gz : GzOracle) (hs : gz.Sound) (x : Bytes) :
    ∃ c, gz.compress x = .ok c ∧ Gzip.decompress gz c = .ok x := by
  obtain ⟨c, h1, h2⟩ := hs x
  exact ⟨c, h1, by simp [Gzip.decompress, h2]⟩

/-- Decompress succeeds ONLY for a complete, checksum-valid stream, and then returns its full content -/
theorem decompress_ok_iff (gz : GzOracle) (bs out : Bytes) :
    Gzip.decompress gz bs = .ok out ↔ gz.read bs = some (out, true) := by
  unfold Gzip.decompress
  constructor
  · intro h
    split at h
    · rename_i p hp; cases h; exact hp
    · cases h
  · intro h; simp [h]

/-- anything else is an error: never a truncated or altered prefix returned as success, never a panic -/
theorem decompress_err_otherwise (gz : GzOracle) (bs : Bytes) (h : ∀ out, gz.read bs ≠ some (out, true)) :
    ∃ e, Gzip.decompress gz bs = .err e := by
  unfold Gzip.decompress
  split
  · rename_i p hp; exact absurd hp (h p)
  · exact ⟨_, rfl⟩

/-- the buffer Decompress asks for is bounded by the input actually supplied times the format's
maximum expansion ratio — whatever the (untrusted) ISIZE trailer says -/
theorem alloc_gzip (bs : Bytes) : Gzip.allocDecompress bs ≤ bs.length * Gzip.maxExpansion + Gzip.minRead := by
  unfold Gzip.allocDecompress
  generalize bs.length * Gzip.maxExpansion = cap
  simp only
  split
  · split <;> omega
  · omega

/-- the threshold rule of the extracted condition: compress exactly when thr ≠ 0 and the body reaches it -/
theorem gzipCond_iff (v : Ver) (thr : Int) (n : Nat) :
    gzipCond v thr n = true ↔ (thr ≠ 0 ∧ thr ≤ n) := by
  cases v <;> simp [gzipCond, Gen.v1GzipCond, Gen.v2GzipCond]

private theorem bind_ok_inv {α β} (r : Res α) (f : α → Res β) (x : β) (h : (r >>= f) = .ok x) :
    ∃ a, r = .ok a ∧ f a = .ok x := by
  cases r with
  | ok a => exact ⟨a, rfl, h⟩
  | err e => cases h
  | panic w => cases h

/-- the packet as it leaves Pack: the compressor's output as body and the flag set when the threshold
rule engaged; otherwise the body untouched and the flag CLEAR (a flag left over from the frame the
packet was decoded from — a relayed packet — is not carried into this frame) -/
theorem pack_packet (v : Ver) (gz : GzOracle) (p p' : Packet) (thr : Int) (bs : Bytes)
    (h : pack v gz p thr = .ok (bs, p')) :
    (gzipCond v thr p.body.length = true ∧ ∃ c, gz.compress p.body = .ok c ∧ p' = { p with body := c, gzip := true }) ∨
    (gzipCond v thr p.body.length = false ∧ p' = { p with gzip := false }) := by
  unfold pack at h
  obtain ⟨p1, h1, h2⟩ := bind_ok_inv _ _ _ h
  have hp' : p' = p1 := by
    simp only at h2
    by_cases hl : p1.body.length > Gen.v1_MaxBodyLength
    · simp [hl] at h2
    · simp only [hl, ↓reduceIte] at h2
      obtain ⟨hd, _, h3⟩ := bind_ok_inv _ _ _ h2
      cases h3; rfl
  subst hp'
  by_cases hc : gzipCond v thr p.body.length = true
  · left
    refine ⟨hc, ?_⟩
    simp only [hc, ↓reduceIte] at h1
    cases hcomp : gz.compress p.body with
    | ok c => rw [hcomp] at h1; cases h1; exact ⟨c, rfl, rfl⟩
    | err e => rw [hcomp] at h1; cases h1
    | panic w => rw [hcomp] at h1; cases h1
  · right
    have hc' : gzipCond v thr p.body.length = false := by simpa using hc
    simp only [hc', Bool.false_eq_true, ↓reduceIte] at h1
    cases h1; exact ⟨hc', rfl⟩

/-- under the hypothesis of the round-trip theorems (`p.gzip = false`, part of `C01.InDomain`) the packet
that was not compressed leaves Pack untouched, as before the repair -/
theorem pack_packet_clear (v : Ver) (gz : GzOracle) (p p' : Packet) (thr : Int) (bs : Bytes)
    (h0 : p.gzip = false) (h : pack v gz p thr = .ok (bs, p')) :
    (gzipCond v thr p.body.length = true ∧ ∃ c, gz.compress p.body = .ok c ∧ p' = { p with body := c, gzip := true }) ∨
    (gzipCond v thr p.body.length = false ∧ p' = p) := by
  rcases pack_packet v gz p p' thr bs h with hx | ⟨hc, hp⟩
  · exact .inl hx
  · refine .inr ⟨hc, ?_⟩
    rw [hp, ← h0]

/-- frame level, for EVERY packet — whatever its incoming gzip flag: it leaves Pack flagged exactly when
the threshold rule engaged, and then its body is what the compressor returned; otherwise its body is
untouched -/
theorem gzip_flag_iff (v : Ver) (gz : GzOracle) (p p' : Packet) (thr : Int) (bs : Bytes)
    (h : pack v gz p thr = .ok (bs, p')) :
    (p'.gzip = true ↔ (thr ≠ 0 ∧ thr ≤ p.body.length)) ∧
    (p'.gzip = true → gz.compress p.body = .ok p'.body) ∧ (p'.gzip = false → p'.body = p.body) := by
  rcases pack_packet v gz p p' thr bs h with ⟨hc, c, hcomp, hp⟩ | ⟨hc, hp⟩
  · have hi := (gzipCond_iff v thr p.body.length).mp hc
    subst hp
    simp [hi, hcomp]
  · have hi : ¬ (thr ≠ 0 ∧ thr ≤ (p.body.length : Int)) := by
      intro hx; have := (gzipCond_iff v thr p.body.length).mpr hx; rw [hc] at this; cases this
    subst hp
    refine ⟨?_, ?_, ?_⟩
    · constructor
      · intro hx; cases hx
      · intro hx; exact absurd hx hi
    · intro hx; cases hx
    · intro _; rfl

/-- the repaired case made explicit. A RELAYED packet: its gzip flag is set (as the decoder returns it
for a compressed frame — the body it carries is the decompressed content) and it is packed again with
a threshold that does not engage. It leaves Pack with the flag clear and the body untouched: the flag
was changed (`p'.gzip ≠ p.gzip`), nothing else was (`p' = { p with gzip := false }`) -/
theorem relayed_packet_flag (v : Ver) (gz : GzOracle) (p p' : Packet) (thr : Int) (bs : Bytes)
    (hg : p.gzip = true) (hc : gzipCond v thr p.body.length = false)
    (h : pack v gz p thr = .ok (bs, p')) :
    p'.gzip = false ∧ p'.body = p.body ∧ p'.gzip ≠ p.gzip ∧ p' = { p with gzip := false } := by
  rcases pack_packet v gz p p' thr bs h with ⟨hc', _⟩ | ⟨_, hp⟩
  · rw [hc] at hc'; cases hc'
  · subst hp
    refine ⟨rfl, rfl, ?_, rfl⟩
    rw [hg]; intro hx; cases hx

/-- ON THE WIRE: the gzip bit (bit 5) of byte 0 of the frame Pack emits IS the engagement of the
threshold rule — for every packet Pack accepts (so: of a known type), whatever its incoming gzip flag.
Stated three ways: arithmetically on byte 0, as the decoder extracts it (`ubGzip`), and on the frame of
the published layout that the output is (`C02.pack_conforms`: `bs = Spec.encode v (specOf v p')`) -/
theorem frame_flag_is_engagement (v : Ver) (gz : GzOracle) (p p' : Packet) (thr : Int) (bs : Bytes)
    (h : pack v gz p thr = .ok (bs, p')) :
    ∃ b0 rest, bs = b0 :: rest ∧
      (b0.toNat / 32 % 2 = 1 ↔ (thr ≠ 0 ∧ thr ≤ p.body.length)) ∧
      (ubGzip v b0 = 1 ↔ (thr ≠ 0 ∧ thr ≤ p.body.length)) ∧
      ((specOf v p').gzip = 1 ↔ (thr ≠ 0 ∧ thr ≤ p.body.length)) := by
  obtain ⟨hflag, _, _⟩ := gzip_flag_iff v gz p p' thr bs h
  obtain ⟨t, rest, ht, hbs⟩ := pack_byte0 v gz p p' thr bs h
  refine ⟨_, rest, hbs, ?_, ?_, ?_⟩
  · rw [← hflag, UInt8.toNat_ofNat']
    cases p'.verify <;> cases p'.gzip <;> rcases ht with rfl | rfl | rfl <;> decide
  · rw [← hflag]
    obtain ⟨_, _, e3, _⟩ := b0_fields v t (if p'.verify then 1 else 0) (if p'.gzip then 1 else 0) 0
      (by rcases ht with rfl | rfl | rfl <;> decide) (by split <;> decide) (by split <;> decide) (by decide)
    rw [e3]
    cases p'.gzip <;> decide
  · rw [← hflag]
    simp only [specOf]
    cases p'.gzip <;> decide

/-! non-vacuity -/
example : gzipCond .v1 1024 1024 = true ∧ gzipCond .v1 1024 1023 = false ∧ gzipCond .v2 0 5000 = false ∧
    gzipCond .v2 (-1) 0 = true := by decide
example : Gzip.allocDecompress [0x1f, 0x8b, 8, 0, 0xff, 0xff, 0xff, 0x7f] ≤ 8 * 1032 + 512 := by decide

/-! non-vacuity of the relayed case. `relayed`: a push packet as a decoder returns it for a compressed
frame (gzip flag set, the body the decompressed content, 3 bytes). `idGz`: the identity "compressor"
(the one of C01's examples), which is Sound. -/

def idGz : GzOracle := { compress := fun x => .ok x, read := fun c => some (c, true) }
def relayed : Packet := { type := .push, cmd := 7, gzip := true, body := [1, 2, 3] }

example : idGz.Sound := fun x => ⟨x, rfl, rfl⟩

/-- v1, threshold 0 (never compress): the frame's byte 0 is 0x03 — gzip bit (bit 5, mask 0x20) CLEAR
although the packet came in flagged —, the body goes out as it is, and `UnpackBytes` returns it -/
example :
    pack .v1 idGz relayed 0 = .ok ([0x03, 7, 0, 0, 3, 1, 2, 3], { relayed with gzip := false }) ∧
    (0x03 : UInt8) &&& 0x20 = 0 ∧ (0x03 : UInt8).toNat / 32 % 2 = 0 ∧
    unpackBytes .v1 idGz 0 [0x03, 7, 0, 0, 3, 1, 2, 3] = .ok { type := .push, cmd := 7, body := [1, 2, 3] } := by decide

/-- v1, threshold 3 ≤ 3 bytes (engages): byte 0 is 0x23 — gzip bit SET -/
example :
    pack .v1 idGz relayed 3 = .ok ([0x23, 7, 0, 0, 3, 1, 2, 3], relayed) ∧
    (0x23 : UInt8) &&& 0x20 = 0x20 ∧ (0x23 : UInt8).toNat / 32 % 2 = 1 ∧
    unpackBytes .v1 idGz 0 [0x23, 7, 0, 0, 3, 1, 2, 3] = .ok relayed := by decide

/-- v2 (two more header bytes: metadata_len = 0), threshold 0: gzip bit clear, body returned.
(`decide +kernel`: `pack .v2` runs the metadata block's merge sort, which only the kernel unfolds.) -/
example :
    pack .v2 idGz relayed 0 = .ok ([0x03, 7, 0, 0, 0, 0, 3, 1, 2, 3], { relayed with gzip := false }) ∧
    (0x03 : UInt8) &&& 0x20 = 0 ∧
    unpackBytes .v2 idGz 0 [0x03, 7, 0, 0, 0, 0, 3, 1, 2, 3] = .ok { type := .push, cmd := 7, body := [1, 2, 3] } := by
  decide +kernel

/-- v2, threshold 3 (engages): gzip bit set -/
example :
    pack .v2 idGz relayed 3 = .ok ([0x23, 7, 0, 0, 0, 0, 3, 1, 2, 3], relayed) ∧
    (0x23 : UInt8) &&& 0x20 = 0x20 ∧
    unpackBytes .v2 idGz 0 [0x23, 7, 0, 0, 0, 0, 3, 1, 2, 3] = .ok relayed := by
  decide +kernel

/-- the hypotheses of `relayed_packet_flag` are jointly satisfiable (both versions), and its conclusion
is what the first and third example show -/
example : relayed.gzip = true ∧ gzipCond .v1 0 relayed.body.length = false ∧ gzipCond .v2 0 relayed.body.length = false ∧
    (pack .v1 idGz relayed 0).isOk = true := by decide

end OAP.C10
