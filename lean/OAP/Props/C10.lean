/-
C10 — Gzip transparency and integrity. The glue of go/gzip/gzip.go around compress/gzip
(an oracle, `GzOracle`) and the frame-level threshold rule. Property theorems only.
-/
import OAP.Model.Frame
namespace OAP.C10
open OAP OAP.Frame

/-- Compress then Decompress is the identity (under the oracle's soundness assumption) -/
theorem decompress_compress (gz : GzOracle) (hs : gz.Sound) (x : Bytes) :
    ∃ c, gz.compress x = .ok c ∧ Gzip.decompress gz c = .ok x := by
  obtain ⟨c, h1, h2⟩ := hs x
  exact ⟨c, h1, by simp [Gzip.decompress, h2]⟩

/-- Decompress succeeds ONLY for a complete, checksum-valid stream, and then returns its full content -/
theorem decompress_ok_iff (gz : GzOracle) (bs out : Bytes) :
    Gzip.decompress gz bs = .ok out ↔ gz.read bs = some (out, true) := by
  unfold Gzip.decompress
  constructor
  · intro h
    split at h
    · rename_i p hp; cases h; exact hp
    · cases h
  · intro h; simp [h]

/-- anything else is an error: never a truncated or altered prefix returned as success, never a panic -/
theorem decompress_err_otherwise (gz : GzOracle) (bs : Bytes) (h : ∀ out, gz.read bs ≠ some (out, true)) :
    ∃ e, Gzip.decompress gz bs = .err e := by
  unfold Gzip.decompress
  split
  · rename_i p hp; exact absurd hp (h p)
  · exact ⟨_, rfl⟩

/-- the buffer Decompress asks for is bounded by the input actually supplied times the format's
maximum expansion ratio — whatever the (untrusted) ISIZE trailer says -/
theorem alloc_gzip (bs : Bytes) : Gzip.allocDecompress bs ≤ bs.length * Gzip.maxExpansion + Gzip.minRead := by
  unfold Gzip.allocDecompress
  generalize bs.length * Gzip.maxExpansion = cap
  simp only
  split
  · split <;> omega
  · omega

/-- the threshold rule of the extracted condition: compress exactly when thr ≠ 0 and the body reaches it -/
theorem gzipCond_iff (v : Ver) (thr : Int) (n : Nat) :
    gzipCond v thr n = true ↔ (thr ≠ 0 ∧ thr ≤ n) := by
  cases v <;> simp [gzipCond, Gen.v1GzipCond, Gen.v2GzipCond]

private theorem bind_ok_inv {α β} (r : Res α) (f : α → Res β) (x : β) (h : (r >>= f) = .ok x) :
    ∃ a, r = .ok a ∧ f a = .ok x := by
  cases r with
  | ok a => exact ⟨a, rfl, h⟩
  | err e => cases h
  | panic w => cases h

/-- the packet as it leaves Pack: either untouched, or with the compressor's output as body and the flag set -/
theorem pack_packet (v : Ver) (gz : GzOracle) (p p' : Packet) (thr : Int) (bs : Bytes)
    (h : pack v gz p thr = .ok (bs, p')) :
    (gzipCond v thr p.body.length = true ∧ ∃ c, gz.compress p.body = .ok c ∧ p' = { p with body := c, gzip := true }) ∨
    (gzipCond v thr p.body.length = false ∧ p' = p) := by
  unfold pack at h
  obtain ⟨p1, h1, h2⟩ := bind_ok_inv _ _ _ h
  have hp' : p' = p1 := by
    simp only at h2
    by_cases hl : p1.body.length > Gen.v1_MaxBodyLength
    · simp [hl] at h2
    · simp only [hl, ↓reduceIte] at h2
      obtain ⟨hd, _, h3⟩ := bind_ok_inv _ _ _ h2
      cases h3; rfl
  subst hp'
  by_cases hc : gzipCond v thr p.body.length = true
  · left
    refine ⟨hc, ?_⟩
    simp only [hc, ↓reduceIte] at h1
    cases hcomp : gz.compress p.body with
    | ok c => rw [hcomp] at h1; cases h1; exact ⟨c, rfl, rfl⟩
    | err e => rw [hcomp] at h1; cases h1
    | panic w => rw [hcomp] at h1; cases h1
  · right
    have hc' : gzipCond v thr p.body.length = false := by simpa using hc
    simp only [hc', Bool.false_eq_true, ↓reduceIte] at h1
    cases h1; exact ⟨hc', rfl⟩

/-- frame level: a packet whose gzip flag is initially clear leaves Pack flagged exactly when the
threshold rule engaged, and then its body is what the compressor returned -/
theorem gzip_flag_iff (v : Ver) (gz : GzOracle) (p p' : Packet) (thr : Int) (bs : Bytes)
    (h0 : p.gzip = false) (h : pack v gz p thr = .ok (bs, p')) :
    (p'.gzip = true ↔ (thr ≠ 0 ∧ thr ≤ p.body.length)) ∧
    (p'.gzip = true → gz.compress p.body = .ok p'.body) ∧ (p'.gzip = false → p'.body = p.body) := by
  rcases pack_packet v gz p p' thr bs h with ⟨hc, c, hcomp, hp⟩ | ⟨hc, hp⟩
  · have hi := (gzipCond_iff v thr p.body.length).mp hc
    subst hp
    simp [hi, hcomp]
  · have hi : ¬ (thr ≠ 0 ∧ thr ≤ (p.body.length : Int)) := by
      intro hx; have := (gzipCond_iff v thr p.body.length).mpr hx; rw [hc] at this; cases this
    subst hp
    refine ⟨?_, ?_, ?_⟩
    · simp only [h0]; constructor
      · intro hx; cases hx
      · intro hx; exact absurd hx hi
    · intro hx; rw [h0] at hx; cases hx
    · intro _; rfl

/-! non-vacuity -/
example : gzipCond .v1 1024 1024 = true ∧ gzipCond .v1 1024 1023 = false ∧ gzipCond .v2 0 5000 = false ∧
    gzipCond .v2 (-1) 0 = true := by decide
example : Gzip.allocDecompress [0x1f, 0x8b, 8, 0, 0xff, 0xff, 0xff, 0x7f] ≤ 8 * 1032 + 512 := by decide

end OAP.C10
