/-
C05 — Responses are matched to the right request. Property theorems only.
Every statement is for EVERY reachable state of the Waiters view: any number of concurrent calls, any
order of the peer's answers, duplicated / late / unknown-id responses (all just `dispatch` actions of
arbitrary packets from arbitrary connections at arbitrary times), fail-alls and reconnects.
-/
import OAP.Proofs.Waiters
import OAP.Model.PacketErr
import OAP.Gen.Facts
namespace OAP.C05
open OAP OAP.Waiters

/-- T2 structure facts, regenerated from go/client on every run (the operations themselves, in source order): the waiter table is only touched under its mutex; the dispatcher's hand-off is a non-blocking select/send/default; routing order control → push → response -/
theorem source_order :
    Gen.seq_client_register = ["c.recvsMu.Lock", "c.recvsMu.Unlock"] ∧
    Gen.seq_client_unregister = ["c.recvsMu.Lock", "c.recvsMu.Unlock"] ∧
    Gen.seq_client_handleResponse = ["c.recvsMu.RLock", "defer:c.recvsMu.RUnlock", "select", "send:w.ch", "default"] ∧
    Gen.seq_client_onPacket = ["c.reconnecting", "c.handleControl", "c.handlePush", "c.handleResponse"] := by
  decide


/-- a call returns only a response that carries ITS OWN request id … and that arrived on the connection its
request was written to (`own_connection`: a stale response of an old connection cannot satisfy a new call that
reuses the id — ids restart on every connection) -/
theorem do_returns_own (s : St) (hs : Reachable s) (i c r : Nat) (p : Pkt)
    (hd : s.call i = .done c r (some p)) : p.rid = r ∧ p.conn = c :=
  (inv_reachable s hs).doneOk i c r p hd

/-- the slot of a call only ever holds a response addressed to it -/
theorem slot_is_own (s : St) (hs : Reachable s) (i c r : Nat) (p : Pkt)
    (hf : s.chan i = .full p) (hw : s.call i = .written c r ∨ s.call i = .registered c r) : p.rid = r ∧ p.conn = c := by
  rcases hw with hw | hw
  · exact (inv_reachable s hs).fullW i p c r hf hw
  · exact (inv_reachable s hs).fullR i p c r hf hw

/-- FIRST WINS: once a response sits in the call's slot, no other action than the call's own replaces it:
later responses for the same id (duplicates, late answers) are dropped, never delivered elsewhere -/
theorem first_wins (s s' : St) (a : Act) (i : Nat) (p : Pkt) (hst : step s a = some s')
    (hf : s.chan i = .full p) : s'.chan i = .full p ∨ (∃ k, a = .start i k) ∨ a = .wake i := by
  cases a with
  | start j k =>
    simp only [step] at hst
    split at hst
    · split at hst
      · simp at hst
      · simp only [Option.some.injEq] at hst; subst hst
        by_cases hij : i = j
        · right; left; exact ⟨k, by rw [hij]⟩
        · left; simp [upd, hij, hf]
    · simp at hst
  | write j ok =>
    simp only [step] at hst
    split at hst
    · split at hst <;> (simp only [Option.some.injEq] at hst; subst hst; left; exact hf)
    · simp at hst
  | dispatch q =>
    left
    simp only [step] at hst
    split at hst
    · rename_i j c hr
      split at hst
      · split at hst
        · rename_i he
          simp only [Option.some.injEq] at hst; subst hst
          by_cases hij : i = j
          · subst hij; rw [hf] at he; cases he
          · simp [upd, hij, hf]
        · simp only [Option.some.injEq] at hst; subst hst; exact hf
      · simp only [Option.some.injEq] at hst; subst hst; exact hf
    · simp only [Option.some.injEq] at hst; subst hst; exact hf
  | wake j =>
    simp only [step] at hst
    split at hst
    · split at hst
      · simp only [Option.some.injEq] at hst; subst hst
        by_cases hij : i = j
        · right; right; rw [hij]
        · left; simp [upd, hij, hf]
      · simp only [Option.some.injEq] at hst; subst hst; left; exact hf
      · simp at hst
    · simp at hst
  | giveUp j =>
    left
    simp only [step] at hst
    split at hst
    · simp only [Option.some.injEq] at hst; subst hst; exact hf
    · simp at hst
  | finish j =>
    left
    simp only [step] at hst
    split at hst
    · simp only [Option.some.injEq] at hst; subst hst; exact hf
    · simp at hst
  | failAll =>
    left
    simp only [step, Option.some.injEq] at hst; subst hst
    simp [closeRegistered, hf]
  | newConn =>
    left
    simp only [step, Option.some.injEq] at hst; subst hst; exact hf

/-- a response is delivered at most to the one call registered under its id for its connection; every other
call's slot is untouched by a dispatch -/
theorem dispatch_touches_one (s s' : St) (p : Pkt) (hst : step s (.dispatch p) = some s') (j : Nat)
    (hj : s.recvs p.rid ≠ some (j, p.conn)) : s'.chan j = s.chan j := by
  simp only [step] at hst
  split at hst
  · rename_i i c hr
    split at hst
    · rename_i hc
      split at hst
      · simp only [Option.some.injEq] at hst; subst hst
        have : j ≠ i := by intro e; subst e; subst hc; exact hj hr
        simp [upd, this]
      · simp only [Option.some.injEq] at hst; subst hst; rfl
    · simp only [Option.some.injEq] at hst; subst hst; rfl
  · simp only [Option.some.injEq] at hst; subst hst; rfl

/-- ERROR MAPPING: a response with non-zero status is surfaced as a typed error carrying that status and the
code/message of the error body, or the code-500 fallback; status zero (and non-responses) is success -/
theorem err_mapping (dec : ErrDecoder) (p : Packet) (hp : p.type = .response) :
    (Packet.err dec p = none ↔ p.status = 0) ∧
    (p.status ≠ 0 → ∃ e, Packet.err dec p = some e ∧ e.status = p.status ∧
      ((∃ c m, dec p.codec p.body = some (c, m) ∧ e.code = c ∧ e.msg = m) ∨
       (dec p.codec p.body = none ∧ e.code = 500 ∧ e.msg = "unknown error, cant unmarshal body"))) := by
  have hs : UInt8.ofNat Gen.protocol_StatusSuccess = 0 := rfl
  unfold Packet.err
  rw [hs]
  simp only [hp, ne_eq, not_true_eq_false, ↓reduceIte]
  by_cases h0 : p.status = 0
  · simp [h0]
  · simp only [h0, ↓reduceIte]
    cases hd : dec p.codec p.body with
    | none => simp [fallbackCode, fallbackMsg]
    | some cm => obtain ⟨c, m⟩ := cm; simp

/-! non-vacuity: the stale-response history (the defect D16 of the pinned tree) — a stale response of connection 0
with id 1 is NOT delivered to the call that reuses id 1 on connection 1 -/
example :
    (run init [.start 7 1, .write 7 true, .failAll, .newConn, .wake 7, .finish 7,   -- call 7 on conn 0 fails
               .start 8 1, .write 8 true,                                   -- call 8 takes id 1 on conn 1
               .dispatch ⟨0, 1, 99⟩,                                      -- stale answer from conn 0
               .dispatch ⟨1, 1, 42⟩, .dispatch ⟨1, 1, 43⟩, .wake 8, .dispatch ⟨1, 1, 44⟩, .finish 8]).map (fun s => (s.call 7, s.call 8))
      = some (.done 0 1 none, .done 1 1 (some ⟨1, 1, 42⟩)) := by
  decide


/-- T2 structure fact shared with C19: the ids of concurrent calls are distinct because the generator is one atomic add-and-fetch
(two calls with one id would overwrite each other's waiter: a lost or mis-routed response) -/
theorem id_generator_atomic :
    Gen.stmts_GetRequestIDGen = ["var id uint32", "return func() uint32 { return atomic.AddUint32(&id, 1) }"] := by
  decide

end OAP.C05
