/-
C02 — Wire-format conformance to the published frame layout (OAP/Spec/Layout.lean).
Property theorems only.
-/
import OAP.Model.Frame
import OAP.Spec.Layout
import OAP.Proofs.Frame
import OAP.Props.C09
import OAP.Proofs.GenFuncsHdr
namespace OAP.C02
open OAP OAP.Frame

/-- an empty input is rejected -/
theorem decode_rejects_empty (v : Ver) (gz : GzOracle) (codec : UInt8) :
    ∃ e, unpackBytes v gz codec [] = .err e := by
  simp [unpackBytes, Header.unpackBytes]

/-- a frame whose type nibble is not request/response/push is rejected, whatever follows -/
theorem decode_rejects_unknown_type (v : Ver) (gz : GzOracle) (codec : UInt8) (b : UInt8) (rest : Bytes)
    (h : isUnknown (ubType v b) = true) : ∃ e, unpackBytes v gz codec (b :: rest) = .err e := by
  simp [unpackBytes, Header.unpackBytes, Bytes.idx, h]

/-- the type nibble is the low nibble of byte 0: exactly the nibbles 1, 2, 3 are known -/
theorem known_nibbles : ∀ b : Fin 256,
    (isUnknown (ubType .v1 (UInt8.ofFin b)) = !(b.val % 16 == 1 || b.val % 16 == 2 || b.val % 16 == 3)) ∧
    (isUnknown (ubType .v2 (UInt8.ofFin b)) = !(b.val % 16 == 1 || b.val % 16 == 2 || b.val % 16 == 3)) := by
  decide +kernel

/-- ENCODER DIRECTION: whatever `Pack` emits — any packet, version, gzip threshold and gzip oracle —
is byte for byte the published layout of the packet as it leaves Pack (`specOf`: reserve = 0, cmd
truncated to 8 bits, v2 metadata block = sorted MarshalValues(65535), body as on the wire) -/
theorem pack_conforms (v : Ver) (gz : GzOracle) (p p' : Packet) (thr : Int) (bs : Bytes)
    (h : pack v gz p thr = .ok (bs, p')) : bs = Spec.encode v (specOf v p') :=
  (pack_ok_inv v gz p p' thr bs h).2.2.2

/-- DECODER DIRECTION: every frame of the published layout with a known type, in-range fields and
consistent variable parts (`ValidFrame`, in OAP/Proofs/Frame.lean) is accepted by the one-shot decoder
and decoded to exactly the layout's field values (`packetOf`) — every type nibble in {1,2,3}, every
flag combination, every reserve value 0..3, every field extreme, both versions -/
theorem decode_accepts (v : Ver) (gz : GzOracle) (codec : UInt8) (f : Spec.Frame) (content : Bytes)
    (ps : List Metadata.Pair) (hv : ValidFrame v gz f content ps) :
    unpackBytes v gz codec (Spec.encode v f) = .ok (packetOf f codec content ps) :=
  unpackBytes_spec v gz codec f content ps hv

/-- the reserve bits are ignored by the decoder: same packet for every reserve value -/
theorem decode_ignores_reserve (v : Ver) (gz : GzOracle) (codec : UInt8) (f : Spec.Frame) (content : Bytes)
    (ps : List Metadata.Pair) (hv : ValidFrame v gz f content ps) (r : Nat) (hr : r ≤ 3) :
    unpackBytes v gz codec (Spec.encode v { f with reserve := r }) = unpackBytes v gz codec (Spec.encode v f) := by
  have hv' : ValidFrame v gz { f with reserve := r } content ps :=
    { type := hv.type, verify := hv.verify, gzip := hv.gzip, reserve := hr, cmd := hv.cmd, rid := hv.rid,
      timeout := hv.timeout, status := hv.status, nonce := hv.nonce, sig := hv.sig, body := hv.body, md1 := hv.md1,
      mdlen := hv.mdlen, md2 := hv.md2, gz1 := hv.gz1, gz0 := hv.gz0 }
  rw [decode_accepts v gz codec _ content ps hv', decode_accepts v gz codec f content ps hv]
  rfl

/-- every strict prefix of a valid frame is rejected with an error (never accepted, never a panic) -/
theorem decode_rejects_strict_prefix (v : Ver) (gz : GzOracle) (codec : UInt8) (f : Spec.Frame) (content : Bytes)
    (ps : List Metadata.Pair) (hv : ValidFrame v gz f content ps) (k : Nat) (hk : k < (Spec.encode v f).length) :
    ∃ e, unpackBytes v gz codec ((Spec.encode v f).take k) = .err e :=
  unpackBytes_prefix v gz codec f content ps hv k hk

/-- for ANY input: acceptance needs the whole frame — a known type nibble, the complete header and,
after it, at least the announced metadata block, the announced body and (verify bit set) the 24-byte
trailer. (`mdLenOf v H` is 0 for v1 and the header's metadata_len for v2.) -/
theorem decode_needs_whole_frame (v : Ver) (gz : GzOracle) (codec : UInt8) (bs : Bytes) (p : Packet)
    (h : unpackBytes v gz codec bs = .ok p) :
    ∃ b0 rest H, bs = b0 :: rest ∧ isUnknown (ubType v b0) = false ∧
      Header.unpackBytes v bs = .ok (H, bs.drop (hdrLen v (ubType v b0))) ∧
      hdrLen v (ubType v b0) + mdLenOf v H + H.bodyLength.toNat +
        (if (ubVerify v b0 == 1) = true then 24 else 0) ≤ bs.length :=
  unpackBytes_ok_length v gz codec bs p h

/-! non-vacuity: a v2 response with verify, reserve = 2, one metadata pair, a 3-byte body -/

def exFrame : Spec.Frame :=
  { type := 2, verify := 1, gzip := 0, reserve := 2, cmd := 7, rid := 0x01020304, status := 9
    md := [1, 0x61, 1, 0x78], body := [1, 2, 3], nonce := 5, sig := List.replicate 16 0xAA }

theorem exFrame_valid (gz : GzOracle) : ValidFrame .v2 gz exFrame [1, 2, 3] [([0x61], [0x78])] :=
  { type := by decide, verify := by decide, gzip := by decide, reserve := by decide, cmd := by decide
    rid := by decide, timeout := by decide, status := by decide, nonce := by decide, sig := by decide
    body := by decide, mdlen := by decide
    md1 := by intro h; cases h
    md2 := fun _ => C09.decode_complete [([0x61], [0x78])] (by decide)
    gz1 := by intro h; cases h
    gz0 := fun _ => rfl }

example : Spec.encode .v2 exFrame =
    [0x92, 7, 1, 2, 3, 4, 9, 0, 4, 0, 0, 3, 1, 0x61, 1, 0x78, 1, 2, 3, 0, 0, 0, 0, 0, 0, 0, 5] ++ List.replicate 16 0xAA := by
  decide

example (gz : GzOracle) : unpackBytes .v2 gz 1 (Spec.encode .v2 exFrame) =
    .ok { type := .response, cmd := 7, rid := 0x01020304, status := 9, verify := true, nonce := 5
          signature := List.replicate 16 0xAA, values := [([0x61], [0x78])], codec := 1, body := [1, 2, 3] } := by
  rw [decode_accepts .v2 gz 1 exFrame _ _ (exFrame_valid gz)]; decide

/-- … and a compressed v1 request: the oracle's verdict on the wire body is what the packet carries -/
example : ValidFrame .v1 { compress := fun _ => .err "", read := fun c => if c = [9, 9] then some ([1, 2, 3, 4], true) else none }
    { type := 1, verify := 0, gzip := 1, reserve := 3, cmd := 255, rid := 4294967295, timeout := 65535, body := [9, 9] }
    [1, 2, 3, 4] [] :=
  { type := by decide, verify := by decide, gzip := by decide, reserve := by decide, cmd := by decide
    rid := by decide, timeout := by decide, status := by decide, nonce := by decide, sig := by decide
    body := by decide, md1 := fun _ => ⟨rfl, rfl⟩, mdlen := by decide
    md2 := by intro h; cases h
    gz1 := fun _ => by decide
    gz0 := by intro h; cases h }

/-! ### generated translations of the header codec (T2, function level)

`Gen.Fn.v1_Header_Pack`, `v2_Header_Pack`, `v1_Header_UnpackBytes`, `v2_Header_UnpackBytes` are rewritten from go/v1/header.go and
go/v2/v2_header.go by every run: the buffer allocated by `make`, every `data[idx] = …`, `binary.BigEndian.PutUint16/32`, the running
offset, the type tests, the length guards, every `frame[idx]` and slice — with `panic` where Go would panic. `pack_conforms` and the
decoder theorems are about the model's list-building `Header.pack` / `Header.unpackBytes`; these say they are the same functions. -/

/-- `func (h Header) Pack() ([]byte, error)` of v1 and v2 as translated: the same bytes, the same two errors, and no index or slice
out of range for any header -/
theorem header_pack_is_generated (h : Header) :
    Gen.Fn.v1_Header_Pack (GenFuncs.v1G h) = Header.pack .v1 h ∧ Gen.Fn.v2_Header_Pack (GenFuncs.v2G h) = Header.pack .v2 h :=
  ⟨GenFuncs.v1_header_pack_gen h, GenFuncs.v2_header_pack_gen h⟩

/-- `func (h *Header) UnpackBytes(ctx, frame) (body []byte, err error)` of v1 and v2 as translated, on a fresh (pool-reset) header:
the same header fields, the same rest of the frame, the same errors, and no index or slice out of range for ANY byte string -/
theorem header_unpackBytes_is_generated (frame : Bytes) :
    (Gen.Fn.v1_Header_UnpackBytes {} frame).map (fun p => (GenFuncs.v1M p.1, p.2)) = Header.unpackBytes .v1 frame ∧
    (Gen.Fn.v2_Header_UnpackBytes {} frame).map (fun p => (GenFuncs.v2M p.1, p.2)) = Header.unpackBytes .v2 frame :=
  ⟨GenFuncs.v1_header_unpackBytes_gen frame, GenFuncs.v2_header_unpackBytes_gen frame⟩

/-- non-vacuity: the translated v2 `Pack` on a concrete response header gives the layout's bytes -/
example : Gen.Fn.v2_Header_Pack { type := 2, verify := 1, cmdCode := 7, requestId := 0x01020304, statusCode := 5, metadataLength := 0x0102, bodyLength := 0x030405 }
    = .ok [0x12, 7, 1, 2, 3, 4, 5, 1, 2, 3, 4, 5] := by decide

/-- the header functions of both versions were inside the translatable subset in this run -/
theorem functions_translated :
    ["v1.Header.IsUnknownPacket", "v1.Header.length", "v1.Header.Pack", "v1.Header.UnpackBytes",
     "v2.Header.length", "v2.Header.Pack", "v2.Header.UnpackBytes"].all (fun f => Gen.Fn.translated.contains f) = true := by decide

end OAP.C02
