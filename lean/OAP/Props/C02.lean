/-
C02 — Wire-format conformance to the published frame layout (OAP/Spec/Layout.lean).
Property theorems only.
-/
import OAP.Model.Frame
import OAP.Spec.Layout
namespace OAP.C02
open OAP OAP.Frame

/-- an empty input is rejected -/
theorem decode_rejects_empty (v : Ver) (gz : GzOracle) (codec : UInt8) :
    ∃ e, unpackBytes v gz codec [] = .err e := by
  simp [unpackBytes, Header.unpackBytes]

/-- a frame whose type nibble is not request/response/push is rejected, whatever follows -/
theorem decode_rejects_unknown_type (v : Ver) (gz : GzOracle) (codec : UInt8) (b : UInt8) (rest : Bytes)
    (h : isUnknown (ubType v b) = true) : ∃ e, unpackBytes v gz codec (b :: rest) = .err e := by
  simp [unpackBytes, Header.unpackBytes, Bytes.idx, h]

/-- the type nibble is the low nibble of byte 0: exactly the nibbles 1, 2, 3 are known -/
theorem known_nibbles : ∀ b : Fin 256,
    (isUnknown (ubType .v1 (UInt8.ofFin b)) = !(b.val % 16 == 1 || b.val % 16 == 2 || b.val % 16 == 3)) ∧
    (isUnknown (ubType .v2 (UInt8.ofFin b)) = !(b.val % 16 == 1 || b.val % 16 == 2 || b.val % 16 == 3)) := by
  decide +kernel

end OAP.C02
