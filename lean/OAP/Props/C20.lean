/-
C20 — TCP and WebSocket transports are behaviourally equivalent. Property theorems only (view WsMap).
-/
import OAP.Model.Client.WsMap
import OAP.Proofs.WsReading
namespace OAP.C20
open OAP OAP.WsMap

/-- outbound mapping: a heartbeat request travels as a ping control frame carrying the packet body, a close packet as a
close control frame carrying the body, every other packet as exactly one binary message holding the packed frame -/
theorem ws_control_mapping_out (pack : Packet → Res Bytes) (p : Packet) :
    (p.cmd = cmdHeartbeat ∧ p.type = .request → wsOutbound pack p = .ok (.ping p.body)) ∧
    (p.cmd = cmdClose → ¬ (p.cmd = cmdHeartbeat ∧ p.type = .request) → wsOutbound pack p = .ok (.close 0 p.body)) ∧
    (p.cmd ≠ cmdClose → ¬ (p.cmd = cmdHeartbeat ∧ p.type = .request) → wsOutbound pack p = (pack p).map .binary) := by
  refine ⟨?_, ?_, ?_⟩
  · intro h; simp [wsOutbound, h]
  · intro h1 h2; unfold wsOutbound; rw [if_neg h2, if_pos h1]
  · intro h1 h2; unfold wsOutbound; rw [if_neg h2, if_neg h1]

/-- inbound mapping, field by field: ping → pong reply + heartbeat request carrying the payload; pong → heartbeat
response whose request id is the heartbeat id of the body; close(code, reason) → close packet, then the read error -/
theorem ws_control_mapping_in (dec : Bytes → Res Packet) (hbId : Bytes → Option UInt32) (body reason : Bytes) (code : Nat) (id : UInt32) :
    wsStep dec hbId (.heartbeatReq body) = [.autoReply "heartbeat" body, .packet .request cmdHeartbeat none 0 body] ∧
    (hbId body = some id → wsStep dec hbId (.heartbeatResp id body) = [.packet .response cmdHeartbeat (some id) 0 body]) ∧
    wsStep dec hbId (.close code reason) = [.closeByPeer code reason, .readError] := by
  refine ⟨rfl, ?_, rfl⟩
  intro h; simp [wsStep, h]

/-- a script is well-formed when every heartbeat answer carries its id in the body (what a genuine peer sends) -/
def WFScript (hbId : Bytes → Option UInt32) (s : List Step) : Prop :=
  ∀ id body, Step.heartbeatResp id body ∈ s → hbId body = some id

/-- TRANSPORT EQUIVALENCE: for every peer script expressible on both transports — any sequence of request / response /
push frames, heartbeats in both directions, peer-initiated close with any code and reason, undecodable frames, abrupt
drop — the application-level trace (packets handed to the client, with their type, command, id, status and body; close
notifications; the read error that starts the recovery; heartbeat answers) is THE SAME over TCP and over WebSocket -/
theorem transport_equiv (dec : Bytes → Res Packet) (hbId : Bytes → Option UInt32) (s : List Step)
    (wf : WFScript hbId s) : wsTrace dec hbId s = tcpTrace dec s := by
  unfold wsTrace tcpTrace
  congr 1
  induction s with
  | nil => rfl
  | cons st rest ih =>
    have wf' : WFScript hbId rest := fun id body h => wf id body (List.mem_cons_of_mem _ h)
    simp only [List.flatMap_cons, ih wf']
    congr 1
    cases st with
    | frame b => rfl
    | heartbeatReq body => rfl
    | heartbeatResp id body =>
      have := wf id body (List.mem_cons_self)
      simp [wsStep, tcpStep, this]
    | close code reason => rfl
    | garbage b => rfl
    | drop => rfl

/-! non-vacuity -/
example : WFScript (fun b => if b = [7] then some 7 else none) [.frame [1], .heartbeatResp 7 [7], .close 1000 [98], .drop] := by
  intro id body h
  simp at h
  obtain ⟨rfl, rfl⟩ := h
  rfl

end OAP.C20

/- ===== to append to OAP/Props/C20.lean (after `end OAP.C20`); add to the imports at the top of that file:
     import OAP.Proofs.WsReading
   (new files: OAP/Model/Client/WsReading.lean, OAP/Proofs/WsReading.lean; add both to OAP.lean) ===== -/

/-! ## C20 at reader level: the WebSocket reader goroutine against the TCP reader goroutine

`(*wsConn).reading` with the ping / pong / close handlers gorilla runs on it (model: OAP/Model/Client/WsReading.lean)
against `(*tcpConn).reading` (model: OAP/Model/Client/Reading.lean, C03 Layer 5). Both hand packets to the same
`addPacket`; "observable" here = the packets handed over, in order, and whether / why the reader ended. -/
namespace OAP.C20
open OAP OAP.Frame OAP.WsReading

/-- the WebSocket reader never panics — decoder, handlers, packet constructors — whatever arrives and in whatever order,
PROVIDED the context's codec can marshal `control.Close` (protobuf or JSON) -/
theorem ws_reader_total (v : Ver) (gz : GzOracle) (codec : UInt8) (env : Env)
    (hclose : ∀ code reason, ∃ b, env.closeBody code reason = .ok b) (evs : List WsEvent) (w : String) :
    (reading v gz codec env evs).stopped ≠ some (.panic w) :=
  WsReading.ws_reader_total v gz codec env hclose evs w

/-- … and the proviso is needed: the ONLY way it panics is a close frame arriving while it is still reading, with a
codec for which `MustNewPush` cannot marshal the close message (`Handshake.Codec` neither 1 nor 2) -/
theorem ws_reader_panic_only_from_close (v : Ver) (gz : GzOracle) (codec : UInt8) (env : Env) (evs : List WsEvent) (w : String)
    (h : (reading v gz codec env evs).stopped = some (.panic w)) :
    ∃ pre code reason post, evs = pre ++ .close code reason :: post ∧
      (reading v gz codec env pre).stopped = none ∧
      (env.closeBody code reason = .err w ∨ env.closeBody code reason = .panic w) :=
  WsReading.ws_reader_panic_only_from_close v gz codec env evs w h

/-- a text message is handled exactly like the binary message with the same payload -/
theorem ws_text_is_binary (v : Ver) (gz : GzOracle) (codec : UInt8) (env : Env) (evs : List WsEvent) :
    reading v gz codec env (evs.map asBinary) = reading v gz codec env evs :=
  reading_text_eq_binary v gz codec env evs

/-- RESPONSES, PUSHES, REQUESTS ARE THE SAME OVER BOTH. For any list of valid frames of the published layout: the
WebSocket reader given one frame per binary message and the TCP reader given the concatenation of the same frames under
ANY segmentation into socket reads hand the same packets, in the same order, to the client — the i-th is what
`UnpackBytes` returns on the i-th frame — and neither reports an error -/
theorem ws_reader_eq_tcp_on_frames (v : Ver) (gz : GzOracle) (codec : UInt8) (env : Env) (fs : List Spec.Frame)
    (hv : ∀ f ∈ fs, ∃ content ps, ValidFrame v gz f content ps)
    (rb0 : Ring) (wf : rb0.WF) (he : rb0.abs = [])
    (chunks : List Bytes) (hc : chunks.flatten = (fs.map (Spec.encode v)).flatten) :
    (reading v gz codec env ((fs.map (Spec.encode v)).map .binary)).pkts = (Reading.reading v gz codec rb0 chunks).pkts ∧
    (reading v gz codec env ((fs.map (Spec.encode v)).map .binary)).stopped = none ∧
    (Reading.reading v gz codec rb0 chunks).stopped = none ∧
    Forall₂ (fun f q => unpackBytes v gz codec (Spec.encode v f) = .ok q) fs
      (reading v gz codec env ((fs.map (Spec.encode v)).map .binary)).pkts :=
  WsReading.ws_reader_eq_tcp_on_frames v gz codec env fs hv rb0 wf he chunks hc

/-- ERRORS: a message the decoder rejects closes the WebSocket connection (as an undecodable frame closes the TCP one):
nothing is delivered for it nor for anything after it, the verdict is the decoder's error -/
theorem ws_reader_bad_message_closes (v : Ver) (gz : GzOracle) (codec : UInt8) (env : Env)
    (pre post : List WsEvent) (d : Bytes) (e : String)
    (hopen : (reading v gz codec env pre).stopped = none) (hbad : unpackBytes v gz codec d = .err e) :
    (reading v gz codec env (pre ++ .binary d :: post)).obs = ((reading v gz codec env pre).pkts, some (.decode e)) :=
  WsReading.ws_reader_bad_message_closes v gz codec env pre post d e hopen hbad

/-- … the TCP side in the same shape: after valid frames, ANY continuation `rest` of the byte stream is handled as the
read loop handles it from a fresh context — its packets, and its error as the verdict (`run`: the loop of C03 Layer 3,
equal to `feed` on every chunking) -/
theorem tcp_reader_frames_then (v : Ver) (gz : GzOracle) (codec : UInt8) (fs : List Spec.Frame) (qs : List Packet)
    (h : Forall₂ (Denotes v gz codec) fs qs) (rest : Bytes)
    (rb0 : Ring) (wf : rb0.WF) (he : rb0.abs = [])
    (chunks : List Bytes) (hc : chunks.flatten = (fs.map (Spec.encode v)).flatten ++ rest) :
    (Reading.reading v gz codec rb0 chunks).obs =
      (qs ++ (run v gz codec rest).1,
       if (run v gz codec rest).2.1 = .more then none else some (run v gz codec rest).2.1) :=
  WsReading.tcp_reader_frames_then v gz codec fs qs h rest rb0 wf he chunks hc

/-- … and on a frame with a type nibble that is not request / response / push both readers deliver the same packets
before it, nothing after it, and end with the same error -/
theorem both_readers_close_on_unknown_type (v : Ver) (gz : GzOracle) (codec : UInt8) (env : Env) (fs : List Spec.Frame)
    (qs : List Packet) (h : Forall₂ (Denotes v gz codec) fs qs) (b : UInt8) (t : Bytes)
    (hk : isUnknown (ubType v b) = true) (post : List WsEvent)
    (rb0 : Ring) (wf : rb0.WF) (he : rb0.abs = [])
    (chunks : List Bytes) (hc : chunks.flatten = (fs.map (Spec.encode v)).flatten ++ b :: t) :
    (reading v gz codec env ((fs.map (Spec.encode v)).map .binary ++ .binary (b :: t) :: post)).obs =
      (qs, some (.decode "invalid packet type")) ∧
    (Reading.reading v gz codec rb0 chunks).obs = (qs, some (.err "invalid packet type")) :=
  WsReading.both_readers_close_on_unknown_type v gz codec env fs qs h b t hk post rb0 wf he chunks hc

/-- PING / PONG / CLOSE ARE SURFACED LIKE THE CORRESPONDING FRAMES. The packets the three handlers build are exactly
what every decoder of the project returns for the heartbeat-request / heartbeat-response / close FRAME of the layout -/
theorem ws_control_packets_are_frame_packets (v : Ver) (gz : GzOracle) (codec : UInt8) (hbId : Bytes → Option UInt32)
    (rid : UInt32) (body : Bytes) (hb : body.length < 16777216) :
    unpackBytes v gz codec (Spec.encode v (hbReqFrame rid body)) = .ok (pingPacket codec rid body) ∧
    unpackBytes v gz codec (Spec.encode v (hbRespFrame ((hbId body).getD 0) 0 body)) = .ok (pongPacket codec hbId body) ∧
    unpackBytes v gz codec (Spec.encode v (closeFrame body)) = .ok (closePacket codec body) :=
  ⟨(hbReq_denotes v gz codec rid body hb).oneshot,
   (hbResp_denotes v gz codec _ 0 body hb).oneshot,
   (close_denotes v gz codec body hb).oneshot⟩

/-- … and `Pack` — the codec's own encoder, compression off — emits exactly those frames for them -/
theorem ws_control_packets_pack (v : Ver) (gz : GzOracle) (codec : UInt8) (hbId : Bytes → Option UInt32)
    (rid : UInt32) (body : Bytes) (hb : body.length < 16777216) :
    (pack v gz (pingPacket codec rid body) 0).map (·.1) = .ok (Spec.encode v (hbReqFrame rid body)) ∧
    (pack v gz (pongPacket codec hbId body) 0).map (·.1) = .ok (Spec.encode v (hbRespFrame ((hbId body).getD 0) 0 body)) ∧
    (pack v gz (closePacket codec body) 0).map (·.1) = .ok (Spec.encode v (closeFrame body)) := by
  have hg : ∀ n : Nat, gzipCond v 0 n = false := by intro n; cases v <;> rfl
  have hm : Metadata.marshalValues (Metadata.sortPairs []) 65535 = [] := by
    simp [Metadata.marshalValues, Metadata.sortPairs]
  have key : ∀ (p : Packet) (f : Spec.Frame), p.type ≠ .other → p.gzip = false → p.body.length < 16777216 →
      Spec.encode v (specOf v p) = Spec.encode v f → (pack v gz p 0).map (·.1) = .ok (Spec.encode v f) := by
    intro p f ht hz hl hf
    have hpre : packPre v gz p 0 = .ok p := by
      unfold packPre; rw [hg]
      simp only [Bool.false_eq_true, ↓reduceIte]
      cases p; simp_all
    have hok := (packTail_isOk v p).mpr ⟨ht, by omega⟩
    rw [pack_eq, hpre, Res.ok_bind]
    cases htl : packTail v p with
    | ok r =>
      obtain ⟨bs, p'⟩ := r
      obtain ⟨rfl, _, _, h4⟩ := packTail_ok v p p' bs htl
      simp only [Res.map]; rw [h4, hf]
    | err e => rw [htl] at hok; cases hok
    | panic w => rw [htl] at hok; cases hok
  refine ⟨key _ _ (by simp [pingPacket]) rfl hb ?_, key _ _ (by simp [pongPacket]) rfl hb ?_, key _ _ (by simp [closePacket]) rfl hb ?_⟩
  · cases v <;> simp [Spec.encode, specOf, pingPacket, hbReqFrame, WsReading.cmdHeartbeat, WsMap.cmdHeartbeat, Metadata.marshalMap, hm] <;> rfl
  · cases v <;> simp [Spec.encode, specOf, pongPacket, hbRespFrame, WsReading.cmdHeartbeat, WsMap.cmdHeartbeat, Metadata.marshalMap, hm] <;> rfl
  · cases v <;> simp [Spec.encode, specOf, closePacket, closeFrame, WsReading.cmdClose, WsMap.cmdClose, Metadata.marshalMap, hm] <;> rfl

/-- THE SAME PEER SCRIPT OVER BOTH TRANSPORTS. Data frames, peer heartbeats and answers to the client's heartbeats in any
order; over WebSocket as binary messages / ping / pong control frames, over TCP as frames cut into socket reads in any
way. Both readers stay open and deliver the same number of packets in the same order; the i-th packets are equal except
(`SamePacket`): the request id of a PEER HEARTBEAT is drawn locally over WebSocket and is the peer's over TCP; request id
and status of a HEARTBEAT ANSWER are (heartbeat id in the payload — 0 if none —, 0) over WebSocket and the frame header's
over TCP. Every ping payload is written back as a pong, in order. -/
theorem ws_script_eq_tcp (v : Ver) (gz : GzOracle) (codec : UInt8) (env : Env) (hpong : ∀ k, env.pongOk k = true)
    (items : List Item) (hok : ∀ i ∈ items, i.Ok v gz)
    (rb0 : Ring) (wf : rb0.WF) (he : rb0.abs = [])
    (chunks : List Bytes) (hc : chunks.flatten = ((items.map Item.tcp).map (Spec.encode v)).flatten) :
    Forall₂ (SamePacket env.hbId) (reading v gz codec env (items.map (Item.ws v))).pkts
      (Reading.reading v gz codec rb0 chunks).pkts ∧
    (reading v gz codec env (items.map (Item.ws v))).stopped = none ∧
    (Reading.reading v gz codec rb0 chunks).stopped = none ∧
    (reading v gz codec env (items.map (Item.ws v))).pongs = pingBodies items :=
  WsReading.ws_script_eq_tcp v gz codec env hpong items hok rb0 wf he chunks hc

/-- … for a GENUINE script — no peer heartbeats; every heartbeat answer has status 0 and its frame header carries the
heartbeat id of its body, "carrying the heartbeat id as request id" — the delivered packets are EQUAL -/
theorem ws_script_eq_tcp_genuine (v : Ver) (gz : GzOracle) (codec : UInt8) (env : Env)
    (items : List Item) (hok : ∀ i ∈ items, i.Ok v gz) (hg : ∀ i ∈ items, i.Genuine env.hbId)
    (rb0 : Ring) (wf : rb0.WF) (he : rb0.abs = [])
    (chunks : List Bytes) (hc : chunks.flatten = ((items.map Item.tcp).map (Spec.encode v)).flatten) :
    (reading v gz codec env (items.map (Item.ws v))).obs = ((Reading.reading v gz codec rb0 chunks).pkts, none) ∧
    (Reading.reading v gz codec rb0 chunks).stopped = none :=
  WsReading.ws_script_eq_tcp_genuine v gz codec env items hok hg rb0 wf he chunks hc

/-- CLOSE. After such a script the peer closes — close control frame (code, reason) over WebSocket, close FRAME with the
same marshalled `control.Close` over TCP: both readers deliver one more packet, the SAME close packet; the WebSocket
reader then ends with the close error at once (whatever follows is not read), the TCP reader is still reading -/
theorem ws_close_eq_tcp (v : Ver) (gz : GzOracle) (codec : UInt8) (env : Env) (hpong : ∀ k, env.pongOk k = true)
    (items : List Item) (hok : ∀ i ∈ items, i.Ok v gz) (code : Nat) (reason b : Bytes)
    (hb : env.closeBody code reason = .ok b) (hbl : b.length < 16777216) (post : List WsEvent)
    (rb0 : Ring) (wf : rb0.WF) (he : rb0.abs = [])
    (chunks : List Bytes)
    (hc : chunks.flatten = (((items.map Item.tcp) ++ [closeFrame b]).map (Spec.encode v)).flatten) :
    ∃ W T, Forall₂ (SamePacket env.hbId) W T ∧
      (reading v gz codec env (items.map (Item.ws v) ++ .close code reason :: post)).obs =
        (W ++ [closePacket codec b], some (.peerClose code reason)) ∧
      (Reading.reading v gz codec rb0 chunks).obs = (T ++ [closePacket codec b], none) :=
  WsReading.ws_close_eq_tcp v gz codec env hpong items hok code reason b hb hbl post rb0 wf he chunks hc

/-! ### where the readers differ: one WebSocket message = ONE one-shot decode -/

/-- bytes after a frame inside one message (verify bit clear) are dropped silently and the reader goes on; on TCP they
are the continuation of the stream -/
theorem trailing_bytes_ws_vs_tcp (v : Ver) (gz : GzOracle) (codec : UInt8) (env : Env) (f : Spec.Frame) (content : Bytes)
    (ps : List Metadata.Pair) (hv : ValidFrame v gz f content ps) (h0 : f.verify ≠ 1) (rest : Bytes)
    (rb0 : Ring) (wf : rb0.WF) (he : rb0.abs = [])
    (chunks : List Bytes) (hc : chunks.flatten = Spec.encode v f ++ rest) :
    (reading v gz codec env [.binary (Spec.encode v f ++ rest)]).obs = ([packetOf f codec content ps], none) ∧
    (Reading.reading v gz codec rb0 chunks).obs =
      (packetOf f codec content ps :: (run v gz codec rest).1,
       if (run v gz codec rest).2.1 = .more then none else some (run v gz codec rest).2.1) :=
  WsReading.trailing_bytes_ws_vs_tcp v gz codec env f content ps hv h0 rest rb0 wf he chunks hc

/-- two valid frames in one message: WebSocket delivers the first only, TCP both -/
theorem two_frames_one_message (v : Ver) (gz : GzOracle) (codec : UInt8) (env : Env) (f g : Spec.Frame)
    (cf cg : Bytes) (pf pg : List Metadata.Pair) (hf : ValidFrame v gz f cf pf) (hg : ValidFrame v gz g cg pg)
    (h0 : f.verify ≠ 1) (rb0 : Ring) (wf : rb0.WF) (he : rb0.abs = [])
    (chunks : List Bytes) (hc : chunks.flatten = Spec.encode v f ++ Spec.encode v g) :
    (reading v gz codec env [.binary (Spec.encode v f ++ Spec.encode v g)]).obs = ([packetOf f codec cf pf], none) ∧
    (Reading.reading v gz codec rb0 chunks).obs = ([packetOf f codec cf pf, packetOf g codec cg pg], none) :=
  WsReading.two_frames_one_message v gz codec env f g cf cg pf pg hf hg h0 rb0 wf he chunks hc

/-- with the verify bit set the bytes after the frame are appended to the delivered signature -/
theorem trailing_bytes_into_signature (v : Ver) (gz : GzOracle) (codec : UInt8) (env : Env) (f : Spec.Frame) (content : Bytes)
    (ps : List Metadata.Pair) (hv : ValidFrame v gz f content ps) (h1 : f.verify = 1) (rest : Bytes) :
    (reading v gz codec env [.binary (Spec.encode v f ++ rest)]).obs =
      ([{ packetOf f codec content ps with signature := f.sig ++ rest }], none) :=
  WsReading.trailing_bytes_into_signature v gz codec env f content ps hv h1 rest

/-- a frame split across two messages (or an empty first message) closes the WebSocket connection with nothing
delivered; the same two pieces as two socket reads are reassembled on TCP -/
theorem split_frame_ws_vs_tcp (v : Ver) (gz : GzOracle) (codec : UInt8) (env : Env) (f : Spec.Frame) (content : Bytes)
    (ps : List Metadata.Pair) (hv : ValidFrame v gz f content ps) (k : Nat) (hk : k < (Spec.encode v f).length)
    (rb0 : Ring) (wf : rb0.WF) (he : rb0.abs = []) :
    (∃ e, (reading v gz codec env [.binary ((Spec.encode v f).take k), .binary ((Spec.encode v f).drop k)]).obs =
      ([], some (.decode e))) ∧
    (Reading.reading v gz codec rb0 [(Spec.encode v f).take k, (Spec.encode v f).drop k]).obs =
      ([packetOf f codec content ps], none) :=
  WsReading.split_frame_ws_vs_tcp v gz codec env f content ps hv k hk rb0 wf he

/-- an empty message closes the WebSocket connection; an empty socket read is skipped -/
theorem empty_message_ws_vs_tcp (v : Ver) (gz : GzOracle) (codec : UInt8) (env : Env) (pre post : List WsEvent)
    (hopen : (reading v gz codec env pre).stopped = none)
    (rb0 : Ring) (wf : rb0.WF) (he : rb0.abs = []) (c1 c2 : List Bytes) :
    (reading v gz codec env (pre ++ .binary [] :: post)).obs =
      ((reading v gz codec env pre).pkts, some (.decode "invalid frame")) ∧
    (Reading.reading v gz codec rb0 (c1 ++ [] :: c2)).obs = (Reading.reading v gz codec rb0 (c1 ++ c2)).obs :=
  WsReading.empty_message_ws_vs_tcp v gz codec env pre post hopen rb0 wf he c1 c2

/-! ### non-vacuity and the differences, decided on the models
v1, no gzip; the two frames of C03: push `03 07 000002 09 08`, request `41 05 00000102 0003 000001 01`.
`hbId`: a stand-in for the protobuf field `heartbeat_id` (tag 0x10, one-byte varint); `closeBody`: a stand-in for
`proto.Marshal(&control.Close{…})`; request ids 1, 2, … as `GetRequestIDGen` hands them out on a conn nobody else uses. -/

private def gzN : GzOracle := ⟨fun _ => .err "none", fun _ => none⟩
private def envK : Env :=
  { hbId := fun b => match b with | [16, n] => some n.toUInt32 | _ => none
    closeBody := fun code reason => .ok (8 :: UInt8.ofNat code :: 18 :: UInt8.ofNat reason.length :: reason)
    reqId := fun k => UInt32.ofNat (k + 1)
    pongOk := fun _ => true }
/-- the same with `Handshake.Codec = 0`: `marshal` fails -/
private def envCodec0 : Env := { envK with closeBody := fun _ _ => .err "invalid codec type: unknown" }
/-- the same with a socket on which the pong cannot be written -/
private def envNoPong : Env := { envK with pongOk := fun _ => false }

private def fP : Bytes := [3, 7, 0, 0, 2, 9, 8]
private def fR : Bytes := [65, 5, 0, 0, 1, 2, 0, 3, 0, 0, 1, 1]
private def kP : Packet := { type := .push, cmd := 7, codec := 1, body := [9, 8] }
private def kR : Packet := { type := .request, cmd := 5, rid := 258, timeout := 3, codec := 1, body := [1] }

/-- one frame per message = the frames on the stream (cut inside the first length field and inside the second id) -/
example : (reading .v1 gzN 1 envK [.binary fP, .text fR]).obs = ([kP, kR], none) := by decide
example : (Reading.reading .v1 gzN 1 (Ring.new 8) [[3, 7, 0], [0, 2, 9, 8, 65, 5, 0], [0, 1, 2, 0, 3, 0, 0, 1, 1]]).obs =
    ([kP, kR], none) := by decide

/-- (1) frame + `00 01` in one message: dropped on WebSocket, connection stays; on TCP `00` is the next frame's type byte -/
example : (reading .v1 gzN 1 envK [.binary (fP ++ [0, 1]), .binary fR]).obs = ([kP, kR], none) := by decide
example : (Reading.reading .v1 gzN 1 (Ring.new 8) [fP ++ [0, 1], fR]).obs = ([kP], some (.err "invalid packet type")) := by
  decide

/-- (1') two frames in one message -/
example : (reading .v1 gzN 1 envK [.binary (fP ++ fR)]).obs = ([kP], none) := by decide
example : (Reading.reading .v1 gzN 1 (Ring.new 8) [fP ++ fR]).obs = ([kP, kR], none) := by decide

/-- (2) verify bit set (`13 …`, nonce 5, signature 16 × AA) + `01 02 03`: a 19-byte signature is delivered -/
example : (reading .v1 gzN 1 envK [.binary ([0x13, 7, 0, 0, 1, 9, 0, 0, 0, 0, 0, 0, 0, 5] ++ List.replicate 16 0xAA ++ [1, 2, 3])]).obs =
    ([{ type := .push, cmd := 7, codec := 1, body := [9], verify := true, nonce := 5,
        signature := List.replicate 16 0xAA ++ [1, 2, 3] }], none) := by decide

/-- (3) the push frame split 3 + 4 -/
example : (reading .v1 gzN 1 envK [.binary [3, 7, 0], .binary [0, 2, 9, 8], .binary fR]).obs =
    ([], some (.decode "invalid frame")) := by decide
example : (Reading.reading .v1 gzN 1 (Ring.new 8) [[3, 7, 0], [0, 2, 9, 8], fR]).obs = ([kP, kR], none) := by decide

/-- (4) an empty message -/
example : (reading .v1 gzN 1 envK [.binary fP, .binary [], .binary fR]).obs = ([kP], some (.decode "invalid frame")) := by decide
example : (Reading.reading .v1 gzN 1 (Ring.new 8) [fP, [], fR]).obs = ([kP, kR], none) := by decide

/-- (5) a peer heartbeat with id 77: request id 1 (drawn locally) over WebSocket, the pong written back; 77 over TCP
(frame `01 01 0000004d 0000 000002 10 4d`) -/
example : (reading .v1 gzN 1 envK [.ping [16, 77]]).obs =
    ([{ type := .request, cmd := 1, rid := 1, codec := 1, body := [16, 77] }], none) ∧
    (reading .v1 gzN 1 envK [.ping [16, 77]]).pongs = [[16, 77]] := by decide
example : Spec.encode .v1 (hbReqFrame 77 [16, 77]) = [1, 1, 0, 0, 0, 77, 0, 0, 0, 0, 2, 16, 77] := by decide
example : (Reading.reading .v1 gzN 1 (Ring.new 8) [[1, 1, 0, 0, 0, 77, 0, 0, 0, 0, 2, 16, 77]]).obs =
    ([{ type := .request, cmd := 1, rid := 77, codec := 1, body := [16, 77] }], none) := by decide
/-- … the second ping gets id 2 -/
example : ((reading .v1 gzN 1 envK [.ping [16, 77], .binary fP, .ping []]).pkts.map (·.rid)) = [1, 0, 2] := by decide
/-- … and when the pong cannot be written: no packet, the reader ends -/
example : (reading .v1 gzN 1 envNoPong [.binary fP, .ping [16, 77], .binary fR]).obs = ([kP], some .pongWrite) := by decide

/-- (6) answers to heartbeats: id from the payload, 0 when there is none; status 0. Over TCP the header's
(frame `02 01 00000009 03 000002 10 05`: id 9, status 3, body with id 5) -/
example : (reading .v1 gzN 1 envK [.pong [16, 5], .pong [255, 255], .pong []]).obs =
    ([{ type := .response, cmd := 1, rid := 5, codec := 1, body := [16, 5] },
      { type := .response, cmd := 1, rid := 0, codec := 1, body := [255, 255] },
      { type := .response, cmd := 1, rid := 0, codec := 1, body := [] }], none) := by decide
example : (Reading.reading .v1 gzN 1 (Ring.new 8) [[2, 1, 0, 0, 0, 9, 3, 0, 0, 2, 16, 5]]).obs =
    ([{ type := .response, cmd := 1, rid := 9, status := 3, codec := 1, body := [16, 5] }], none) := by decide

/-- (7) close(232, "bye") then a push: the same close packet; the WebSocket reader has ended, the TCP reader reads on -/
example : (reading .v1 gzN 1 envK [.close 232 [98, 121, 101], .binary fP]).obs =
    ([{ type := .push, cmd := 0, codec := 1, body := [8, 232, 18, 3, 98, 121, 101] }],
     some (.peerClose 232 [98, 121, 101])) := by decide
example : (Reading.reading .v1 gzN 1 (Ring.new 8) [[3, 0, 0, 0, 7, 8, 232, 18, 3, 98, 121, 101], fP]).obs =
    ([{ type := .push, cmd := 0, codec := 1, body := [8, 232, 18, 3, 98, 121, 101] }, kP], none) := by decide

/-- (8) `Handshake.Codec = 0`: a close frame from the peer panics the reader goroutine -/
example : (reading .v1 gzN 0 envCodec0 [.binary fP, .close 1000 []]).obs =
    ([{ kP with codec := 0 }], some (.panic "invalid codec type: unknown")) := by decide
example : (reading .v1 gzN 0 envCodec0 [.binary fP, .close 1000 []]).verdict = .panic "invalid codec type: unknown" := by decide

/-- a read error ends the reader; what was delivered stays delivered -/
example : (reading .v1 gzN 1 envK [.binary fP, .readError, .binary fR]).obs = ([kP], some .readErr) := by decide

/-- the script theorem applies: data, peer heartbeat, answer, data -/
example : ∀ i ∈ [Item.hbReq 77 [16, 77], .hbResp 9 3 [16, 5]], i.Ok .v1 gzN := by
  intro i hi
  simp only [List.mem_cons, List.not_mem_nil, or_false] at hi
  rcases hi with rfl | rfl <;> simp [Item.Ok]

end OAP.C20
