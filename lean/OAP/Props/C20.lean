/-
C20 — TCP and WebSocket transports are behaviourally equivalent. Property theorems only (view WsMap).
-/
import OAP.Model.Client.WsMap
namespace OAP.C20
open OAP OAP.WsMap

/-- outbound mapping: a heartbeat request travels as a ping control frame carrying the packet body, a close packet as a
close control frame carrying the body, every other packet as exactly one binary message holding the packed frame -/
theorem ws_control_mapping_out (pack : Packet → Res Bytes) (p : Packet) :
    (p.cmd = cmdHeartbeat ∧ p.type = .request → wsOutbound pack p = .ok (.ping p.body)) ∧
    (p.cmd = cmdClose → ¬ (p.cmd = cmdHeartbeat ∧ p.type = .request) → wsOutbound pack p = .ok (.close 0 p.body)) ∧
    (p.cmd ≠ cmdClose → ¬ (p.cmd = cmdHeartbeat ∧ p.type = .request) → wsOutbound pack p = (pack p).map .binary) := by
  refine ⟨?_, ?_, ?_⟩
  · intro h; simp [wsOutbound, h]
  · intro h1 h2; unfold wsOutbound; rw [if_neg h2, if_pos h1]
  · intro h1 h2; unfold wsOutbound; rw [if_neg h2, if_neg h1]

/-- inbound mapping, field by field: ping → pong reply + heartbeat request carrying the payload; pong → heartbeat
response whose request id is the heartbeat id of the body; close(code, reason) → close packet, then the read error -/
theorem ws_control_mapping_in (dec : Bytes → Res Packet) (hbId : Bytes → Option UInt32) (body reason : Bytes) (code : Nat) (id : UInt32) :
    wsStep dec hbId (.heartbeatReq body) = [.autoReply "heartbeat" body, .packet .request cmdHeartbeat none 0 body] ∧
    (hbId body = some id → wsStep dec hbId (.heartbeatResp id body) = [.packet .response cmdHeartbeat (some id) 0 body]) ∧
    wsStep dec hbId (.close code reason) = [.closeByPeer code reason, .readError] := by
  refine ⟨rfl, ?_, rfl⟩
  intro h; simp [wsStep, h]

/-- a script is well-formed when every heartbeat answer carries its id in the body (what a genuine peer sends) -/
def WFScript (hbId : Bytes → Option UInt32) (s : List Step) : Prop :=
  ∀ id body, Step.heartbeatResp id body ∈ s → hbId body = some id

/-- TRANSPORT EQUIVALENCE: for every peer script expressible on both transports — any sequence of request / response /
push frames, heartbeats in both directions, peer-initiated close with any code and reason, undecodable frames, abrupt
drop — the application-level trace (packets handed to the client, with their type, command, id, status and body; close
notifications; the read error that starts the recovery; heartbeat answers) is THE SAME over TCP and over WebSocket -/
theorem transport_equiv (dec : Bytes → Res Packet) (hbId : Bytes → Option UInt32) (s : List Step)
    (wf : WFScript hbId s) : wsTrace dec hbId s = tcpTrace dec s := by
  unfold wsTrace tcpTrace
  congr 1
  induction s with
  | nil => rfl
  | cons st rest ih =>
    have wf' : WFScript hbId rest := fun id body h => wf id body (List.mem_cons_of_mem _ h)
    simp only [List.flatMap_cons, ih wf']
    congr 1
    cases st with
    | frame b => rfl
    | heartbeatReq body => rfl
    | heartbeatResp id body =>
      have := wf id body (List.mem_cons_self)
      simp [wsStep, tcpStep, this]
    | close code reason => rfl
    | garbage b => rfl
    | drop => rfl

/-! non-vacuity -/
example : WFScript (fun b => if b = [7] then some 7 else none) [.frame [1], .heartbeatResp 7 [7], .close 1000 [98], .drop] := by
  intro id body h
  simp at h
  obtain ⟨rfl, rfl⟩ := h
  rfl

end OAP.C20
