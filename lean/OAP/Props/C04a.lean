/-
C04 (part a) — the one-shot decoder never panics. Property theorems only
(helpers in OAP/Proofs/Frame.lean; the metadata part is C09.decode_total).
-/
import OAP.Proofs.Frame
import OAP.Props.C09
namespace OAP.C04
open OAP OAP.Frame

/-- `UnpackBytes` never panics: for EVERY byte string, version, codec and gzip oracle the result is a
packet or a returned error. The model's checked index/slice operations yield `.panic` exactly where
Go would; the length guards make every one of them unreachable. -/
theorem unpackBytes_total (v : Ver) (gz : GzOracle) (codec : UInt8) (bs : Bytes) :
    (unpackBytes v gz codec bs).isPanic = false :=
  unpackBytes_noPanic v gz codec bs

/-- the same, as a dichotomy -/
theorem unpackBytes_ok_or_err (v : Ver) (gz : GzOracle) (codec : UInt8) (bs : Bytes) :
    (∃ p, unpackBytes v gz codec bs = .ok p) ∨ (∃ e, unpackBytes v gz codec bs = .err e) := by
  have := unpackBytes_total v gz codec bs
  cases h : unpackBytes v gz codec bs with
  | ok p => exact .inl ⟨p, rfl⟩
  | err e => exact .inr ⟨e, rfl⟩
  | panic w => rw [h] at this; cases this

/-- the header decoder alone never panics either -/
theorem header_unpackBytes_total (v : Ver) (bs : Bytes) : (Header.unpackBytes v bs).isPanic = false := by
  cases bs with
  | nil => rw [hdr_nil]; rfl
  | cons b0 rest =>
    cases hk : isUnknown (ubType v b0) with
    | true => rw [hdr_unknown v b0 rest hk]; rfl
    | false =>
      by_cases hs : (b0 :: rest).length < hdrLen v (ubType v b0)
      · rw [hdr_short v b0 rest hk hs]; rfl
      · obtain ⟨H, hH, _⟩ := hdr_long v b0 rest hk (by omega)
        rw [hH]; rfl

/-- the metadata decoder it relies on is total (C09) -/
theorem rawPairs_total (data : Bytes) : (Metadata.rawPairs data).isPanic = false := C09.decode_total data

/-! non-vacuity: the guards are really exercised — a header that announces more than is there is an
error, not a panic -/
example (gz : GzOracle) : ∃ e, unpackBytes .v1 gz 0 [0x13, 0, 0xff, 0xff, 0xff] = .err e := by
  refine ⟨"invalid frame", ?_⟩
  rw [unpackBytes_eq, hdr_push_v1 _ _ _ _ _ _ (by decide)]
  rfl

end OAP.C04
