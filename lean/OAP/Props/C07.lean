/-
C07 — A response that arrives in time is never lost. Property theorems only.
"In time" in the model: the response is dispatched while the call is in flight on the current connection and
has not yet taken its deadline branch. The order-sensitive invariant behind it — a call whose request has been
handed to the transport IS registered (`wrTab`) — holds in every reachable state because `Do` registers first.
-/
import OAP.Proofs.Waiters
import OAP.Gen.Facts
namespace OAP.C07
open OAP OAP.Waiters

/-- T2 structure facts, regenerated from go/client on every run (the operations themselves, in source order): `Do` registers its receiver BEFORE handing the request to the transport and waits afterwards (unregister is deferred); the dispatcher's hand-off is a non-blocking send; the wait is a select with a deadline branch and a client-closed branch; the latter looks into the slot once more before it gives up (model: `wake` when the slot is full, `giveUp` otherwise — a response dispatched before the user's Close is still returned; D24) -/
theorem source_order :
    Gen.seq_client_Do = ["c.RLock", "defer:c.RUnlock", "protocol.NewRequest", "c.register", "defer:c.unregister", "conn.Write", "c.recv"] ∧
    Gen.seq_client_handleResponse = ["c.recvsMu.RLock", "defer:c.recvsMu.RUnlock", "select", "send:w.ch", "default"] ∧
    Gen.seq_client_recv = ["select", "recv:w.ch", "recv:ctx.Done()", "recv:c.closeCh", "select", "recv:w.ch", "default"] := by
  decide


/-- in every reachable state a call in flight on the live connection, still waiting with an empty slot, is in
the waiter table under its id — also immediately after the hand-over to the transport, before it started waiting -/
theorem written_is_registered (s : St) (hs : Reachable s) (i r : Nat)
    (hw : s.call i = .written s.cur r ∨ s.call i = .registered s.cur r) (he : s.chan i = .empty) :
    s.recvs r = some (i, s.cur) := by
  rcases hw with hw | hw
  · exact (inv_reachable s hs).wrTab i r hw he
  · exact (inv_reachable s hs).regTab i r hw he

/-- NO LOST WAKE-UP: the matching response, dispatched at any such moment, lands in the call's slot (the 1-slot
buffer makes the hand-off non-blocking) … -/
theorem dispatch_delivers (s : St) (hs : Reachable s) (i r : Nat) (p : Pkt)
    (hw : s.call i = .written s.cur r ∨ s.call i = .registered s.cur r) (he : s.chan i = .empty)
    (hr : p.rid = r) (hc : p.conn = s.cur) :
    step s (.dispatch p) = some { s with chan := upd s.chan i (.full p) } := by
  have ht := written_is_registered s hs i r hw he
  simp [step, hr, ht, hc, he]

/-- … stays there whatever else happens (see C05.first_wins) until the call's own next step, and that step returns it -/
theorem wake_returns (s : St) (i c r : Nat) (p : Pkt) (hw : s.call i = .written c r) (hf : s.chan i = .full p) :
    ∃ s', step s (.wake i) = some s' ∧ s'.call i = .returning c r (some p) ∧
      ∃ s'', step s' (.finish i) = some s'' ∧ s''.call i = .done c r (some p) := by
  refine ⟨_, by simp [step, hw, hf]; rfl, by simp [upd], _, by simp [step, upd]; rfl, by simp [upd]⟩

/-- the call is never stuck: in flight with a full or closed slot, `wake` is enabled; with an empty slot only
the deadline can end it -/
theorem written_can_step (s : St) (i c r : Nat) (hw : s.call i = .written c r) :
    (step s (.giveUp i)).isSome = true := by
  simp [step, hw]

/-- the PINNED order loses the wake-up: write, dispatch, register — the response finds no receiver (defect D8) -/
theorem pinned_loses : (Pinned.run Pinned.init [.write 7, .dispatch 7 42, .register]).map (·.lost) = some [7] := by
  decide

/-! non-vacuity: the same schedule on the repaired order — the call is registered before the write, the response
dispatched right after the hand-over is delivered and returned -/
example : (run init [.start 7 1, .write 7 true, .dispatch ⟨0, 1, 42⟩, .wake 7, .finish 7]).map (·.call 7)
    = some (.done 0 1 (some ⟨0, 1, 42⟩)) := by decide


/-- T2 structure fact shared with C19: the ids of concurrent calls are distinct because the generator is one atomic add-and-fetch
(two calls with one id would overwrite each other's waiter: a lost or mis-routed response) -/
theorem id_generator_atomic :
    Gen.stmts_GetRequestIDGen = ["var id uint32", "return func() uint32 { return atomic.AddUint32(&id, 1) }"] := by
  decide

end OAP.C07
