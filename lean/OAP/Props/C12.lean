/-
C12 — Outbound byte stream is handshake + whole frames, in order. Property theorems only (view Transport).
-/
import OAP.Model.Client.Transport
import OAP.Gen.Facts
namespace OAP.C12
open OAP OAP.Transport

/-- T2 structure facts, regenerated from go/client on every run (the operations themselves, in source order): Write = closed-check, Pack (caller-local), non-blocking enqueue (select/send/default) -/
theorem source_order :
    Gen.seq_tcpConn_Write = ["conn.closed", "conn.p.Pack", "conn.write"] ∧
    Gen.seq_tcpConn_write = ["conn.closed", "select", "send:conn.writeCh", "default"] ∧
    Gen.seq_wsConn_Write = ["conn.closed", "conn.p.Pack", "conn.write"] ∧
    Gen.seq_wsConn_write = ["conn.closed", "select", "send:conn.writeCh", "default"] := by
  decide


/-- for ANY number of concurrent writers and ANY pattern of partial socket writes and flushes: the bytes on the socket
are always a prefix of handshake ++ accepted frames in acceptance order — nothing interleaved, torn, re-ordered or
repeated; the handshake is first; once queue and remainder are empty the socket holds exactly that -/
theorem stream_shape (cap : Nat) (hs : Bytes) (acts : List Act) (s : St)
    (h : run cap (init hs) acts = some s) :
    s.sock <+: s.accepted.flatten ∧ (∃ rest, s.accepted = hs :: rest) ∧
    (s.queue = [] → s.pending = [] → s.sock = s.accepted.flatten) :=
  Transport.stream_shape cap hs acts s h

/-- the enqueue step is always enabled: a full queue is reported (counted in `rejected`), the caller never waits -/
theorem enqueue_nonblocking (cap : Nat) (s : St) (f : Bytes) : (step cap s (.enqueue f)).isSome = true := by
  simp only [step]; split <;> rfl


/-- T2 structure facts: the operation order of the two writer goroutines (one socket write / one WebSocket message per dequeued frame; close on error) -/
theorem writer_source :
    Gen.seq_tcpConn_writing = ["conn.closed", "select", "recv:conn.closeCh", "recv:conn.writeCh", "conn.conn.Write", "conn.Close", "recv:t.C", "conn.conn.Write", "conn.Close"] ∧
    Gen.seq_wsConn_writing = ["select", "recv:conn.closeCh", "recv:conn.writeCh", "conn.closed", "conn.conn.WriteMessage", "conn.Close"] :=
  ⟨rfl, rfl⟩

end OAP.C12
