/-
C13 — Push dispatch: right handlers, exactly once, in order. Property theorems only (view Dispatch).
-/
import OAP.Model.Client.Dispatch
import OAP.Model.Client.DispatchClose
import OAP.Gen.Facts
namespace OAP.C13
open OAP OAP.Dispatch

/-- T2 structure facts, regenerated from go/client on every run (the operations themselves, in source order): routing order control → push → response; handlePush calls every subscriber of the command in slice order; the reader's enqueue is non-blocking with a drop branch -/
theorem source_order :
    Gen.seq_client_onPacket = ["c.reconnecting", "c.handleControl", "c.handlePush", "c.handleResponse"] ∧
    Gen.seq_client_handleControl = ["c.handlePing", "c.handlePong", "c.closeByServer", "c.handleResponse"] ∧
    Gen.seq_client_handlePush = ["sub"] ∧
    Gen.seq_tcpConn_addPacket = ["select", "send:conn.packetCh", "default"] ∧
    Gen.seq_wsConn_addPacket = ["select", "send:conn.packetCh", "default"] := by
  decide


/-- T2: the control bound of the code (`IsControl(cmd) = cmd <= 3`) regenerated from go/packet.go -/
theorem control_bound : Gen.protocol_controlMax = 3 := by decide

/-- for EVERY interleaving of the reader (enqueue or overflow-drop-with-warning) and the dispatcher (dequeue and
route): once the queue is drained the handler log is exactly the routing of the accepted packets in arrival order —
each push exactly once to every handler of its command in subscription order — and the only losses are the counted
overflow drops -/
theorem dispatch_spec (cap : Nat) (subs : Nat → List Nat) (acts : List Act) (s : St)
    (h : run cap subs init acts = some s) (hq : s.queue = []) :
    s.log = s.accepted.flatMap (invocations subs) ∧ s.warnings = s.dropped.length ∧
    s.received.length = s.accepted.length + s.warnings :=
  Dispatch.dispatch_spec cap subs acts s h hq

theorem push_to_its_handlers (subs : Nat → List Nat) (p : Pkt) (hc : isControl p = false) (hp : p.type = .push) :
    invocations subs p = (subs p.cmd).map (fun h => (h, p)) := invocations_push subs p hc hp

theorem control_never_to_subscribers (subs : Nat → List Nat) (p : Pkt) (hc : p.cmd ≤ 3) :
    invocations subs p = [] := Dispatch.control_never_to_subscribers subs p hc

theorem response_not_to_subscribers (subs : Nat → List Nat) (p : Pkt) (hp : p.type ≠ .push) :
    invocations subs p = [] := Dispatch.response_not_to_subscribers subs p hp


/-- T2 structure facts: the operation order of the two reader goroutines -/
theorem reader_source :
    Gen.seq_tcpConn_reading = ["conn.closed", "conn.conn.Read", "conn.Close", "conn.readPacket", "conn.Close", "conn.readPacket", "conn.Close"] ∧
    Gen.seq_wsConn_reading = ["conn.closed", "conn.Close", "conn.Close", "conn.readPacket", "conn.Close"] :=
  ⟨rfl, rfl⟩

end OAP.C13

/-! The close path (view DispatchClose): the dispatcher drains the queue before it reports the close -/
namespace OAP.C13
open OAP OAP.Dispatch

/-- for EVERY interleaving of reader, dispatcher and `Close`: in every state in which the dispatcher has reported the
close, the handler log is the routing of ALL packets accepted before the close (however many were still queued), in
arrival order, followed by the routing of the packets `x` accepted after the close that the drain loop still caught.
The only accepted packets never delivered are those left in the queue, and they all arrived after the close
(`DispatchClose.late_packet_stranded`: this does happen, without a warning — the permitted loss of C13 has to include
frames decoded after the connection was closed). -/
theorem drained_before_close_report (cap : Nat) (subs : Nat → List Nat) (acts : List DispatchClose.Act)
    (s : DispatchClose.St) (h : DispatchClose.run cap subs DispatchClose.init acts = some s)
    (hf : s.finished = true) :
    ∃ x, s.log = (s.acceptedAtClose ++ x).flatMap (invocations subs) ∧
      s.accepted = s.acceptedAtClose ++ x ++ s.queue ∧ s.lateAccepted = x ++ s.queue :=
  DispatchClose.drained_before_close_report cap subs acts s h hf

/-- once the dispatcher has reported the close, no continuation changes the handler log: no handler runs after the
close report -/
theorem no_delivery_after_finish (cap : Nat) (subs : Nat → List Nat) (acts : List DispatchClose.Act)
    (s s' : DispatchClose.St) (hf : s.finished = true) (h : DispatchClose.run cap subs s acts = some s') :
    s'.finished = true ∧ s'.log = s.log ∧ s'.taken = s.taken :=
  DispatchClose.no_delivery_after_finish cap subs acts s s' hf h

/-- the invariant of the `Dispatch` view holds in every interleaving with close/drain/finish as well -/
theorem dinv_carries_over (cap : Nat) (subs : Nat → List Nat) (acts : List DispatchClose.Act) (s : DispatchClose.St)
    (h : DispatchClose.run cap subs DispatchClose.init acts = some s) : DInv subs (DispatchClose.toDispatch s) :=
  DispatchClose.dinv_carries_over cap subs acts s h

end OAP.C13
