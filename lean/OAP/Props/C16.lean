/-
C16 — Closed and replaced connections release their resources. Property theorems only.
What the models carry: at most one retry goroutine exists (single-flight) and a loss starts at most one recovery, so
the number of library threads is bounded independently of the number of cycles; every exit path of a request call
unregisters its waiter. That R/W/D goroutines actually exit is observed on cycle scenarios (goroutine profile), partial.
-/
import OAP.Model.Client.SingleFlight
import OAP.Proofs.Waiters
import OAP.Gen.Facts
import OAP.Model.Client.Recovery
namespace OAP.C16
open OAP

/-- T2 structure facts, regenerated from go/client on every run (the operations themselves, in source order): the dispatcher of a conn waits on the close signal AND the queue, drains on close, reports the final error once and exits; Do defers its unregister -/
theorem source_order :
    Gen.seq_tcpConn_OnPacket = ["conn.onPacketOnce.Do", "go", "select", "recv:conn.closeCh", "select", "recv:conn.packetCh", "fn", "default", "fn", "recv:conn.packetCh", "fn"] ∧
    Gen.seq_wsConn_OnPacket = ["conn.onPacketOnce.Do", "go", "select", "recv:conn.closeCh", "select", "recv:conn.packetCh", "fn", "default", "fn", "recv:conn.packetCh", "fn"] ∧
    Gen.seq_client_Do = ["c.RLock", "defer:c.RUnlock", "protocol.NewRequest", "c.register", "defer:c.unregister", "conn.Write", "c.recv"] := by
  decide


/-- at most one retry goroutine, whatever the number of losses and notifiers -/
theorem bounded_recovery_threads (acts : List SingleFlight.Act) (s : SingleFlight.St)
    (h : SingleFlight.run SingleFlight.init acts = some s) (t u : Nat)
    (ht : SingleFlight.rAlive (s.rc t)) (hu : SingleFlight.rAlive (s.rc u)) : t = u :=
  SingleFlight.single_flight acts s h t u ht hu

/-- a connection's loss starts at most one recovery — so replaced connections do not accumulate -/
theorem one_recovery_per_loss (acts : List SingleFlight.Act) (s : SingleFlight.St)
    (h : SingleFlight.run SingleFlight.init acts = some s) (c : Nat) : s.spawns c ≤ 1 :=
  SingleFlight.one_recovery_per_loss acts s h c

/-- WAITERS RELEASED: in every reachable state the table only holds calls that are still in flight: every exit path
of a request call (response, closed, deadline, write error) has removed its own entry -/
theorem waiters_released (s : Waiters.St) (hs : Waiters.Reachable s) (r i c : Nat) (h : s.recvs r = some (i, c)) :
    s.call i = .registered c r ∨ s.call i = .written c r ∨ ∃ res, s.call i = .returning c r res :=
  (Waiters.inv_reachable s hs).tab r i c h

/-- … and the deferred unregister of a returning call is always enabled and removes its entry -/
theorem returning_unregisters (s : Waiters.St) (i c r : Nat) (res : Option Waiters.Pkt) (h : s.call i = .returning c r res)
    (ht : s.recvs r = some (i, c)) :
    ∃ s', Waiters.step s (.finish i) = some s' ∧ s'.recvs r = none := by
  refine ⟨_, by simp [Waiters.step, h]; rfl, ?_⟩
  simp [Waiters.unregister, ht]


/-! ### the same bounds on view Recovery (the current `reconnecting`, with Close and hit-max) -/

/-- at most one retry goroutine exists, whatever the number of losses, notifiers and Close calls -/
theorem recovery_bounded_threads (m : Nat) (acts : List Recovery.Act) (s : Recovery.St)
    (h : Recovery.run (Recovery.init m) acts = some s) (t u : Nat)
    (ht : Recovery.rLive (s.rc t)) (hu : Recovery.rLive (s.rc u)) : t = u :=
  Recovery.single_flight m acts s h t u ht hu

/-- while the client is open a loss starts at most one recovery; goroutines started after the close signal never attempt
(they leave at their first `closed()` test), so replaced connections do not accumulate -/
theorem recovery_one_per_loss_partial (m : Nat) (acts : List Recovery.Act) (s : Recovery.St)
    (h : Recovery.run (Recovery.init m) acts = some s) (c : Nat) :
    (s.closedSig = false → s.spawns c ≤ 1) ∧ s.spawnsOpen c ≤ 1 ∧ s.lateAttempts = 0 :=
  Recovery.one_recovery_per_loss_partial m acts s h c

end OAP.C16
