/-
C16 — Closed and replaced connections release their resources. Property theorems only.
What the models carry: at most one retry goroutine exists (single-flight) and a loss starts at most one recovery, so
the number of library threads is bounded independently of the number of cycles; every exit path of a request call
unregisters its waiter. That the R/W/D goroutines of a closed connection exit — in every schedule, without ever blocking
for ever — is proved on view ConnThreads (last section); the cycle scenarios (goroutine profile) observe the same.
-/
import OAP.Model.Client.SingleFlight
import OAP.Proofs.Waiters
import OAP.Gen.Facts
import OAP.Model.Client.Recovery
import OAP.Model.Client.ConnThreads
namespace OAP.C16
open OAP

/-- T2 structure facts, regenerated from go/client on every run (the operations themselves, in source order): the dispatcher of a conn waits on the close signal AND the queue, drains on close, reports the final error once and exits; Do defers its unregister -/
theorem source_order :
    Gen.seq_tcpConn_OnPacket = ["conn.onPacketOnce.Do", "go", "select", "recv:conn.closeCh", "select", "recv:conn.packetCh", "fn", "default", "fn", "recv:conn.packetCh", "fn"] ∧
    Gen.seq_wsConn_OnPacket = ["conn.onPacketOnce.Do", "go", "select", "recv:conn.closeCh", "select", "recv:conn.packetCh", "fn", "default", "fn", "recv:conn.packetCh", "fn"] ∧
    Gen.seq_client_Do = ["c.RLock", "defer:c.RUnlock", "protocol.NewRequest", "c.register", "defer:c.unregister", "conn.Write", "c.recv"] := by
  decide


/-- at most one retry goroutine, whatever the number of losses and notifiers -/
theorem bounded_recovery_threads (acts : List SingleFlight.Act) (s : SingleFlight.St)
    (h : SingleFlight.run SingleFlight.init acts = some s) (t u : Nat)
    (ht : SingleFlight.rAlive (s.rc t)) (hu : SingleFlight.rAlive (s.rc u)) : t = u :=
  SingleFlight.single_flight acts s h t u ht hu

/-- a connection's loss starts at most one recovery — so replaced connections do not accumulate -/
theorem one_recovery_per_loss (acts : List SingleFlight.Act) (s : SingleFlight.St)
    (h : SingleFlight.run SingleFlight.init acts = some s) (c : Nat) : s.spawns c ≤ 1 :=
  SingleFlight.one_recovery_per_loss acts s h c

/-- WAITERS RELEASED: in every reachable state the table only holds calls that are still in flight: every exit path
of a request call (response, closed, deadline, write error) has removed its own entry -/
theorem waiters_released (s : Waiters.St) (hs : Waiters.Reachable s) (r i c : Nat) (h : s.recvs r = some (i, c)) :
    s.call i = .registered c r ∨ s.call i = .written c r ∨ ∃ res, s.call i = .returning c r res :=
  (Waiters.inv_reachable s hs).tab r i c h

/-- … and the deferred unregister of a returning call is always enabled and removes its entry -/
theorem returning_unregisters (s : Waiters.St) (i c r : Nat) (res : Option Waiters.Pkt) (h : s.call i = .returning c r res)
    (ht : s.recvs r = some (i, c)) :
    ∃ s', Waiters.step s (.finish i) = some s' ∧ s'.recvs r = none := by
  refine ⟨_, by simp [Waiters.step, h]; rfl, ?_⟩
  simp [Waiters.unregister, ht]


/-! ### the same bounds on view Recovery (the current `reconnecting`, with Close and hit-max) -/

/-- at most one retry goroutine exists, whatever the number of losses, notifiers and Close calls -/
theorem recovery_bounded_threads (m : Nat) (acts : List Recovery.Act) (s : Recovery.St)
    (h : Recovery.run (Recovery.init m) acts = some s) (t u : Nat)
    (ht : Recovery.rLive (s.rc t)) (hu : Recovery.rLive (s.rc u)) : t = u :=
  Recovery.single_flight m acts s h t u ht hu

/-- while the client is open a loss starts at most one recovery; goroutines started after the close signal never attempt
(they leave at their first `closed()` test), so replaced connections do not accumulate -/
theorem recovery_one_per_loss_partial (m : Nat) (acts : List Recovery.Act) (s : Recovery.St)
    (h : Recovery.run (Recovery.init m) acts = some s) (c : Nat) :
    (s.closedSig = false → s.spawns c ≤ 1) ∧ s.spawnsOpen c ≤ 1 ∧ s.lateAttempts = 0 :=
  Recovery.one_recovery_per_loss_partial m acts s h c

/-! ### the goroutines of a closed connection exit (view ConnThreads: reader R, writer W, dispatcher D of one
connection, any number of concurrent `Close` callers, senders, the peer) -/

/-- every synchronisation-relevant operation of the two transports' conn methods, in one list -/
def connSeqs : List String :=
  Gen.seq_tcpConn_reading ++ Gen.seq_tcpConn_writing ++ Gen.seq_tcpConn_OnPacket ++ Gen.seq_tcpConn_Close ++
  Gen.seq_tcpConn_addPacket ++ Gen.seq_tcpConn_Write ++ Gen.seq_tcpConn_write ++
  Gen.seq_wsConn_reading ++ Gen.seq_wsConn_writing ++ Gen.seq_wsConn_OnPacket ++ Gen.seq_wsConn_Close ++
  Gen.seq_wsConn_addPacket ++ Gen.seq_wsConn_Write ++ Gen.seq_wsConn_write

/-- T2 for view ConnThreads. The full operation sequences the model mirrors are pinned elsewhere and not repeated:
`C13.reader_source` (reading), `C12.writer_source` (writing), `C16.source_order` (OnPacket), `C14.source_order` (Close,
write), `C13.source_order` (addPacket), `C12.source_order` (Write, write). Operation ↦ model step:

  reading   conn.closed ↦ rTop · conn.conn.Read ↦ pc inRead, rReadData / rReadErr · conn.Close ↦ rCloseTest, rCloseOnce,
            body · conn.readPacket ↦ pc decode, rAdd per frame, rDecoded (ws: the first two conn.Close are NextReader /
            ReadAll errors = rReadErr)
  writing   conn.closed ↦ wTop (tcp, loop head) / wChk (ws, after the select) · select ↦ pc sel · recv:conn.closeCh ↦
            wSelClose · recv:conn.writeCh ↦ wSelRecv · recv:t.C ↦ wSelTick · conn.conn.Write / WriteMessage ↦ pc inWrite,
            wWriteOk / wWriteErr · conn.Close ↦ wCloseTest, wCloseOnce, body
  OnPacket  conn.onPacketOnce.Do, go ↦ dStart · outer select ↦ pc sel: recv:conn.closeCh ↦ dSelClose, recv:conn.packetCh, fn
            ↦ dSelRecv, dHandled · inner select ↦ pc drain: recv:conn.packetCh, fn ↦ dDrain (take), dHandled; default ↦
            dDrain (empty) · fn (the last but two) ↦ dFinal
  Close     conn.closed ↦ xCloseTest · conn.closeOnce.Do ↦ xCloseOnce · close:conn.closeCh, conn.conn.Close,
            conn.DispatchClose, return ↦ the four `body` steps
  addPacket select, send:conn.packetCh, default ↦ rAdd (enqueue / drop)
  Write/write  conn.closed (twice), select, send:conn.writeCh, default ↦ send

Pinned here is what the theorems of this section depend on, guard by guard (each is the guard one `Variant` of the model
removes, with a stranded goroutine as the result): `addPacket` has a `default` (a); `Close` closes the socket (b); the
writer's (c) and the dispatcher's (d) select have a closeCh case; `write` has a `default` (senders never block); and the
only channel ever closed by a conn method is closeCh, at one place per transport — writeCh and packetCh stay open. -/
theorem conn_threads_source :
    ("default" ∈ Gen.seq_tcpConn_addPacket ∧ "default" ∈ Gen.seq_wsConn_addPacket) ∧
    ("conn.conn.Close" ∈ Gen.seq_tcpConn_Close ∧ "conn.conn.Close" ∈ Gen.seq_wsConn_Close) ∧
    ("recv:conn.closeCh" ∈ Gen.seq_tcpConn_writing ∧ "recv:conn.closeCh" ∈ Gen.seq_wsConn_writing) ∧
    ("recv:conn.closeCh" ∈ Gen.seq_tcpConn_OnPacket ∧ "recv:conn.closeCh" ∈ Gen.seq_wsConn_OnPacket) ∧
    ("default" ∈ Gen.seq_tcpConn_write ∧ "default" ∈ Gen.seq_wsConn_write) ∧
    (connSeqs.filter (fun x => x = "close:conn.closeCh") = ["close:conn.closeCh", "close:conn.closeCh"]) ∧
    ("close:conn.writeCh" ∉ connSeqs ∧ "close:conn.packetCh" ∉ connSeqs) := by
  decide

/-- CLOSE ONCE: in every run, whoever calls `Close` — the reader on a read error, the writer on a write error, any
number of other goroutines, any number of times, all at once — closeCh is closed at most once, the socket at most once,
the close callbacks run at most once, the dispatcher reports the final error at most once (and is started at most
once); the flags mean "executed once"; order: signal, socket, callbacks; a completed Close has done all three -/
theorem conn_close_once (cfg : ConnThreads.Cfg) (acts : List ConnThreads.Act) (s : ConnThreads.St)
    (h : ConnThreads.run cfg (ConnThreads.init cfg) acts = some s) :
    s.sigCloses ≤ 1 ∧ s.sockCloses ≤ 1 ∧ s.closeCallbacks ≤ 1 ∧ s.finalReports ≤ 1 ∧ s.dStarts ≤ 1 ∧
    (s.closeSig = true ↔ s.sigCloses = 1) ∧ (s.sockClosed = true ↔ s.sockCloses = 1) ∧
    (s.sockClosed = true → s.closeSig = true) ∧ (s.closeCallbacks = 1 → s.sockClosed = true) ∧
    (s.once = .done → s.sigCloses = 1 ∧ s.sockCloses = 1 ∧ s.closeCallbacks = 1) :=
  ConnThreads.close_once cfg acts s h

/-- PROGRESS: in every reachable state after Close (signal set, socket closed) each of R, W, D that has not exited has
an enabled step of its own, whatever the peer does (silent, stalled, gone) and whatever the queue lengths — or it is
inside its own nested `Close`, at the Once, where the goroutine in the body always has an enabled step -/
theorem conn_no_block_after_close (cfg : ConnThreads.Cfg) (acts : List ConnThreads.Act) (s : ConnThreads.St)
    (h : ConnThreads.run cfg (ConnThreads.init cfg) acts = some s) (hc : s.closeSig = true) (hk : s.sockClosed = true) :
    (s.r ≠ .exited → (∃ a, ConnThreads.isR a = true ∧ (ConnThreads.step cfg s a).isSome = true) ∨
        ((s.r = .close .once ∨ s.r = .close .body) ∧ (ConnThreads.step cfg s .body).isSome = true)) ∧
    (s.w ≠ .exited → (∃ a, ConnThreads.isW a = true ∧ (ConnThreads.step cfg s a).isSome = true) ∨
        ((s.w = .close .once ∨ s.w = .close .body) ∧ (ConnThreads.step cfg s .body).isSome = true)) ∧
    (s.d ≠ .exited → ∃ a, ConnThreads.isD a = true ∧ (ConnThreads.step cfg s a).isSome = true) :=
  ConnThreads.no_block_after_close cfg acts s h hc hk

/-- … in particular: a reader blocked in `Read` and a writer blocked in a `Write` to a stalled peer are released by the
local socket close; a writer / dispatcher waiting at its select on an empty queue is released by the signal;
`addPacket` never waits for room -/
theorem conn_blocked_calls_released (cfg : ConnThreads.Cfg) (s : ConnThreads.St) :
    (s.r = .inRead → s.sockClosed = true → (ConnThreads.step cfg s .rReadErr).isSome = true) ∧
    (s.w = .inWrite → s.sockClosed = true → (ConnThreads.step cfg s .wWriteErr).isSome = true) ∧
    (s.w = .sel → s.closeSig = true → (ConnThreads.step cfg s .wSelClose).isSome = true) ∧
    (s.d = .sel → s.closeSig = true → (ConnThreads.step cfg s .dSelClose).isSome = true) ∧
    (∀ k b, s.r = .decode (k+1) b → (ConnThreads.step cfg s .rAdd).isSome = true) :=
  ⟨ConnThreads.reader_in_read_unblocked cfg s, ConnThreads.writer_in_write_unblocked cfg s,
   ConnThreads.writer_at_select_unblocked cfg s, ConnThreads.dispatcher_at_select_unblocked cfg s,
   fun k b => ConnThreads.add_never_blocks cfg s k b⟩

/-- TERMINATION, bounded: from any reachable state `s` after Close, along EVERY schedule `acts` (any interleaving with
the peer, senders and further Close callers) ending in `s'`: (1) `mu s' + (steps of R, W, D and the Close body in acts)
≤ mu s` — no schedule contains more than `mu s` of their steps; (2) unless R, W and D have all exited in `s'`, one of
their steps is enabled; (3) hence a schedule that cannot be extended by a thread step, and any schedule that used up the
budget, ends with R, W and D all exited — termination under every scheduler that does not starve a goroutine for ever -/
theorem conn_threads_exit (cfg : ConnThreads.Cfg) (acts0 acts : List ConnThreads.Act) (s s' : ConnThreads.St)
    (h0 : ConnThreads.run cfg (ConnThreads.init cfg) acts0 = some s) (hc : s.closeSig = true)
    (hk : s.sockClosed = true) (h : ConnThreads.run cfg s acts = some s') :
    ConnThreads.mu s' + ConnThreads.threadSteps acts ≤ ConnThreads.mu s ∧
    (¬ ConnThreads.allExited s' → ∃ a, ConnThreads.isThread a = true ∧ (ConnThreads.step cfg s' a).isSome = true) ∧
    ((∀ a, ConnThreads.isThread a = true → ConnThreads.step cfg s' a = none) → ConnThreads.allExited s') ∧
    (ConnThreads.mu s ≤ ConnThreads.threadSteps acts → ConnThreads.allExited s') :=
  ConnThreads.exits_after_close cfg acts0 acts s s' h0 hc hk h

/-- the same for R and W alone (their steps and the Close body's — also when OnPacket was never called) and for D alone -/
theorem conn_threads_exit_parts (cfg : ConnThreads.Cfg) (acts0 acts : List ConnThreads.Act) (s s' : ConnThreads.St)
    (h0 : ConnThreads.run cfg (ConnThreads.init cfg) acts0 = some s) (hc : s.closeSig = true)
    (hk : s.sockClosed = true) (h : ConnThreads.run cfg s acts = some s') :
    (ConnThreads.muRW s' + ConnThreads.rwSteps acts ≤ ConnThreads.muRW s ∧
      (¬ (s'.r = .exited ∧ s'.w = .exited) → ∃ a, ConnThreads.isRW a = true ∧ (ConnThreads.step cfg s' a).isSome = true) ∧
      (ConnThreads.muRW s ≤ ConnThreads.rwSteps acts → s'.r = .exited ∧ s'.w = .exited)) ∧
    (ConnThreads.muD s' + ConnThreads.dSteps acts ≤ ConnThreads.muD s ∧
      (s'.d ≠ .exited → ∃ a, ConnThreads.isD a = true ∧ (ConnThreads.step cfg s' a).isSome = true) ∧
      (ConnThreads.muD s ≤ ConnThreads.dSteps acts → s'.d = .exited)) :=
  ConnThreads.exits_after_close_parts cfg acts0 acts s s' h0 hc hk h

/-- the bound is a constant of the configuration and of the chunk the reader is still decoding — not of the history:
`mu s ≤ 2·ReadQueueSize + 3·(frames still to hand over) + 12` -/
theorem conn_exit_bound (cfg : ConnThreads.Cfg) (acts : List ConnThreads.Act) (s : ConnThreads.St)
    (h : ConnThreads.run cfg (ConnThreads.init cfg) acts = some s) (hk : s.sockClosed = true) :
    ConnThreads.mu s ≤ 2 * cfg.pcap + 3 * ConnThreads.pendR s.r + 12 :=
  ConnThreads.mu_le cfg s (ConnThreads.inv_reach cfg acts s h) hk

/-- no dead end: from the moment somebody has won the Once of `Close`, some schedule ends with R, W, D exited (the
body of `closeOnce.Do` never waits; then the threads run out as above) -/
theorem conn_close_leads_to_exit (cfg : ConnThreads.Cfg) (acts0 : List ConnThreads.Act) (s : ConnThreads.St)
    (h0 : ConnThreads.run cfg (ConnThreads.init cfg) acts0 = some s) (hh : s.once ≠ .free) :
    ∃ acts s', ConnThreads.run cfg s acts = some s' ∧ ConnThreads.allExited s' :=
  ConnThreads.close_leads_to_exit cfg acts0 s h0 hh

/-- nothing restarts: exited goroutines stay exited in every continuation -/
theorem conn_exited_stays_exited (cfg : ConnThreads.Cfg) (acts : List ConnThreads.Act) (s s' : ConnThreads.St)
    (h : ConnThreads.run cfg s acts = some s') :
    (s.r = .exited → s'.r = .exited) ∧ (s.w = .exited → s'.w = .exited) ∧ (s.d = .exited → s'.d = .exited) ∧
    (ConnThreads.allExited s → ConnThreads.allExited s') :=
  ConnThreads.exited_stays_exited cfg acts s s' h

/-- after the dispatcher has delivered the final error nothing else is delivered or reported, in every continuation
(with the packets themselves: `C13.no_delivery_after_finish` on view DispatchClose) -/
theorem conn_no_delivery_after_final (cfg : ConnThreads.Cfg) (acts : List ConnThreads.Act) (s s' : ConnThreads.St)
    (hd : s.d = .exited) (h : ConnThreads.run cfg s acts = some s') :
    s'.d = .exited ∧ s'.delivered = s.delivered ∧ s'.finalReports = s.finalReports :=
  ConnThreads.no_delivery_after_final cfg acts s s' hd h

/-- `Write` returns in one step in every state: enqueued, "write queue full", or errConnClosed; the queue stays within
its capacity and no goroutine of the connection is touched -/
theorem conn_sender_never_blocks (cfg : ConnThreads.Cfg) (s : ConnThreads.St) (stale : Bool) :
    ∃ s', ConnThreads.step cfg s (.send stale) = some s' ∧
      ((s'.wq = s.wq + 1 ∧ s.wq < cfg.wcap ∧ s'.accepted = s.accepted + 1 ∧ s'.rejected = s.rejected ∧ s'.refused = s.refused) ∨
       (s'.wq = s.wq ∧ cfg.wcap ≤ s.wq ∧ s'.accepted = s.accepted ∧ s'.rejected = s.rejected + 1 ∧ s'.refused = s.refused) ∨
       (s'.wq = s.wq ∧ s.closeSig = true ∧ s'.accepted = s.accepted ∧ s'.rejected = s.rejected ∧ s'.refused = s.refused + 1)) ∧
      s'.r = s.r ∧ s'.w = s.w ∧ s'.d = s.d :=
  ConnThreads.sender_never_blocks cfg s stale

/-- nothing accumulates in the queues: both stay within their capacities, and every packet that entered packetCh is
still queued or was handed to the handler -/
theorem conn_queues_bounded (cfg : ConnThreads.Cfg) (acts : List ConnThreads.Act) (s : ConnThreads.St)
    (h : ConnThreads.run cfg (ConnThreads.init cfg) acts = some s) :
    s.pq ≤ cfg.pcap ∧ s.wq ≤ cfg.wcap ∧ s.enq = s.pq + s.delivered :=
  have i := ConnThreads.inv_reach cfg acts s h
  ⟨i.pqCap, i.wqCap, i.acct⟩

/-! the four guards are necessary: remove one and a goroutine of a closed connection is stranded for ever (decided
concrete schedules of the variant + an invariance argument over all continuations) -/

/-- (a) `addPacket` waiting for room: the reader never leaves `addPacket` once the dispatcher has gone -/
theorem conn_blocking_addPacket_strands_reader :
    ∃ s, ConnThreads.runV .blockingAdd ConnThreads.cfgA (ConnThreads.init ConnThreads.cfgA) ConnThreads.demoA = some s ∧
      s.closeSig = true ∧ s.sockClosed = true ∧ s.once = .done ∧ s.d = .exited ∧ s.r = .decode 1 false ∧
      ∀ acts s', ConnThreads.runV .blockingAdd ConnThreads.cfgA s acts = some s' →
        s'.r = .decode 1 false ∧ ∀ a, ConnThreads.isR a = true → ConnThreads.stepV .blockingAdd ConnThreads.cfgA s' a = none :=
  ConnThreads.blocking_addPacket_strands_reader

/-- (b) `Close` not closing the socket: the reader stays in `Read` as long as the peer is silent -/
theorem conn_close_without_socket_strands_reader :
    ∃ s, ConnThreads.runV .keepSocket ConnThreads.cfgT (ConnThreads.init ConnThreads.cfgT) ConnThreads.demoB = some s ∧
      s.closeSig = true ∧ s.once = .done ∧ s.closeCallbacks = 1 ∧ s.r = .inRead ∧
      ∀ acts s', (∀ a ∈ acts, ConnThreads.isPeer a = false) → ConnThreads.runV .keepSocket ConnThreads.cfgT s acts = some s' →
        s'.r = .inRead ∧ ∀ a, ConnThreads.isR a = true → ConnThreads.stepV .keepSocket ConnThreads.cfgT s' a = none :=
  ConnThreads.close_without_socket_strands_reader

/-- (c) the WebSocket writer's select without the closeCh case: the writer stays at its select on the empty writeCh -/
theorem conn_writer_without_close_case_strands :
    ∃ s, ConnThreads.runV .noCloseCase ConnThreads.cfgW (ConnThreads.init ConnThreads.cfgW) (ConnThreads.xClose 0) = some s ∧
      s.closeSig = true ∧ s.sockClosed = true ∧ s.once = .done ∧ s.w = .sel ∧
      ∀ acts s', (∀ a ∈ acts, a ≠ .send true) → ConnThreads.runV .noCloseCase ConnThreads.cfgW s acts = some s' →
        s'.w = .sel ∧ ∀ a, ConnThreads.isW a = true → ConnThreads.stepV .noCloseCase ConnThreads.cfgW s' a = none :=
  ConnThreads.writer_without_close_case_strands

/-- (d) the dispatcher's select without the closeCh case (the code before its C16 fix): the dispatcher stays at its
select on the empty packetCh and the final error is never reported -/
theorem conn_dispatcher_without_close_case_strands :
    ∃ s, ConnThreads.runV .dNoCloseCase ConnThreads.cfgT (ConnThreads.init ConnThreads.cfgT) ConnThreads.demoD = some s ∧
      s.closeSig = true ∧ s.sockClosed = true ∧ s.once = .done ∧ s.r = .exited ∧ s.d = .sel ∧
      ∀ acts s', ConnThreads.runV .dNoCloseCase ConnThreads.cfgT s acts = some s' →
        s'.d = .sel ∧ s'.finalReports = 0 ∧
        ∀ a, ConnThreads.isD a = true → ConnThreads.stepV .dNoCloseCase ConnThreads.cfgT s' a = none :=
  ConnThreads.dispatcher_without_close_case_strands

end OAP.C16
