/-
C16 — Closed and replaced connections release their resources. Property theorems only.
What the models carry: at most one retry goroutine exists (single-flight) and a loss starts at most one recovery, so
the number of library threads is bounded independently of the number of cycles; every exit path of a request call
unregisters its waiter. That R/W/D goroutines actually exit is observed on cycle scenarios (goroutine profile), partial.
-/
import OAP.Model.Client.SingleFlight
import OAP.Proofs.Waiters
namespace OAP.C16
open OAP

/-- at most one retry goroutine, whatever the number of losses and notifiers -/
theorem bounded_recovery_threads (acts : List SingleFlight.Act) (s : SingleFlight.St)
    (h : SingleFlight.run SingleFlight.init acts = some s) (t u : Nat)
    (ht : SingleFlight.rAlive (s.rc t)) (hu : SingleFlight.rAlive (s.rc u)) : t = u :=
  SingleFlight.single_flight acts s h t u ht hu

/-- a connection's loss starts at most one recovery — so replaced connections do not accumulate -/
theorem one_recovery_per_loss (acts : List SingleFlight.Act) (s : SingleFlight.St)
    (h : SingleFlight.run SingleFlight.init acts = some s) (c : Nat) : s.spawns c ≤ 1 :=
  SingleFlight.one_recovery_per_loss acts s h c

/-- WAITERS RELEASED: in every reachable state the table only holds calls that are still in flight: every exit path
of a request call (response, closed, deadline, write error) has removed its own entry -/
theorem waiters_released (s : Waiters.St) (hs : Waiters.Reachable s) (r i c : Nat) (h : s.recvs r = some (i, c)) :
    s.call i = .registered c r ∨ s.call i = .written c r :=
  (Waiters.inv_reachable s hs).tab r i c h

end OAP.C16
