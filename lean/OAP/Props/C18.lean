/-
C18 — Handshake codec is a bijection; only registered versions are accepted.
Property theorems only. Every byte-level fact is closed by `decide +kernel` over the
whole finite table (256 entries) and lifted to `UInt8`.
-/
import OAP.Model.Handshake
import OAP.Proofs.GenFuncsHs
namespace OAP.C18
open OAP OAP.Handshake

/-! byte tables (complete enumeration, kernel-checked) -/
private theorem byte0_tab : ∀ b : Fin 256,
    Gen.hsPackB0 (Gen.hsVersion (UInt8.ofFin b)) (Gen.hsCodec (UInt8.ofFin b)) = UInt8.ofFin b := by
  decide +kernel
private theorem byte1_tab : ∀ b : Fin 256,
    Gen.hsPackB1 (Gen.hsPlatform (UInt8.ofFin b)) (Gen.hsReserve (UInt8.ofFin b)) = UInt8.ofFin b := by
  decide +kernel
private theorem nib_tab : ∀ b : Fin 256,
    Gen.hsVersion (UInt8.ofFin b) < 16 ∧ Gen.hsCodec (UInt8.ofFin b) < 16 ∧
    Gen.hsPlatform (UInt8.ofFin b) < 16 ∧ Gen.hsReserve (UInt8.ofFin b) < 16 := by
  decide +kernel
private theorem pair_tab : ∀ lo hi : Fin 16,
    let l : UInt8 := UInt8.ofNat lo.val
    let h : UInt8 := UInt8.ofNat hi.val
    Gen.hsVersion (Gen.hsPackB0 l h) = l ∧ Gen.hsCodec (Gen.hsPackB0 l h) = h ∧
    Gen.hsPlatform (Gen.hsPackB1 l h) = l ∧ Gen.hsReserve (Gen.hsPackB1 l h) = h := by
  decide +kernel

private theorem lift16 (x : UInt8) (h : x < 16) : ∃ f : Fin 16, x = UInt8.ofNat f.val := by
  refine ⟨⟨x.toNat, ?_⟩, ?_⟩
  · exact UInt8.lt_iff_toNat_lt.mp h
  · simp

/-- encode ∘ decode = id on every byte pair -/
theorem pack_unpack (a b : UInt8) : (unpack [a, b]).map pack = .ok [a, b] := by
  have h0 := byte0_tab a.toFin
  have h1 := byte1_tab b.toFin
  simp only [UInt8.ofFin_toFin] at h0 h1
  simp [unpack, Res.map, pack, h0, h1]

/-- decode ∘ encode = id on the whole 4-bit domain -/
theorem unpack_pack (h : Handshake) (wf : h.WF) : unpack (pack h) = .ok h := by
  obtain ⟨hv, hc, hp, hr⟩ := wf
  obtain ⟨fv, ev⟩ := lift16 _ hv
  obtain ⟨fc, ec⟩ := lift16 _ hc
  obtain ⟨fp, ep⟩ := lift16 _ hp
  obtain ⟨fr, er⟩ := lift16 _ hr
  have t0 := pair_tab fv fc
  have t1 := pair_tab fp fr
  simp only at t0 t1
  cases h with
  | mk v c p r =>
    simp only at ev ec ep er
    subst ev ec ep er
    simp [unpack, pack, t0.1, t0.2.1, t1.2.2.1, t1.2.2.2]

/-- only inputs of exactly two bytes are accepted … -/
theorem unpack_len (bs : Bytes) (h : bs.length ≠ 2) : ∃ e, unpack bs = .err e := by
  match bs, h with
  | [], _ => exact ⟨_, rfl⟩
  | [_], _ => exact ⟨_, rfl⟩
  | [_, _], h => exact absurd rfl h
  | _ :: _ :: _ :: _, _ => exact ⟨_, rfl⟩

/-- … and every two-byte input is accepted, never panics, and yields 4-bit fields -/
theorem unpack_two (a b : UInt8) : ∃ h, unpack [a, b] = .ok h ∧ h.WF := by
  have t0 := nib_tab a.toFin
  have t1 := nib_tab b.toFin
  simp only [UInt8.ofFin_toFin] at t0 t1
  exact ⟨_, rfl, t0.1, t0.2.1, t1.2.2.1, t1.2.2.2⟩

theorem unpack_total (bs : Bytes) : (unpack bs).isPanic = false := by
  unfold unpack; split <;> rfl

theorem pack_injective_on_WF (h₁ h₂ : Handshake) (w₁ : h₁.WF) (w₂ : h₂.WF)
    (e : pack h₁ = pack h₂) : h₁ = h₂ := by
  have a := unpack_pack h₁ w₁
  have b := unpack_pack h₂ w₂
  rw [e] at a
  rw [a] at b
  exact Res.ok.inj b

theorem unpack_injective (a b c d : UInt8) (e : unpack [a, b] = unpack [c, d]) : [a, b] = [c, d] := by
  have x := pack_unpack a b
  have y := pack_unpack c d
  rw [e] at x
  rw [x] at y
  exact Res.ok.inj y

/-- a context accepts a handshake exactly for a registered version … -/
theorem ctx_handshake_iff (reg : Registry) (c : HsCtx) (h : Handshake) :
    (c.handshake reg h).isOk = reg h.version := by
  unfold HsCtx.handshake getProtocol
  cases reg h.version <;> simp [Res.isOk]

/-- … and then adopts its version, codec and platform -/
theorem ctx_handshake_adopts (reg : Registry) (c c' : HsCtx) (h : Handshake)
    (e : c.handshake reg h = .ok c') :
    c'.version = h.version ∧ c'.codec = h.codec ∧ c'.platform = h.platform ∧ c'.handshaked = true := by
  unfold HsCtx.handshake getProtocol at e
  cases hr : reg h.version <;> simp [hr] at e
  subst e; simp

theorem getProtocol_unregistered (reg : Registry) (v : UInt8) (h : reg v = false) :
    ∃ e, getProtocol reg v = .err e := by
  simp [getProtocol, h]

/-- with v1 and v2 imported the registered versions are exactly 1 and 2 -/
theorem default_registry : ∀ v : Fin 256,
    defaultRegistry (UInt8.ofFin v) = (v.val == 1 || v.val == 2) := by
  decide +kernel

/-! non-vacuity: a concrete non-trivial handshake meets the hypotheses -/
example : ({ version := 2, codec := 1, platform := 9, reserve := 5 } : Handshake).WF := by decide
example : unpack (pack { version := 2, codec := 1, platform := 9, reserve := 5 })
    = .ok { version := 2, codec := 1, platform := 9, reserve := 5 } := by decide
example : pack { version := 1, codec := 1, platform := 9, reserve := 0 } = [0x11, 0x09] := by decide

/-! ### the model IS the code's function: generated translations (T2, function level)

`Gen.Fn.protocol_Handshake_Pack` / `_Unpack` are rewritten from go/protocol.go by every run (statement by statement: the two
byte expressions, the length test, the four masked field assignments with their index operations); the theorems above are about
`Handshake.pack` / `Handshake.unpack`, and these two say they are the same functions. -/

/-- `func (h Handshake) Pack() []byte`, as translated from the source, is the model's `pack` -/
theorem pack_is_generated (h : Handshake) :
    Gen.Fn.protocol_Handshake_Pack (GenFuncs.hsG h) = .ok (pack h) :=
  GenFuncs.handshake_pack_gen h

/-- `func (h *Handshake) Unpack(data []byte) error`, as translated from the source (whatever the receiver held before), is the
model's `unpack`: same verdict, same error, same four fields, no index out of range -/
theorem unpack_is_generated (g0 : Gen.Fn.GHandshake) (data : Bytes) :
    (Gen.Fn.protocol_Handshake_Unpack g0 data).map GenFuncs.hsM = unpack data :=
  GenFuncs.handshake_unpack_gen g0 data

/-- hence the bijection theorems hold of the translated functions themselves -/
theorem generated_unpack_pack (h : Handshake) (g0 : Gen.Fn.GHandshake) (hw : h.WF) :
    (Gen.Fn.protocol_Handshake_Pack (GenFuncs.hsG h)).bind (fun bs => (Gen.Fn.protocol_Handshake_Unpack g0 bs).map GenFuncs.hsM) = .ok h := by
  rw [pack_is_generated]; show (Gen.Fn.protocol_Handshake_Unpack g0 (pack h)).map GenFuncs.hsM = .ok h
  rw [unpack_is_generated]; exact unpack_pack h hw

/-- both handshake functions were inside the translatable subset in this run (a function that leaves it disappears from the list) -/
theorem functions_translated :
    "protocol.Handshake.Pack" ∈ Gen.Fn.translated ∧ "protocol.Handshake.Unpack" ∈ Gen.Fn.translated := by decide

end OAP.C18
