/-
C01 — Frame round-trip fidelity (v1 and v2). Property theorems only.
-/
import OAP.Model.Frame
import OAP.Proofs.Frame
import OAP.Proofs.StreamComplete
import OAP.Proofs.GenFuncsProto
import OAP.Proofs.GenFuncsPack
import OAP.Props.C02
import OAP.Props.C09
set_option linter.unusedSimpArgs false
namespace OAP.C01
open OAP OAP.Frame

/-- an unknown packet type is refused (never encoded as something else) -/
theorem pack_error_unknown_type (v : Ver) (gz : GzOracle) (p : Packet) (thr : Int)
    (ht : p.type = .other) (hg : ∀ x, (gz.compress x).isPanic = false) :
    (pack v gz p thr).isOk = false := by
  unfold pack
  by_cases hc : gzipCond v thr p.body.length
  · have := hg p.body
    cases hcomp : gz.compress p.body with
    | ok c =>
      simp only [hc, ↓reduceIte, hcomp, Res.ok_bind]
      split
      · rfl
      · simp [headerFromMetadata, ht, Header.pack, isUnknown, tReq, tResp, tPush, Gen.v1_RequestPacket,
          Gen.v1_ResponsePacket, Gen.v1_PushPacket, Res.isOk]
    | err e => simp [hc, hcomp, Res.isOk]
    | panic w => simp [hcomp, Res.isPanic] at this
  · simp only [hc, Bool.false_eq_true, ↓reduceIte, Res.ok_bind]
    split
    · rfl
    · simp [headerFromMetadata, ht, Header.pack, isUnknown, tReq, tResp, tPush, Gen.v1_RequestPacket,
        Gen.v1_ResponsePacket, Gen.v1_PushPacket, Res.isOk]

/-- a body over 2^24−1 bytes that is not compressed is refused -/
theorem pack_error_over_limit (v : Ver) (gz : GzOracle) (p : Packet) (thr : Int)
    (hc : gzipCond v thr p.body.length = false) (hl : 16777215 < p.body.length) :
    (pack v gz p thr).isOk = false := by
  have : Gen.v1_MaxBodyLength = 16777215 := rfl
  simp [pack, hc, this, hl, Res.isOk]

/-- the packets the property speaks about: a known type, a command that fits its byte, a 16-byte
signature when signed, not already marked compressed, and (v2) metadata that is valid and fits -/
def InDomain (v : Ver) (p : Packet) : Prop :=
  p.type ≠ .other ∧ p.cmd.toNat < 256 ∧ (p.verify = true → p.signature.length = 16) ∧ p.gzip = false ∧
  (v = .v2 → (∀ kv ∈ p.values, Metadata.validPair kv = true) ∧
             ((Metadata.encPairs (Metadata.sortPairs p.values)).length : Int) ≤ 65535)

/-- the "same packet" relation of the property: the fields that the packet's type puts on the wire,
the metadata pairs in sorted key order (keys before lower-casing: the decoder model returns raw
pairs), and the body after decompression -/
def Equiv (v : Ver) (p q : Packet) : Prop :=
  q.type = p.type ∧ q.cmd = p.cmd ∧ (p.type ≠ .push → q.rid = p.rid) ∧ (p.type = .request → q.timeout = p.timeout) ∧
  (p.type = .response → q.status = p.status) ∧ q.verify = p.verify ∧
  (p.verify = true → q.nonce = p.nonce ∧ q.signature = p.signature) ∧
  (v = .v2 → q.values = Metadata.sortPairs p.values) ∧ q.body = p.body

/-- ROUND TRIP (one-shot decoder): whatever `Pack` emits for a packet in the domain — with or without
compression, whatever the threshold — `UnpackBytes` accepts and decodes to the same packet -/
theorem roundtrip_oneshot (v : Ver) (gz : GzOracle) (p p' : Packet) (thr : Int) (bs : Bytes) (codec : UInt8)
    (hd : InDomain v p) (hs : gz.Sound) (h : pack v gz p thr = .ok (bs, p')) :
    ∃ q, unpackBytes v gz codec bs = .ok q ∧ Equiv v p q := by
  obtain ⟨ht, hcmd, hsig, _, hmdv⟩ := hd
  obtain ⟨hpre, _, hlen, hbs⟩ := pack_ok_inv v gz p p' thr bs h
  have hmd : v = .v2 → Metadata.rawPairs (Metadata.marshalMap p.values 65535) = .ok (Metadata.sortPairs p.values) := by
    intro hv2
    obtain ⟨hvp, hfit⟩ := hmdv hv2
    have hp : (Metadata.sortPairs p.values).Perm p.values := List.mergeSort_perm _ Metadata.keyLe
    have hv' : ∀ kv ∈ Metadata.sortPairs p.values, Metadata.validPair kv = true := fun kv h => hvp kv (hp.subset h)
    unfold Metadata.marshalMap
    rw [C09.marshal_all_fit _ _ hv' hfit, C09.decode_complete]
    intro kv h
    have := hv' kv h
    simp [Metadata.validPair] at this
    exact ⟨this.1.2, this.2⟩
  obtain ⟨hvalid, e1, e2, e3, e4, e5, e6, e7, e8, e9, e10⟩ := specOf_valid v gz p p' thr ht hs hpre hlen hmd
  refine ⟨_, by rw [hbs]; exact C02.decode_accepts v gz codec _ _ _ hvalid, ?_⟩
  have hc : UInt32.ofNat (p.cmd.toNat % 256) = p.cmd := by
    rw [Nat.mod_eq_of_lt hcmd]; simp
  unfold Equiv packetOf specOf
  simp only [e1, e2, e3, e4, e5, e6, e7, e8, e9, hc]
  have hv2 : v = Ver.v2 → psOf v p.values = Metadata.sortPairs p.values := by intro h; subst h; rfl
  cases hpv : p.verify
  · cases hpt : p.type <;> simp_all
  · have hsw := sigWindow_id p.signature (hsig hpv)
    cases hpt : p.type <;> simp_all

/-- … and for a RELAYED packet — one whose incoming gzip flag is set (as a decoder returns it for a
compressed frame) but that is in the domain otherwise: `Pack` ignores the incoming flag (it describes
another frame's body; `pack_flag_irrelevant`), so the round trip holds for it as well -/
theorem roundtrip_oneshot_relayed (v : Ver) (gz : GzOracle) (p p' : Packet) (thr : Int) (bs : Bytes) (codec : UInt8)
    (hd : InDomain v { p with gzip := false }) (hs : gz.Sound) (h : pack v gz p thr = .ok (bs, p')) :
    ∃ q, unpackBytes v gz codec bs = .ok q ∧ Equiv v p q := by
  have h' : pack v gz { p with gzip := false } thr = .ok (bs, p') := by rw [pack_flag_irrelevant]; exact h
  obtain ⟨q, h1, h2⟩ := roundtrip_oneshot v gz _ p' thr bs codec hd hs h'
  exact ⟨q, h1, h2⟩

/-- `Pack` never panics provided the compressor does not -/
theorem pack_no_panic (v : Ver) (gz : GzOracle) (p : Packet) (thr : Int)
    (hg : ∀ x, (gz.compress x).isPanic = false) : (pack v gz p thr).isPanic = false :=
  pack_noPanic v gz p thr hg

/-- EXACTLY when `Pack` refuses. `wireBody v gz p thr` (OAP/Proofs/Frame.lean) is the body as it goes on
the wire: `gz.compress p.body` when the threshold condition `gzipCond v thr |p.body|` holds, else
`p.body` itself. Whenever that is some `b` (always, for a sound oracle: `wireBody_defined`), `Pack`
succeeds iff the type is known and `b` fits the 24-bit length field — no other packet field matters. -/
theorem pack_ok_iff (v : Ver) (gz : GzOracle) (p : Packet) (thr : Int) (b : Bytes)
    (hb : wireBody v gz p thr = .ok b) :
    (pack v gz p thr).isOk = true ↔ (p.type ≠ .other ∧ b.length ≤ 16777215) :=
  pack_isOk_iff v gz p thr b hb

theorem wireBody_defined (v : Ver) (gz : GzOracle) (p : Packet) (thr : Int) (hs : gz.Sound) :
    ∃ b, wireBody v gz p thr = .ok b ∧
      (gzipCond v thr p.body.length = false → b = p.body) ∧
      (gzipCond v thr p.body.length = true → gz.compress p.body = .ok b ∧ gz.read b = some (p.body, true)) := by
  unfold wireBody
  cases hc : gzipCond v thr p.body.length
  · exact ⟨p.body, by simp, fun _ => rfl, by intro h; cases h⟩
  · obtain ⟨c, h1, h2⟩ := hs p.body
    exact ⟨c, by simp [h1], (by intro h; cases h), fun _ => ⟨h1, h2⟩⟩

/-- … and the refusal is a returned error (not a panic), for exactly two reasons: unknown type, or a
wire body over 2^24−1 bytes -/
theorem pack_error_iff (v : Ver) (gz : GzOracle) (p : Packet) (thr : Int) (b : Bytes)
    (hb : wireBody v gz p thr = .ok b) :
    ((pack v gz p thr).isOk = false ↔ (p.type = .other ∨ 16777215 < b.length)) ∧
    ((∃ e, pack v gz p thr = .err e) ↔ (p.type = .other ∨ 16777215 < b.length)) := by
  have hiff := pack_ok_iff v gz p thr b hb
  have h1 : (pack v gz p thr).isOk = false ↔ (p.type = .other ∨ 16777215 < b.length) := by
    constructor
    · intro h
      by_cases ht : p.type = .other
      · exact .inl ht
      · by_cases hl : b.length ≤ 16777215
        · rw [hiff.mpr ⟨ht, hl⟩] at h; cases h
        · exact .inr (by omega)
    · intro h
      cases hok : (pack v gz p thr).isOk with
      | false => rfl
      | true =>
        obtain ⟨ht, hl⟩ := hiff.mp hok
        rcases h with h | h
        · exact absurd h ht
        · omega
  refine ⟨h1, ?_⟩
  rw [← h1]
  constructor
  · rintro ⟨e, he⟩; rw [he]; rfl
  · intro h
    obtain ⟨p1, hp1, _, _⟩ := packPre_wireBody v gz p thr b hb
    have hnp : (pack v gz p thr).isPanic = false := by
      rw [pack_eq, hp1]; exact packTail_no_panic v p1
    exact Res.not_ok_not_panic _ h hnp

/-- with a sound compressor, in one statement -/
theorem pack_error_iff_sound (v : Ver) (gz : GzOracle) (p : Packet) (thr : Int) (hs : gz.Sound) :
    ∃ b, wireBody v gz p thr = .ok b ∧
      ((∃ e, pack v gz p thr = .err e) ↔ (p.type = .other ∨ 16777215 < b.length)) := by
  obtain ⟨b, hb, _⟩ := wireBody_defined v gz p thr hs
  exact ⟨b, hb, (pack_error_iff v gz p thr b hb).2⟩

/-! non-vacuity: a v2 response with verify, one metadata pair and a 3-byte body is in the domain, `Pack`
accepts it (identity "compressor", which is Sound), and the round trip applies -/

def exPacket : Packet :=
  { type := .response, cmd := 7, rid := 0x01020304, status := 9, verify := true, nonce := 5
    signature := List.replicate 16 0xAA, values := [([0x61], [0x78])], codec := 1, body := [1, 2, 3] }

def idGz : GzOracle := { compress := fun x => .ok x, read := fun c => some (c, true) }

theorem idGz_sound : idGz.Sound := fun x => ⟨x, rfl, rfl⟩

theorem exPacket_inDomain : InDomain .v2 exPacket := by
  refine ⟨by decide, by decide, by decide, by decide, fun _ => ⟨by decide, ?_⟩⟩
  have : Metadata.sortPairs exPacket.values = [([0x61], [0x78])] := by
    simp [Metadata.sortPairs, exPacket]
  rw [this]; decide

example : ∃ bs p' q, pack .v2 idGz exPacket 0 = .ok (bs, p') ∧ unpackBytes .v2 idGz 1 bs = .ok q ∧ Equiv .v2 exPacket q := by
  have hb : wireBody .v2 idGz exPacket 0 = .ok [1, 2, 3] := by decide
  have hok := (pack_ok_iff .v2 idGz exPacket 0 _ hb).mpr ⟨by decide, by decide⟩
  cases h : pack .v2 idGz exPacket 0 with
  | ok r =>
    obtain ⟨bs, p'⟩ := r
    obtain ⟨q, h1, h2⟩ := roundtrip_oneshot .v2 idGz exPacket p' 0 bs 1 exPacket_inDomain idGz_sound h
    exact ⟨bs, p', q, rfl, h1, h2⟩
  | err e => rw [h] at hok; cases hok
  | panic w => rw [h] at hok; cases hok

/-- the same with compression engaged (threshold 1 ≤ 3 bytes) -/
example : ∃ bs p' q, pack .v2 idGz exPacket 1 = .ok (bs, p') ∧ p'.gzip = true ∧
    unpackBytes .v2 idGz 1 bs = .ok q ∧ Equiv .v2 exPacket q := by
  have hb : wireBody .v2 idGz exPacket 1 = .ok [1, 2, 3] := by decide
  have hok := (pack_ok_iff .v2 idGz exPacket 1 _ hb).mpr ⟨by decide, by decide⟩
  cases h : pack .v2 idGz exPacket 1 with
  | ok r =>
    obtain ⟨bs, p'⟩ := r
    obtain ⟨q, h1, h2⟩ := roundtrip_oneshot .v2 idGz exPacket p' 1 bs 1 exPacket_inDomain idGz_sound h
    obtain ⟨hpre, _⟩ := pack_ok_inv .v2 idGz exPacket p' 1 bs h
    refine ⟨bs, p', q, rfl, ?_, h1, h2⟩
    rcases packPre_ok .v2 idGz exPacket p' 1 hpre with ⟨hc, _⟩ | ⟨_, c, _, hp⟩
    · exact absurd hc (by decide)
    · rw [hp]
  | err e => rw [h] at hok; cases hok
  | panic w => rw [h] at hok; cases hok

/-! ### the round trip through the streaming decoder -/

/-- what `Pack` emits for a packet in the domain is a valid frame of the published layout
(`Denotes`: `ValidFrame` for some content and metadata pairs, `q` the packet its fields denote),
and the denoted packet is the packet that was sent -/
theorem pack_denotes (v : Ver) (gz : GzOracle) (p p' : Packet) (thr : Int) (bs : Bytes) (codec : UInt8)
    (hd : InDomain v p) (hs : gz.Sound) (h : pack v gz p thr = .ok (bs, p')) :
    ∃ f q, bs = Spec.encode v f ∧ Denotes v gz codec f q ∧ Equiv v p q := by
  obtain ⟨ht, hcmd, hsig, _, hmdv⟩ := hd
  obtain ⟨hpre, _, hlen, hbs⟩ := pack_ok_inv v gz p p' thr bs h
  have hmd : v = .v2 → Metadata.rawPairs (Metadata.marshalMap p.values 65535) = .ok (Metadata.sortPairs p.values) := by
    intro hv2
    obtain ⟨hvp, hfit⟩ := hmdv hv2
    have hp : (Metadata.sortPairs p.values).Perm p.values := List.mergeSort_perm _ Metadata.keyLe
    have hv' : ∀ kv ∈ Metadata.sortPairs p.values, Metadata.validPair kv = true := fun kv h => hvp kv (hp.subset h)
    unfold Metadata.marshalMap
    rw [C09.marshal_all_fit _ _ hv' hfit, C09.decode_complete]
    intro kv h
    have := hv' kv h
    simp [Metadata.validPair] at this
    exact ⟨this.1.2, this.2⟩
  obtain ⟨hvalid, e1, e2, e3, e4, e5, e6, e7, e8, e9, e10⟩ := specOf_valid v gz p p' thr ht hs hpre hlen hmd
  refine ⟨specOf v p', packetOf (specOf v p') codec p.body (psOf v p.values), hbs, ⟨_, _, hvalid, rfl⟩, ?_⟩
  have hc : UInt32.ofNat (p.cmd.toNat % 256) = p.cmd := by
    rw [Nat.mod_eq_of_lt hcmd]; simp
  unfold Equiv packetOf specOf
  simp only [e1, e2, e3, e4, e5, e6, e7, e8, e9, hc]
  have hv2 : v = Ver.v2 → psOf v p.values = Metadata.sortPairs p.values := by intro h; subst h; rfl
  cases hpv : p.verify
  · cases hpt : p.type <;> simp_all
  · have hsw := sigWindow_id p.signature (hsig hpv)
    cases hpt : p.type <;> simp_all

/-- the frames `Pack` emits for a list of packets in the domain (each with its own threshold) are
valid layout frames denoting the packets sent, in order -/
theorem packs_denote (v : Ver) (gz : GzOracle) (codec : UInt8) (hs : gz.Sound)
    (sent : List (Packet × Int)) (frames : List Bytes)
    (hd : ∀ x ∈ sent, InDomain v x.1)
    (hp : Forall₂ (fun x bs => ∃ p', pack v gz x.1 x.2 = .ok (bs, p')) sent frames) :
    ∃ fs qs, frames = fs.map (Spec.encode v) ∧ Forall₂ (Denotes v gz codec) fs qs ∧
      Forall₂ (Equiv v) (sent.map (·.1)) qs := by
  induction hp with
  | nil => exact ⟨[], [], rfl, .nil, .nil⟩
  | @cons x bs xs bss hab _ ih =>
    obtain ⟨p', hpk⟩ := hab
    obtain ⟨f, q, hbs, hden, heq⟩ := pack_denotes v gz x.1 p' x.2 bs codec (hd x (by simp)) hs hpk
    obtain ⟨fs, qs, hfr, hdens, heqs⟩ := ih (fun y hy => hd y (by simp [hy]))
    exact ⟨f :: fs, q :: qs, by rw [hbs, hfr]; rfl, .cons hden hdens, .cons heq heqs⟩

/-- ROUND TRIP (streaming decoder, end to end). Any list of packets in the domain, each packed with
its own gzip threshold (`sent : List (Packet × Int)`), a sound gzip oracle; `frames` are the byte
strings `Pack` returns, in order. Then for EVERY way `chunks` of cutting the concatenated frames
into pieces — byte by byte, across header / metadata / body / trailer boundaries, several frames
in one chunk, empty chunks — feeding the chunks one by one into a fresh connection (append to the
queue, loop `Unpack` until it reports no packet) delivers exactly one packet per packet sent, in
order, each `Equiv` to the one sent, and no error verdict. `Forall₂` (OAP/Proofs/StreamComplete.lean)
is the element-by-element relation of two lists of the same length (`forall₂_iff_getElem`). -/
theorem roundtrip_stream (v : Ver) (gz : GzOracle) (codec : UInt8) (hs : gz.Sound)
    (sent : List (Packet × Int)) (frames : List Bytes)
    (hd : ∀ x ∈ sent, InDomain v x.1)
    (hp : Forall₂ (fun x bs => ∃ p', pack v gz x.1 x.2 = .ok (bs, p')) sent frames)
    (chunks : List Bytes) (hc : chunks.flatten = frames.flatten) :
    ∃ qs, (feed v gz codec chunks).obs = (qs, none) ∧ Forall₂ (Equiv v) (sent.map (·.1)) qs := by
  obtain ⟨fs, qs, hfr, hden, heq⟩ := packs_denote v gz codec hs sent frames hd hp
  exact ⟨qs, feed_frames v gz codec fs qs hden chunks (by rw [hc, hfr]), heq⟩

/-- the same over the REAL ring buffer model: the chunks are `Write`-n into any well-formed empty
ring — any capacity (growth included), any read/write offset — and `Unpack` is looped over the ring
after each write -/
theorem roundtrip_stream_ring (v : Ver) (gz : GzOracle) (codec : UInt8) (hs : gz.Sound)
    (sent : List (Packet × Int)) (frames : List Bytes)
    (hd : ∀ x ∈ sent, InDomain v x.1)
    (hp : Forall₂ (fun x bs => ∃ p', pack v gz x.1 x.2 = .ok (bs, p')) sent frames)
    (rb0 : Ring) (wf : rb0.WF) (he : rb0.abs = [])
    (chunks : List Bytes) (hc : chunks.flatten = frames.flatten) :
    ∃ qs, (rfeed v gz codec rb0 chunks).obs = (qs, none) ∧ Forall₂ (Equiv v) (sent.map (·.1)) qs := by
  rw [rfeed_obs v gz codec rb0 wf he chunks]
  exact roundtrip_stream v gz codec hs sent frames hd hp chunks hc

/-- instance: a ring from `ringbuffer.New(cap)`, any initial capacity (0 included) -/
theorem roundtrip_stream_ring_new (v : Ver) (gz : GzOracle) (codec : UInt8) (hs : gz.Sound)
    (sent : List (Packet × Int)) (frames : List Bytes)
    (hd : ∀ x ∈ sent, InDomain v x.1)
    (hp : Forall₂ (fun x bs => ∃ p', pack v gz x.1 x.2 = .ok (bs, p')) sent frames)
    (cap : Nat) (chunks : List Bytes) (hc : chunks.flatten = frames.flatten) :
    ∃ qs, (rfeed v gz codec (Ring.new cap) chunks).obs = (qs, none) ∧ Forall₂ (Equiv v) (sent.map (·.1)) qs :=
  roundtrip_stream_ring v gz codec hs sent frames hd hp _ (ring_new_wf cap).1 (ring_new_wf cap).2 chunks hc

/-- a single packet, a single threshold -/
theorem roundtrip_stream_one (v : Ver) (gz : GzOracle) (p p' : Packet) (thr : Int) (bs : Bytes) (codec : UInt8)
    (hd : InDomain v p) (hs : gz.Sound) (h : pack v gz p thr = .ok (bs, p'))
    (chunks : List Bytes) (hc : chunks.flatten = bs) :
    ∃ q, (feed v gz codec chunks).obs = ([q], none) ∧ Equiv v p q := by
  obtain ⟨qs, h1, h2⟩ := roundtrip_stream v gz codec hs [(p, thr)] [bs] (by simpa using hd)
    (.cons ⟨p', h⟩ .nil) chunks (by simpa using hc)
  cases h2 with
  | cons hq ht => cases ht; exact ⟨_, h1, hq⟩

/-! non-vacuity: the example packet sent twice — once plain (threshold 0), once with compression
engaged (threshold 1) — over v2; every chunking of the two frames delivers two packets `Equiv` to it,
from the queue and from a ring of initial capacity 4 (which has to grow) -/
example : ∃ b1 p1 b2 p2, pack .v2 idGz exPacket 0 = .ok (b1, p1) ∧ pack .v2 idGz exPacket 1 = .ok (b2, p2) ∧
    ∀ chunks : List Bytes, chunks.flatten = b1 ++ b2 →
      ∃ q1 q2, (feed .v2 idGz 1 chunks).obs = ([q1, q2], none) ∧
        (rfeed .v2 idGz 1 (Ring.new 4) chunks).obs = ([q1, q2], none) ∧
        Equiv .v2 exPacket q1 ∧ Equiv .v2 exPacket q2 := by
  have hb0 : wireBody .v2 idGz exPacket 0 = .ok [1, 2, 3] := by decide
  have hb1 : wireBody .v2 idGz exPacket 1 = .ok [1, 2, 3] := by decide
  have hok0 := (pack_ok_iff .v2 idGz exPacket 0 _ hb0).mpr ⟨by decide, by decide⟩
  have hok1 := (pack_ok_iff .v2 idGz exPacket 1 _ hb1).mpr ⟨by decide, by decide⟩
  cases h0 : pack .v2 idGz exPacket 0 with
  | err e => rw [h0] at hok0; cases hok0
  | panic w => rw [h0] at hok0; cases hok0
  | ok r0 =>
    cases h1 : pack .v2 idGz exPacket 1 with
    | err e => rw [h1] at hok1; cases hok1
    | panic w => rw [h1] at hok1; cases hok1
    | ok r1 =>
      obtain ⟨b1, p1⟩ := r0
      obtain ⟨b2, p2⟩ := r1
      refine ⟨b1, p1, b2, p2, rfl, rfl, fun chunks hc => ?_⟩
      have hd : ∀ x ∈ [(exPacket, (0 : Int)), (exPacket, 1)], InDomain .v2 x.1 := by
        intro x hx
        simp only [List.mem_cons, List.not_mem_nil, or_false] at hx
        rcases hx with rfl | rfl <;> exact exPacket_inDomain
      have hp : Forall₂ (fun x bs => ∃ p', pack .v2 idGz x.1 x.2 = .ok (bs, p'))
          [(exPacket, (0 : Int)), (exPacket, 1)] [b1, b2] := .cons ⟨p1, h0⟩ (.cons ⟨p2, h1⟩ .nil)
      obtain ⟨qs, hq1, hq2⟩ := roundtrip_stream .v2 idGz 1 idGz_sound _ _ hd hp chunks (by simpa using hc)
      have hr := rfeed_obs .v2 idGz 1 (Ring.new 4) (ring_new_wf 4).1 (ring_new_wf 4).2 chunks
      cases hq2 with
      | cons e1 ht => cases ht with
        | cons e2 ht2 => cases ht2; exact ⟨_, _, hq1, by rw [hr, hq1], e1, e2⟩

/-! ### generated translations of the one-shot decoders (T2, function level)

`Gen.Fn.v1_protocolV1_UnpackBytes`, `v2_protocolV2_UnpackBytes` and `v1_Header_Metadata` are rewritten from go/v1/v1.go, go/v2/v2.go and
go/v1/header.go by every run: the pooled header (a fresh zero header), the call of the translated `Header.UnpackBytes` with its error handed
on, the length guards, every slice of `data` (with `panic` where Go would panic, the v2 upper bound computed in uint32 as in the source),
the `protocol.Packet` / `protocol.Metadata` literals (structures generated from go/packet.go and go/metadata.go), the nonce read with
`binary.BigEndian.Uint64`, the signature `data[idx+NonceLength:]`, `gzip.Decompress` as the oracle `Gzip.decompress gz`, and (v2)
`UnmarshalMetadata` as the model's `Metadata.unmarshalValues lower`. `roundtrip_oneshot`, `C02.decode_accepts`, C04's theorems are about the
model's `Frame.unpackBytes`; these say it is the same function. -/

/-- `func (p *protocolV1) UnpackBytes(ctx, bs) (packet *protocol.Packet, err error)` and its v2 twin as translated: the same packet
(`GenFuncs.toModelPacket` flattens `Packet{Metadata, Body}` into the model's record and maps the `protocol.PacketType` constants to `PType`),
the same error in the same case, no index or slice out of range — for EVERY byte string, codec and gzip oracle; `some`: never a nil packet
without an error. For v2 the generated function lower-cases the metadata keys (`lower` = strings.ToLower, as `UnmarshalValues` does) where
the model's decoder returns the raw pairs (see `Equiv`): equal up to `GenFuncs.lowerKeys lower`, and equal outright for `lower = id`. -/
theorem unpackBytes_is_generated (gz : GzOracle) (lower : Bytes → Bytes) (codec : UInt8) (bs : Bytes) :
    (Gen.Fn.v1_protocolV1_UnpackBytes gz codec bs).map (Option.map GenFuncs.toModelPacket) = (unpackBytes .v1 gz codec bs).map some ∧
    (Gen.Fn.v2_protocolV2_UnpackBytes gz lower codec bs).map (Option.map GenFuncs.toModelPacket) =
      (unpackBytes .v2 gz codec bs).map (fun p => some (GenFuncs.lowerKeys lower p)) ∧
    (Gen.Fn.v2_protocolV2_UnpackBytes gz id codec bs).map (Option.map GenFuncs.toModelPacket) = (unpackBytes .v2 gz codec bs).map some :=
  ⟨GenFuncs.v1_unpackBytes_gen gz codec bs, GenFuncs.v2_unpackBytes_gen gz lower codec bs, GenFuncs.v2_unpackBytes_gen_id gz codec bs⟩

/-- `func (h Header) Metadata(ctx) *protocol.Metadata` as translated is the model's `Header.toPacket` (any body attached) -/
theorem header_metadata_is_generated (h : Gen.Fn.V1Header) (codec : UInt8) (b : Bytes) :
    (Gen.Fn.v1_Header_Metadata h codec).map (fun m => GenFuncs.toModelPacket { metadata := m, body := b }) =
      .ok { Header.toPacket (GenFuncs.v1M h) codec with body := b } :=
  GenFuncs.v1_header_metadata_gen h codec b

/-- non-vacuity: the translated v1 decoder on a push frame with a 3-byte body, and on a frame cut short -/
example : Gen.Fn.v1_protocolV1_UnpackBytes idGz 1 [0x03, 7, 0, 0, 3, 1, 2, 3] =
    .ok (some { metadata := { type := .pushPacket, cmdCode := 7, codec := 1 }, body := [1, 2, 3] }) := by decide
example : Gen.Fn.v1_protocolV1_UnpackBytes idGz 1 [0x03, 7, 0, 0, 3, 1, 2] = .err "invalid frame" := by decide

/-- T2 tie at function level for the protocol-level ENCODERS: `(*protocolV1).Pack` (go/v1/v1.go) and `(*protocolV2).Pack` (go/v2/v2.go),
translated statement by statement from the Go source in this run (`Gen.Fn.v1_protocolV1_Pack`, `Gen.Fn.v2_protocolV2_Pack`; with them
both `headerFromMetadata`: pool Get as the zero header, the deferred Put skipped; the variadic options collapsed to the threshold `thr`
they set — `NewPackOptions` starts from `MinGzipSize = 0`, `GzipSize(n)` sets it; the packet pointer threaded and returned as mutated;
`gzip.Compress` as the oracle's `compress`; `make`/`copy`/`PutUint64` as the checked `Bytes.copyAt`/`Bytes.putBE64`;
`MarshalMetadata` as `Metadata.marshalMap`), equal the model's `Frame.pack` that `pack_conforms`, `C02.*` and `C10.gzip_flag_iff` are
about: the same frame, the same mutated packet (`Body` overwritten by the compressed bytes, `Metadata.Gzip` describing this frame), the
same errors in the same order (compressor error, body limit, invalid type), and no panic the model does not have — for every oracle,
every threshold (negative ones included) and every packet: any type (`GenFuncs.toG` maps `PType.other` to ""), a signature of ANY length
(the `copy` into the last sixteen bytes is the model's `sigWindow`), bodies and metadata of any size. No hypothesis is needed. -/
theorem pack_is_generated (gz : GzOracle) (p : Packet) (thr : Int) :
    (Gen.Fn.v1_protocolV1_Pack gz (GenFuncs.toG p) thr).map (fun r => (r.1, GenFuncs.toModelPacket r.2)) = pack .v1 gz p thr ∧
    (Gen.Fn.v2_protocolV2_Pack gz (GenFuncs.toG p) thr).map (fun r => (r.1, GenFuncs.toModelPacket r.2)) = pack .v2 gz p thr :=
  ⟨GenFuncs.v1_pack_gen gz p thr, GenFuncs.v2_pack_gen gz p thr⟩

/-- … and over the generated packets themselves (`toG` and `toModelPacket` are inverse to each other) -/
theorem pack_is_generated' (gz : GzOracle) (g : Gen.Fn.GPacket) (thr : Int) :
    (Gen.Fn.v1_protocolV1_Pack gz g thr).map (fun r => (r.1, GenFuncs.toModelPacket r.2)) = pack .v1 gz (GenFuncs.toModelPacket g) thr ∧
    (Gen.Fn.v2_protocolV2_Pack gz g thr).map (fun r => (r.1, GenFuncs.toModelPacket r.2)) = pack .v2 gz (GenFuncs.toModelPacket g) thr ∧
    GenFuncs.toG (GenFuncs.toModelPacket g) = g :=
  ⟨GenFuncs.v1_pack_gen_g gz g thr, GenFuncs.v2_pack_gen_g gz g thr, GenFuncs.toG_toModel g⟩

/-- `headerFromMetadata` of both versions as translated is the model's -/
theorem headerFromMetadata_is_generated (g : Gen.Fn.GPacket) :
    (Gen.Fn.v1_headerFromMetadata g.metadata).map GenFuncs.v1M = .ok (headerFromMetadata .v1 (GenFuncs.toModelPacket g)) ∧
    (Gen.Fn.v2_headerFromMetadata g.metadata).map GenFuncs.v2M = .ok (headerFromMetadata .v2 (GenFuncs.toModelPacket g)) :=
  ⟨GenFuncs.v1_headerFromMetadata_gen g, GenFuncs.v2_headerFromMetadata_gen g⟩

/-- a verified push packet with a 3-byte signature -/
def exPushG : Gen.Fn.GPacket :=
  { metadata := { type := .pushPacket, cmdCode := 7, verify := true, nonce := 1, signature := [9, 9, 9] }, body := [1, 2] }

/-- non-vacuity: the translated v1 encoder on `exPushG` (zero-padded signature window), no compression; and on a packet without a type -/
example : Gen.Fn.v1_protocolV1_Pack idGz exPushG 0 =
    .ok ([0x13, 7, 0, 0, 2, 1, 2, 0, 0, 0, 0, 0, 0, 0, 1, 9, 9, 9, 0, 0, 0, 0, 0, 0, 0, 0, 0, 0, 0, 0, 0], exPushG) := by decide
example : Gen.Fn.v1_protocolV1_Pack idGz { metadata := { cmdCode := 7 }, body := [1, 2] } 0 = .err "invalid packet type" := by decide

/-- the one-shot decoders and the encoders of both versions, `Header.Metadata` and both `headerFromMetadata` were inside the translatable
subset in this run -/
theorem functions_translated :
    ["v1.Header.Metadata", "v1.protocolV1.UnpackBytes", "v2.protocolV2.UnpackBytes",
     "v1..headerFromMetadata", "v2..headerFromMetadata", "v1.protocolV1.Pack", "v2.protocolV2.Pack"].all (fun f => Gen.Fn.translated.contains f) = true := by decide

end OAP.C01
