/-
C01 — Frame round-trip fidelity (v1 and v2). Property theorems only.
-/
import OAP.Model.Frame
import OAP.Proofs.Frame
import OAP.Props.C02
import OAP.Props.C09
set_option linter.unusedSimpArgs false
namespace OAP.C01
open OAP OAP.Frame

/-- an unknown packet type is refused (never encoded as something else) -/
theorem pack_error_unknown_type (v : Ver) (gz : GzOracle) (p : Packet) (thr : Int)
    (ht : p.type = .other) (hg : ∀ x, (gz.compress x).isPanic = false) :
    (pack v gz p thr).isOk = false := by
  unfold pack
  by_cases hc : gzipCond v thr p.body.length
  · have := hg p.body
    cases hcomp : gz.compress p.body with
    | ok c =>
      simp only [hc, ↓reduceIte, hcomp, Res.ok_bind]
      split
      · rfl
      · simp [headerFromMetadata, ht, Header.pack, isUnknown, tReq, tResp, tPush, Gen.v1_RequestPacket,
          Gen.v1_ResponsePacket, Gen.v1_PushPacket, Res.isOk]
    | err e => simp [hc, hcomp, Res.isOk]
    | panic w => simp [hcomp, Res.isPanic] at this
  · simp only [hc, Bool.false_eq_true, ↓reduceIte, Res.ok_bind]
    split
    · rfl
    · simp [headerFromMetadata, ht, Header.pack, isUnknown, tReq, tResp, tPush, Gen.v1_RequestPacket,
        Gen.v1_ResponsePacket, Gen.v1_PushPacket, Res.isOk]

/-- a body over 2^24−1 bytes that is not compressed is refused -/
theorem pack_error_over_limit (v : Ver) (gz : GzOracle) (p : Packet) (thr : Int)
    (hc : gzipCond v thr p.body.length = false) (hl : 16777215 < p.body.length) :
    (pack v gz p thr).isOk = false := by
  have : Gen.v1_MaxBodyLength = 16777215 := rfl
  simp [pack, hc, this, hl, Res.isOk]

/-- the packets the property speaks about: a known type, a command that fits its byte, a 16-byte
signature when signed, not already marked compressed, and (v2) metadata that is valid and fits -/
def InDomain (v : Ver) (p : Packet) : Prop :=
  p.type ≠ .other ∧ p.cmd.toNat < 256 ∧ (p.verify = true → p.signature.length = 16) ∧ p.gzip = false ∧
  (v = .v2 → (∀ kv ∈ p.values, Metadata.validPair kv = true) ∧
             ((Metadata.encPairs (Metadata.sortPairs p.values)).length : Int) ≤ 65535)

/-- the "same packet" relation of the property: the fields that the packet's type puts on the wire,
the metadata pairs in sorted key order (keys before lower-casing: the decoder model returns raw
pairs), and the body after decompression -/
def Equiv (v : Ver) (p q : Packet) : Prop :=
  q.type = p.type ∧ q.cmd = p.cmd ∧ (p.type ≠ .push → q.rid = p.rid) ∧ (p.type = .request → q.timeout = p.timeout) ∧
  (p.type = .response → q.status = p.status) ∧ q.verify = p.verify ∧
  (p.verify = true → q.nonce = p.nonce ∧ q.signature = p.signature) ∧
  (v = .v2 → q.values = Metadata.sortPairs p.values) ∧ q.body = p.body

/-- ROUND TRIP (one-shot decoder): whatever `Pack` emits for a packet in the domain — with or without
compression, whatever the threshold — `UnpackBytes` accepts and decodes to the same packet -/
theorem roundtrip_oneshot (v : Ver) (gz : GzOracle) (p p' : Packet) (thr : Int) (bs : Bytes) (codec : UInt8)
    (hd : InDomain v p) (hs : gz.Sound) (h : pack v gz p thr = .ok (bs, p')) :
    ∃ q, unpackBytes v gz codec bs = .ok q ∧ Equiv v p q := by
  obtain ⟨ht, hcmd, hsig, hgz, hmdv⟩ := hd
  obtain ⟨hpre, _, hlen, hbs⟩ := pack_ok_inv v gz p p' thr bs h
  have hmd : v = .v2 → Metadata.rawPairs (Metadata.marshalMap p.values 65535) = .ok (Metadata.sortPairs p.values) := by
    intro hv2
    obtain ⟨hvp, hfit⟩ := hmdv hv2
    have hp : (Metadata.sortPairs p.values).Perm p.values := List.mergeSort_perm _ Metadata.keyLe
    have hv' : ∀ kv ∈ Metadata.sortPairs p.values, Metadata.validPair kv = true := fun kv h => hvp kv (hp.subset h)
    unfold Metadata.marshalMap
    rw [C09.marshal_all_fit _ _ hv' hfit, C09.decode_complete]
    intro kv h
    have := hv' kv h
    simp [Metadata.validPair] at this
    exact ⟨this.1.2, this.2⟩
  obtain ⟨hvalid, e1, e2, e3, e4, e5, e6, e7, e8, e9, e10⟩ := specOf_valid v gz p p' thr ht hgz hs hpre hlen hmd
  refine ⟨_, by rw [hbs]; exact C02.decode_accepts v gz codec _ _ _ hvalid, ?_⟩
  have hc : UInt32.ofNat (p.cmd.toNat % 256) = p.cmd := by
    rw [Nat.mod_eq_of_lt hcmd]; simp
  unfold Equiv packetOf specOf
  simp only [e1, e2, e3, e4, e5, e6, e7, e8, e9, hc]
  have hv2 : v = Ver.v2 → psOf v p.values = Metadata.sortPairs p.values := by intro h; subst h; rfl
  cases hpv : p.verify
  · cases hpt : p.type <;> simp_all
  · have hsw := sigWindow_id p.signature (hsig hpv)
    cases hpt : p.type <;> simp_all

/-- `Pack` never panics provided the compressor does not -/
theorem pack_no_panic (v : Ver) (gz : GzOracle) (p : Packet) (thr : Int)
    (hg : ∀ x, (gz.compress x).isPanic = false) : (pack v gz p thr).isPanic = false :=
  pack_noPanic v gz p thr hg

/-- EXACTLY when `Pack` refuses. `wireBody v gz p thr` (OAP/Proofs/Frame.lean) is the body as it goes on
the wire: `gz.compress p.body` when the threshold condition `gzipCond v thr |p.body|` holds, else
`p.body` itself. Whenever that is some `b` (always, for a sound oracle: `wireBody_defined`), `Pack`
succeeds iff the type is known and `b` fits the 24-bit length field — no other packet field matters. -/
theorem pack_ok_iff (v : Ver) (gz : GzOracle) (p : Packet) (thr : Int) (b : Bytes)
    (hb : wireBody v gz p thr = .ok b) :
    (pack v gz p thr).isOk = true ↔ (p.type ≠ .other ∧ b.length ≤ 16777215) :=
  pack_isOk_iff v gz p thr b hb

theorem wireBody_defined (v : Ver) (gz : GzOracle) (p : Packet) (thr : Int) (hs : gz.Sound) :
    ∃ b, wireBody v gz p thr = .ok b ∧
      (gzipCond v thr p.body.length = false → b = p.body) ∧
      (gzipCond v thr p.body.length = true → gz.compress p.body = .ok b ∧ gz.read b = some (p.body, true)) := by
  unfold wireBody
  cases hc : gzipCond v thr p.body.length
  · exact ⟨p.body, by simp, fun _ => rfl, by intro h; cases h⟩
  · obtain ⟨c, h1, h2⟩ := hs p.body
    exact ⟨c, by simp [h1], (by intro h; cases h), fun _ => ⟨h1, h2⟩⟩

/-- … and the refusal is a returned error (not a panic), for exactly two reasons: unknown type, or a
wire body over 2^24−1 bytes -/
theorem pack_error_iff (v : Ver) (gz : GzOracle) (p : Packet) (thr : Int) (b : Bytes)
    (hb : wireBody v gz p thr = .ok b) :
    ((pack v gz p thr).isOk = false ↔ (p.type = .other ∨ 16777215 < b.length)) ∧
    ((∃ e, pack v gz p thr = .err e) ↔ (p.type = .other ∨ 16777215 < b.length)) := by
  have hiff := pack_ok_iff v gz p thr b hb
  have h1 : (pack v gz p thr).isOk = false ↔ (p.type = .other ∨ 16777215 < b.length) := by
    constructor
    · intro h
      by_cases ht : p.type = .other
      · exact .inl ht
      · by_cases hl : b.length ≤ 16777215
        · rw [hiff.mpr ⟨ht, hl⟩] at h; cases h
        · exact .inr (by omega)
    · intro h
      cases hok : (pack v gz p thr).isOk with
      | false => rfl
      | true =>
        obtain ⟨ht, hl⟩ := hiff.mp hok
        rcases h with h | h
        · exact absurd h ht
        · omega
  refine ⟨h1, ?_⟩
  rw [← h1]
  constructor
  · rintro ⟨e, he⟩; rw [he]; rfl
  · intro h
    obtain ⟨p1, hp1, _, _⟩ := packPre_wireBody v gz p thr b hb
    have hnp : (pack v gz p thr).isPanic = false := by
      rw [pack_eq, hp1]; exact packTail_no_panic v p1
    exact Res.not_ok_not_panic _ h hnp

/-- with a sound compressor, in one statement -/
theorem pack_error_iff_sound (v : Ver) (gz : GzOracle) (p : Packet) (thr : Int) (hs : gz.Sound) :
    ∃ b, wireBody v gz p thr = .ok b ∧
      ((∃ e, pack v gz p thr = .err e) ↔ (p.type = .other ∨ 16777215 < b.length)) := by
  obtain ⟨b, hb, _⟩ := wireBody_defined v gz p thr hs
  exact ⟨b, hb, (pack_error_iff v gz p thr b hb).2⟩

/-! non-vacuity: a v2 response with verify, one metadata pair and a 3-byte body is in the domain, `Pack`
accepts it (identity "compressor", which is Sound), and the round trip applies -/

def exPacket : Packet :=
  { type := .response, cmd := 7, rid := 0x01020304, status := 9, verify := true, nonce := 5
    signature := List.replicate 16 0xAA, values := [([0x61], [0x78])], codec := 1, body := [1, 2, 3] }

def idGz : GzOracle := { compress := fun x => .ok x, read := fun c => some (c, true) }

theorem idGz_sound : idGz.Sound := fun x => ⟨x, rfl, rfl⟩

theorem exPacket_inDomain : InDomain .v2 exPacket := by
  refine ⟨by decide, by decide, by decide, by decide, fun _ => ⟨by decide, ?_⟩⟩
  have : Metadata.sortPairs exPacket.values = [([0x61], [0x78])] := by
    simp [Metadata.sortPairs, exPacket]
  rw [this]; decide

example : ∃ bs p' q, pack .v2 idGz exPacket 0 = .ok (bs, p') ∧ unpackBytes .v2 idGz 1 bs = .ok q ∧ Equiv .v2 exPacket q := by
  have hb : wireBody .v2 idGz exPacket 0 = .ok [1, 2, 3] := by decide
  have hok := (pack_ok_iff .v2 idGz exPacket 0 _ hb).mpr ⟨by decide, by decide⟩
  cases h : pack .v2 idGz exPacket 0 with
  | ok r =>
    obtain ⟨bs, p'⟩ := r
    obtain ⟨q, h1, h2⟩ := roundtrip_oneshot .v2 idGz exPacket p' 0 bs 1 exPacket_inDomain idGz_sound h
    exact ⟨bs, p', q, rfl, h1, h2⟩
  | err e => rw [h] at hok; cases hok
  | panic w => rw [h] at hok; cases hok

/-- the same with compression engaged (threshold 1 ≤ 3 bytes) -/
example : ∃ bs p' q, pack .v2 idGz exPacket 1 = .ok (bs, p') ∧ p'.gzip = true ∧
    unpackBytes .v2 idGz 1 bs = .ok q ∧ Equiv .v2 exPacket q := by
  have hb : wireBody .v2 idGz exPacket 1 = .ok [1, 2, 3] := by decide
  have hok := (pack_ok_iff .v2 idGz exPacket 1 _ hb).mpr ⟨by decide, by decide⟩
  cases h : pack .v2 idGz exPacket 1 with
  | ok r =>
    obtain ⟨bs, p'⟩ := r
    obtain ⟨q, h1, h2⟩ := roundtrip_oneshot .v2 idGz exPacket p' 1 bs 1 exPacket_inDomain idGz_sound h
    obtain ⟨hpre, _⟩ := pack_ok_inv .v2 idGz exPacket p' 1 bs h
    refine ⟨bs, p', q, rfl, ?_, h1, h2⟩
    rcases packPre_ok .v2 idGz exPacket p' 1 hpre with ⟨hc, _⟩ | ⟨_, c, _, hp⟩
    · exact absurd hc (by decide)
    · rw [hp]
  | err e => rw [h] at hok; cases hok
  | panic w => rw [h] at hok; cases hok

end OAP.C01
