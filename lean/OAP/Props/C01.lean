/-
C01 — Frame round-trip fidelity (v1 and v2). Property theorems only.
-/
import OAP.Model.Frame
namespace OAP.C01
open OAP OAP.Frame

/-- an unknown packet type is refused (never encoded as something else) -/
theorem pack_error_unknown_type (v : Ver) (gz : GzOracle) (p : Packet) (thr : Int)
    (ht : p.type = .other) (hg : ∀ x, (gz.compress x).isPanic = false) :
    (pack v gz p thr).isOk = false := by
  unfold pack
  by_cases hc : gzipCond v thr p.body.length
  · have := hg p.body
    cases hcomp : gz.compress p.body with
    | ok c =>
      simp only [hc, ↓reduceIte, hcomp, Res.ok_bind]
      split
      · rfl
      · simp [headerFromMetadata, ht, Header.pack, isUnknown, tReq, tResp, tPush, Gen.v1_RequestPacket,
          Gen.v1_ResponsePacket, Gen.v1_PushPacket, Res.isOk]
    | err e => simp [hc, hcomp, Res.isOk]
    | panic w => simp [hcomp, Res.isPanic] at this
  · simp only [hc, Bool.false_eq_true, ↓reduceIte, Res.ok_bind]
    split
    · rfl
    · simp [headerFromMetadata, ht, Header.pack, isUnknown, tReq, tResp, tPush, Gen.v1_RequestPacket,
        Gen.v1_ResponsePacket, Gen.v1_PushPacket, Res.isOk]

/-- a body over 2^24−1 bytes that is not compressed is refused -/
theorem pack_error_over_limit (v : Ver) (gz : GzOracle) (p : Packet) (thr : Int)
    (hc : gzipCond v thr p.body.length = false) (hl : 16777215 < p.body.length) :
    (pack v gz p thr).isOk = false := by
  have : Gen.v1_MaxBodyLength = 16777215 := rfl
  simp [pack, hc, this, hl, Res.isOk]

end OAP.C01
