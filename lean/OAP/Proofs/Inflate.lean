/-
Proofs about the native gzip reader (`OAP.Inflate`): the stored-block compressor round-trips through it for
every input, which gives a concrete, sound instance of the gzip oracle of the frame model.
-/
import OAP.Model.Inflate
import OAP.Model.Frame
namespace OAP.Inflate
open OAP

/-! ### little-endian fields -/

theorem rd32le_le32 (x : UInt32) :
    rd32le x.toUInt8 (x >>> (8 : UInt32)).toUInt8 (x >>> (16 : UInt32)).toUInt8 (x >>> (24 : UInt32)).toUInt8 = x :=
  be32_rd32 x

theorem rd16le_le16 (n : Nat) (h : n ≤ 65535) :
    rd16le (n % 256).toUInt8 (n / 256 % 256).toUInt8 = n := by
  unfold rd16le
  simp
  omega

/-! ### one stored block -/

theorem readBits3_zero (rest : Bytes) :
    BitReader.readBits 3 ⟨0 :: rest, 0⟩ = some (0, ⟨0 :: rest, 3⟩) := by
  simp [BitReader.readBits, BitReader.readBit]

theorem readBits3_one (rest : Bytes) :
    BitReader.readBits 3 ⟨1 :: rest, 0⟩ = some (1, ⟨1 :: rest, 3⟩) := by
  simp [BitReader.readBits, BitReader.readBit]

theorem storedBlock_enc (x tl : Bytes) (out : Array UInt8) (h : x.length ≤ 65535) :
    storedBlock (le16 x.length ++ le16 (65535 - x.length) ++ x ++ tl) out = (out ++ x, some tl) := by
  simp only [le16, List.cons_append, List.nil_append, storedBlock]
  rw [rd16le_le16 _ h, rd16le_le16 _ (by omega)]
  simp
  omega


theorem align_zero (bs : Bytes) : BitReader.align ⟨bs, 0⟩ = bs := by simp [BitReader.align]
theorem align_three (b : UInt8) (bs : Bytes) : BitReader.align ⟨b :: bs, 3⟩ = bs := by simp [BitReader.align]

/-- a final stored block ends the loop: its content is appended, the bytes after it are the rest -/
theorem inflateLoop_final (sf fuel : Nat) (x tl : Bytes) (out : Array UInt8) (h : x.length ≤ 65535) :
    inflateLoop sf (fuel + 1) ⟨storedBlockEnc true x ++ tl, 0⟩ out = (out ++ x, some tl) := by
  have e : storedBlockEnc true x ++ tl = 1 :: (le16 x.length ++ le16 (65535 - x.length) ++ x ++ tl) := by
    simp [storedBlockEnc]
  rw [e, inflateLoop, readBits3_one]
  simp only [block, align_three, storedBlock_enc x tl out h]
  simp [align_zero]

/-- a non-final stored block: its content is appended and the loop continues at the next block -/
theorem inflateLoop_nonfinal (sf fuel : Nat) (x tl : Bytes) (out : Array UInt8) (h : x.length ≤ 65535) :
    inflateLoop sf (fuel + 1) ⟨storedBlockEnc false x ++ tl, 0⟩ out = inflateLoop sf fuel ⟨tl, 0⟩ (out ++ x) := by
  have e : storedBlockEnc false x ++ tl = 0 :: (le16 x.length ++ le16 (65535 - x.length) ++ x ++ tl) := by
    simp [storedBlockEnc]
  rw [e, inflateLoop, readBits3_zero]
  simp only [block, align_three, storedBlock_enc x tl out h]
  simp

/-! ### the chunked stream -/

theorem appendList_take_drop (out : Array UInt8) (x : Bytes) (k : Nat) : out ++ x.take k ++ x.drop k = out ++ x := by
  apply Array.toList_inj.mp
  simp

theorem inflateLoop_storedBlocks (sf : Nat) : ∀ (n : Nat) (x tl : Bytes) (out : Array UInt8) (fuel : Nat),
    n < fuel → x.length ≤ (n + 1) * 65535 →
    inflateLoop sf fuel ⟨storedBlocks n x ++ tl, 0⟩ out = (out ++ x, some tl) := by
  intro n
  induction n with
  | zero =>
    intro x tl out fuel hf hx
    obtain ⟨f, rfl⟩ : ∃ f, fuel = f + 1 := ⟨fuel - 1, by omega⟩
    simp only [storedBlocks]
    exact inflateLoop_final sf f x tl out (by omega)
  | succ n ih =>
    intro x tl out fuel hf hx
    obtain ⟨f, rfl⟩ : ∃ f, fuel = f + 1 := ⟨fuel - 1, by omega⟩
    simp only [storedBlocks]
    split
    · rename_i hs
      exact inflateLoop_final sf f x tl out hs
    · rename_i hs
      rw [List.append_assoc, inflateLoop_nonfinal sf f _ _ out (List.length_take_le _ _)]
      rw [ih (x.drop 65535) tl (out ++ x.take 65535) f (by omega) (by rw [List.length_drop]; omega)]
      rw [appendList_take_drop]


theorem length_storedBlocks_ge : ∀ (n : Nat) (x : Bytes), x.length ≤ (storedBlocks n x).length := by
  intro n
  induction n with
  | zero => intro x; simp [storedBlocks, storedBlockEnc, le16]; omega
  | succ n ih =>
    intro x
    simp only [storedBlocks]
    split
    · simp [storedBlockEnc, le16]; omega
    · rename_i hs
      have := ih (x.drop 65535)
      rw [List.length_drop] at this
      have hc : 65535 ≤ (storedBlockEnc false (x.take 65535)).length := by
        simp [storedBlockEnc, le16, List.length_take]; omega
      rw [List.length_append]
      omega

/-- the raw deflate round trip: the stored stream inflates to its input, leaving exactly what follows it -/
theorem inflateCore_storedDeflate (x tl : Bytes) :
    inflateCore (storedDeflate x ++ tl) = ((#[] : Array UInt8) ++ x, some tl) := by
  unfold inflateCore storedDeflate
  apply inflateLoop_storedBlocks
  · have := length_storedBlocks_ge (x.length / 65535) x
    have h2 : x.length / 65535 ≤ x.length := Nat.div_le_self _ _
    simp only [fuelFor, List.length_append]
    omega
  · have := Nat.lt_div_mul_add (a := x.length) (b := 65535) (by omega)
    rw [Nat.add_mul]; omega

theorem inflate_storedDeflate (x tl : Bytes) : inflate (storedDeflate x ++ tl) = some (x, tl) := by
  simp [inflate, inflateCore_storedDeflate]

/-! ### container -/

theorem crc32A_eq (a : Array UInt8) : crc32A a = crc32 a.toList := by
  simp [crc32A, crc32, crcUpdate, Array.foldl_toList]

theorem gzHeader_plain (body : Bytes) : gzHeader (gzHeaderBytes ++ body) = some body := by
  simp [gzHeader, gzHeaderBytes, skipExtra, skipString, checkHcrc, flagSet]

theorem checkTrailer_ok (out : Array UInt8) (rest : Bytes) :
    checkTrailer out (le32 (crc32A out) ++ le32 (UInt32.ofNat out.size) ++ rest) = .ok out rest := by
  simp only [checkTrailer, le32, List.cons_append, List.nil_append, rd32le_le32]
  simp

theorem gzMember_storedGzip (x rest : Bytes) : gzMember (storedGzip x ++ rest) = .ok ((#[] : Array UInt8) ++ x) rest := by
  have e : storedGzip x ++ rest =
      gzHeaderBytes ++ (storedDeflate x ++ (le32 (crc32 x) ++ le32 (UInt32.ofNat x.length) ++ rest)) := by
    simp [storedGzip]
  rw [e, gzMember, gzHeader_plain]
  simp only [inflateCore_storedDeflate]
  have h1 : crc32 x = crc32A ((#[] : Array UInt8) ++ x) := by rw [crc32A_eq]; simp
  have h2 : x.length = ((#[] : Array UInt8) ++ x).size := by simp
  rw [h1]
  conv => lhs; arg 2; arg 1; arg 2; rw [h2]
  exact checkTrailer_ok _ _

/-! ### the round trip -/

theorem gunzipMember_storedGzip (x rest : Bytes) : gunzipMember (storedGzip x ++ rest) = some (x, rest) := by
  simp [gunzipMember, gzMember_storedGzip]

/-- MAIN THEOREM: the native reader accepts the native compressor's stream for every input and returns that input -/
theorem gunzip_storedGzip (x : Bytes) : gunzip (storedGzip x) = some (x, true) := by
  have h := gzMember_storedGzip x []
  rw [List.append_nil] at h
  simp [gunzip, h]

/-- the same for the single-member (`Multistream(false)`) reader, whatever follows the stream -/
theorem gunzipFirst_storedGzip (x rest : Bytes) : gunzipFirst (storedGzip x ++ rest) = some (x, true) := by
  simp [gunzipFirst, gzMember_storedGzip]

/-! ### the concrete oracle -/

/-- Go's `compress/gzip` made concrete: the stored-block compressor and the native reader -/
def nativeGz : GzOracle := { compress := fun x => .ok (storedGzip x), read := gunzip }

theorem nativeGz_sound : nativeGz.Sound := fun x => ⟨storedGzip x, rfl, gunzip_storedGzip x⟩


/-! ### Progress: every read consumes input -/

/-- reader invariant: at most 7 bits of the head byte are consumed, and only if there is a head byte -/
def BitReader.WF (br : BitReader) : Prop := br.bit < 8 ∧ (br.bit ≠ 0 → br.data ≠ [])

theorem BitReader.WF.start (bs : Bytes) : BitReader.WF ⟨bs, 0⟩ := ⟨by simp, by simp⟩

theorem BitReader.WF.rem {br : BitReader} (hw : br.WF) : br.remBits + br.bit = 8 * br.data.length := by
  obtain ⟨d, k⟩ := br
  obtain ⟨hk, hne⟩ := hw
  simp only [BitReader.remBits] at *
  cases d with
  | nil => have : k = 0 := by false_or_by_contra; exact hne ‹_› rfl
           simp [this]
  | cons b rest => simp; omega

theorem readBit_spec {br br' : BitReader} {v : Nat} (hw : br.WF) (h : br.readBit = some (v, br')) :
    br'.WF ∧ br'.remBits + 1 = br.remBits ∧ v < 2 := by
  obtain ⟨d, k⟩ := br
  obtain ⟨hk, hne⟩ := hw
  cases d with
  | nil => simp [BitReader.readBit] at h
  | cons b rest =>
    simp only [BitReader.readBit] at h
    split at h
    · simp only [Option.some.injEq, Prod.mk.injEq] at h
      obtain ⟨rfl, rfl⟩ := h
      refine ⟨⟨by simp, by simp⟩, ?_, Nat.mod_lt _ (by omega)⟩
      simp only [BitReader.remBits, List.length_cons] at *; omega
    · simp only [Option.some.injEq, Prod.mk.injEq] at h
      obtain ⟨rfl, rfl⟩ := h
      refine ⟨⟨by simp at *; omega, by simp⟩, ?_, Nat.mod_lt _ (by omega)⟩
      simp only [BitReader.remBits, List.length_cons] at *; omega

theorem readBits_spec : ∀ (n : Nat) {br br' : BitReader} {v : Nat}, br.WF → br.readBits n = some (v, br') →
    br'.WF ∧ br'.remBits + n = br.remBits ∧ v < 2 ^ n := by
  intro n
  induction n with
  | zero =>
    intro br br' v hw h
    simp only [BitReader.readBits, Option.some.injEq, Prod.mk.injEq] at h
    obtain ⟨rfl, rfl⟩ := h
    exact ⟨hw, by simp, by simp⟩
  | succ n ih =>
    intro br br' v hw h
    simp only [BitReader.readBits] at h
    cases h1 : br.readBit with
    | none => simp [h1] at h
    | some p1 =>
      obtain ⟨b, br1⟩ := p1
      simp only [h1] at h
      obtain ⟨w1, r1, b2⟩ := readBit_spec hw h1
      cases h2 : br1.readBits n with
      | none => simp [h2] at h
      | some p2 =>
        obtain ⟨v2, br2⟩ := p2
        simp only [h2, Option.some.injEq, Prod.mk.injEq] at h
        obtain ⟨rfl, rfl⟩ := h
        obtain ⟨w2, r2, b3⟩ := ih w1 h2
        refine ⟨w2, by omega, ?_⟩
        rw [Nat.pow_succ]; omega

theorem decodeAux_spec (hf : Huff) : ∀ (fuel len code first index : Nat) {br br' : BitReader} {s : Nat},
    br.WF → decodeAux hf fuel len code first index br = some (s, br') →
    br'.WF ∧ br'.remBits < br.remBits := by
  intro fuel
  induction fuel with
  | zero => intro len code first index br br' s hw h; simp [decodeAux] at h
  | succ fuel ih =>
    intro len code first index br br' s hw h
    simp only [decodeAux] at h
    cases h1 : br.readBit with
    | none => simp [h1] at h
    | some p1 =>
      obtain ⟨b, br1⟩ := p1
      simp only [h1] at h
      obtain ⟨w1, r1, _⟩ := readBit_spec hw h1
      split at h
      · simp only [Option.some.injEq, Prod.mk.injEq] at h
        obtain ⟨_, rfl⟩ := h
        exact ⟨w1, by omega⟩
      · obtain ⟨w2, r2⟩ := ih _ _ _ _ w1 h
        exact ⟨w2, by omega⟩

/-- a Huffman symbol costs at least one bit -/
theorem decodeSym_spec {hf : Huff} {br br' : BitReader} {s : Nat} (hw : br.WF) (h : decodeSym hf br = some (s, br')) :
    br'.WF ∧ br'.remBits < br.remBits := decodeAux_spec hf _ _ _ _ _ hw h

theorem lenTable_bound (i : Nat) : lenBase.getD i 0 + 2 ^ (lenExtra.getD i 0) ≤ 259 := by
  by_cases h : i < 29
  · have : ∀ j, j < 29 → lenBase.getD j 0 + 2 ^ (lenExtra.getD j 0) ≤ 259 := by decide
    exact this i h
  · have h1 : lenBase.getD i 0 = 0 := by
      simp only [Array.getD]; rw [dif_neg]; simp [lenBase]; omega
    have h2 : lenExtra.getD i 0 = 0 := by
      simp only [Array.getD]; rw [dif_neg]; simp [lenExtra]; omega
    rw [h1, h2]; decide

/-- a match: at most 258 bytes, at least one more bit (the distance symbol) -/
theorem readLenDist_spec {dist : Huff} {sym len d : Nat} {br br' : BitReader} (hw : br.WF)
    (h : readLenDist dist sym br = some (len, d, br')) :
    br'.WF ∧ br'.remBits < br.remBits ∧ len ≤ 258 := by
  unfold readLenDist at h
  have hl := lenTable_bound (sym - 257)
  generalize lenExtra.getD (sym - 257) 0 = ne at h hl
  generalize lenBase.getD (sym - 257) 0 = lb at h hl
  split at h
  · simp at h
  · cases h1 : br.readBits ne with
    | none => simp [h1] at h
    | some p1 =>
      obtain ⟨e, br1⟩ := p1
      simp only [h1] at h
      obtain ⟨w1, r1, b1⟩ := readBits_spec _ hw h1
      cases h2 : decodeSym dist br1 with
      | none => simp [h2] at h
      | some p2 =>
        obtain ⟨ds, br2⟩ := p2
        simp only [h2] at h
        obtain ⟨w2, r2⟩ := decodeSym_spec w1 h2
        split at h
        · simp only [Option.some.injEq, Prod.mk.injEq] at h
          obtain ⟨rfl, _, rfl⟩ := h
          exact ⟨w2, by omega, by omega⟩
        · split at h
          · simp at h
          · cases h3 : br2.readBits ((ds - 2) / 2) with
            | none => simp [h3] at h
            | some p3 =>
              obtain ⟨x, br3⟩ := p3
              simp only [h3, Option.some.injEq, Prod.mk.injEq] at h
              obtain ⟨rfl, _, rfl⟩ := h
              obtain ⟨w3, r3, _⟩ := readBits_spec _ w2 h3
              exact ⟨w3, by omega, by omega⟩

theorem size_copyMatch : ∀ (n d : Nat) (out : Array UInt8), (copyMatch n d out).size = out.size + n := by
  intro n
  induction n with
  | zero => intro d out; simp [copyMatch]
  | succ n ih => intro d out; simp only [copyMatch]; rw [ih]; simp; omega

/-- unread bits of an optional reader (none = the block failed) -/
def remOpt : Option BitReader → Nat
  | some br => br.remBits
  | none => 0

/-- one compressed block: the output grows by at most 129 bytes per bit consumed (258 bytes for a match, which costs
at least one bit for its length symbol and one for its distance symbol) -/
theorem huffBlock_spec (lit dist : Huff) : ∀ (fuel : Nat) {br : BitReader} {out out' : Array UInt8} {r : Option BitReader},
    br.WF → huffBlock lit dist fuel br out = (out', r) →
    out.size ≤ out'.size ∧ out'.size + 129 * remOpt r ≤ out.size + 129 * br.remBits ∧ (∀ br', r = some br' → br'.WF) := by
  intro fuel
  induction fuel with
  | zero =>
    intro br out out' r hw h
    simp only [huffBlock, Prod.mk.injEq] at h
    obtain ⟨rfl, rfl⟩ := h
    simp [remOpt]
  | succ fuel ih =>
    intro br out out' r hw h
    simp only [huffBlock] at h
    cases h1 : decodeSym lit br with
    | none =>
      simp only [h1, Prod.mk.injEq] at h
      obtain ⟨rfl, rfl⟩ := h
      simp [remOpt]
    | some p1 =>
      obtain ⟨sym, br1⟩ := p1
      simp only [h1] at h
      obtain ⟨w1, r1⟩ := decodeSym_spec hw h1
      split at h
      · obtain ⟨a, b, c⟩ := ih w1 h
        simp only [Array.size_push] at a b
        exact ⟨by omega, by omega, c⟩
      · split at h
        · simp only [Prod.mk.injEq] at h
          obtain ⟨rfl, rfl⟩ := h
          refine ⟨by omega, ?_, ?_⟩
          · simp only [remOpt]; omega
          · intro br' e; cases e; exact w1
        · cases h2 : readLenDist dist sym br1 with
          | none =>
            simp only [h2, Prod.mk.injEq] at h
            obtain ⟨rfl, rfl⟩ := h
            simp [remOpt]
          | some p2 =>
            obtain ⟨len, d, br2⟩ := p2
            simp only [h2] at h
            obtain ⟨w2, r2, l2⟩ := readLenDist_spec w1 h2
            split at h
            · simp only [Prod.mk.injEq] at h
              obtain ⟨rfl, rfl⟩ := h
              simp [remOpt]
            · obtain ⟨a, b, c⟩ := ih w2 h
              rw [size_copyMatch] at a b
              exact ⟨by omega, by omega, c⟩

theorem readFields_spec (w : Nat) : ∀ (n : Nat) {br br' : BitReader} {vs : List Nat}, br.WF →
    readFields w n br = some (vs, br') → br'.WF ∧ br'.remBits ≤ br.remBits := by
  intro n
  induction n with
  | zero =>
    intro br br' vs hw h
    simp only [readFields, Option.some.injEq, Prod.mk.injEq] at h
    obtain ⟨_, rfl⟩ := h
    exact ⟨hw, Nat.le_refl _⟩
  | succ n ih =>
    intro br br' vs hw h
    simp only [readFields] at h
    cases h1 : br.readBits w with
    | none => simp [h1] at h
    | some p1 =>
      obtain ⟨v, br1⟩ := p1
      simp only [h1] at h
      obtain ⟨w1, r1, _⟩ := readBits_spec _ hw h1
      cases h2 : readFields w n br1 with
      | none => simp [h2] at h
      | some p2 =>
        obtain ⟨vs2, br2⟩ := p2
        simp only [h2, Option.some.injEq, Prod.mk.injEq] at h
        obtain ⟨_, rfl⟩ := h
        obtain ⟨w2, r2⟩ := ih w1 h2
        exact ⟨w2, by omega⟩

theorem readCodeLengths_spec (clh : Huff) (n : Nat) : ∀ (fuel : Nat) {br br' : BitReader} {acc lens : Array Nat}, br.WF →
    readCodeLengths clh n fuel br acc = some (lens, br') → br'.WF ∧ br'.remBits ≤ br.remBits := by
  intro fuel
  induction fuel with
  | zero => intro br br' acc lens hw h; simp [readCodeLengths] at h
  | succ fuel ih =>
    intro br br' acc lens hw h
    simp only [readCodeLengths] at h
    split at h
    · simp only [Option.some.injEq, Prod.mk.injEq] at h
      obtain ⟨_, rfl⟩ := h
      exact ⟨hw, Nat.le_refl _⟩
    · cases h1 : decodeSym clh br with
      | none => simp [h1] at h
      | some p1 =>
        obtain ⟨x, br1⟩ := p1
        simp only [h1] at h
        obtain ⟨w1, r1⟩ := decodeSym_spec hw h1
        split at h
        · obtain ⟨a, b⟩ := ih w1 h
          exact ⟨a, by omega⟩
        · split at h
          · split at h
            · simp at h
            · cases h2 : br1.readBits 2 with
              | none => simp [h2] at h
              | some p2 =>
                obtain ⟨r, br2⟩ := p2
                simp only [h2] at h
                obtain ⟨w2, r2, _⟩ := readBits_spec _ w1 h2
                split at h
                · simp at h
                · obtain ⟨a, b⟩ := ih w2 h
                  exact ⟨a, by omega⟩
          · split at h
            · cases h2 : br1.readBits 3 with
              | none => simp [h2] at h
              | some p2 =>
                obtain ⟨r, br2⟩ := p2
                simp only [h2] at h
                obtain ⟨w2, r2, _⟩ := readBits_spec _ w1 h2
                split at h
                · simp at h
                · obtain ⟨a, b⟩ := ih w2 h
                  exact ⟨a, by omega⟩
            · cases h2 : br1.readBits 7 with
              | none => simp [h2] at h
              | some p2 =>
                obtain ⟨r, br2⟩ := p2
                simp only [h2] at h
                obtain ⟨w2, r2, _⟩ := readBits_spec _ w1 h2
                split at h
                · simp at h
                · obtain ⟨a, b⟩ := ih w2 h
                  exact ⟨a, by omega⟩

theorem readDynamic_spec {br br' : BitReader} {lit dist : Huff} (hw : br.WF)
    (h : readDynamic br = some (lit, dist, br')) : br'.WF ∧ br'.remBits ≤ br.remBits := by
  unfold readDynamic at h
  cases h1 : br.readBits 5 with
  | none => simp [h1] at h
  | some p1 =>
    obtain ⟨hlit, br1⟩ := p1
    simp only [h1] at h
    obtain ⟨w1, r1, _⟩ := readBits_spec _ hw h1
    cases h2 : br1.readBits 5 with
    | none => simp [h2] at h
    | some p2 =>
      obtain ⟨hdist, br2⟩ := p2
      simp only [h2] at h
      obtain ⟨w2, r2, _⟩ := readBits_spec _ w1 h2
      cases h3 : br2.readBits 4 with
      | none => simp [h3] at h
      | some p3 =>
        obtain ⟨hclen, br3⟩ := p3
        simp only [h3] at h
        obtain ⟨w3, r3, _⟩ := readBits_spec _ w2 h3
        split at h
        · simp at h
        · cases h4 : readFields 3 (hclen + 4) br3 with
          | none => simp [h4] at h
          | some p4 =>
            obtain ⟨cl, br4⟩ := p4
            simp only [h4] at h
            obtain ⟨w4, r4⟩ := readFields_spec _ _ w3 h4
            split at h
            · simp at h
            · rename_i clh _
              split at h
              · simp at h
              · rename_i lens br5 h5
                obtain ⟨w5, r5⟩ := readCodeLengths_spec _ _ _ w4 h5
                split at h
                · simp only [Option.some.injEq, Prod.mk.injEq] at h
                  obtain ⟨_, _, rfl⟩ := h
                  exact ⟨w5, by omega⟩
                · simp at h

theorem align_le {br : BitReader} (hw : br.WF) : 8 * br.align.length ≤ br.remBits := by
  have hr := hw.rem
  obtain ⟨hk, hne⟩ := hw
  unfold BitReader.align
  split
  · omega
  · rename_i hb
    have := hne hb
    cases hd : br.data with
    | nil => exact absurd hd this
    | cons b rest => rw [hd] at hr; simp at *; omega

theorem size_appendList (a : Array UInt8) (l : List UInt8) : (a ++ l).size = a.size + l.length := by
  rw [← Array.length_toList]; simp

/-- unread bytes of an optional rest (none = failure) -/
def restLen : Option Bytes → Nat
  | some r => r.length
  | none => 0

theorem storedBlock_spec {bs : Bytes} {out out' : Array UInt8} {r : Option Bytes} (h : storedBlock bs out = (out', r)) :
    out.size ≤ out'.size ∧ out'.size + 8 * restLen r ≤ out.size + 8 * bs.length := by
  unfold storedBlock at h
  split at h
  · rename_i l0 l1 n0 n1 rest
    generalize rd16le l0 l1 = len at h
    simp only at h
    split at h
    · simp only [Prod.mk.injEq] at h
      obtain ⟨rfl, rfl⟩ := h
      simp [restLen]
    · split at h
      · simp only [Prod.mk.injEq] at h
        obtain ⟨rfl, rfl⟩ := h
        simp only [restLen, size_appendList, List.length_take, List.length_cons]
        omega
      · simp only [Prod.mk.injEq] at h
        obtain ⟨rfl, rfl⟩ := h
        simp only [restLen, size_appendList, List.length_take, List.length_cons, List.length_drop]
        omega
  · simp only [Prod.mk.injEq] at h
    obtain ⟨rfl, rfl⟩ := h
    simp [restLen]

theorem remBits_aligned (bs : Bytes) : BitReader.remBits ⟨bs, 0⟩ = 8 * bs.length := by simp [BitReader.remBits]

theorem block_spec {sf typ : Nat} {br : BitReader} {out out' : Array UInt8} {r : Option BitReader} (hw : br.WF)
    (h : block sf typ br out = (out', r)) :
    out.size ≤ out'.size ∧ out'.size + 129 * remOpt r ≤ out.size + 129 * br.remBits ∧ (∀ br', r = some br' → br'.WF) := by
  unfold block at h
  split at h
  · have ha := align_le hw
    split at h
    · rename_i o rest hs
      simp only [Prod.mk.injEq] at h
      obtain ⟨rfl, rfl⟩ := h
      obtain ⟨a, b⟩ := storedBlock_spec hs
      simp only [restLen] at b
      refine ⟨a, ?_, ?_⟩
      · simp only [remOpt, remBits_aligned]; omega
      · intro br' e; cases e; exact BitReader.WF.start _
    · rename_i o hs
      simp only [Prod.mk.injEq] at h
      obtain ⟨rfl, rfl⟩ := h
      obtain ⟨a, b⟩ := storedBlock_spec hs
      simp only [restLen] at b
      refine ⟨a, ?_, ?_⟩
      · simp only [remOpt]; omega
      · intro br' e; cases e
  · split at h
    · exact huffBlock_spec _ _ _ hw h
    · split at h
      · split at h
        · simp only [Prod.mk.injEq] at h
          obtain ⟨rfl, rfl⟩ := h
          simp [remOpt]
        · rename_i lit dist br1 h1
          obtain ⟨w1, r1⟩ := readDynamic_spec hw h1
          obtain ⟨a, b, c⟩ := huffBlock_spec _ _ _ w1 h
          exact ⟨a, by omega, c⟩
      · simp only [Prod.mk.injEq] at h
        obtain ⟨rfl, rfl⟩ := h
        simp [remOpt]

theorem inflateLoop_spec (sf : Nat) : ∀ (fuel : Nat) {br : BitReader} {out out' : Array UInt8} {r : Option Bytes},
    br.WF → inflateLoop sf fuel br out = (out', r) →
    out.size ≤ out'.size ∧ out'.size + 1032 * restLen r ≤ out.size + 129 * br.remBits := by
  intro fuel
  induction fuel with
  | zero =>
    intro br out out' r hw h
    simp only [inflateLoop, Prod.mk.injEq] at h
    obtain ⟨rfl, rfl⟩ := h
    simp [restLen]
  | succ fuel ih =>
    intro br out out' r hw h
    simp only [inflateLoop] at h
    cases h1 : br.readBits 3 with
    | none =>
      simp only [h1, Prod.mk.injEq] at h
      obtain ⟨rfl, rfl⟩ := h
      simp [restLen]
    | some p1 =>
      obtain ⟨hdr, br1⟩ := p1
      simp only [h1] at h
      obtain ⟨w1, r1, _⟩ := readBits_spec _ hw h1
      split at h
      · rename_i o hb
        simp only [Prod.mk.injEq] at h
        obtain ⟨rfl, rfl⟩ := h
        obtain ⟨a, b, _⟩ := block_spec w1 hb
        simp only [remOpt] at b
        refine ⟨a, ?_⟩
        simp only [restLen]; omega
      · rename_i o br2 hb
        obtain ⟨a, b, c⟩ := block_spec w1 hb
        simp only [remOpt] at b
        have w2 := c br2 rfl
        split at h
        · simp only [Prod.mk.injEq] at h
          obtain ⟨rfl, rfl⟩ := h
          have := align_le w2
          refine ⟨a, ?_⟩
          simp only [restLen]; omega
        · obtain ⟨a2, b2⟩ := ih w2 h
          exact ⟨by omega, by omega⟩

/-- OUTPUT BOUND: a deflate stream expands at most 1032 times (258 bytes per 2 bits); this also bounds what a
malformed stream outputs before it is rejected -/
theorem inflateCore_bound (bs : Bytes) :
    (inflateCore bs).1.size + 1032 * restLen (inflateCore bs).2 ≤ 1032 * bs.length := by
  have h := inflateLoop_spec (fuelFor bs.length) (fuelFor bs.length) (BitReader.WF.start bs)
    (show inflateLoop _ _ ⟨bs, 0⟩ #[] = ((inflateCore bs).1, (inflateCore bs).2) from rfl)
  rw [remBits_aligned] at h
  have := h.2
  simp only [Array.size_empty] at this
  omega

theorem inflate_bound {bs out rest : Bytes} (h : inflate bs = some (out, rest)) :
    out.length + 1032 * rest.length ≤ 1032 * bs.length := by
  have hb := inflateCore_bound bs
  unfold inflate at h
  split at h
  · rename_i o r hc
    simp only [Option.some.injEq, Prod.mk.injEq] at h
    obtain ⟨rfl, rfl⟩ := h
    rw [hc] at hb
    simpa [restLen] using hb
  · simp at h

/-! ### The fuel never runs out -/

theorem huffBlock_fuel (lit dist : Huff) : ∀ (f1 f2 : Nat) {br : BitReader} {out : Array UInt8}, br.WF →
    br.remBits < f1 → br.remBits < f2 → huffBlock lit dist f1 br out = huffBlock lit dist f2 br out := by
  intro f1
  induction f1 with
  | zero => intro f2 br out hw h1 h2; omega
  | succ f1 ih =>
    intro f2 br out hw hf1 hf2
    obtain ⟨f2, rfl⟩ : ∃ f, f2 = f + 1 := ⟨f2 - 1, by omega⟩
    simp only [huffBlock]
    cases h1 : decodeSym lit br with
    | none => rfl
    | some p1 =>
      obtain ⟨sym, br1⟩ := p1
      obtain ⟨w1, r1⟩ := decodeSym_spec hw h1
      simp only []
      by_cases c1 : sym < 256
      · simp only [c1, ↓reduceIte]; exact ih _ w1 (by omega) (by omega)
      · simp only [c1, ↓reduceIte]
        by_cases c2 : sym = 256
        · simp only [c2, ↓reduceIte]
        · simp only [c2, ↓reduceIte]
          cases h2 : readLenDist dist sym br1 with
          | none => rfl
          | some p2 =>
            obtain ⟨len, d, br2⟩ := p2
            obtain ⟨w2, r2, _⟩ := readLenDist_spec w1 h2
            simp only []
            by_cases c3 : d > out.size
            · simp only [c3, ↓reduceIte]
            · simp only [c3, ↓reduceIte]; exact ih _ w2 (by omega) (by omega)

theorem block_fuel {sf1 sf2 typ : Nat} {br : BitReader} {out : Array UInt8} (hw : br.WF)
    (h1 : br.remBits < sf1) (h2 : br.remBits < sf2) : block sf1 typ br out = block sf2 typ br out := by
  unfold block
  by_cases c0 : typ = 0
  · simp only [c0, ↓reduceIte]
  · simp only [c0, ↓reduceIte]
    by_cases c1 : typ = 1
    · simp only [c1, ↓reduceIte]; exact huffBlock_fuel _ _ _ _ hw h1 h2
    · simp only [c1, ↓reduceIte]
      by_cases c2 : typ = 2
      · simp only [c2, ↓reduceIte]
        cases hd : readDynamic br with
        | none => rfl
        | some p =>
          obtain ⟨lit, dist, br1⟩ := p
          obtain ⟨w1, r1⟩ := readDynamic_spec hw hd
          exact huffBlock_fuel _ _ _ _ w1 (by omega) (by omega)
      · simp only [c2, ↓reduceIte]

theorem inflateLoop_fuel : ∀ (f1 f2 sf1 sf2 : Nat) {br : BitReader} {out : Array UInt8}, br.WF →
    br.remBits < f1 → br.remBits < f2 → br.remBits < sf1 → br.remBits < sf2 →
    inflateLoop sf1 f1 br out = inflateLoop sf2 f2 br out := by
  intro f1
  induction f1 with
  | zero => intro f2 sf1 sf2 br out hw h1; omega
  | succ f1 ih =>
    intro f2 sf1 sf2 br out hw hf1 hf2 hs1 hs2
    obtain ⟨f2, rfl⟩ : ∃ f, f2 = f + 1 := ⟨f2 - 1, by omega⟩
    simp only [inflateLoop]
    cases h1 : br.readBits 3 with
    | none => rfl
    | some p1 =>
      obtain ⟨hdr, br1⟩ := p1
      obtain ⟨w1, r1, _⟩ := readBits_spec _ hw h1
      simp only []
      rw [block_fuel (sf1 := sf1) (sf2 := sf2) w1 (by omega) (by omega)]
      cases hb : block sf2 (hdr / 2) br1 out with
      | mk o r =>
        cases r with
        | none => rfl
        | some br2 =>
          obtain ⟨a, b, c⟩ := block_spec w1 hb
          simp only [remOpt] at b
          have w2 := c br2 rfl
          simp only []
          by_cases cf : hdr % 2 = 1
          · simp only [cf, ↓reduceIte]
          · simp only [cf, ↓reduceIte]
            exact ih _ _ _ w2 (by omega) (by omega) (by omega) (by omega)

/-- TOTALITY IN SUBSTANCE: the fuel `inflateCore` passes (one more than the number of input bits, for the block loop
and for the symbol loop) is never the reason for a failure — any larger fuel gives the same result, because every
block costs at least 3 bits and every symbol at least 1 -/
theorem inflateCore_fuel (bs : Bytes) (f sf : Nat) (hf : fuelFor bs.length ≤ f) (hs : fuelFor bs.length ≤ sf) :
    inflateLoop sf f ⟨bs, 0⟩ #[] = inflateCore bs := by
  unfold inflateCore
  have : BitReader.remBits ⟨bs, 0⟩ < fuelFor bs.length := by rw [remBits_aligned]; simp [fuelFor]
  exact inflateLoop_fuel _ _ _ _ (BitReader.WF.start bs) (by omega) (by omega) (by omega) (by omega)

/-! ### Container: progress and expansion bound -/

theorem skipCString_length : ∀ (n : Nat) {bs r : Bytes}, skipCString n bs = some r → r.length < bs.length := by
  intro n
  induction n with
  | zero => intro bs r h; simp [skipCString] at h
  | succ n ih =>
    intro bs r h
    cases bs with
    | nil => simp [skipCString] at h
    | cons b rest =>
      simp only [skipCString] at h
      split at h
      · simp only [Option.some.injEq] at h; subst h; simp
      · have := ih h; simp; omega

theorem skipString_length {flg : UInt8} {bit : Nat} {bs r : Bytes} (h : skipString flg bit bs = some r) :
    r.length ≤ bs.length := by
  unfold skipString at h
  split at h
  · exact Nat.le_of_lt (skipCString_length _ h)
  · simp only [Option.some.injEq] at h; subst h; exact Nat.le_refl _

theorem skipExtra_length {flg : UInt8} {bs r : Bytes} (h : skipExtra flg bs = some r) : r.length ≤ bs.length := by
  unfold skipExtra at h
  split at h
  · split at h
    · simp only at h
      split at h
      · simp at h
      · simp only [Option.some.injEq] at h; subst h; simp only [List.length_drop, List.length_cons]; omega
    · simp at h
  · simp only [Option.some.injEq] at h; subst h; exact Nat.le_refl _

theorem checkHcrc_length {flg : UInt8} {all bs r : Bytes} (h : checkHcrc flg all bs = some r) : r.length ≤ bs.length := by
  unfold checkHcrc at h
  split at h
  · split at h
    · split at h
      · simp only [Option.some.injEq] at h; subst h; simp only [List.length_cons]; omega
      · simp at h
    · simp at h
  · simp only [Option.some.injEq] at h; subst h; exact Nat.le_refl _

/-- a member header is at least 10 bytes -/
theorem gzHeader_length {bs body : Bytes} (h : gzHeader bs = some body) : body.length + 10 ≤ bs.length := by
  unfold gzHeader at h
  split at h
  · rename_i id1 id2 cm flg _ _ _ _ _ _ r0
    split at h
    · simp at h
    · split at h
      · simp at h
      · rename_i r1 h1
        split at h
        · simp at h
        · rename_i r2 h2
          split at h
          · simp at h
          · rename_i r3 h3
            have a := skipExtra_length h1
            have b := skipString_length h2
            have c := skipString_length h3
            have d := checkHcrc_length h
            simp only [List.length_cons]
            omega
  · simp at h

theorem checkTrailer_ok_inv {out o : Array UInt8} {bs rest : Bytes} (h : checkTrailer out bs = .ok o rest) :
    o = out ∧ rest.length + 8 = bs.length := by
  unfold checkTrailer at h
  split at h
  · split at h
    · simp only [MemberRes.ok.injEq] at h
      obtain ⟨rfl, rfl⟩ := h
      simp
    · simp at h
  · simp at h

theorem checkTrailer_err_inv {out o : Array UInt8} {bs : Bytes} (h : checkTrailer out bs = .bodyErr o) : o = out := by
  unfold checkTrailer at h
  split at h
  · split at h
    · simp at h
    · simp only [MemberRes.bodyErr.injEq] at h; exact h.symm
  · simp only [MemberRes.bodyErr.injEq] at h; exact h.symm

/-- a valid member takes at least 18 bytes and expands at most 1032 times -/
theorem gzMember_ok {bs rest : Bytes} {out : Array UInt8} (h : gzMember bs = .ok out rest) :
    rest.length + 18 ≤ bs.length ∧ out.size + 1032 * rest.length ≤ 1032 * bs.length := by
  unfold gzMember at h
  split at h
  · simp at h
  · rename_i body hh
    have hl := gzHeader_length hh
    have hb := inflateCore_bound body
    split at h
    · simp at h
    · rename_i o r hc
      rw [hc] at hb
      simp only [restLen] at hb
      obtain ⟨rfl, ht⟩ := checkTrailer_ok_inv h
      constructor <;> omega

theorem gzMember_err {bs : Bytes} {out : Array UInt8} (h : gzMember bs = .bodyErr out) :
    out.size ≤ 1032 * bs.length := by
  unfold gzMember at h
  split at h
  · simp at h
  · rename_i body hh
    have hl := gzHeader_length hh
    have hb := inflateCore_bound body
    split at h
    · rename_i o hc
      rw [hc] at hb
      simp only [MemberRes.bodyErr.injEq] at h
      subst h
      simp only [restLen] at hb
      omega
    · rename_i o r hc
      rw [hc] at hb
      have := checkTrailer_err_inv h
      subst this
      simp only [restLen] at hb
      omega

theorem gunzipMore_spec : ∀ (fuel : Nat) {bs : Bytes} {acc acc' : Array UInt8} {b : Bool},
    gunzipMore fuel bs acc = (acc', b) → acc'.size ≤ acc.size + 1032 * bs.length := by
  intro fuel
  induction fuel with
  | zero =>
    intro bs acc acc' b h
    simp only [gunzipMore, Prod.mk.injEq] at h
    obtain ⟨rfl, _⟩ := h
    omega
  | succ fuel ih =>
    intro bs acc acc' b h
    simp only [gunzipMore] at h
    split at h
    · simp only [Prod.mk.injEq] at h
      obtain ⟨rfl, _⟩ := h
      omega
    · rename_i o hm
      have := gzMember_err hm
      simp only [Prod.mk.injEq] at h
      obtain ⟨rfl, _⟩ := h
      simp only [Array.size_append]; omega
    · rename_i o rest hm
      obtain ⟨a, c⟩ := gzMember_ok hm
      split at h
      · simp only [Prod.mk.injEq] at h
        obtain ⟨rfl, _⟩ := h
        simp only [Array.size_append]; omega
      · have := ih h
        simp only [Array.size_append] at this
        omega

/-- OUTPUT BOUND for the gzip reader (all members together, also the prefix delivered before an error) -/
theorem gunzip_bound {bs p : Bytes} {b : Bool} (h : gunzip bs = some (p, b)) : p.length ≤ 1032 * bs.length := by
  unfold gunzip at h
  split at h
  · simp at h
  · rename_i o hm
    have := gzMember_err hm
    simp only [Option.some.injEq, Prod.mk.injEq] at h
    obtain ⟨rfl, _⟩ := h
    simpa using this
  · rename_i o rest hm
    obtain ⟨a, c⟩ := gzMember_ok hm
    split at h
    · simp only [Option.some.injEq, Prod.mk.injEq] at h
      obtain ⟨rfl, _⟩ := h
      simp only [Array.length_toList]; omega
    · simp only [Option.some.injEq, Prod.mk.injEq] at h
      obtain ⟨rfl, _⟩ := h
      have := gunzipMore_spec bs.length (bs := rest) (acc := o) (acc' := (gunzipMore bs.length rest o).1)
        (b := (gunzipMore bs.length rest o).2) rfl
      simp only [Array.length_toList]; omega

/-- the member loop's fuel (the input length) is never the reason for a failure: every member takes at least 18 bytes -/
theorem gunzipMore_fuel : ∀ (f1 f2 : Nat) {bs : Bytes} {acc : Array UInt8}, bs.length ≤ f1 → bs.length ≤ f2 → bs ≠ [] →
    gunzipMore f1 bs acc = gunzipMore f2 bs acc := by
  intro f1
  induction f1 with
  | zero => intro f2 bs acc h1 h2 hne; cases bs with
    | nil => exact absurd rfl hne
    | cons _ _ => simp at h1
  | succ f1 ih =>
    intro f2 bs acc h1 h2 hne
    cases f2 with
    | zero => cases bs with
      | nil => exact absurd rfl hne
      | cons _ _ => simp at h2
    | succ f2 =>
      simp only [gunzipMore]
      cases hm : gzMember bs with
      | hdrErr => rfl
      | bodyErr o => rfl
      | ok o rest =>
        obtain ⟨a, _⟩ := gzMember_ok hm
        simp only []
        by_cases c : rest.isEmpty
        · simp only [c, ↓reduceIte]
        · simp only [c]
          exact ih _ (by omega) (by omega) (by intro e; simp [e] at c)

/-- the expansion ratio the library's `Decompress` assumes (`maxExpansionRatio = 1032`) holds for the native reader:
whatever it returns is at most 1032 times the input -/
theorem nativeGz_decompress_bound {bs out : Bytes} (h : Gzip.decompress nativeGz bs = .ok out) :
    out.length ≤ bs.length * Gzip.maxExpansion := by
  unfold Gzip.decompress at h
  split at h
  · rename_i p hp
    simp only [Res.ok.injEq] at h
    subst h
    have := gunzip_bound (show gunzip bs = some (p, true) from hp)
    simp only [Gzip.maxExpansion]; omega
  · simp at h

/-! ### Decided examples (kernel evaluation of the executable definitions) -/

section Examples

example : crc32 [] = 0 := by decide
/-- the check value of CRC-32/ISO-HDLC: "123456789" -/
example : crc32 [0x31, 0x32, 0x33, 0x34, 0x35, 0x36, 0x37, 0x38, 0x39] = 0xCBF43926 := by decide +kernel

/-- the native compressor's stream for "hello" -/
example : storedGzip [0x68, 0x65, 0x6c, 0x6c, 0x6f] =
    [0x1f, 0x8b, 0x08, 0x00, 0x00, 0x00, 0x00, 0x00, 0x00, 0xff, 0x01, 0x05, 0x00, 0xfa, 0xff,
     0x68, 0x65, 0x6c, 0x6c, 0x6f, 0x86, 0xa6, 0x10, 0x36, 0x05, 0x00, 0x00, 0x00] := by decide +kernel
example : storedGzip [] =
    [0x1f, 0x8b, 0x08, 0x00, 0x00, 0x00, 0x00, 0x00, 0x00, 0xff, 0x01, 0x00, 0x00, 0xff, 0xff, 0, 0, 0, 0, 0, 0, 0, 0] := by
  decide +kernel

def helloText : Bytes := [0x68, 0x65, 0x6c, 0x6c, 0x6f, 0x20, 0x68, 0x65, 0x6c, 0x6c, 0x6f, 0x20, 0x68, 0x65, 0x6c, 0x6c, 0x6f, 0x20, 0x68, 0x65, 0x6c, 0x6c, 0x6f]

/-- `printf 'hello hello hello hello' | gzip -9n`: one fixed-Huffman block with a match (length 17, distance 6) -/
def fixedStream : Bytes := [0x1f, 0x8b, 0x08, 0x00, 0x00, 0x00, 0x00, 0x00, 0x02, 0x03, 0xcb, 0x48, 0xcd, 0xc9, 0xc9, 0x57, 0xc8, 0x40, 0x27, 0x01, 0xe3, 0x51, 0x3d, 0x8d, 0x17, 0x00, 0x00, 0x00]
example : gunzip fixedStream = some (helloText, true) := by decide +kernel
example : gunzipMember fixedStream = some (helloText, []) := by decide +kernel

/-- a hand-made dynamic-Huffman block (HLIT = 4, HDIST = 1, HCLEN = 14; code lengths sent with the repeat codes 17/18):
literals `a`, `b`, then a match of length 6 at distance 2 -/
def dynStream : Bytes := [0x1f, 0x8b, 0x08, 0x00, 0x00, 0x00, 0x00, 0x00, 0x00, 0xff, 0x25, 0xc1, 0x41, 0x0d, 0x00, 0x00, 0x00, 0x40, 0xc0, 0xac, 0xf4, 0x0f, 0xe1, 0x61, 0x87, 0x0b, 0xe8, 0x0f, 0x83, 0x52, 0x08, 0x00, 0x00, 0x00]
example : gunzip dynStream = some ([0x61, 0x62, 0x61, 0x62, 0x61, 0x62, 0x61, 0x62], true) := by decide +kernel

/-- a wrong CRC-32 (first trailer byte flipped) or a wrong ISIZE: an error AFTER the whole content was produced -/
example : gunzip [0x1f, 0x8b, 0x08, 0x00, 0x00, 0x00, 0x00, 0x00, 0x02, 0x03, 0xcb, 0x48, 0xcd, 0xc9, 0xc9, 0x57, 0xc8, 0x40, 0x27, 0x01, 0xe2, 0x51, 0x3d, 0x8d, 0x17, 0x00, 0x00, 0x00] = some (helloText, false) := by decide +kernel
example : gunzip [0x1f, 0x8b, 0x08, 0x00, 0x00, 0x00, 0x00, 0x00, 0x02, 0x03, 0xcb, 0x48, 0xcd, 0xc9, 0xc9, 0x57, 0xc8, 0x40, 0x27, 0x01, 0xe3, 0x51, 0x3d, 0x8d, 0x17, 0x00, 0x00, 0x01] = some (helloText, false) := by decide +kernel
/-- truncated inside the trailer / inside the deflate data / inside the header -/
example : gunzip (fixedStream.take 27) = some (helloText, false) := by decide +kernel
example : gunzip (fixedStream.take 14) = some ([0x68, 0x65, 0x6c], false) := by decide +kernel
example : gunzip (fixedStream.take 9) = none := by decide +kernel
example : gunzip [] = none := by decide
/-- wrong magic, wrong compression method -/
example : gunzip (0x1e :: fixedStream.drop 1) = none := by decide +kernel
example : gunzip (fixedStream.take 2 ++ [7] ++ fixedStream.drop 3) = none := by decide +kernel
/-- the reserved FLG bits are ignored (as Go does) -/
example : gunzip (fixedStream.take 3 ++ [0xe0] ++ fixedStream.drop 4) = some (helloText, true) := by decide +kernel

/-- several members are concatenated; anything else after a member is an error (multistream mode, the library's usage);
the single-member reader does not look at it -/
example : gunzip (storedGzip [1, 2] ++ storedGzip [] ++ storedGzip [3]) = some ([1, 2, 3], true) := by decide +kernel
example : gunzip (storedGzip [1, 2] ++ [0]) = some ([1, 2], false) := by decide +kernel
example : gunzipFirst (storedGzip [1, 2] ++ [0]) = some ([1, 2], true) := by decide +kernel

/-- raw deflate: block type 3; LEN/NLEN mismatch; a match before any output (distance too far back);
literal/length symbol 286; an empty stored block followed by two unread bytes; a literal in a fixed block -/
example : inflate [0x07] = none := by decide +kernel
example : inflate [0x01, 0x05, 0x00, 0x00, 0x00] = none := by decide +kernel
example : inflate [0x03, 0x02, 0x00] = none := by decide +kernel
example : inflate [0x1b, 0x03, 0x00, 0x00] = none := by decide +kernel
example : inflate [0x01, 0x00, 0x00, 0xff, 0xff, 0xaa, 0xbb] = some ([], [0xaa, 0xbb]) := by decide +kernel
example : inflate [0x4b, 0x04, 0x00, 0x00] = some ([0x61], [0x00]) := by decide +kernel

/-- code lengths: over-subscribed and incomplete codes are rejected; the empty code and the single code of length 1 are not -/
example : (Huff.ofLengths [1, 1, 1]).isSome = false := by decide +kernel
example : (Huff.ofLengths [2, 2, 2]).isSome = false := by decide +kernel
example : (Huff.ofLengths [0, 2]).isSome = false := by decide +kernel
example : (Huff.ofLengths [0, 0]).isSome = true := by decide +kernel
example : (Huff.ofLengths [0, 1]).isSome = true := by decide +kernel
example : (Huff.ofLengths [2, 1, 3, 3]).isSome = true := by decide +kernel
example : (Huff.ofLengths fixedLitLens).isSome = true := by decide +kernel

end Examples

end OAP.Inflate
