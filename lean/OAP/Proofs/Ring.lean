/-
Refinement lemmas for the remaining ring-buffer operations (`Read`, `PeekAll`, `PeekUintN`):
under `WF` each acts on `abs` as the corresponding byte-queue operation, for every geometry.
The queue-side counterparts are the total functions `Q.u8 … Q.u64` (0 on a short queue, exactly
like the Go methods), so the `PeekUintN` specifications need no length hypothesis at all.
-/
import OAP.Model.Ring
namespace OAP

/- queue-side readers: what `PeekUintN` returns as a function of the queued bytes -/
namespace Q
def u8 : Bytes → UInt8
  | a :: _ => a
  | _ => 0
def u16 : Bytes → UInt16
  | a :: b :: _ => rd16 a b
  | _ => 0
def u32 : Bytes → UInt32
  | a :: b :: c :: d :: _ => rd32 a b c d
  | _ => 0
def u64 : Bytes → UInt64
  | a :: b :: c :: d :: e :: f :: g :: h :: _ => rd64 a b c d e f g h
  | _ => 0
end Q

namespace Ring

theorem retrieve_wf (rb : Ring) (h : rb.WF) (n : Nat) : (rb.retrieve n).WF := (retrieve_spec rb h n).1
theorem retrieve_abs (rb : Ring) (h : rb.WF) (n : Nat) : (rb.retrieve n).abs = rb.abs.drop n :=
  (retrieve_spec rb h n).2

/-- a ring that reports a positive length is flagged non-empty and has a positive capacity -/
theorem pos_of_length_pos (rb : Ring) (h : rb.WF) (hl : 0 < rb.length) :
    rb.isEmpty = false ∧ 0 < rb.size := by
  unfold length at hl
  refine ⟨?_, ?_⟩
  · cases he : rb.isEmpty with
    | false => rfl
    | true => have := h.emp he; simp [he, this] at hl
  · by_cases hz : rb.size = 0
    · have := h.rlt hz; have := h.wlt hz; simp_all
    · omega

/-- the pointer after reading everything is the write pointer -/
theorem advance_all (rb : Ring) (h : rb.WF) (he : rb.isEmpty = false) (hz : 0 < rb.size) :
    (rb.r + rb.length) % rb.size = rb.w := by
  have hr := h.rlt' hz; have hw := h.wlt' hz
  unfold length
  simp only [he, Bool.false_eq_true, ↓reduceIte]
  by_cases e : rb.w = rb.r
  · simp [e]; exact Nat.mod_eq_of_lt hr
  · by_cases hlt : rb.r < rb.w
    · simp only [e, hlt, ↓reduceIte]
      rw [show rb.r + (rb.w - rb.r) = rb.w by omega]; exact Nat.mod_eq_of_lt hw
    · simp only [e, hlt, ↓reduceIte]
      rw [show rb.r + (rb.size - rb.r + rb.w) = rb.w + rb.size by omega, Nat.add_mod_right]
      exact Nat.mod_eq_of_lt hw

/-- `Read(p)`, `len(p) = n > 0`, on a ring holding at least one byte: the first `n` queued bytes
(fewer if fewer are queued) are returned and dropped. Precondition `0 < rb.length`: it implies the
ring is not flagged empty (else `ErrIsEmpty`) and has capacity > 0 (else `% size` panics). -/
theorem read_spec (rb : Ring) (h : rb.WF) (n : Nat) (hn : 0 < n) (hl : 0 < rb.length) :
    ∃ rb', rb.read n = .ok (rb.abs.take n, rb') ∧ rb'.WF ∧ rb'.abs = rb.abs.drop n := by
  obtain ⟨he, hz⟩ := pos_of_length_pos rb h hl
  have hpk := peek_abs rb h n
  have hla := length_abs rb h
  have hm : (rb.peek n).1.length + (rb.peek n).2.length = min n rb.length := by
    rw [← List.length_append, hpk, List.length_take, hla]
  have hread : rb.read n = .ok (rb.abs.take n,
      { rb with r := (rb.r + min n rb.length) % rb.size,
                isEmpty := ((rb.r + min n rb.length) % rb.size == rb.w) }) := by
    unfold read
    simp only [show n ≠ 0 by omega, he, show rb.size ≠ 0 by omega, ↓reduceIte, hpk, hm,
      Bool.false_eq_true]
  refine ⟨_, hread, ?_⟩
  by_cases hlt : n < rb.length
  · -- partial read: the state is that of `Retrieve(n)`
    have hmin : min n rb.length = n := by omega
    rw [hmin]
    have hs := retrieve_spec rb h n
    have hr : rb.retrieve n =
        { rb with r := (rb.r + n) % rb.size, isEmpty := (rb.w == (rb.r + n) % rb.size) } := by
      simp [retrieve, he, show n ≠ 0 by omega, hlt]
    have hne : rb.w ≠ (rb.r + n) % rb.size := by
      intro hc
      rw [hr] at hs
      have h0 : (rb.abs.drop n).length = 0 := by
        rw [← hs.2]; simp [abs, ← hc]
      rw [List.length_drop] at h0; omega
    have e1 : ((rb.r + n) % rb.size == rb.w) = false := by
      simp only [beq_eq_false_iff_ne, ne_eq]; exact fun hc => hne hc.symm
    have e2 : (rb.w == (rb.r + n) % rb.size) = false := by
      simp only [beq_eq_false_iff_ne, ne_eq]; exact hne
    rw [e1]; rw [hr, e2] at hs; exact hs
  · -- everything is read: r meets w, the ring is flagged empty
    have hmin : min n rb.length = rb.length := by omega
    rw [hmin, advance_all rb h he hz]
    refine ⟨?_, ?_⟩
    · constructor <;> simp <;> first | exact h.len | exact h.wlt | exact h.wlt'
    · rw [List.drop_of_length_le (by omega)]; simp [abs]

theorem read_zero (rb : Ring) : rb.read 0 = .ok ([], rb) := by simp [read]

theorem read_empty (rb : Ring) (n : Nat) (hn : 0 < n) (he : rb.isEmpty = true) :
    rb.read n = .err "ring buffer is empty" := by
  simp [read, show n ≠ 0 by omega, he]

/-- the form used by the decoders: they only read what `Length()` has promised -/
theorem read_abs (rb : Ring) (h : rb.WF) (n : Nat) (hn : n ≤ rb.length) :
    ∃ rb', rb.read n = .ok (rb.abs.take n, rb') ∧ rb'.WF ∧ rb'.abs = rb.abs.drop n := by
  by_cases h0 : n = 0
  · subst h0; exact ⟨rb, by simp [read_zero], h, by simp⟩
  · exact read_spec rb h n (by omega) (by omega)

theorem peekAll_abs (rb : Ring) (_h : rb.WF) : (rb.peekAll).1 ++ (rb.peekAll).2 = rb.abs := by
  unfold peekAll abs
  by_cases he : rb.isEmpty = true
  · simp [he]
  · simp only [he, Bool.false_eq_true, ↓reduceIte]
    split <;> simp

/-- `PeekUint8()` is total: the first queued byte, 0 on an empty ring -/
theorem peekUint8_abs (rb : Ring) (h : rb.WF) : rb.peekUint8 = .ok (Q.u8 rb.abs) := by
  have hla := length_abs rb h
  have hpk := peek_abs rb h 1
  unfold peekUint8
  by_cases hl : rb.length < 1
  · have : rb.abs = [] := List.eq_nil_of_length_eq_zero (by omega)
    simp [hl, this, Q.u8]
  · simp only [hl, ↓reduceIte]
    cases habs : rb.abs with
    | nil => rw [habs] at hla; simp at hla; omega
    | cons a t =>
      rw [habs] at hpk
      simp only [List.take_succ_cons, List.take_zero] at hpk
      cases hf : (rb.peek 1).1 with
      | nil =>
        rw [hf, List.nil_append] at hpk
        simp [hpk, Q.u8, Bytes.idx]
      | cons x xs =>
        rw [hf] at hpk
        simp only [List.cons_append, List.cons.injEq, List.append_eq_nil_iff] at hpk
        obtain ⟨rfl, rfl, h2⟩ := hpk
        simp [h2, Q.u8, Bytes.idx]

theorem peekUint16_abs (rb : Ring) (h : rb.WF) : rb.peekUint16 = .ok (Q.u16 rb.abs) := by
  have hla := length_abs rb h
  have hpk := peek_abs rb h 2
  unfold peekUint16
  by_cases hl : rb.length < 2
  · simp only [hl, ↓reduceIte]
    match habs : rb.abs, hla with
    | [], _ => rfl
    | [_], _ => rfl
    | _ :: _ :: _, hla => simp at hla; omega
  · simp only [hl, ↓reduceIte, hpk]
    match habs : rb.abs, hla with
    | [], hla => simp at hla; omega
    | [_], hla => simp at hla; omega
    | a :: b :: t, _ => simp [Q.u16]

theorem peekUint32_abs (rb : Ring) (h : rb.WF) : rb.peekUint32 = .ok (Q.u32 rb.abs) := by
  have hla := length_abs rb h
  have hpk := peek_abs rb h 4
  unfold peekUint32
  by_cases hl : rb.length < 4
  · simp only [hl, ↓reduceIte]
    match habs : rb.abs, hla with
    | [], _ => rfl
    | [_], _ => rfl
    | [_, _], _ => rfl
    | [_, _, _], _ => rfl
    | _ :: _ :: _ :: _ :: _, hla => simp at hla; omega
  · simp only [hl, ↓reduceIte, hpk]
    match habs : rb.abs, hla with
    | [], hla => simp at hla; omega
    | [_], hla => simp at hla; omega
    | [_, _], hla => simp at hla; omega
    | [_, _, _], hla => simp at hla; omega
    | a :: b :: c :: d :: t, _ => simp [Q.u32]

theorem peekUint64_abs (rb : Ring) (h : rb.WF) : rb.peekUint64 = .ok (Q.u64 rb.abs) := by
  have hla := length_abs rb h
  have hpk := peek_abs rb h 8
  unfold peekUint64
  by_cases hl : rb.length < 8
  · simp only [hl, ↓reduceIte]
    match habs : rb.abs, hla with
    | [], _ => rfl
    | [_], _ => rfl
    | [_, _], _ => rfl
    | [_, _, _], _ => rfl
    | [_, _, _, _], _ => rfl
    | [_, _, _, _, _], _ => rfl
    | [_, _, _, _, _, _], _ => rfl
    | [_, _, _, _, _, _, _], _ => rfl
    | _ :: _ :: _ :: _ :: _ :: _ :: _ :: _ :: _, hla => simp at hla; omega
  · simp only [hl, ↓reduceIte, hpk]
    match habs : rb.abs, hla with
    | [], hla => simp at hla; omega
    | [_], hla => simp at hla; omega
    | [_, _], hla => simp at hla; omega
    | [_, _, _], hla => simp at hla; omega
    | [_, _, _, _], hla => simp at hla; omega
    | [_, _, _, _, _], hla => simp at hla; omega
    | [_, _, _, _, _, _], hla => simp at hla; omega
    | [_, _, _, _, _, _, _], hla => simp at hla; omega
    | a :: b :: c :: d :: e :: f :: g :: i :: t, _ => simp [Q.u64]

/-! the pointwise forms asked for by the property file -/

theorem peekUint8_spec (rb : Ring) (h : rb.WF) (a : UInt8) (t : Bytes) (habs : rb.abs = a :: t) :
    rb.peekUint8 = .ok a := by rw [peekUint8_abs rb h, habs]; rfl
theorem peekUint16_spec (rb : Ring) (h : rb.WF) (a b : UInt8) (t : Bytes) (habs : rb.abs = a :: b :: t) :
    rb.peekUint16 = .ok (rd16 a b) := by rw [peekUint16_abs rb h, habs]; rfl
theorem peekUint32_spec (rb : Ring) (h : rb.WF) (a b c d : UInt8) (t : Bytes)
    (habs : rb.abs = a :: b :: c :: d :: t) : rb.peekUint32 = .ok (rd32 a b c d) := by
  rw [peekUint32_abs rb h, habs]; rfl
theorem peekUint64_spec (rb : Ring) (h : rb.WF) (a b c d e f g i : UInt8) (t : Bytes)
    (habs : rb.abs = a :: b :: c :: d :: e :: f :: g :: i :: t) :
    rb.peekUint64 = .ok (rd64 a b c d e f g i) := by
  rw [peekUint64_abs rb h, habs]; rfl

end Ring
end OAP
