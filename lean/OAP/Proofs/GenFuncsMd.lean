/-
marshalString / unmarshalStringLength (go/metadata.go) = Metadata.marshalString / Metadata.unmarshalStringLength.
Part of the function-level T2 tie: the GENERATED translations in `OAP/Gen/Funcs.lean` (rewritten from the Go source by
`extract/funcs.go` on every run) are proved equal to the hand-written model functions the property theorems are about.
-/
import OAP.Gen.Funcs
import OAP.Model.Metadata
set_option linter.unusedSimpArgs false
namespace OAP.GenFuncs
open OAP OAP.Gen.Fn

theorem marshalString_gen (s : Bytes) :
    protocol_marshalString s = .ok (match Metadata.marshalString s with | some d => (d, false) | none => ([], true)) := by
  unfold protocol_marshalString Metadata.marshalString
  simp only [Gen.protocol_max7BitLength, Gen.protocol_max15BitLength, Gen.mdLenFirst, Gen.mdLenSecond]
  by_cases h1 : s.length ≤ 127
  · simp [h1]
  · by_cases h2 : s.length ≤ 32767 <;> simp [h1, h2]



theorem mask128 (b : UInt8) : b &&& 128 = 0 ∨ b &&& 128 = 128 := by
  have : ∀ x : Fin 256, (UInt8.ofNat x.val) &&& 128 = 0 ∨ (UInt8.ofNat x.val) &&& 128 = 128 := by decide +kernel
  have h := this ⟨b.toNat, b.toNat_lt⟩
  simpa using h

theorem unmarshalStringLength_gen (data : Bytes) :
    protocol_unmarshalStringLength data = Metadata.unmarshalStringLength data := by
  unfold protocol_unmarshalStringLength Metadata.unmarshalStringLength
  match data with
  | [] => rfl
  | [b0] =>
    simp only [Metadata.len7, Metadata.len15, Gen.protocol_length7Bit, Gen.protocol_length15Bit, Gen.mdBitSize, Gen.mdLen7]
    rcases mask128 b0 with h | h <;> simp [Bytes.idx, h, Res.bind]
  | b0 :: b1 :: rest =>
    simp only [Metadata.len7, Metadata.len15, Gen.protocol_length7Bit, Gen.protocol_length15Bit, Gen.mdBitSize, Gen.mdLen7,
      Gen.mdLen15, Gen.mdLen15First, Gen.mdLen15Second, Gen.protocol_max7BitLength]
    rcases mask128 b0 with h | h
    · simp [Bytes.idx, h, Res.bind]
    · simp [Bytes.idx, h, Res.bind]
      by_cases hc : (b0.toNat &&& 127) * 256 + b1.toNat ≤ 127 <;> simp [hc]


end OAP.GenFuncs
