/-
protocolV1.UnpackBytes / protocolV2.UnpackBytes (go/v1/v1.go, go/v2/v2.go) and Header.Metadata (go/v1/header.go)
= Frame.unpackBytes / Frame.Header.toPacket.
Part of the function-level T2 tie: the GENERATED translations in `OAP/Gen/Funcs.lean` (rewritten from the Go source by
`extract/funcs.go` on every run) are proved equal to the hand-written model functions the property theorems are about.
The header decoder is not unfolded again: `v1_header_unpackBytes_gen` / `v2_header_unpackBytes_gen` (GenFuncsHdr.lean) are used.
-/
import OAP.Gen.Funcs
import OAP.Model.Frame
import OAP.Proofs.Frame
import OAP.Proofs.GenFuncsHdr
set_option linter.unusedSimpArgs false
set_option linter.unusedVariables false
namespace OAP.GenFuncs
open OAP OAP.Gen.Fn OAP.Frame

/-- the generated enum of `protocol.PacketType` (declared constants + "") against the model's `PType` -/
def toModelPType : GPacketType → PType
  | .zero => .other | .requestPacket => .request | .responsePacket => .response | .pushPacket => .push

/-- the generated `protocol.Packet` (with its `*Metadata`) as the model's flat `Packet` -/
def toModelPacket (g : GPacket) : Packet :=
  { type := toModelPType g.metadata.type, cmd := g.metadata.cmdCode, rid := g.metadata.requestId, timeout := g.metadata.timeout
    status := g.metadata.statusCode, verify := g.metadata.verify, gzip := g.metadata.gzip, nonce := g.metadata.nonce
    signature := g.metadata.signature, values := g.metadata.values, codec := g.metadata.codec, body := g.body }

/-- `UnmarshalValues` lower-cases the keys; the model's one-shot decoder keeps the raw pairs (see C01.Equiv) -/
def lowerKeys (lower : Bytes → Bytes) (p : Packet) : Packet := { p with values := p.values.map (fun kv => (lower kv.1, kv.2)) }

theorem ok_bind' {α β} (a : α) (f : α → Res β) : (Res.ok a >>= f) = f a := by
  show Res.bind (Res.ok a) f = f a
  unfold Res.bind; rfl

/-! ### `Header.Metadata(ctx)` -/

def mdOf (g : V1Header) (codec : UInt8) : GMetadata :=
  { type := if g.type = 1 then .requestPacket else if g.type = 2 then .responsePacket else if g.type = 3 then .pushPacket else .zero
    codec := codec, timeout := g.timeout, cmdCode := g.cmdCode.toUInt32, requestId := g.requestId, statusCode := g.statusCode
    verify := g.verify == 1, gzip := g.gzip == 1 }

theorem v1_header_metadata_eq (g : V1Header) (codec : UInt8) : v1_Header_Metadata g codec = .ok (mdOf g codec) := by
  unfold v1_Header_Metadata mdOf
  by_cases h1 : g.type = 1
  · simp [h1, Res.bind]
  · by_cases h2 : g.type = 2
    · simp [h1, h2, Res.bind]
    · by_cases h3 : g.type = 3 <;> simp [h1, h2, h3, Res.bind]

/-- the generated `Header.Metadata` is the model's `Header.toPacket` -/
theorem v1_header_metadata_gen (g : V1Header) (codec : UInt8) (b : Bytes) :
    (v1_Header_Metadata g codec).map (fun m => toModelPacket { metadata := m, body := b }) =
      .ok { Header.toPacket (v1M g) codec with body := b } := by
  rw [v1_header_metadata_eq]
  unfold mdOf toModelPacket Header.toPacket v1M
  simp only [Res.map, tReq, tResp, tPush, Gen.v1_RequestPacket, Gen.v1_ResponsePacket, Gen.v1_PushPacket]
  by_cases h1 : g.type = 1
  · simp [h1, toModelPType]
  · by_cases h2 : g.type = 2
    · simp [h1, h2, toModelPType]
    · by_cases h3 : g.type = 3 <;> simp [h1, h2, h3, toModelPType]

theorem toModel_mdOf (g : V1Header) (codec : UInt8) (b : Bytes) :
    toModelPacket { metadata := mdOf g codec, body := b } = { Header.toPacket (v1M g) codec with body := b } := by
  have := v1_header_metadata_gen g codec b
  rw [v1_header_metadata_eq] at this
  simpa [Res.map] using this

/-! ### eight bytes of a long enough slice -/

theorem list_len8 (l : Bytes) (h : l.length = 8) : ∃ a b c d e f g i, l = [a, b, c, d, e, f, g, i] := by
  match l, h with
  | [a, b, c, d, e, f, g, i], _ => exact ⟨a, b, c, d, e, f, g, i, rfl⟩

theorem nonce_slice (d : Bytes) (lo : Nat) (h : lo + 8 ≤ d.length) :
    ∃ a b c e f g i j, Bytes.slice d lo (lo + 8) = .ok [a, b, c, e, f, g, i, j] ∧
      Bytes.rdBE64 d lo (lo + 8) = .ok (rd64 a b c e f g i j) := by
  have hl : ((d.take (lo + 8)).drop lo).length = 8 := by simp; omega
  obtain ⟨a, b, c, e, f, g, i, j, hs⟩ := list_len8 _ hl
  refine ⟨a, b, c, e, f, g, i, j, ?_, ?_⟩
  · simp [Bytes.slice, h, hs]
  · simp [Bytes.rdBE64, h, hs]

/-! ### v1: everything after the header -/

theorem trailer24 : trailerLen = 24 := rfl

theorem decompress_map (gz : GzOracle) (b : Bytes) (p : GPacket) :
    (Res.bind (Gzip.decompress gz b) fun t => (Res.ok (some { p with body := t }) : Res (Option GPacket))).map (Option.map toModelPacket) =
      (match Gzip.decompress gz b with
        | .ok t => Res.ok { toModelPacket p with body := t }
        | .err e => .err e
        | .panic w => .panic w).map some := by
  cases Gzip.decompress gz b <;> simp [Res.bind, Res.map, toModelPacket]

theorem v1_body_gen (gz : GzOracle) (codec : UInt8) (bs : Bytes) (g : V1Header) (data : Bytes)
    (h : v1_Header_UnpackBytes {} bs = .ok (g, data)) :
    (v1_protocolV1_UnpackBytes gz codec bs).map (Option.map toModelPacket) =
      (oneShotBody .v1 gz codec (v1M g) data).map some := by
  unfold v1_protocolV1_UnpackBytes oneShotBody
  simp only [h, Res.bind, mdLenOf, v1_header_metadata_eq]
  have hbl : (v1M g).bodyLength = g.bodyLength := rfl
  have hv : (v1M g).verify = g.verify := rfl
  have hg : (v1M g).gzip = g.gzip := rfl
  have hT := toModel_mdOf g codec
  by_cases hs : data.length < g.bodyLength.toNat
  · simp [hs, hbl, Res.map]
  · have hle : g.bodyLength.toNat ≤ data.length := by omega
    have e0 : Bytes.slice data 0 0 = .ok [] := by simp [Bytes.slice]
    have e1 : Bytes.slice data 0 g.bodyLength.toNat = .ok (data.take g.bodyLength.toNat) := by simp [Bytes.slice, hle]
    simp only [hs, hbl, Nat.add_zero, e0, e1, mdStage, ok_bind', decide_false, Bool.false_eq_true, ↓reduceIte]
    rw [← hT]
    unfold verifyStage gzStage
    simp only [hv, hg, trailer24]
    by_cases hv1 : g.verify = 1
    · by_cases hsh : data.length < g.bodyLength.toNat + 24
      · have hsh' : data.length < g.bodyLength.toNat + 8 + 16 := by omega
        simp [hv1, hsh, hsh', Res.map]
      · have hsh' : ¬ data.length < g.bodyLength.toNat + 8 + 16 := by omega
        obtain ⟨a, b, c, e, f, g', i, j, hn1, hn2⟩ := nonce_slice data g.bodyLength.toNat (by omega)
        have e2 : Bytes.sliceFrom data (g.bodyLength.toNat + 8) = .ok (data.drop (g.bodyLength.toNat + 8)) := by
          simp [Bytes.sliceFrom]; omega
        have nl : Gen.v1_NonceLength = 8 := rfl
        simp only [hv1, hsh, hsh', nl, hn1, hn2, e2, ok_bind', beq_self_eq_true, decide_false, Bool.false_eq_true, ↓reduceIte]
        by_cases hg1 : g.gzip = 1
        · simp only [hg1, beq_self_eq_true, ↓reduceIte]
          cases hd : Gzip.decompress gz (List.take g.bodyLength.toNat data) <;> simp [hd, Res.map, toModelPacket]
        · simp [hg1, Res.map, toModelPacket]
    · by_cases hg1 : g.gzip = 1
      · simp only [hv1, hg1, beq_self_eq_true, beq_iff_eq, ↓reduceIte, ok_bind']
        cases hd : Gzip.decompress gz (List.take g.bodyLength.toNat data) <;> simp [hd, Res.map, toModelPacket]
      · simp [hv1, hg1, Res.map, toModelPacket]

/-- the generated `(*protocolV1).UnpackBytes` is the model's one-shot decoder (v1): the same packet, the same errors, no panic the
model does not have — for every oracle, codec and byte string. `some`: the translation never returns a nil packet without an error. -/
theorem v1_unpackBytes_gen (gz : GzOracle) (codec : UInt8) (bs : Bytes) :
    (v1_protocolV1_UnpackBytes gz codec bs).map (Option.map toModelPacket) = (Frame.unpackBytes .v1 gz codec bs).map some := by
  rw [unpackBytes_eq, ← v1_header_unpackBytes_gen]
  cases h : v1_Header_UnpackBytes {} bs with
  | ok r =>
    obtain ⟨g, data⟩ := r
    rw [v1_body_gen gz codec bs g data h]
    simp only [Res.map, ok_bind']
  | err e => unfold v1_protocolV1_UnpackBytes; simp [h, Res.bind, Res.map]
  | panic w => unfold v1_protocolV1_UnpackBytes; simp [h, Res.bind, Res.map]

/-! ### v2 -/

/-- the body length a v2 header decoder returns is a 24-bit number (needed because v2.go adds the two lengths in uint32) -/
theorem hdr_v2_bl (bs : Bytes) (H : Header) (d : Bytes) (h : Header.unpackBytes .v2 bs = .ok (H, d)) :
    H.bodyLength.toNat < 16777216 := by
  cases bs with
  | nil => rw [hdr_nil] at h; cases h
  | cons b0 rest =>
    cases hk : isUnknown (ubType .v2 b0) with
    | true => rw [hdr_unknown .v2 b0 rest hk] at h; cases h
    | false =>
      by_cases hs : (b0 :: rest).length < hdrLen .v2 (ubType .v2 b0)
      · rw [hdr_short .v2 b0 rest hk hs] at h; cases h
      · obtain ⟨l1, l2, l3⟩ := hdrLen_vals .v2
        simp only [List.length_cons] at hs
        rcases isUnknown_false _ hk with ht | ht | ht <;> rw [ht] at hs
        · rw [l1] at hs; simp only at hs
          have h0 : 12 ≤ rest.length := by omega
          iterate 12 decons h0
          rw [hdr_req_v2 _ _ _ _ _ _ _ _ _ _ _ _ _ _ ht] at h
          cases h
          exact rd24_lt _ _ _
        · rw [l2] at hs; simp only at hs
          have h0 : 11 ≤ rest.length := by omega
          iterate 11 decons h0
          rw [hdr_resp_v2 _ _ _ _ _ _ _ _ _ _ _ _ _ ht] at h
          cases h
          exact rd24_lt _ _ _
        · rw [l3] at hs; simp only at hs
          have h0 : 6 ≤ rest.length := by omega
          iterate 6 decons h0
          rw [hdr_push_v2 _ _ _ _ _ _ _ _ ht] at h
          cases h
          exact rd24_lt _ _ _

theorem v2_gen_bl (bs : Bytes) (g : V2Header) (data : Bytes) (h : v2_Header_UnpackBytes {} bs = .ok (g, data)) :
    g.bodyLength.toNat < 16777216 := by
  have := v2_header_unpackBytes_gen bs
  rw [h] at this
  exact hdr_v2_bl bs (v2M g) data this.symm

theorem v2_body_gen (gz : GzOracle) (lower : Bytes → Bytes) (codec : UInt8) (bs : Bytes) (g : V2Header) (data : Bytes)
    (h : v2_Header_UnpackBytes {} bs = .ok (g, data)) (hb : g.bodyLength.toNat < 16777216) :
    (v2_protocolV2_UnpackBytes gz lower codec bs).map (Option.map toModelPacket) =
      (oneShotBody .v2 gz codec (v2M g) data).map (fun p => some (lowerKeys lower p)) := by
  unfold v2_protocolV2_UnpackBytes oneShotBody
  simp only [h, Res.bind, mdLenOf, v1_header_metadata_eq]
  have hbl : (v2M g).bodyLength = g.bodyLength := rfl
  have hml : (v2M g).metadataLength = g.metadataLength := rfl
  have hv : (v2M g).verify = g.verify := rfl
  have hg : (v2M g).gzip = g.gzip := rfl
  have hT := toModel_mdOf g.toV1Header codec
  have hP : Header.toPacket (v1M g.toV1Header) codec = Header.toPacket (v2M g) codec := rfl
  have hsum : (g.bodyLength + g.metadataLength.toUInt32).toNat = g.bodyLength.toNat + g.metadataLength.toNat := by
    have := g.metadataLength.toNat_lt
    simp [UInt32.toNat_add]; omega
  by_cases hs : data.length < g.bodyLength.toNat + g.metadataLength.toNat
  · simp [hs, hbl, hml, Res.map]
  · have e0 : Bytes.slice data 0 g.metadataLength.toNat = .ok (data.take g.metadataLength.toNat) := by
      simp [Bytes.slice]; omega
    have e1 : Bytes.slice data g.metadataLength.toNat (g.bodyLength.toNat + g.metadataLength.toNat) =
        .ok ((data.take (g.bodyLength.toNat + g.metadataLength.toNat)).drop g.metadataLength.toNat) := by
      simp [Bytes.slice]; omega
    simp only [hs, hbl, hml, hsum, e0, e1, mdStage, ok_bind', decide_false, Bool.false_eq_true, ↓reduceIte, ← hP]
    have hF := hT []
    simp only [toModelPacket, Packet.mk.injEq] at hF
    obtain ⟨f1, f2, f3, f4, f5, f6, f7, f8, f9, f10, f11, _⟩ := hF
    unfold Metadata.unmarshalValues
    cases hr : Metadata.rawPairs (List.take g.metadataLength.toNat data) with
    | err e => simp [Res.map]
    | panic w => simp [Res.map]
    | ok ps =>
      unfold verifyStage gzStage
      simp only [hv, hg, trailer24, Res.map, ok_bind']
      by_cases hv1 : g.verify = 1
      · by_cases hsh : data.length < g.bodyLength.toNat + g.metadataLength.toNat + 24
        · have hsh' : data.length < g.bodyLength.toNat + g.metadataLength.toNat + 8 + 16 := by omega
          simp [hv1, hsh, hsh', Res.map]
        · have hsh' : ¬ data.length < g.bodyLength.toNat + g.metadataLength.toNat + 8 + 16 := by omega
          obtain ⟨a, b, c, e, f, g', i, j, hn1, hn2⟩ := nonce_slice data (g.bodyLength.toNat + g.metadataLength.toNat) (by omega)
          have e2 : Bytes.sliceFrom data (g.bodyLength.toNat + g.metadataLength.toNat + 8) =
              .ok (data.drop (g.bodyLength.toNat + g.metadataLength.toNat + 8)) := by
            simp [Bytes.sliceFrom]; omega
          have nl : Gen.v1_NonceLength = 8 := rfl
          simp only [hv1, hsh, hsh', nl, hn1, hn2, e2, ok_bind', beq_self_eq_true, decide_false, Bool.false_eq_true, ↓reduceIte]
          by_cases hg1 : g.gzip = 1
          · simp only [hg1, beq_self_eq_true, ↓reduceIte]
            cases hd : Gzip.decompress gz (List.drop g.metadataLength.toNat (List.take (g.bodyLength.toNat + g.metadataLength.toNat) data)) <;>
              simp [hd, Res.map, toModelPacket, lowerKeys, ← f1, ← f2, ← f3, ← f4, ← f5, ← f6, ← f7, ← f8, ← f9, ← f10, ← f11]
          · simp [hg1, Res.map, toModelPacket, lowerKeys, ← f1, ← f2, ← f3, ← f4, ← f5, ← f6, ← f7, ← f8, ← f9, ← f10, ← f11]
      · by_cases hg1 : g.gzip = 1
        · simp only [hv1, hg1, beq_self_eq_true, beq_iff_eq, ↓reduceIte, ok_bind']
          cases hd : Gzip.decompress gz (List.drop g.metadataLength.toNat (List.take (g.bodyLength.toNat + g.metadataLength.toNat) data)) <;>
            simp [hd, Res.map, toModelPacket, lowerKeys, ← f1, ← f2, ← f3, ← f4, ← f5, ← f6, ← f7, ← f8, ← f9, ← f10, ← f11]
        · simp [hv1, hg1, Res.map, toModelPacket, lowerKeys, ← f1, ← f2, ← f3, ← f4, ← f5, ← f6, ← f7, ← f8, ← f9, ← f10, ← f11]

/-- the generated `(*protocolV2).UnpackBytes` is the model's one-shot decoder (v2) followed by the key lower-casing of
`Metadata.UnmarshalValues` (`lower` = strings.ToLower; the model's decoder returns the raw pairs) -/
theorem v2_unpackBytes_gen (gz : GzOracle) (lower : Bytes → Bytes) (codec : UInt8) (bs : Bytes) :
    (v2_protocolV2_UnpackBytes gz lower codec bs).map (Option.map toModelPacket) =
      (Frame.unpackBytes .v2 gz codec bs).map (fun p => some (lowerKeys lower p)) := by
  rw [unpackBytes_eq, ← v2_header_unpackBytes_gen]
  cases h : v2_Header_UnpackBytes {} bs with
  | ok r =>
    obtain ⟨g, data⟩ := r
    rw [v2_body_gen gz lower codec bs g data h (v2_gen_bl bs g data h)]
    simp only [Res.map, ok_bind']
  | err e => unfold v2_protocolV2_UnpackBytes; simp [h, Res.bind, Res.map]
  | panic w => unfold v2_protocolV2_UnpackBytes; simp [h, Res.bind, Res.map]

/-- with keys that are already lower case (`lower` the identity on them — here: the identity), exactly the model -/
theorem v2_unpackBytes_gen_id (gz : GzOracle) (codec : UInt8) (bs : Bytes) :
    (v2_protocolV2_UnpackBytes gz id codec bs).map (Option.map toModelPacket) = (Frame.unpackBytes .v2 gz codec bs).map some := by
  rw [v2_unpackBytes_gen]
  congr 1
  funext p
  simp [lowerKeys]


end OAP.GenFuncs
