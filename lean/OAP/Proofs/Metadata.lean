/-
Helper lemmas for C09 (metadata codec). Core Lean only.
-/
import OAP.Model.Metadata
namespace OAP.Metadata
open OAP

theorem or128_tab : ∀ x : Fin 128, UInt8.ofNat x.val ||| (128 : UInt8) = UInt8.ofNat (x.val + 128) := by
  decide +kernel

/-- the encoder's length prefix is the canonical one -/
theorem marshalString_eq (s : Bytes) (h : s.length ≤ 32767) : marshalString s = some (enc s) := by
  unfold marshalString enc encLen
  have m7 : Gen.protocol_max7BitLength = 127 := rfl
  have m15 : Gen.protocol_max15BitLength = 32767 := rfl
  simp only [m7, m15]
  by_cases h7 : s.length ≤ 127
  · simp [h7]
  · have hx : s.length / 256 < 128 := by omega
    have := or128_tab ⟨s.length / 256, hx⟩
    simp only at this
    simp [h7, h, Gen.mdLenFirst, Gen.mdLenSecond, this]

theorem marshalString_none (s : Bytes) (h : 32767 < s.length) : marshalString s = none := by
  unfold marshalString
  have m7 : Gen.protocol_max7BitLength = 127 := rfl
  have m15 : Gen.protocol_max15BitLength = 32767 := rfl
  simp only [m7, m15]
  have : ¬ s.length ≤ 127 := by omega
  have : ¬ s.length ≤ 32767 := by omega
  simp [*]

theorem ofNat_toNat_lt (n : Nat) (h : n < 256) : (UInt8.ofNat n).toNat = n := by
  simp [UInt8.toNat_ofNat']; omega

/-- completeness of one string -/
theorem getString_enc (s rest : Bytes) (h : s.length ≤ 32767) : getString (enc s ++ rest) = .ok (s, rest) := by
  rw [getString_ok_iff]
  unfold enc encLen
  by_cases h7 : s.length ≤ 127
  · have e : (UInt8.ofNat s.length).toNat = s.length := ofNat_toNat_lt _ (by omega)
    have h128 : (UInt8.ofNat s.length).toNat < 128 := by rw [e]; omega
    simp only [h7, ↓reduceIte, List.cons_append, List.nil_append, getStringSpec, e]
    have h1 : s.length < 128 := by omega
    have h2 : ¬ (s.length + rest.length < s.length) := by omega
    simp [h1, h2]
  · have e0 : (UInt8.ofNat (s.length / 256 + 128)).toNat = s.length / 256 + 128 := ofNat_toNat_lt _ (by omega)
    have e1 : (UInt8.ofNat (s.length % 256)).toNat = s.length % 256 := ofNat_toNat_lt _ (by omega)
    have el : (s.length / 256 + 128 - 128) * 256 + s.length % 256 = s.length := by omega
    simp only [h7, ↓reduceIte, List.cons_append, List.nil_append, getStringSpec, e0, e1, el]
    have : ¬ (s.length / 256 + 128 < 128) := by omega
    simp [this]

theorem enc_ne_nil (s : Bytes) : enc s ≠ [] := by
  unfold enc encLen; split <;> simp

theorem pairsLoop_nil : pairsLoop [] = .ok [] := by rw [pairsLoop]; simp

theorem pairsLoop_encPairs (ps : List Pair)
    (h : ∀ kv ∈ ps, kv.1.length ≤ 32767 ∧ kv.2.length ≤ 32767) : pairsLoop (encPairs ps) = .ok ps := by
  induction ps with
  | nil => simp [encPairs, pairsLoop_nil]
  | cons kv rest ih =>
    have hkv := h kv (by simp)
    have ih' := ih (fun x hx => h x (by simp [hx]))
    have e : encPairs (kv :: rest) = enc kv.1 ++ (enc kv.2 ++ encPairs rest) := by
      simp [encPairs, encPair]
    rw [e, pairsLoop]
    have hne : enc kv.1 ++ (enc kv.2 ++ encPairs rest) ≠ [] := by
      have := enc_ne_nil kv.1; cases h1 : enc kv.1 with
      | nil => exact absurd h1 this
      | cons a b => simp
    simp only [hne, ↓reduceDIte]
    split
    · rename_i e' hk; rw [getString_enc _ _ hkv.1] at hk; cases hk
    · rename_i w hk; rw [getString_enc _ _ hkv.1] at hk; cases hk
    · rename_i k r1 hk
      rw [getString_enc _ _ hkv.1] at hk
      cases hk
      split
      · rename_i e' hv; rw [getString_enc _ _ hkv.2] at hv; cases hv
      · rename_i w hv; rw [getString_enc _ _ hkv.2] at hv; cases hv
      · rename_i v r2 hv
        rw [getString_enc _ _ hkv.2] at hv
        cases hv
        rw [ih']

theorem pairsLoop_sound : ∀ (n : Nat) (data : Bytes) (ps : List Pair),
    data.length ≤ n → pairsLoop data = .ok ps →
    data = encPairs ps ∧ ∀ kv ∈ ps, kv.1.length ≤ 32767 ∧ kv.2.length ≤ 32767 := by
  intro n
  induction n with
  | zero =>
    intro data ps hl h
    have : data = [] := List.eq_nil_of_length_eq_zero (by omega)
    subst this
    rw [pairsLoop] at h; simp at h; subst h; simp [encPairs]
  | succ n ih =>
    intro data ps hl h
    rw [pairsLoop] at h
    split at h
    · rename_i hd; simp at h; subst h; simp [encPairs, hd]
    · split at h
      · simp at h
      · simp at h
      · rename_i k r1 hk
        split at h
        · simp at h
        · simp at h
        · rename_i v r2 hv
          split at h
          · simp at h
          · simp at h
          · rename_i ps' hps
            simp only [Res.ok.injEq] at h
            subst h
            have s1 := getString_sound data k r1 hk
            have s2 := getString_sound r1 v r2 hv
            have l1 := getString_rest_lt data k r1 hk
            have l2 := getString_rest_lt r1 v r2 hv
            have := ih r2 ps' (by omega) hps
            refine ⟨?_, ?_⟩
            · rw [s1.1, s2.1, this.1]; simp [encPairs, encPair]
            · intro kv hkv
              simp at hkv
              rcases hkv with rfl | hkv
              · exact ⟨s1.2, s2.2⟩
              · exact this.2 kv hkv

theorem pairsLoop_total : ∀ (n : Nat) (data : Bytes), data.length ≤ n → (pairsLoop data).isPanic = false := by
  intro n
  induction n with
  | zero =>
    intro data hl
    have : data = [] := List.eq_nil_of_length_eq_zero (by omega)
    subst this; rw [pairsLoop_nil]; rfl
  | succ n ih =>
    intro data hl
    rw [pairsLoop]
    split
    · rfl
    · split
      · rfl
      · rename_i w hk; have := getString_total data; rw [hk] at this; cases this
      · rename_i k r1 hk
        split
        · rfl
        · rename_i w hv; have := getString_total r1; rw [hv] at this; cases this
        · rename_i v r2 hv
          have l1 := getString_rest_lt data k r1 hk
          have l2 := getString_rest_lt r1 v r2 hv
          have := ih r2 (by omega)
          split
          · rfl
          · rename_i w hp; rw [hp] at this; cases this
          · rfl

/-! ### the encoder loop -/

/-- pairs the encoder would emit if budget were unlimited: non-empty key, both strings representable -/
def validPair (kv : Pair) : Bool := kv.1 ≠ [] && kv.1.length ≤ 32767 && kv.2.length ≤ 32767

theorem encPair_length_pos (kv : Pair) : 0 < (encPair kv).length := by
  unfold encPair enc encLen; split <;> simp

/-- loop invariant: starting from `data`, the loop appends the canonical encodings of a prefix `inc`
of the valid pairs of `o`, and either all of them or the next one does not fit -/
theorem marshalLoop_spec (max : Int) : ∀ (o : List Pair) (data : Bytes),
    ∃ inc, inc <+: o.filter validPair ∧ marshalLoop max o data = data ++ encPairs inc ∧
      (inc = o.filter validPair ∨
        ∃ nxt tl, o.filter validPair = inc ++ nxt :: tl ∧
          ((encPair nxt).length + (data ++ encPairs inc).length : Int) > max) := by
  intro o
  induction o with
  | nil => intro data; exact ⟨[], by simp, by simp [marshalLoop, encPairs], Or.inl (by simp)⟩
  | cons kv rest ih =>
    intro data
    obtain ⟨k, v⟩ := kv
    by_cases hk : k = []
    · obtain ⟨inc, h1, h2, h3⟩ := ih data
      refine ⟨inc, ?_, ?_, ?_⟩
      · simpa [validPair, hk] using h1
      · simpa [marshalLoop, hk] using h2
      · simpa [validPair, hk] using h3
    · by_cases hkl : k.length ≤ 32767
      · by_cases hvl : v.length ≤ 32767
        · have vp : validPair (k, v) = true := by simp [validPair, hk, hkl, hvl]
          have ek := marshalString_eq k hkl
          have ev := marshalString_eq v hvl
          by_cases hfit : ((enc k).length + (enc v).length + data.length : Int) > max
          · refine ⟨[], by simp, ?_, Or.inr ⟨(k, v), rest.filter validPair, ?_, ?_⟩⟩
            · simp [marshalLoop, hk, ek, ev, hfit, encPairs]
            · simp [List.filter, vp]
            · simp only [encPairs, List.flatMap_nil, List.append_nil, encPair, List.length_append]
              omega
          · obtain ⟨inc, h1, h2, h3⟩ := ih (data ++ enc k ++ enc v)
            refine ⟨(k, v) :: inc, ?_, ?_, ?_⟩
            · simp only [List.filter, vp]; exact (List.prefix_cons_inj (k, v)).mpr h1
            · simp only [marshalLoop, hk, ↓reduceIte, ek, ev, hfit]
              rw [h2]; simp [encPairs, encPair]
            · rcases h3 with h3 | ⟨nxt, tl, h3, h4⟩
              · left; simp [List.filter, vp, h3]
              · right
                refine ⟨nxt, tl, by simp [List.filter, vp, h3], ?_⟩
                have : data ++ encPairs ((k, v) :: inc) = data ++ enc k ++ enc v ++ encPairs inc := by
                  simp [encPairs, encPair]
                rw [this]; exact h4
        · have vp : validPair (k, v) = false := by simp [validPair, hk, hkl, hvl]
          have ek := marshalString_eq k hkl
          have ev := marshalString_none v (by omega)
          obtain ⟨inc, h1, h2, h3⟩ := ih data
          refine ⟨inc, ?_, ?_, ?_⟩
          · simpa [List.filter, vp] using h1
          · simpa [marshalLoop, hk, ek, ev] using h2
          · simpa [List.filter, vp] using h3
      · have vp : validPair (k, v) = false := by simp [validPair, hk, hkl]
        have ek := marshalString_none k (by omega)
        obtain ⟨inc, h1, h2, h3⟩ := ih data
        refine ⟨inc, ?_, ?_, ?_⟩
        · simpa [List.filter, vp] using h1
        · simpa [marshalLoop, hk, ek] using h2
        · simpa [List.filter, vp] using h3

/-- the loop never lets the block exceed a budget it already respects -/
theorem marshalLoop_budget (max : Int) : ∀ (o : List Pair) (data : Bytes),
    (data.length : Int) ≤ max → ((marshalLoop max o data).length : Int) ≤ max := by
  intro o
  induction o with
  | nil => intro data h; simpa [marshalLoop] using h
  | cons kv rest ih =>
    intro data h
    obtain ⟨k, v⟩ := kv
    simp only [marshalLoop]
    split
    · exact ih data h
    · split
      · exact ih data h
      · split
        · exact ih data h
        · split
          · exact h
          · rename_i kb _ vb _ hfit
            apply ih
            simp only [List.length_append]
            omega

/-! ### sorted visiting order ⇒ the block is a function of the map -/

theorem keyLe_total (a b : Pair) : keyLe a b || keyLe b a := by
  simp only [keyLe, Bool.or_eq_true, decide_eq_true_eq]
  exact List.le_total a.1 b.1

theorem keyLe_trans (a b c : Pair) (h1 : keyLe a b = true) (h2 : keyLe b c = true) : keyLe a c = true := by
  simp only [keyLe, decide_eq_true_eq] at *
  exact List.le_trans h1 h2

theorem eq_of_key_eq : ∀ (m : List Pair), (m.map (·.1)).Nodup →
    ∀ a b, a ∈ m → b ∈ m → a.1 = b.1 → a = b := by
  intro m
  induction m with
  | nil => intro _ a b ha; cases ha
  | cons x xs ih =>
    intro hn a b ha hb hab
    simp only [List.map_cons, List.nodup_cons, List.mem_map, not_exists, not_and] at hn
    obtain ⟨hx, hxs⟩ := hn
    simp only [List.mem_cons] at ha hb
    rcases ha with rfl | ha <;> rcases hb with rfl | hb
    · rfl
    · exact absurd hab.symm (hx b hb)
    · exact absurd hab (hx a ha)
    · exact ih hxs a b ha hb hab

theorem sort_unique (m₁ m₂ : List Pair) (hp : m₁.Perm m₂)
    (hk : (m₁.map (·.1)).Nodup) : sortPairs m₁ = sortPairs m₂ := by
  have p1 : (sortPairs m₁).Perm (sortPairs m₂) :=
    (List.mergeSort_perm m₁ keyLe).trans (hp.trans (List.mergeSort_perm m₂ keyLe).symm)
  have s1 : (sortPairs m₁).Pairwise (fun a b => keyLe a b = true) :=
    List.pairwise_mergeSort (fun a b c => keyLe_trans a b c) (fun a b => keyLe_total a b) m₁
  have s2 : (sortPairs m₂).Pairwise (fun a b => keyLe a b = true) :=
    List.pairwise_mergeSort (fun a b c => keyLe_trans a b c) (fun a b => keyLe_total a b) m₂
  apply List.Perm.eq_of_pairwise (le := fun a b => keyLe a b = true) _ s1 s2 p1
  intro a b ha hb hab hba
  simp only [keyLe, decide_eq_true_eq] at hab hba
  have hkey : a.1 = b.1 := List.le_antisymm hab hba
  have ha' : a ∈ m₁ := (List.mergeSort_perm m₁ keyLe).subset ha
  have hb' : b ∈ m₁ := hp.symm.subset ((List.mergeSort_perm m₂ keyLe).subset hb)
  exact eq_of_key_eq m₁ hk a b ha' hb' hkey

end OAP.Metadata
