/-
COMPLETENESS of the streaming decoder (the converse of `stream_matches_oneshot_abs`) and the
end-to-end streaming round trip. Helper lemmas for C01 (`roundtrip_stream`) and C03
(`stream_yields_each_frame`). Core Lean only.

* `decode_accepts_stream`: every valid layout frame at the head of the queue is delivered as
  `packetOf`, nothing stays parked, exactly the bytes after the frame are left.
* `frames_decode_in_order`: the read loop over back-to-back valid frames delivers their packets
  in order and stops, for want of data, on an empty queue.
* `feed_frames`: the same for every chunking of the concatenation (`feed`), and over the real
  ring buffer (`rfeed_frames`).
-/
import OAP.Proofs.Frame
import OAP.Proofs.Stream
set_option linter.unusedSimpArgs false
set_option linter.unusedVariables false
namespace OAP
namespace Frame

/-! ### one frame -/

theorem s_mdLenOf_eq (v : Ver) (h : Header) : s_mdLenOf v h = mdLenOf v h := by cases v <;> rfl

theorem needLen_coreHdr (v : Ver) (h : Header) : needLen v (coreHdr h) = needLen v h := rfl

/-- the bytes a valid frame's header announces are exactly the bytes that follow it in the layout -/
theorem needLen_hdrOf (v : Ver) (gz : GzOracle) (f : Spec.Frame) (content : Bytes) (ps : List Metadata.Pair)
    (hv : ValidFrame v gz f content ps) :
    needLen v (hdrOf v f) = (mdOf v f ++ f.body ++ trailerOf f).length := by
  obtain ⟨hbl, hml, hver, _⟩ := hdrOf_facts v gz f content ps hv
  have htl : trailerLen = 24 := rfl
  have htr := trailerOf_length v gz f content ps hv
  simp only [needLen, s_mdLenOf_eq, hbl, hml, hver, htl, List.length_append, htr]
  by_cases h1 : f.verify = 1
  · simp only [h1, decide_true, ↓reduceIte]; omega
  · simp only [h1, decide_false, Bool.false_eq_true, ↓reduceIte]; omega

theorem sresToRes_ok (s : SRes) (k : Packet) (h : sresToRes s = .ok k) : s = .pkt k := by
  cases s with
  | pkt k' => simp only [sresToRes, Res.ok.injEq] at h; rw [h]
  | more => simp [sresToRes] at h
  | err e => simp [sresToRes] at h
  | panic w => simp [sresToRes] at h

/-- COMPLETENESS, exact form: the streaming decoder, started with nothing parked on exactly the
bytes of a valid layout frame, delivers the packet the layout denotes and leaves nothing -/
theorem decode_accepts_stream_exact (v : Ver) (gz : GzOracle) (codec : UInt8) (f : Spec.Frame) (content : Bytes)
    (ps : List Metadata.Pair) (hv : ValidFrame v gz f content ps) :
    unpackAbs v gz codec none (Spec.encode v f) = (.pkt (packetOf f codec content ps), none, []) := by
  obtain ⟨hlen, hkn⟩ := hdrBytes_length v gz f content ps hv
  obtain ⟨e1, _, _, _⟩ := b0_fields v f.type f.verify f.gzip f.reserve
    (by rcases hv.type with h | h | h <;> omega) hv.verify hv.gzip hv.reserve
  obtain ⟨t, ht⟩ := hdrBytes_cons v f
  have hone := unpackBytes_spec v gz codec f content ps hv
  have hspec := hdr_unpack_spec v gz f content ps hv (mdOf v f ++ f.body ++ trailerOf f)
  have hneed := needLen_hdrOf v gz f content ps hv
  rw [encode_split] at hone ⊢
  rw [ht, List.cons_append] at hone hspec ⊢
  rw [ht, List.length_cons] at hlen
  rw [ub_us_type] at e1
  generalize UInt8.ofNat (f.type + 16 * f.verify + 32 * f.gzip + 64 * f.reserve) = b at *
  generalize mdOf v f ++ f.body ++ trailerOf f = tail at *
  have hk : isUnknown (usType v b) = false := by rw [e1]; exact hkn
  have htl : t.length = hdrLen v (usType v b) - 1 := by rw [e1]; omega
  have hl : hdrLen v (usType v b) - 1 ≤ (t ++ tail).length := by
    rw [List.length_append]; omega
  have hh := unpackBytes_hdr v b (t ++ tail) hk hl
  have hdrop : (t ++ tail).drop (hdrLen v (usType v b) - 1) = tail := by
    rw [← htl, List.drop_left]
  rw [hdrop] at hh
  rw [hspec] at hh
  simp only [Res.ok.injEq, Prod.mk.injEq, and_true] at hh
  have hneed' : tail.length = needLen v (s_hdrOf v b (t ++ tail)) := by
    rw [← needLen_coreHdr, ← hh, hneed]
  have hh' : Header.unpackBytes v (b :: (t ++ tail)) = .ok (coreHdr (s_hdrOf v b (t ++ tail)), tail) := by
    rw [hspec, hh]
  have hbody := unpackBytes_body v gz codec _ _ _ hh' hneed'
  rw [hone] at hbody
  have hpkt := sresToRes_ok _ _ hbody.symm
  rw [unpack_fresh_full v gz codec b _ hk hl, hdrop, bodyAbs_ge _ _ _ _ _ (by omega)]
  have hrest := bodyFull_rest v gz codec _ _ _ hpkt
  have hpend := bodyFull_pend v gz codec (s_hdrOf v b (t ++ tail)) tail
  rw [← hneed', List.drop_length] at hrest
  exact Prod.ext hpkt (Prod.ext hpend hrest)

/-- COMPLETENESS of the streaming decoder w.r.t. the published layout: for every valid layout frame
followed by ANY bytes `rest` (the beginning of the next frame, garbage, nothing), one call from a
fresh context delivers exactly `packetOf f codec content ps` — the packet the one-shot decoder
returns on the frame alone (`unpackBytes_spec`) — parks nothing and leaves exactly `rest` queued -/
theorem decode_accepts_stream (v : Ver) (gz : GzOracle) (codec : UInt8) (f : Spec.Frame) (content : Bytes)
    (ps : List Metadata.Pair) (rest : Bytes) (hv : ValidFrame v gz f content ps) :
    unpackAbs v gz codec none (Spec.encode v f ++ rest) = (.pkt (packetOf f codec content ps), none, rest) := by
  have := unpack_append v gz codec _ rest _ _ _ (decode_accepts_stream_exact v gz codec f content ps hv) (by simp)
  simpa using this

/-! ### lists related element by element -/

end Frame

/-- `Forall₂ R as bs`: the two lists have the same length and are related by `R` element by
element, in order (core Lean has no `List.Forall₂`) -/
inductive Forall₂ {α β : Type} (R : α → β → Prop) : List α → List β → Prop
  | nil : Forall₂ R [] []
  | cons {a : α} {b : β} {as : List α} {bs : List β} : R a b → Forall₂ R as bs → Forall₂ R (a :: as) (b :: bs)

theorem Forall₂.length_eq {α β : Type} {R : α → β → Prop} {as : List α} {bs : List β}
    (h : Forall₂ R as bs) : as.length = bs.length := by
  induction h with
  | nil => rfl
  | cons _ _ ih => simp [ih]

/-- what `Forall₂` means, index by index -/
theorem forall₂_iff_getElem {α β : Type} (R : α → β → Prop) (as : List α) (bs : List β) :
    Forall₂ R as bs ↔ as.length = bs.length ∧ ∀ (i : Nat) (h1 : i < as.length) (h2 : i < bs.length), R as[i] bs[i] := by
  constructor
  · intro h
    refine ⟨h.length_eq, ?_⟩
    induction h with
    | nil => intro i h1; simp at h1
    | cons hab _ ih =>
      intro i h1 h2
      cases i with
      | zero => exact hab
      | succ j => exact ih j (by simpa using h1) (by simpa using h2)
  · induction as generalizing bs with
    | nil =>
      rintro ⟨hl, _⟩
      cases bs with
      | nil => exact .nil
      | cons b bs => simp at hl
    | cons a as ih =>
      rintro ⟨hl, hR⟩
      cases bs with
      | nil => simp at hl
      | cons b bs =>
        refine .cons (hR 0 (by simp) (by simp)) (ih bs ⟨by simpa using hl, ?_⟩)
        intro i h1 h2
        exact hR (i + 1) (by simpa using h1) (by simpa using h2)

theorem Forall₂.imp {α β : Type} {R S : α → β → Prop} (hRS : ∀ a b, R a b → S a b) {as : List α} {bs : List β}
    (h : Forall₂ R as bs) : Forall₂ S as bs := by
  induction h with
  | nil => exact .nil
  | cons hab _ ih => exact .cons (hRS _ _ hab) ih

theorem forall₂_map_left {α β γ : Type} (R : α → β → Prop) (g : γ → α) (cs : List γ) (bs : List β) :
    Forall₂ R (cs.map g) bs ↔ Forall₂ (fun c b => R (g c) b) cs bs := by
  constructor
  · intro h
    induction cs generalizing bs with
    | nil => cases h; exact .nil
    | cons c cs ih => cases h with | cons hab ht => exact .cons hab (ih _ ht)
  · intro h
    induction h with
    | nil => exact .nil
    | cons hab _ ih => exact .cons hab ih

namespace Frame

/-! ### back-to-back frames through the read loop -/

/-- `Denotes v gz codec f q`: `f` is a valid frame of the published layout (for some decompressed
content and metadata pairs) and `q` is the packet its field values denote -/
def Denotes (v : Ver) (gz : GzOracle) (codec : UInt8) (f : Spec.Frame) (q : Packet) : Prop :=
  ∃ content ps, ValidFrame v gz f content ps ∧ q = packetOf f codec content ps

/-- what a valid frame denotes is what the one-shot decoder returns on the frame alone -/
theorem Denotes.oneshot {v : Ver} {gz : GzOracle} {codec : UInt8} {f : Spec.Frame} {q : Packet}
    (h : Denotes v gz codec f q) : unpackBytes v gz codec (Spec.encode v f) = .ok q := by
  obtain ⟨content, ps, hv, rfl⟩ := h
  exact unpackBytes_spec v gz codec f content ps hv

/-- … and conversely: for a valid frame, the one-shot decoder's packet is the denoted one -/
theorem denotes_of_oneshot {v : Ver} {gz : GzOracle} {codec : UInt8} {f : Spec.Frame} {content : Bytes}
    {ps : List Metadata.Pair} (hv : ValidFrame v gz f content ps) {q : Packet}
    (h : unpackBytes v gz codec (Spec.encode v f) = .ok q) : Denotes v gz codec f q := by
  rw [unpackBytes_spec v gz codec f content ps hv] at h
  exact ⟨content, ps, hv, by injection h with h; exact h.symm⟩

/-- the read loop on an empty queue: no packet, "need more data", a fresh header parked -/
theorem run_nil (v : Ver) (gz : GzOracle) (codec : UInt8) :
    run v gz codec [] = ([], (.more, some {}, [])) := by
  rw [run_eq_drain, drain, unpackAbs_nil]

/-- unfolding of the read loop at a delivered packet -/
theorem run_pkt (v : Ver) (gz : GzOracle) (codec : UInt8) (u : Bytes) (k : Packet) (p' : Option Header) (r : Bytes)
    (h : unpackAbs v gz codec none u = (.pkt k, p', r)) :
    run v gz codec u = (k :: (run v gz codec r).1, (run v gz codec r).2) := by
  rw [run_eq_drain, drain, h]

/-- the read loop delivers a valid frame at the head of the stream and goes on with what follows -/
theorem run_frame (v : Ver) (gz : GzOracle) (codec : UInt8) (f : Spec.Frame) (content : Bytes)
    (ps : List Metadata.Pair) (rest : Bytes) (hv : ValidFrame v gz f content ps) :
    run v gz codec (Spec.encode v f ++ rest) =
      (packetOf f codec content ps :: (run v gz codec rest).1, (run v gz codec rest).2) :=
  run_pkt v gz codec _ _ _ _ (decode_accepts_stream v gz codec f content ps rest hv)

/-- back-to-back valid frames followed by anything: the loop delivers the denoted packets in order,
then behaves as on what follows -/
theorem run_frames_append (v : Ver) (gz : GzOracle) (codec : UInt8) (fs : List Spec.Frame) (qs : List Packet)
    (rest : Bytes) (h : Forall₂ (Denotes v gz codec) fs qs) :
    run v gz codec ((fs.map (Spec.encode v)).flatten ++ rest) =
      (qs ++ (run v gz codec rest).1, (run v gz codec rest).2) := by
  induction h with
  | nil => simp
  | cons hab _ ih =>
    obtain ⟨content, ps, hv, rfl⟩ := hab
    rw [List.map_cons, List.flatten_cons, List.append_assoc, run_frame v gz codec _ content ps _ hv, ih]
    rfl

/-- the read loop over a stream of back-to-back valid frames delivers exactly the denoted packets, in
order, and stops for want of data on an empty queue. (The parked header is `some {}`, not `none`:
the call that finds the queue empty parks the fresh header it took from the pool — the state
`Parked.idle`, equivalent to `none` for every later call: `unpack_unread`.) -/
theorem run_frames (v : Ver) (gz : GzOracle) (codec : UInt8) (fs : List Spec.Frame) (qs : List Packet)
    (h : Forall₂ (Denotes v gz codec) fs qs) :
    run v gz codec (fs.map (Spec.encode v)).flatten = (qs, (.more, some {}, [])) := by
  have := run_frames_append v gz codec fs qs [] h
  rw [run_nil] at this
  simpa using this

/-- the same with each frame's content and metadata pairs given explicitly -/
theorem frames_decode_in_order (v : Ver) (gz : GzOracle) (codec : UInt8)
    (fs : List (Spec.Frame × Bytes × List Metadata.Pair))
    (hv : ∀ x ∈ fs, ValidFrame v gz x.1 x.2.1 x.2.2) :
    run v gz codec (fs.map (fun x => Spec.encode v x.1)).flatten =
      (fs.map (fun x => packetOf x.1 codec x.2.1 x.2.2), (.more, some {}, [])) := by
  have h : Forall₂ (Denotes v gz codec) (fs.map (·.1)) (fs.map (fun x => packetOf x.1 codec x.2.1 x.2.2)) := by
    induction fs with
    | nil => exact .nil
    | cons x xs ih =>
      exact .cons ⟨x.2.1, x.2.2, hv x (by simp), rfl⟩ (ih (fun y hy => hv y (by simp [hy])))
  have := run_frames v gz codec _ _ h
  simpa [List.map_map, Function.comp_def] using this

/-! ### … for every chunking, over the queue and over the real ring -/

/-- COMPLETENESS of the connection's read side: a stream of back-to-back valid frames, cut into
chunks in ANY way, is delivered as exactly the denoted packets, in order, with no error verdict -/
theorem feed_frames (v : Ver) (gz : GzOracle) (codec : UInt8) (fs : List Spec.Frame) (qs : List Packet)
    (h : Forall₂ (Denotes v gz codec) fs qs) (chunks : List Bytes)
    (hc : chunks.flatten = (fs.map (Spec.encode v)).flatten) :
    (feed v gz codec chunks).obs = (qs, none) := by
  rw [tracks_obs v gz codec _ _ (feed_tracks v gz codec chunks), hc, run_frames v gz codec fs qs h]
  rfl

/-- the same over the real ring buffer: the chunks are `Write`-n into ANY well-formed empty ring
(any capacity, any offsets) and `Unpack` is looped after each -/
theorem rfeed_frames (v : Ver) (gz : GzOracle) (codec : UInt8) (fs : List Spec.Frame) (qs : List Packet)
    (h : Forall₂ (Denotes v gz codec) fs qs) (rb0 : Ring) (wf : rb0.WF) (he : rb0.abs = []) (chunks : List Bytes)
    (hc : chunks.flatten = (fs.map (Spec.encode v)).flatten) :
    (rfeed v gz codec rb0 chunks).obs = (qs, none) := by
  rw [rfeed_obs v gz codec rb0 wf he chunks]
  exact feed_frames v gz codec fs qs h chunks hc

theorem ring_new_wf (n : Nat) : (Ring.new n).WF ∧ (Ring.new n).abs = [] := by
  refine ⟨?_, by simp [Ring.new, Ring.abs]⟩
  constructor <;> simp [Ring.new]

end Frame
end OAP
