/-
Proofs about the TCP reader goroutine (model: OAP/Model/Client/Reading.lean).

1. `Reach a b`: `b` is obtained from the ring `a` by the consuming operations `Retrieve` / `Read`
   only (the peeks do not change the ring). One `Unpack` call, the project's `drainRing` and the
   reader's `readPacket` loop only ever move a ring along `Reach` (`unpackRing_reach`, …).
2. KEY LEMMA of the fast path (`reach_newWithData`, `fast_path_first_is_everything`): a ring made
   by `NewWithData(d)` has r = w = 0; `Retrieve`, `RetrieveAll` and `Read` never move `w` away
   from 0, so on every ring reachable from it `PeekAll` returns `(buf[r:], buf[0:0])`: the second
   slice is empty and the first is all the unread bytes. `first, _ := buffer.PeekAll()` loses nothing.
3. `readPacket_eq_drainRing`: the reader's fuel-bounded loop is `drainRing` on every well-formed ring.
4. `rsim_step`, `reading_eq_feed`: whatever path each read takes, the reader observes what the abstract
   queue connection `feed` observes.
5. the invariant `RInv` (`reading_invariant`) and the one-read specification `readStep_spec`.
-/
import OAP.Model.Client.Reading
import OAP.Proofs.Ring
import OAP.Proofs.Stream
set_option linter.unusedSimpArgs false
namespace OAP.Reading
open OAP OAP.Frame OAP.Ring

/-! ### rings reachable by consuming operations only -/

/-- `Reach a b`: `b` is `a` after some `Retrieve(n)` / successful `Read(p)` calls (and any number of
`Peek…` / `Length` calls, which do not change the ring) — no `Write` -/
inductive Reach (a : Ring) : Ring → Prop
  | refl : Reach a a
  | retrieve {b : Ring} (n : Nat) : Reach a b → Reach a (b.retrieve n)
  | read {b c : Ring} {d : Bytes} (n : Nat) : Reach a b → b.read n = .ok (d, c) → Reach a c

theorem Reach.trans {a b c : Ring} (h1 : Reach a b) (h2 : Reach b c) : Reach a c := by
  induction h2 with
  | refl => exact h1
  | retrieve n _ ih => exact .retrieve n ih
  | read n _ hr ih => exact .read n ih hr

theorem Reach.read_retrieve {a b c : Ring} {d : Bytes} (m n : Nat) (h : Reach a b)
    (hr : (b.retrieve m).read n = .ok (d, c)) : Reach a c := .read n (.retrieve m h) hr

/-! one `Unpack` call only consumes -/

theorem unpackRest_reach (v : Ver) (h : Header) (a rb : Ring) (hr : Reach a rb) :
    Reach a (Header.unpackRest v h rb).rb := by
  unfold Header.unpackRest
  simp only
  repeat' split
  all_goals grind [Reach.retrieve, Reach.refl]

theorem hdrUnpackRing_reach (v : Ver) (h : Header) (a rb : Ring) (hr : Reach a rb) :
    Reach a (Header.unpackRing v h rb).rb := by
  unfold Header.unpackRing
  simp only
  repeat' split
  all_goals first
    | exact unpackRest_reach _ _ _ _ (by grind [Reach.retrieve, Reach.refl])
    | grind [Reach.retrieve, Reach.refl]

theorem unpackBody_reach (v : Ver) (gz : GzOracle) (codec : UInt8) (h : Header) (a rb : Ring) (hr : Reach a rb) :
    Reach a (unpackBody v gz codec h rb).rb := by
  unfold unpackBody
  simp only
  repeat' split
  all_goals grind [Reach.retrieve, Reach.refl, → Reach.read, Reach.read_retrieve]

/-- `protocolVx.Unpack(ctx, buf)` moves `buf` by `Retrieve` / `Read` only -/
theorem unpackRing_reach (v : Ver) (gz : GzOracle) (codec : UInt8) (pend : Option Header) (a rb : Ring)
    (hr : Reach a rb) : Reach a (unpackRing v gz codec pend rb).rb := by
  unfold unpackRing
  simp only
  repeat' split
  all_goals first
    | exact hdrUnpackRing_reach _ _ _ _ hr
    | exact unpackBody_reach _ _ _ _ _ _ (hdrUnpackRing_reach _ _ _ _ hr)
    | exact unpackBody_reach _ _ _ _ _ _ hr

/-- … and so does the project's read loop from a fresh context … -/
theorem runRing_reach (v : Ver) (gz : GzOracle) (codec : UInt8) (a : Ring) :
    ∀ rb, Reach a rb → Reach a (runRing v gz codec rb).2.2.2 := by
  intro rb
  induction hn : rb.length using Nat.strongRecOn generalizing rb with
  | _ n ih =>
    intro hr
    have h1 := unpackRing_reach v gz codec none a rb hr
    rw [runRing]
    split
    · split
      · rename_i hlt
        exact ih _ (by omega) _ rfl h1
      · exact h1
    · exact h1

/-- … the read loop from any context … -/
theorem drainRing_reach (v : Ver) (gz : GzOracle) (codec : UInt8) (pend : Option Header) (a rb : Ring)
    (hr : Reach a rb) : Reach a (drainRing v gz codec pend rb).2.2.2 := by
  have h1 := unpackRing_reach v gz codec pend a rb hr
  rw [drainRing]
  split
  · exact runRing_reach v gz codec a _ h1
  · exact h1

/-- … and the reader's own `readPacket` loop, whatever the fuel -/
theorem readPacketLoop_reach (v : Ver) (gz : GzOracle) (codec : UInt8) (a : Ring) :
    ∀ (fuel : Nat) (pend : Option Header) (rb : Ring), Reach a rb →
      Reach a (readPacketLoop v gz codec fuel pend rb).2.2.2 := by
  intro fuel
  induction fuel with
  | zero => intro pend rb hr; exact hr
  | succ n ih =>
    intro pend rb hr
    have h1 := unpackRing_reach v gz codec pend a rb hr
    rw [readPacketLoop]
    simp only
    split
    · exact ih _ _ h1
    · exact h1

theorem readPacket_reach (v : Ver) (gz : GzOracle) (codec : UInt8) (pend : Option Header) (rb : Ring) :
    Reach rb (readPacket v gz codec pend rb).2.2.2 :=
  readPacketLoop_reach v gz codec rb _ pend rb .refl

/-! ### what consuming operations preserve -/

theorem retrieve_w0 (rb : Ring) (n : Nat) (hw : rb.w = 0) : (rb.retrieve n).w = 0 := by
  unfold Ring.retrieve
  split
  · exact hw
  · split
    · exact hw
    · rfl

theorem retrieve_buf (rb : Ring) (n : Nat) : (rb.retrieve n).buf = rb.buf ∧ (rb.retrieve n).size = rb.size := by
  unfold Ring.retrieve
  split
  · exact ⟨rfl, rfl⟩
  · split <;> exact ⟨rfl, rfl⟩

/-- a successful `Read` keeps the backing array, the capacity and the write position -/
theorem read_frame (rb c : Ring) (n : Nat) (d : Bytes) (h : rb.read n = .ok (d, c)) :
    c.w = rb.w ∧ c.buf = rb.buf ∧ c.size = rb.size := by
  unfold Ring.read at h
  split at h
  · simp only [Res.ok.injEq, Prod.mk.injEq] at h; obtain ⟨_, rfl⟩ := h; exact ⟨rfl, rfl, rfl⟩
  · split at h
    · cases h
    · simp only at h
      split at h
      · cases h
      · simp only [Res.ok.injEq, Prod.mk.injEq] at h; obtain ⟨_, rfl⟩ := h; exact ⟨rfl, rfl, rfl⟩

/-- a successful `Read` on a well-formed ring, whatever the length asked for: the result is
well-formed and holds a suffix of what was queued -/
theorem read_ok_spec (rb c : Ring) (wf : rb.WF) (n : Nat) (d : Bytes) (h : rb.read n = .ok (d, c)) :
    c.WF ∧ d = rb.abs.take n ∧ c.abs = rb.abs.drop n := by
  by_cases hn : n = 0
  · subst hn
    rw [read_zero] at h
    simp only [Res.ok.injEq, Prod.mk.injEq] at h
    obtain ⟨rfl, rfl⟩ := h
    exact ⟨wf, by simp, by simp⟩
  · by_cases he : rb.isEmpty = true
    · rw [read_empty rb n (by omega) he] at h; cases h
    · have he' : rb.isEmpty = false := by simpa using he
      by_cases hz : rb.size = 0
      · simp [Ring.read, hn, he', hz] at h
      · have hl : 0 < rb.length := by
          unfold Ring.length
          have := wf.rlt' (by omega); have := wf.wlt' (by omega)
          simp only [he', Bool.false_eq_true, ↓reduceIte]
          split
          · omega
          · split <;> omega
        obtain ⟨rb', h1, h2, h3⟩ := read_spec rb wf n (by omega) hl
        rw [h1] at h
        simp only [Res.ok.injEq, Prod.mk.injEq] at h
        obtain ⟨rfl, rfl⟩ := h
        exact ⟨h2, rfl, h3⟩

/-- everything reachable from a well-formed ring is well-formed and holds a suffix of its bytes,
in the same backing array -/
theorem reach_wf (a b : Ring) (wf : a.WF) (h : Reach a b) :
    b.WF ∧ b.buf = a.buf ∧ b.size = a.size ∧ ∃ k, b.abs = a.abs.drop k := by
  induction h with
  | refl => exact ⟨wf, rfl, rfl, 0, by simp⟩
  | @retrieve b' n _ ih =>
    obtain ⟨w1, hb, hs, k, hk⟩ := ih
    have := retrieve_buf b' n
    exact ⟨retrieve_wf _ w1 n, by rw [this.1, hb], by rw [this.2, hs], k + n,
      by rw [retrieve_abs _ w1, hk, List.drop_drop]⟩
  | read n _ hr ih =>
    obtain ⟨w1, hb, hs, k, hk⟩ := ih
    obtain ⟨w2, _, ha⟩ := read_ok_spec _ _ w1 n _ hr
    have := read_frame _ _ n _ hr
    exact ⟨w2, by rw [this.2.1, hb], by rw [this.2.2, hs], k + n, by rw [ha, hk, List.drop_drop]⟩

/-- `Retrieve` / `RetrieveAll` / `Read` never move the write position away from 0 -/
theorem reach_w0 (a b : Ring) (hw : a.w = 0) (h : Reach a b) : b.w = 0 := by
  induction h with
  | refl => exact hw
  | retrieve n _ ih => exact retrieve_w0 _ n ih
  | read n _ hr ih => rw [(read_frame _ _ n _ hr).1]; exact ih

/-! ### the key lemma of the fast path -/

/-- on a ring whose write position is 0 — flagged empty or not, whatever the read position —
`PeekAll` returns everything in its FIRST slice -/
theorem peekAll_w0 (rb : Ring) (wf : rb.WF) (hw : rb.w = 0) :
    rb.peekAll.2 = [] ∧ rb.peekAll.1 = rb.abs := by
  have h := peekAll_abs rb wf
  have h2 : rb.peekAll.2 = [] := by
    unfold Ring.peekAll
    split
    · rfl
    · split
      · rfl
      · simp [hw]
  rw [h2, List.append_nil] at h
  exact ⟨h2, h⟩

/-- KEY LEMMA. Every ring reachable from `NewWithData(d)` by `Retrieve` / `Read` / peeks only — in
particular the temporary ring after any number of `Unpack` calls — is well-formed, still has its
write position at 0 and the array `d` as its buffer, holds a suffix of `d`, and `PeekAll` on it
returns an EMPTY second slice and ALL the unread bytes in the first. No corner case: it holds for
the empty chunk (`NewWithData(nil)`: size 0, flagged non-empty) and when everything has been
consumed (`RetrieveAll` / `Read` flag the ring empty; `PeekAll` then returns two nil slices). -/
theorem reach_newWithData (d : Bytes) (b : Ring) (h : Reach (Ring.newWithData d) b) :
    b.WF ∧ b.w = 0 ∧ b.buf = d ∧ b.size = d.length ∧
    b.peekAll.2 = [] ∧ b.peekAll.1 = b.abs ∧ ∃ k, b.abs = d.drop k := by
  have wf0 : (Ring.newWithData d).WF := by
    constructor <;> simp [Ring.newWithData] <;> omega
  have ha0 : (Ring.newWithData d).abs = d := by simp [Ring.newWithData, Ring.abs]
  obtain ⟨w1, hb, hs, k, hk⟩ := reach_wf _ b wf0 h
  have hw := reach_w0 _ b rfl h
  obtain ⟨p2, p1⟩ := peekAll_w0 b w1 hw
  exact ⟨w1, hw, hb, hs, p2, p1, k, by rw [hk, ha0]⟩

/-- the form used by the reader: after `readPacket(NewWithData(chunk))`, `first` is the whole left-over -/
theorem fast_path_first_is_everything (v : Ver) (gz : GzOracle) (codec : UInt8) (pend : Option Header)
    (chunk : Bytes) :
    let b := (readPacket v gz codec pend (Ring.newWithData chunk)).2.2.2
    b.WF ∧ b.peekAll.2 = [] ∧ b.peekAll.1 = b.abs ∧ ∃ k, b.abs = chunk.drop k := by
  obtain ⟨h1, _, _, _, h2, h3, h4⟩ :=
    reach_newWithData chunk _ (readPacket_reach v gz codec pend (Ring.newWithData chunk))
  exact ⟨h1, h2, h3, h4⟩

/-- the same for the project's `drainRing` -/
theorem drainRing_newWithData (v : Ver) (gz : GzOracle) (codec : UInt8) (pend : Option Header) (chunk : Bytes) :
    let b := (drainRing v gz codec pend (Ring.newWithData chunk)).2.2.2
    b.WF ∧ b.peekAll.2 = [] ∧ b.peekAll.1 = b.abs ∧ ∃ k, b.abs = chunk.drop k := by
  obtain ⟨h1, _, _, _, h2, h3, h4⟩ :=
    reach_newWithData chunk _ (drainRing_reach v gz codec pend _ _ .refl)
  exact ⟨h1, h2, h3, h4⟩

/-- why the lemma is needed: on a well-formed ring that wraps (w ≠ 0) the second slice is NOT empty,
keeping only `first` would lose bytes. (The slow path never does that: it decodes `conn.readBuf`
in place.) -/
example : (⟨[5, 0, 0, 4], 4, 3, 1, false⟩ : Ring).WF ∧
    (⟨[5, 0, 0, 4], 4, 3, 1, false⟩ : Ring).peekAll = ([4], [5]) ∧
    (⟨[5, 0, 0, 4], 4, 3, 1, false⟩ : Ring).abs = [4, 5] :=
  ⟨by constructor <;> decide, by decide, by decide⟩

/-! ### the reader's loop is the project's `drainRing` -/

/-- a call that delivers a packet clears the parked header (ring side) -/
theorem unpackRing_pkt_pend (v : Ver) (gz : GzOracle) (codec : UInt8) (pend : Option Header) (rb : Ring)
    (wf : rb.WF) (k : Packet) (h : (unpackRing v gz codec pend rb).res = .pkt k) :
    (unpackRing v gz codec pend rb).pend = none := by
  obtain ⟨e1, e2, _, _⟩ := unpackRing_eq_abs v gz codec pend rb wf
  rw [e2]
  exact unpackAbs_pend_none v gz codec pend rb.abs (by rw [← e1, h]; simp)

/-- from a fresh context the fuel-bounded loop is `runRing` as soon as the fuel exceeds the length -/
theorem readPacketLoop_eq_runRing (v : Ver) (gz : GzOracle) (codec : UInt8) :
    ∀ (fuel : Nat) (rb : Ring), rb.WF → rb.length < fuel →
      readPacketLoop v gz codec fuel none rb = runRing v gz codec rb := by
  intro fuel
  induction fuel with
  | zero => intro rb _ h; omega
  | succ n ih =>
    intro rb wf hlt
    obtain ⟨e1, e2, e3, e4⟩ := unpackRing_eq_abs v gz codec none rb wf
    rw [readPacketLoop, runRing]
    simp only
    cases hres : (unpackRing v gz codec none rb).res with
    | pkt k =>
      have hp := unpackRing_pkt_pend v gz codec none rb wf k hres
      have hu : unpackAbs v gz codec none rb.abs = (.pkt k, (unpackAbs v gz codec none rb.abs).2.1,
          (unpackAbs v gz codec none rb.abs).2.2) :=
        Prod.ext (by rw [← e1, hres]) rfl
      have hl := unpack_pkt_lt v gz codec rb.abs k _ _ hu
      have := pushLen_pos v
      have hlen : (unpackRing v gz codec none rb).rb.length < rb.length := by
        rw [length_abs _ e3, length_abs _ wf, e4]; omega
      simp only [hlen, ↓reduceDIte, hp]
      rw [ih _ e3 (by omega)]
    | more => rfl
    | err e => rfl
    | panic w => rfl

/-- THE READER'S LOOP IS `drainRing`: on every well-formed ring and for every parked header the
fuel `Length() + 2` is never exhausted — the out-of-fuel result of `readPacketLoop` is unreachable -/
theorem readPacket_eq_drainRing (v : Ver) (gz : GzOracle) (codec : UInt8) (pend : Option Header) (rb : Ring)
    (wf : rb.WF) : readPacket v gz codec pend rb = drainRing v gz codec pend rb := by
  obtain ⟨e1, e2, e3, e4⟩ := unpackRing_eq_abs v gz codec pend rb wf
  unfold readPacket
  rw [show rb.length + 2 = (rb.length + 1) + 1 from rfl, readPacketLoop, drainRing]
  simp only
  cases hres : (unpackRing v gz codec pend rb).res with
  | pkt k =>
    have hp := unpackRing_pkt_pend v gz codec pend rb wf k hres
    obtain ⟨_, _, _, j, hj⟩ := reach_wf rb _ wf (unpackRing_reach v gz codec pend rb rb .refl)
    have hlen : (unpackRing v gz codec pend rb).rb.length < rb.length + 1 := by
      rw [length_abs _ e3, length_abs _ wf, hj, List.length_drop]; omega
    simp only [hp]
    rw [readPacketLoop_eq_runRing v gz codec _ _ e3 hlen]
  | more => rfl
  | err e => rfl
  | panic w => rfl

/-- hence `readPacket` over ANY well-formed ring computes the queue loop `drain` over its bytes -/
theorem readPacket_abs (v : Ver) (gz : GzOracle) (codec : UInt8) (pend : Option Header) (rb : Ring)
    (wf : rb.WF) : EndRel (readPacket v gz codec pend rb) (drain v gz codec pend rb.abs) := by
  rw [readPacket_eq_drainRing v gz codec pend rb wf]
  exact drainRing_abs v gz codec pend rb wf

/-! ### the reader refines the abstract queue connection -/

/-- simulation between the reader goroutine and the queue connection `Conn` of OAP/Proofs/Stream.lean:
same parked header, the left-over ring is well-formed and (while running) holds exactly the
connection's queue, same packets, same verdict -/
def RSim (s : RSt) (c : Conn) : Prop :=
  s.pend = c.pend ∧ s.readBuf.WF ∧ (c.stop = none → s.readBuf.abs = c.q) ∧ s.pkts = c.pkts ∧
  s.stopped = c.stop

theorem newWithData_wf (d : Bytes) : (Ring.newWithData d).WF ∧ (Ring.newWithData d).abs = d := by
  refine ⟨?_, by simp [Ring.newWithData, Ring.abs]⟩
  constructor <;> simp [Ring.newWithData] <;> omega

/-- an empty read changes nothing (`n == 0 → continue`) -/
theorem readStep_nil (v : Ver) (gz : GzOracle) (codec : UInt8) (s : RSt) (x : Bytes) (hx : x.length = 0) :
    readStep v gz codec s x = s := by
  unfold readStep
  split
  · rfl
  · simp [hx]

/-- ONE SOCKET READ, whichever path it takes, is one step of the queue connection -/
theorem rsim_step (v : Ver) (gz : GzOracle) (codec : UInt8) (s : RSt) (c : Conn) (x : Bytes)
    (hx : x.length ≠ 0) (h : RSim s c) : RSim (readStep v gz codec s x) (c.step v gz codec x) := by
  obtain ⟨h1, h2, h3, h4, h5⟩ := h
  cases hs : c.stop with
  | some e =>
    have : s.stopped = some e := by rw [h5, hs]
    simp only [readStep, Conn.step, hs, this]
    exact ⟨h1, h2, fun hn => (by rw [hs] at hn; cases hn), h4, (by rw [this, hs])⟩
  | none =>
    have hrs : s.stopped = none := by rw [h5, hs]
    have hq := h3 hs
    by_cases hl : s.readBuf.length = 0
    · -- fast path
      have hq0 : c.q = [] := by
        rw [← hq]; exact List.eq_nil_of_length_eq_zero (by rw [← length_abs _ h2]; exact hl)
      obtain ⟨wfN, haN⟩ := newWithData_wf x
      obtain ⟨wfB, _, hfirst, _⟩ := fast_path_first_is_everything v gz codec s.pend x
      have hE := readPacket_abs v gz codec s.pend (Ring.newWithData x) wfN
      rw [haN, h1] at hE
      obtain ⟨a1, a2, a3, a4, a5⟩ := hE
      simp only [readStep, Conn.step, hs, hrs, hx, hl, ↓reduceIte, hq0, List.nil_append]
      cases hres : (readPacket v gz codec s.pend (Ring.newWithData x)).2.1 with
      | more =>
        have hm : (drain v gz codec c.pend x).2.1 = .more := by rw [← a2, ← h1, hres]
        simp only [hm, ↓reduceIte]
        refine ⟨(by rw [h1]; exact a3), ?_, fun _ => ?_, (by simp only; rw [h1, a1, h4]), rfl⟩
        · simp only
          split
          · exact (write_spec _ h2 _).1
          · exact h2
        · simp only
          split
          · rw [(write_spec _ h2 _).2, hq, hq0, List.nil_append, hfirst, h1]; exact a5
          · rename_i hlen
            have : (readPacket v gz codec s.pend (Ring.newWithData x)).2.2.2.abs = [] :=
              List.eq_nil_of_length_eq_zero (by rw [← length_abs _ wfB]; omega)
            rw [hq, hq0, ← a5, ← h1, this]
      | pkt k =>
        have hm : (drain v gz codec c.pend x).2.1 = .pkt k := by rw [← a2, ← h1, hres]
        simp only [hm]
        exact ⟨(by rw [h1]; exact a3), h2, fun hn => (by simp at hn), (by simp only; rw [h1, a1, h4]), by simp⟩
      | err e =>
        have hm : (drain v gz codec c.pend x).2.1 = .err e := by rw [← a2, ← h1, hres]
        simp only [hm]
        exact ⟨(by rw [h1]; exact a3), h2, fun hn => (by simp at hn), (by simp only; rw [h1, a1, h4]), by simp⟩
      | panic w =>
        have hm : (drain v gz codec c.pend x).2.1 = .panic w := by rw [← a2, ← h1, hres]
        simp only [hm]
        exact ⟨(by rw [h1]; exact a3), h2, fun hn => (by simp at hn), (by simp only; rw [h1, a1, h4]), by simp⟩
    · -- slow path
      obtain ⟨w1, w2⟩ := write_spec s.readBuf h2 x
      have hE := readPacket_abs v gz codec s.pend (s.readBuf.write x) w1
      rw [w2, hq, h1] at hE
      obtain ⟨a1, a2, a3, a4, a5⟩ := hE
      simp only [readStep, Conn.step, hs, hrs, hx, hl, ↓reduceIte]
      refine ⟨(by rw [h1]; exact a3), (by rw [h1]; exact a4), fun _ => (by rw [h1]; exact a5), ?_, ?_⟩
      · simp only; rw [h1, a1, h4]
      · simp only; rw [h1, a2]

/-- the chunks the reader does not skip -/
def nonEmpty (chunks : List Bytes) : List Bytes := chunks.filter (fun x => x.length ≠ 0)

theorem nonEmpty_flatten (chunks : List Bytes) : (nonEmpty chunks).flatten = chunks.flatten := by
  unfold nonEmpty
  induction chunks with
  | nil => rfl
  | cons x xs ih =>
    by_cases hx : x.length = 0
    · have : x = [] := List.eq_nil_of_length_eq_zero hx
      subst this
      simp only [List.filter_cons, List.length_nil, ne_eq, not_true_eq_false, decide_false,
        Bool.false_eq_true, ↓reduceIte, List.flatten_cons, List.nil_append]
      exact ih
    · simp only [List.filter_cons, hx, ne_eq, not_false_eq_true, decide_true, ↓reduceIte,
        List.flatten_cons, ih]

theorem rsim_foldl (v : Ver) (gz : GzOracle) (codec : UInt8) (chunks : List Bytes) :
    ∀ (s : RSt) (c : Conn), RSim s c →
      RSim (chunks.foldl (readStep v gz codec) s) ((nonEmpty chunks).foldl (Conn.step v gz codec) c) := by
  unfold nonEmpty
  induction chunks with
  | nil => intro s c h; exact h
  | cons x xs ih =>
    intro s c h
    by_cases hx : x.length = 0
    · simp only [List.foldl_cons, readStep_nil v gz codec s x hx, List.filter_cons, hx, ne_eq,
        not_true_eq_false, decide_false, Bool.false_eq_true, ↓reduceIte]
      exact ih s c h
    · simp only [List.foldl_cons, List.filter_cons, hx, ne_eq, not_false_eq_true, decide_true, ↓reduceIte]
      exact ih _ _ (rsim_step v gz codec s c x hx h)

/-- the reader simulates the queue connection fed the non-empty chunks -/
theorem reading_sim (v : Ver) (gz : GzOracle) (codec : UInt8) (rb0 : Ring) (wf : rb0.WF) (he : rb0.abs = [])
    (chunks : List Bytes) : RSim (reading v gz codec rb0 chunks) (feed v gz codec (nonEmpty chunks)) :=
  rsim_foldl v gz codec chunks _ _ ⟨rfl, wf, fun _ => he, rfl, rfl⟩

/-- what `feed` observes is a function of the concatenated stream -/
theorem feed_obs_flatten (v : Ver) (gz : GzOracle) (codec : UInt8) (cs₁ cs₂ : List Bytes)
    (h : cs₁.flatten = cs₂.flatten) : (feed v gz codec cs₁).obs = (feed v gz codec cs₂).obs := by
  rw [tracks_obs v gz codec _ _ (feed_tracks v gz codec cs₁),
    tracks_obs v gz codec _ _ (feed_tracks v gz codec cs₂), h]

/-- REFINEMENT. From any well-formed empty ring as `conn.readBuf` (any capacity, any offsets — in
particular `ringbuffer.New(ReadBufferSize)`), for every sequence of socket reads (empty reads
included), the packets the reader goroutine delivers, in order, and its error verdict are those of
the abstract queue connection `feed` — whatever path (in-place decode of the chunk, or write behind
the left-over) each read took. -/
theorem reading_eq_feed (v : Ver) (gz : GzOracle) (codec : UInt8) (rb0 : Ring) (wf : rb0.WF)
    (he : rb0.abs = []) (chunks : List Bytes) :
    (reading v gz codec rb0 chunks).obs = (feed v gz codec chunks).obs := by
  obtain ⟨_, _, _, h4, h5⟩ := reading_sim v gz codec rb0 wf he chunks
  rw [← feed_obs_flatten v gz codec _ _ (nonEmpty_flatten chunks)]
  unfold RSt.obs Conn.obs
  rw [h4, h5]

/-- … hence a function of the concatenated byte stream alone: the one-shot read loop `run` over it -/
theorem reading_spec (v : Ver) (gz : GzOracle) (codec : UInt8) (rb0 : Ring) (wf : rb0.WF)
    (he : rb0.abs = []) (chunks : List Bytes) :
    (reading v gz codec rb0 chunks).obs =
      ((run v gz codec chunks.flatten).1,
       if (run v gz codec chunks.flatten).2.1 = .more then none else some (run v gz codec chunks.flatten).2.1) := by
  rw [reading_eq_feed v gz codec rb0 wf he chunks]
  exact tracks_obs v gz codec _ _ (feed_tracks v gz codec chunks)

/-- the one-shot loop never ends in a panic -/
theorem run_no_panic (v : Ver) (gz : GzOracle) (codec : UInt8) (w : String) :
    ∀ u : Bytes, (run v gz codec u).2.1 ≠ .panic w := by
  intro u
  induction hn : u.length using Nat.strongRecOn generalizing u with
  | _ n ih =>
    have hp := unpackAbs_no_panic v gz codec none u w
    rw [run_eq_drain, drain]
    match hu : unpackAbs v gz codec none u with
    | (.pkt k, p1, r1) =>
      have hlt := unpack_pkt_lt v gz codec u k p1 r1 hu
      have := pushLen_pos v
      exact ih r1.length (by omega) r1 rfl
    | (.more, p1, r1) => simp
    | (.err e, p1, r1) => simp
    | (.panic w', p1, r1) => rw [hu] at hp; simpa using hp

/-- THE READER NEVER PANICS in the decoder or the ring buffer, on any input, for any segmentation,
on either path (`NewWithData` of a non-empty chunk, `Read` / `Retrieve` / `PeekUintN` on the temporary
ring and on the grown left-over ring included) — and the model's out-of-fuel result never occurs -/
theorem reading_no_panic (v : Ver) (gz : GzOracle) (codec : UInt8) (rb0 : Ring) (wf : rb0.WF)
    (he : rb0.abs = []) (chunks : List Bytes) (w : String) :
    (reading v gz codec rb0 chunks).stopped ≠ some (.panic w) := by
  have h := reading_spec v gz codec rb0 wf he chunks
  have h2 : (reading v gz codec rb0 chunks).stopped = (reading v gz codec rb0 chunks).obs.2 := rfl
  rw [h2, h]
  simp only
  split
  · simp
  · intro hc
    injection hc with hc
    exact run_no_panic v gz codec w _ hc

/-! ### the invariant: parked header + left-over ring = the undelivered stream -/

/-- the header the one-shot loop ends with is always one the decoder itself parks -/
theorem run_pend_ok (v : Ver) (gz : GzOracle) (codec : UInt8) :
    ∀ u : Bytes, PendOK v (run v gz codec u).2.2.1 := by
  intro u
  induction hn : u.length using Nat.strongRecOn generalizing u with
  | _ n ih =>
    have hp := pend_ok_preserved v gz codec none u (pendOK_none v)
    rw [run_eq_drain, drain]
    match hu : unpackAbs v gz codec none u with
    | (.pkt k, p1, r1) =>
      have hlt := unpack_pkt_lt v gz codec u k p1 r1 hu
      have := pushLen_pos v
      exact ih r1.length (by omega) r1 rfl
    | (.more, p1, r1) => rw [hu] at hp; exact hp
    | (.err e, p1, r1) => rw [hu] at hp; exact hp
    | (.panic w, p1, r1) => rw [hu] at hp; exact hp

/-- when the one-shot loop over `u` stops for want of data, the undelivered stream of its end state
(parked header re-encoded ++ queue) is a suffix of `u`: nothing lost, nothing duplicated, nothing
reordered -/
theorem run_more_suffix (v : Ver) (gz : GzOracle) (codec : UInt8) :
    ∀ (u : Bytes) (ks : List Packet) (p : Option Header) (r : Bytes),
      run v gz codec u = (ks, (.more, p, r)) → ∃ k, unread v p r = u.drop k := by
  intro u
  induction hn : u.length using Nat.strongRecOn generalizing u with
  | _ n ih =>
    intro ks p r hd
    rw [run_eq_drain, drain] at hd
    match hu : unpackAbs v gz codec none u, hd with
    | (.pkt k, p1, r1), hd =>
      simp only [hu] at hd
      have hlt := unpack_pkt_lt v gz codec u k p1 r1 hu
      have := pushLen_pos v
      obtain ⟨_, _, _, _, _, _, _, _, hr, _⟩ := unpack_pkt_consumed v gz codec u k p1 r1 hu
      cases hrun : run v gz codec r1 with
      | mk ks1 e1 =>
        rw [hrun] at hd
        simp only [Prod.mk.injEq] at hd
        obtain ⟨_, rfl⟩ := hd
        obtain ⟨j, hj⟩ := ih r1.length (by omega) r1 rfl ks1 p r hrun
        exact ⟨_, by rw [hj, hr, List.drop_drop]⟩
    | (.more, p1, r1), hd =>
      simp only [Prod.mk.injEq] at hd
      obtain ⟨_, _, rfl, rfl⟩ := hd
      obtain ⟨u', hpk, hu'⟩ := unpack_more_unread v gz codec u p1 r1 hu
      exact ⟨0, by rw [unread, parked_hdrBytes v p1 u' hpk, hu', List.drop_zero]⟩
    | (.err e, p1, r1), hd => simp at hd
    | (.panic w, p1, r1), hd => simp at hd

/-- resuming from a state the decoder can be in is decoding the undelivered stream from scratch -/
theorem drain_unread (v : Ver) (gz : GzOracle) (codec : UInt8) (pend : Option Header) (q : Bytes)
    (hp : PendOK v pend) : drain v gz codec pend q = run v gz codec (unread v pend q) :=
  drain_spec v gz codec pend _ q ((parked_iff v pend).mp hp)

/-- the invariant of the abstract queue connection after the stream `U`: the parked header is one the
decoder parks; the delivered packets are those of the one-shot loop over `U`; while running, the
undelivered stream `unread v pend q` is that of the one-shot loop; once stopped, the verdict is the
one-shot loop's -/
structure CInv (v : Ver) (gz : GzOracle) (codec : UInt8) (c : Conn) (U : Bytes) : Prop where
  pend_ok : PendOK v c.pend
  pkts : c.pkts = (run v gz codec U).1
  live : c.stop = none → (run v gz codec U).2.1 = .more ∧
    unread v c.pend c.q = unread v (run v gz codec U).2.2.1 (run v gz codec U).2.2.2
  dead : ∀ e, c.stop = some e → e ≠ .more ∧ (run v gz codec U).2.1 = e

theorem cinv_init (v : Ver) (gz : GzOracle) (codec : UInt8) : CInv v gz codec {} [] := by
  have : run v gz codec [] = ([], (.more, some {}, [])) := by
    rw [run_eq_drain, drain, unpackAbs_nil]
  refine ⟨pendOK_none v, (by rw [this]), fun _ => ?_, fun e h => (by cases h)⟩
  rw [this]
  exact ⟨rfl, rfl⟩

theorem cinv_step (v : Ver) (gz : GzOracle) (codec : UInt8) (c : Conn) (U x : Bytes)
    (h : CInv v gz codec c U) : CInv v gz codec (c.step v gz codec x) (U ++ x) := by
  obtain ⟨hp, hk, hl, hd⟩ := h
  cases hs : c.stop with
  | some e =>
    obtain ⟨hne, he⟩ := hd e hs
    cases hr : run v gz codec U with
    | mk ks en =>
      obtain ⟨s0, p0, r0⟩ := en
      rw [hr] at hk he
      simp only at hk he
      subst he
      have ha := run_append_stop v gz codec x U ks s0 p0 r0 hr hne
      have hstep : c.step v gz codec x = c := by simp only [Conn.step, hs]
      rw [hstep]
      refine ⟨hp, (by rw [ha, hk]), fun hn => (by rw [hs] at hn; cases hn), fun e' he' => ?_⟩
      rw [hs] at he'
      injection he' with he'
      subst he'
      exact ⟨hne, by rw [ha]⟩
  | none =>
    obtain ⟨hm, hu⟩ := hl hs
    cases hr : run v gz codec U with
    | mk ks en =>
      obtain ⟨s0, p0, r0⟩ := en
      rw [hr] at hk hm hu
      simp only at hk hm hu
      subst hm
      have hp0 : PendOK v p0 := by have := run_pend_ok v gz codec U; rw [hr] at this; exact this
      have ha := drain_append v gz codec x U ks p0 r0 hr
      have e1 : drain v gz codec c.pend (c.q ++ x) = run v gz codec (unread v c.pend c.q ++ x) := by
        rw [drain_unread v gz codec _ _ hp, unread, unread, List.append_assoc]
      have e2 : drain v gz codec p0 (r0 ++ x) = run v gz codec (unread v c.pend c.q ++ x) := by
        rw [drain_unread v gz codec _ _ hp0, hu, unread, unread, List.append_assoc]
      rw [e2] at ha
      have hpe := run_pend_ok v gz codec (unread v c.pend c.q ++ x)
      simp only [Conn.step, hs, e1]
      refine ⟨hpe, (by rw [ha, hk]), fun hn => ?_, fun e' he' => ?_⟩
      · rw [ha]
        simp only at hn
        by_cases hmm : (run v gz codec (unread v c.pend c.q ++ x)).2.1 = .more
        · exact ⟨hmm, rfl⟩
        · simp [hmm] at hn
      · rw [ha]
        simp only at he'
        by_cases hmm : (run v gz codec (unread v c.pend c.q ++ x)).2.1 = .more
        · simp [hmm] at he'
        · simp only [hmm, ↓reduceIte, Option.some.injEq] at he'
          subst he'
          exact ⟨hmm, rfl⟩

theorem cinv_foldl (v : Ver) (gz : GzOracle) (codec : UInt8) (chunks : List Bytes) :
    ∀ (c : Conn) (U : Bytes), CInv v gz codec c U →
      CInv v gz codec (chunks.foldl (Conn.step v gz codec) c) (U ++ chunks.flatten) := by
  induction chunks with
  | nil => intro c U h; simpa using h
  | cons x xs ih =>
    intro c U h
    have := ih _ _ (cinv_step v gz codec c U x h)
    simpa [List.append_assoc] using this

theorem feed_cinv (v : Ver) (gz : GzOracle) (codec : UInt8) (chunks : List Bytes) :
    CInv v gz codec (feed v gz codec chunks) chunks.flatten := by
  have := cinv_foldl v gz codec chunks {} [] (cinv_init v gz codec)
  simpa [feed] using this

/-- the undelivered bytes of the TCP connection: the parked header re-encoded by the codec's own
`Header.Pack` (nothing / byte 0 / the complete header), then the bytes of the left-over ring -/
def RSt.unread (v : Ver) (s : RSt) : Bytes := Frame.unread v s.pend s.readBuf.abs

/-- THE READER'S INVARIANT after the socket has delivered the byte stream `U` (in any segmentation):
* `conn.readBuf` satisfies the ring's representation invariant;
* the parked header is one the decoder itself parks (`PendOK`);
* the delivered packets are those of the one-shot read loop over `U`;
* while the goroutine runs, the one-shot loop over `U` has stopped for want of data and the
  connection's undelivered bytes — parked header ++ left-over ring — are exactly the one-shot
  loop's: the parked header and the left-over bytes are consistent, in whichever buffer the header
  was parked;
* once it has returned, the verdict is the one-shot loop's error. -/
structure RInv (v : Ver) (gz : GzOracle) (codec : UInt8) (s : RSt) (U : Bytes) : Prop where
  wf : s.readBuf.WF
  pend_ok : PendOK v s.pend
  pkts : s.pkts = (run v gz codec U).1
  live : s.stopped = none → (run v gz codec U).2.1 = .more ∧
    s.unread v = Frame.unread v (run v gz codec U).2.2.1 (run v gz codec U).2.2.2
  dead : ∀ e, s.stopped = some e → e ≠ .more ∧ (run v gz codec U).2.1 = e

theorem reading_invariant (v : Ver) (gz : GzOracle) (codec : UInt8) (rb0 : Ring) (wf : rb0.WF)
    (he : rb0.abs = []) (chunks : List Bytes) :
    RInv v gz codec (reading v gz codec rb0 chunks) chunks.flatten := by
  obtain ⟨h1, h2, h3, h4, h5⟩ := reading_sim v gz codec rb0 wf he chunks
  obtain ⟨c1, c2, c3, c4⟩ := feed_cinv v gz codec (nonEmpty chunks)
  rw [nonEmpty_flatten] at c2 c3 c4
  refine ⟨h2, by rw [h1]; exact c1, by rw [h4]; exact c2, fun hn => ?_, fun e hs => c4 e (by rw [← h5]; exact hs)⟩
  have hn' : (feed v gz codec (nonEmpty chunks)).stop = none := by rw [← h5]; exact hn
  obtain ⟨m1, m2⟩ := c3 hn'
  exact ⟨m1, by rw [RSt.unread, h1, h3 hn']; exact m2⟩

/-- while the reader runs, its undelivered bytes are a suffix of the stream received so far, and what
it will do with whatever arrives next (`c`) is what a fresh decoder does on that suffix ++ `c` -/
theorem reading_unread_suffix (v : Ver) (gz : GzOracle) (codec : UInt8) (rb0 : Ring) (wf : rb0.WF)
    (he : rb0.abs = []) (chunks : List Bytes) (hs : (reading v gz codec rb0 chunks).stopped = none) :
    (∃ k, (reading v gz codec rb0 chunks).unread v = chunks.flatten.drop k) ∧
    ∀ c, drain v gz codec (reading v gz codec rb0 chunks).pend ((reading v gz codec rb0 chunks).readBuf.abs ++ c)
      = run v gz codec ((reading v gz codec rb0 chunks).unread v ++ c) := by
  obtain ⟨_, hp, _, hl, _⟩ := reading_invariant v gz codec rb0 wf he chunks
  obtain ⟨hm, hu⟩ := hl hs
  refine ⟨?_, fun c => ?_⟩
  · rw [hu]
    exact run_more_suffix v gz codec chunks.flatten _ _ _ (Prod.ext rfl (Prod.ext hm rfl))
  · rw [drain_unread v gz codec _ _ hp, RSt.unread, Frame.unread, Frame.unread, List.append_assoc]

/-- ONE READ, both paths at once. From any state with a well-formed left-over ring and a parked header
the decoder can have parked, a non-empty read `x` does what the one-shot loop does on the
connection's undelivered bytes followed by `x`: delivers its packets, parks its header, stops with
its error — and, if it ends in "need more data", leaves exactly its queue in `conn.readBuf`
(after a fast-path read: the copy of `first` — consistent with the header parked while decoding
the temporary ring). -/
theorem readStep_spec (v : Ver) (gz : GzOracle) (codec : UInt8) (s : RSt) (wf : s.readBuf.WF)
    (hp : PendOK v s.pend) (hs : s.stopped = none) (x : Bytes) (hx : x.length ≠ 0) :
    let R := run v gz codec (s.unread v ++ x)
    let s' := readStep v gz codec s x
    s'.pkts = s.pkts ++ R.1 ∧ s'.pend = R.2.2.1 ∧ s'.readBuf.WF ∧
    s'.stopped = (if R.2.1 = .more then none else some R.2.1) ∧
    (R.2.1 = .more → s'.readBuf.abs = R.2.2.2) := by
  have hsim : RSim s { pend := s.pend, q := s.readBuf.abs, pkts := s.pkts, stop := none } :=
    ⟨rfl, wf, fun _ => rfl, rfl, hs⟩
  have e1 : drain v gz codec s.pend (s.readBuf.abs ++ x) = run v gz codec (s.unread v ++ x) := by
    rw [drain_unread v gz codec _ _ hp, RSt.unread, Frame.unread, Frame.unread, List.append_assoc]
  obtain ⟨h1, h2, h3, h4, h5⟩ := rsim_step v gz codec s _ x hx hsim
  simp only [Conn.step, e1] at h1 h2 h3 h4 h5
  refine ⟨h4, h1, h2, h5, fun hm => h3 (by simp [hm])⟩

end OAP.Reading
