/-
Helper lemmas for C01 / C02 / C04 (frame codec against the layout spec). Core Lean only.
-/
import OAP.Model.Frame
import OAP.Spec.Layout
import OAP.Proofs.Metadata
set_option linter.unusedSimpArgs false
set_option linter.unusedVariables false
namespace OAP.Frame
open OAP

/-! ### the shift-based encodings are the arithmetic (div/mod) ones -/

theorem be16_spec (x : UInt16) : be16 x = Spec.be x.toNat 2 := by
  have hx : x.toNat < 65536 := x.toNat_lt
  simp only [be16, Spec.be]
  congr 1
  · apply UInt8.toNat_inj.mp
    simp only [UInt16.toNat_toUInt8, UInt16.toNat_shiftRight, UInt8.toNat_ofNat', Nat.pow_zero, Nat.pow_one, Nat.div_one]
    have e8 : UInt16.toNat 8 % 16 = 8 := by decide
    rw [e8, Nat.shiftRight_eq_div_pow]; omega
  · congr 1
    apply UInt8.toNat_inj.mp
    simp only [UInt16.toNat_toUInt8, UInt8.toNat_ofNat', Nat.pow_zero, Nat.pow_one, Nat.div_one]; omega

theorem be32_spec (x : UInt32) : be32 x = Spec.be x.toNat 4 := by
  have hx : x.toNat < 4294967296 := x.toNat_lt
  have e24 : UInt32.toNat 24 % 32 = 24 := by decide
  have e16 : UInt32.toNat 16 % 32 = 16 := by decide
  have e8 : UInt32.toNat 8 % 32 = 8 := by decide
  simp only [be32, Spec.be]
  congr 1
  · apply UInt8.toNat_inj.mp
    simp only [UInt32.toNat_toUInt8, UInt32.toNat_shiftRight, UInt8.toNat_ofNat', Nat.pow_zero, Nat.pow_one, Nat.div_one]
    rw [e24, Nat.shiftRight_eq_div_pow]; omega
  · congr 1
    · apply UInt8.toNat_inj.mp
      simp only [UInt32.toNat_toUInt8, UInt32.toNat_shiftRight, UInt8.toNat_ofNat', Nat.pow_zero, Nat.pow_one, Nat.div_one]
      rw [e16, Nat.shiftRight_eq_div_pow]; omega
    · congr 1
      · apply UInt8.toNat_inj.mp
        simp only [UInt32.toNat_toUInt8, UInt32.toNat_shiftRight, UInt8.toNat_ofNat', Nat.pow_zero, Nat.pow_one, Nat.div_one]
        rw [e8, Nat.shiftRight_eq_div_pow]; omega
      · congr 1
        apply UInt8.toNat_inj.mp
        simp only [UInt32.toNat_toUInt8, UInt8.toNat_ofNat', Nat.pow_zero, Nat.pow_one, Nat.div_one]; omega

theorem be24_spec (x : UInt32) (hx : x.toNat < 16777216) : be24 x = Spec.be x.toNat 3 := by
  have e16 : UInt32.toNat 16 % 32 = 16 := by decide
  have e8 : UInt32.toNat 8 % 32 = 8 := by decide
  simp only [be24, Spec.be]
  congr 1
  · apply UInt8.toNat_inj.mp
    simp only [UInt32.toNat_toUInt8, UInt32.toNat_shiftRight, UInt8.toNat_ofNat', Nat.pow_zero, Nat.pow_one, Nat.div_one]
    rw [e16, Nat.shiftRight_eq_div_pow]; omega
  · congr 1
    · apply UInt8.toNat_inj.mp
      simp only [UInt32.toNat_toUInt8, UInt32.toNat_shiftRight, UInt8.toNat_ofNat', Nat.pow_zero, Nat.pow_one, Nat.div_one]
      rw [e8, Nat.shiftRight_eq_div_pow]; omega
    · congr 1
      apply UInt8.toNat_inj.mp
      simp only [UInt32.toNat_toUInt8, UInt8.toNat_ofNat', Nat.pow_zero, Nat.pow_one, Nat.div_one]; omega

theorem be64_spec (x : UInt64) : be64 x = Spec.be x.toNat 8 := by
  have hx : x.toNat < 18446744073709551616 := x.toNat_lt
  have e56 : UInt64.toNat 56 % 64 = 56 := by decide
  have e48 : UInt64.toNat 48 % 64 = 48 := by decide
  have e40 : UInt64.toNat 40 % 64 = 40 := by decide
  have e32 : UInt64.toNat 32 % 64 = 32 := by decide
  have e24 : UInt64.toNat 24 % 64 = 24 := by decide
  have e16 : UInt64.toNat 16 % 64 = 16 := by decide
  have e8 : UInt64.toNat 8 % 64 = 8 := by decide
  simp only [be64, Spec.be]
  congr 1
  · apply UInt8.toNat_inj.mp
    simp only [UInt64.toNat_toUInt8, UInt64.toNat_shiftRight, UInt8.toNat_ofNat']
    rw [e56, Nat.shiftRight_eq_div_pow]; omega
  congr 1
  · apply UInt8.toNat_inj.mp
    simp only [UInt64.toNat_toUInt8, UInt64.toNat_shiftRight, UInt8.toNat_ofNat']
    rw [e48, Nat.shiftRight_eq_div_pow]; omega
  congr 1
  · apply UInt8.toNat_inj.mp
    simp only [UInt64.toNat_toUInt8, UInt64.toNat_shiftRight, UInt8.toNat_ofNat']
    rw [e40, Nat.shiftRight_eq_div_pow]; omega
  congr 1
  · apply UInt8.toNat_inj.mp
    simp only [UInt64.toNat_toUInt8, UInt64.toNat_shiftRight, UInt8.toNat_ofNat']
    rw [e32, Nat.shiftRight_eq_div_pow]; omega
  congr 1
  · apply UInt8.toNat_inj.mp
    simp only [UInt64.toNat_toUInt8, UInt64.toNat_shiftRight, UInt8.toNat_ofNat']
    rw [e24, Nat.shiftRight_eq_div_pow]; omega
  congr 1
  · apply UInt8.toNat_inj.mp
    simp only [UInt64.toNat_toUInt8, UInt64.toNat_shiftRight, UInt8.toNat_ofNat']
    rw [e16, Nat.shiftRight_eq_div_pow]; omega
  congr 1
  · apply UInt8.toNat_inj.mp
    simp only [UInt64.toNat_toUInt8, UInt64.toNat_shiftRight, UInt8.toNat_ofNat']
    rw [e8, Nat.shiftRight_eq_div_pow]; omega
  congr 1
  apply UInt8.toNat_inj.mp
  simp only [UInt64.toNat_toUInt8, UInt8.toNat_ofNat', Nat.pow_zero, Nat.div_one]; omega

theorem packLen_eq (v : Ver) (bl : UInt32) : packLen v bl = be24 bl := by cases v <;> rfl

theorem packLen_spec (v : Ver) (bl : UInt32) (h : bl.toNat < 16777216) : packLen v bl = Spec.be bl.toNat 3 := by
  rw [packLen_eq, be24_spec bl h]

theorem cmdByte_spec (v : Ver) (c : UInt32) : cmdByte v c = UInt8.ofNat (c.toNat % 256) := by
  have : cmdByte v c = (c &&& (255 : UInt32)).toUInt8 := by cases v <;> rfl
  rw [this]
  apply UInt8.toNat_inj.mp
  simp only [UInt32.toNat_toUInt8, UInt32.toNat_and, UInt8.toNat_ofNat']
  have : UInt32.toNat 255 = 2 ^ 8 - 1 := by decide
  rw [this, Nat.and_two_pow_sub_one_eq_mod]

theorem status_spec (s : UInt8) : Spec.be s.toNat 1 = [s] := by simp [Spec.be]

/-! ### `pack`: decomposition and conformance to the layout -/

/-- what the published layout says about a packet as it leaves Pack -/
def specOf (v : Ver) (p : Packet) : Spec.Frame :=
  { type := match p.type with | .request => 1 | .response => 2 | .push => 3 | .other => 0
    verify := if p.verify then 1 else 0, gzip := if p.gzip then 1 else 0, reserve := 0
    cmd := p.cmd.toNat % 256, rid := p.rid.toNat, timeout := p.timeout.toNat, status := p.status.toNat
    md := match v with | .v1 => [] | .v2 => Metadata.marshalMap p.values 65535
    body := p.body, nonce := p.nonce.toNat, sig := sigWindow p.signature }

/-- first phase of `pack`: optional compression -/
def packPre (v : Ver) (gz : GzOracle) (p : Packet) (thr : Int) : Res Packet :=
  if gzipCond v thr p.body.length then
    match gz.compress p.body with
    | .ok c => Res.ok { p with body := c, gzip := true }
    | .err e => .err e
    | .panic w => .panic w
  else .ok { p with gzip := false }     -- a stale flag (relayed packet) is cleared

/-- second phase of `pack`: header, metadata block, body, trailer -/
def packTail (v : Ver) (p1 : Packet) : Res (Bytes × Packet) :=
  let bl := p1.body.length
  if bl > Gen.v1_MaxBodyLength then .err "body length hit limit"
  else
    let h0 := headerFromMetadata v p1
    let md : Bytes := match v with | .v1 => [] | .v2 => Metadata.marshalMap p1.values (Gen.v2_MaxMetadataLength : Nat)
    let h := { h0 with bodyLength := UInt32.ofNat bl, metadataLength := UInt16.ofNat md.length }
    do
    let hd ← Header.pack v h
    let trailer : Bytes := if p1.verify then be64 p1.nonce ++ sigWindow p1.signature else []
    .ok (hd ++ md ++ p1.body ++ trailer, p1)

theorem pack_eq (v : Ver) (gz : GzOracle) (p : Packet) (thr : Int) :
    pack v gz p thr = packPre v gz p thr >>= packTail v := rfl

/-- the incoming gzip flag of the packet plays no part in `pack`: the first phase overwrites it -/
theorem packPre_flag_irrelevant (v : Ver) (gz : GzOracle) (p : Packet) (thr : Int) (g : Bool) :
    packPre v gz { p with gzip := g } thr = packPre v gz p thr := rfl

theorem pack_flag_irrelevant (v : Ver) (gz : GzOracle) (p : Packet) (thr : Int) (g : Bool) :
    pack v gz { p with gzip := g } thr = pack v gz p thr := by
  rw [pack_eq, pack_eq, packPre_flag_irrelevant]

theorem maxMd_eq : ((Gen.v2_MaxMetadataLength : Nat) : Int) = 65535 := rfl

theorem md_length_le (vals : List Metadata.Pair) : (Metadata.marshalMap vals 65535).length ≤ 65535 := by
  have h : ((Metadata.marshalMap vals 65535).length : Int) ≤ 65535 := by
    unfold Metadata.marshalMap Metadata.marshalValues
    split
    · simp
    · exact Metadata.marshalLoop_budget 65535 _ [] (by simp)
  omega

theorem sigWindow_length (s : Bytes) : (sigWindow s).length = 16 := by
  have : Gen.v1_SignatureLength = 16 := rfl
  simp only [sigWindow, this, List.length_append, List.length_take, List.length_replicate]; omega

theorem sigWindow_id (s : Bytes) (h : s.length = 16) : sigWindow s = s := by
  have e : Gen.v1_SignatureLength = 16 := rfl
  simp [sigWindow, e, h, List.take_of_length_le]

theorem packB0_tab (v : Ver) : ∀ vf g : Bool,
    packB0 v tReq (if vf then 1 else 0) (if g then 1 else 0) 0 = UInt8.ofNat (1 + 16 * (if vf then 1 else 0) + 32 * (if g then 1 else 0) + 64 * 0) ∧
    packB0 v tResp (if vf then 1 else 0) (if g then 1 else 0) 0 = UInt8.ofNat (2 + 16 * (if vf then 1 else 0) + 32 * (if g then 1 else 0) + 64 * 0) ∧
    packB0 v tPush (if vf then 1 else 0) (if g then 1 else 0) 0 = UInt8.ofNat (3 + 16 * (if vf then 1 else 0) + 32 * (if g then 1 else 0) + 64 * 0) := by
  cases v <;> decide

theorem packTail_ok (v : Ver) (p1 p' : Packet) (bs : Bytes) (h : packTail v p1 = .ok (bs, p')) :
    p' = p1 ∧ p1.type ≠ .other ∧ p1.body.length ≤ 16777215 ∧ bs = Spec.encode v (specOf v p1) := by
  have eM : Gen.v1_MaxBodyLength = 16777215 := rfl
  unfold packTail at h
  simp only [eM, maxMd_eq] at h
  split at h
  · cases h
  · rename_i hlen
    have hbl : (UInt32.ofNat p1.body.length).toNat = p1.body.length := by
      rw [UInt32.toNat_ofNat']; apply Nat.mod_eq_of_lt; omega
    have hml := md_length_le p1.values
    have hml' : (UInt16.ofNat (Metadata.marshalMap p1.values 65535).length).toNat = (Metadata.marshalMap p1.values 65535).length := by
      rw [UInt16.toNat_ofNat']; apply Nat.mod_eq_of_lt; omega
    have h24 := packLen_spec v (UInt32.ofNat p1.body.length) (by rw [hbl]; omega)
    rw [hbl] at h24
    have hk : isUnknown tReq = false ∧ isUnknown tResp = false ∧ isUnknown tPush = false ∧ isUnknown 0 = true := by decide
    have hne : (tReq == tResp) = false ∧ (tResp == tReq) = false ∧ (tPush == tReq) = false ∧ (tPush == tResp) = false := by decide
    obtain ⟨k1, k2, k3, k4⟩ := hk
    obtain ⟨n1, n2, n3, n4⟩ := hne
    cases ht : p1.type <;> cases v <;>
      simp [Header.pack, headerFromMetadata, ht, k1, k2, k3, k4, n1, n2, n3, n4, hbl, eM, hlen] at h
    all_goals
      obtain ⟨h, rfl⟩ := h
      subst h
      obtain ⟨b1, b2, b3⟩ := packB0_tab .v1 p1.verify p1.gzip
      obtain ⟨c1, c2, c3⟩ := packB0_tab .v2 p1.verify p1.gzip
      refine ⟨rfl, by simp, by omega, ?_⟩
      simp only [Spec.encode, specOf, ht, b1, b2, b3, c1, c2, c3, cmdByte_spec, be32_spec, be16_spec, hml', h24,
        be64_spec, status_spec]
      cases p1.verify <;> simp

theorem packPre_ok (v : Ver) (gz : GzOracle) (p p1 : Packet) (thr : Int) (h : packPre v gz p thr = .ok p1) :
    (gzipCond v thr p.body.length = false ∧ p1 = { p with gzip := false }) ∨
    (gzipCond v thr p.body.length = true ∧ ∃ c, gz.compress p.body = .ok c ∧ p1 = { p with body := c, gzip := true }) := by
  unfold packPre at h
  split at h
  · rename_i hc
    right
    refine ⟨hc, ?_⟩
    cases hcomp : gz.compress p.body with
    | ok c => rw [hcomp] at h; simp only [Res.ok.injEq] at h; exact ⟨c, rfl, h.symm⟩
    | err e => rw [hcomp] at h; cases h
    | panic w => rw [hcomp] at h; cases h
  · rename_i hc
    left
    simp only [Res.ok.injEq] at h
    exact ⟨by simpa using hc, h.symm⟩

/-- the flag of the packet handed on is the engagement of the threshold rule, the body is the
compressor's output when it engaged and the packet's own otherwise — whatever the incoming flag -/
theorem packPre_flag (v : Ver) (gz : GzOracle) (p p1 : Packet) (thr : Int) (h : packPre v gz p thr = .ok p1) :
    p1.gzip = gzipCond v thr p.body.length ∧ (p1.gzip = true → gz.compress p.body = .ok p1.body) ∧
    (p1.gzip = false → p1.body = p.body) := by
  rcases packPre_ok v gz p p1 thr h with ⟨hc, rfl⟩ | ⟨hc, c, hcomp, rfl⟩
  · exact ⟨hc.symm, (by intro hx; cases hx), fun _ => rfl⟩
  · exact ⟨hc.symm, fun _ => hcomp, (by intro hx; cases hx)⟩

theorem pack_ok_inv (v : Ver) (gz : GzOracle) (p p' : Packet) (thr : Int) (bs : Bytes)
    (h : pack v gz p thr = .ok (bs, p')) :
    packPre v gz p thr = .ok p' ∧ p'.type ≠ .other ∧ p'.body.length ≤ 16777215 ∧ bs = Spec.encode v (specOf v p') := by
  rw [pack_eq] at h
  cases hp : packPre v gz p thr with
  | ok p1 =>
    rw [hp, Res.ok_bind] at h
    obtain ⟨rfl, h2, h3, h4⟩ := packTail_ok v p1 p' bs h
    exact ⟨rfl, h2, h3, h4⟩
  | err e => rw [hp] at h; cases h
  | panic w => rw [hp] at h; cases h

theorem packTail_isOk (v : Ver) (p1 : Packet) :
    (packTail v p1).isOk = true ↔ (p1.type ≠ .other ∧ p1.body.length ≤ 16777215) := by
  have eM : Gen.v1_MaxBodyLength = 16777215 := rfl
  have hk : isUnknown tReq = false ∧ isUnknown tResp = false ∧ isUnknown tPush = false ∧ isUnknown 0 = true := by decide
  obtain ⟨k1, k2, k3, k4⟩ := hk
  unfold packTail
  simp only [eM]
  by_cases hlen : p1.body.length > 16777215
  · simp [hlen, Res.isOk]
  · have hbl : (UInt32.ofNat p1.body.length).toNat = p1.body.length := by
      rw [UInt32.toNat_ofNat']; apply Nat.mod_eq_of_lt; omega
    have hle : p1.body.length ≤ 16777215 := by omega
    cases ht : p1.type <;>
      simp [hlen, Header.pack, headerFromMetadata, ht, k1, k2, k3, k4, hbl, eM, Res.isOk, hle]

theorem Header.pack_no_panic (v : Ver) (h : Header) : (∃ e, Header.pack v h = .err e) ∨ ∃ b, Header.pack v h = .ok b := by
  unfold Header.pack
  split
  · exact .inl ⟨_, rfl⟩
  · split
    · exact .inl ⟨_, rfl⟩
    · exact .inr ⟨_, rfl⟩

theorem packTail_no_panic (v : Ver) (p1 : Packet) : (packTail v p1).isPanic = false := by
  unfold packTail
  simp only
  split
  · rfl
  · rcases Header.pack_no_panic v _ with ⟨e, he⟩ | ⟨b, hb⟩
    · rw [he]; rfl
    · rw [hb]; rfl

/-! ### `Header.unpackBytes` in closed form -/

theorem ub_tab : ∀ b : Fin 256,
    Gen.v1UbType (UInt8.ofFin b) = UInt8.ofNat (b.val % 16) ∧
    Gen.v1UbVerify (UInt8.ofFin b) = UInt8.ofNat (b.val / 16 % 2) ∧
    Gen.v1UbGzip (UInt8.ofFin b) = UInt8.ofNat (b.val / 32 % 2) ∧
    Gen.v1UbReserve (UInt8.ofFin b) = UInt8.ofNat (b.val / 64) := by
  decide +kernel

theorem ub_eq (v : Ver) : ubType v = Gen.v1UbType ∧ ubVerify v = Gen.v1UbVerify ∧ ubGzip v = Gen.v1UbGzip ∧
    ubReserve v = Gen.v1UbReserve ∧ ubBodyLen v = rd24 := by
  cases v <;> exact ⟨rfl, rfl, rfl, rfl, rfl⟩

/-- byte 0 as the layout reads it: type = low nibble, verify = bit 4, gzip = bit 5, reserve = bits 6–7 -/
theorem ub_spec (v : Ver) (b : UInt8) :
    ubType v b = UInt8.ofNat (b.toNat % 16) ∧ ubVerify v b = UInt8.ofNat (b.toNat / 16 % 2) ∧
    ubGzip v b = UInt8.ofNat (b.toNat / 32 % 2) ∧ ubReserve v b = UInt8.ofNat (b.toNat / 64) := by
  obtain ⟨e1, e2, e3, e4, _⟩ := ub_eq v
  rw [e1, e2, e3, e4]
  have := ub_tab b.toFin
  simpa using this

/-- the header fields known after byte 0 and the command byte -/
def hdr0 (v : Ver) (b0 cmd : UInt8) : Header :=
  { type := ubType v b0, verify := ubVerify v b0, gzip := ubGzip v b0, reserve := ubReserve v b0, cmdCode := cmd }

theorem tconsts : isUnknown tReq = false ∧ isUnknown tResp = false ∧ isUnknown tPush = false ∧
    (tReq == tResp) = false ∧ (tResp == tReq) = false ∧ (tPush == tReq) = false ∧ (tPush == tResp) = false ∧
    (tReq == tReq) = true ∧ (tResp == tResp) = true := by decide

theorem tne : tReq ≠ tResp ∧ tResp ≠ tReq ∧ tPush ≠ tReq ∧ tPush ≠ tResp := by decide

theorem hdr_req_v1 (b0 c a1 a2 a3 a4 t1 t2 x y z : UInt8) (rest : Bytes) (ht : ubType .v1 b0 = tReq) :
    Header.unpackBytes .v1 (b0 :: c :: a1 :: a2 :: a3 :: a4 :: t1 :: t2 :: x :: y :: z :: rest) =
      .ok ({ hdr0 .v1 b0 c with requestId := rd32 a1 a2 a3 a4, timeout := rd16 t1 t2, bodyLength := ubBodyLen .v1 x y z }, rest) := by
  unfold Header.unpackBytes hdr0
  have e0 : ∀ t, Bytes.idx (b0 :: t) 0 = .ok b0 := fun _ => rfl
  simp only [e0, Res.ok_bind, ht]
  rfl

theorem hdr_req_v2 (b0 c a1 a2 a3 a4 t1 t2 l1 l2 x y z : UInt8) (rest : Bytes) (ht : ubType .v2 b0 = tReq) :
    Header.unpackBytes .v2 (b0 :: c :: a1 :: a2 :: a3 :: a4 :: t1 :: t2 :: l1 :: l2 :: x :: y :: z :: rest) =
      .ok ({ hdr0 .v2 b0 c with requestId := rd32 a1 a2 a3 a4, timeout := rd16 t1 t2, metadataLength := rd16 l1 l2,
                                bodyLength := ubBodyLen .v2 x y z }, rest) := by
  unfold Header.unpackBytes hdr0
  have e0 : ∀ t, Bytes.idx (b0 :: t) 0 = .ok b0 := fun _ => rfl
  simp only [e0, Res.ok_bind, ht]
  rfl

theorem hdr_resp_v1 (b0 c a1 a2 a3 a4 s x y z : UInt8) (rest : Bytes) (ht : ubType .v1 b0 = tResp) :
    Header.unpackBytes .v1 (b0 :: c :: a1 :: a2 :: a3 :: a4 :: s :: x :: y :: z :: rest) =
      .ok ({ hdr0 .v1 b0 c with requestId := rd32 a1 a2 a3 a4, statusCode := s, bodyLength := ubBodyLen .v1 x y z }, rest) := by
  unfold Header.unpackBytes hdr0
  have e0 : ∀ t, Bytes.idx (b0 :: t) 0 = .ok b0 := fun _ => rfl
  simp only [e0, Res.ok_bind, ht]
  rfl

theorem hdr_resp_v2 (b0 c a1 a2 a3 a4 s l1 l2 x y z : UInt8) (rest : Bytes) (ht : ubType .v2 b0 = tResp) :
    Header.unpackBytes .v2 (b0 :: c :: a1 :: a2 :: a3 :: a4 :: s :: l1 :: l2 :: x :: y :: z :: rest) =
      .ok ({ hdr0 .v2 b0 c with requestId := rd32 a1 a2 a3 a4, statusCode := s, metadataLength := rd16 l1 l2,
                                bodyLength := ubBodyLen .v2 x y z }, rest) := by
  unfold Header.unpackBytes hdr0
  have e0 : ∀ t, Bytes.idx (b0 :: t) 0 = .ok b0 := fun _ => rfl
  simp only [e0, Res.ok_bind, ht]
  rfl

theorem hdr_push_v1 (b0 c x y z : UInt8) (rest : Bytes) (ht : ubType .v1 b0 = tPush) :
    Header.unpackBytes .v1 (b0 :: c :: x :: y :: z :: rest) =
      .ok ({ hdr0 .v1 b0 c with bodyLength := ubBodyLen .v1 x y z }, rest) := by
  unfold Header.unpackBytes hdr0
  have e0 : ∀ t, Bytes.idx (b0 :: t) 0 = .ok b0 := fun _ => rfl
  simp only [e0, Res.ok_bind, ht]
  rfl

theorem hdr_push_v2 (b0 c l1 l2 x y z : UInt8) (rest : Bytes) (ht : ubType .v2 b0 = tPush) :
    Header.unpackBytes .v2 (b0 :: c :: l1 :: l2 :: x :: y :: z :: rest) =
      .ok ({ hdr0 .v2 b0 c with metadataLength := rd16 l1 l2, bodyLength := ubBodyLen .v2 x y z }, rest) := by
  unfold Header.unpackBytes hdr0
  have e0 : ∀ t, Bytes.idx (b0 :: t) 0 = .ok b0 := fun _ => rfl
  simp only [e0, Res.ok_bind, ht]
  rfl

/-! ### `unpackBytes` as a pipeline of stages -/

def mdStage (v : Ver) (md : Bytes) (p : Packet) : Res Packet :=
  match v with
  | .v1 => Res.ok p
  | .v2 => match Metadata.rawPairs md with
    | .ok ps => Res.ok { p with values := ps }
    | .err e => .err e
    | .panic w => .panic w

def verifyStage (h : Header) (data : Bytes) (idx : Nat) (p : Packet) : Res Packet :=
  if h.verify == 1 then
    if data.length < idx + trailerLen then Res.err "invalid frame" else do
    let n ← Bytes.slice data idx (idx + Gen.v1_NonceLength)
    let s ← Bytes.sliceFrom data (idx + Gen.v1_NonceLength)
    match n with
    | [a, b, c, d, e, f, g, i] => Res.ok { p with nonce := rd64 a b c d e f g i, signature := s }
    | _ => .panic "slice length"
  else .ok p

def gzStage (gz : GzOracle) (h : Header) (p : Packet) : Res Packet :=
  if h.gzip == 1 then
    match Gzip.decompress gz p.body with
    | .ok b => .ok { p with body := b }
    | .err e => .err e
    | .panic w => .panic w
  else .ok p

def mdLenOf (v : Ver) (h : Header) : Nat := match v with | .v1 => 0 | .v2 => h.metadataLength.toNat

/-- everything `unpackBytes` does after the header -/
def oneShotBody (v : Ver) (gz : GzOracle) (codec : UInt8) (h : Header) (data : Bytes) : Res Packet :=
  let ml := mdLenOf v h
  let bl := h.bodyLength.toNat
  if data.length < bl + ml then .err "invalid frame" else do
  let md ← Bytes.slice data 0 ml
  let body ← Bytes.slice data ml (bl + ml)
  let p ← mdStage v md { Header.toPacket h codec with body := body }
  let p ← verifyStage h data (bl + ml) p
  gzStage gz h p

theorem unpackBytes_eq (v : Ver) (gz : GzOracle) (codec : UInt8) (bs : Bytes) :
    unpackBytes v gz codec bs = Header.unpackBytes v bs >>= fun (h, data) => oneShotBody v gz codec h data := rfl

/-! ### no-panic bookkeeping -/

theorem Res.bind_noPanic {α β} (r : Res α) (f : α → Res β) (h1 : r.isPanic = false)
    (h2 : ∀ a, r = .ok a → (f a).isPanic = false) : (r >>= f).isPanic = false := by
  cases r with
  | ok a => exact h2 a rfl
  | err e => rfl
  | panic w => cases h1

theorem rawPairs_noPanic (data : Bytes) : (Metadata.rawPairs data).isPanic = false := by
  unfold Metadata.rawPairs
  split
  · rfl
  · split
    · rfl
    · exact Metadata.pairsLoop_total data.length data (Nat.le_refl _)

theorem mdStage_noPanic (v : Ver) (md : Bytes) (p : Packet) : (mdStage v md p).isPanic = false := by
  cases v with
  | v1 => rfl
  | v2 =>
    have := rawPairs_noPanic md
    unfold mdStage
    cases h : Metadata.rawPairs md with
    | ok ps => rfl
    | err e => rfl
    | panic w => rw [h] at this; cases this

theorem decompress_cases (gz : GzOracle) (b : Bytes) :
    (∃ c, gz.read b = some (c, true) ∧ Gzip.decompress gz b = .ok c) ∨ Gzip.decompress gz b = .err "gzip" := by
  unfold Gzip.decompress
  split
  · rename_i c hc; exact .inl ⟨c, hc, rfl⟩
  · exact .inr rfl

theorem gzStage_noPanic (gz : GzOracle) (h : Header) (p : Packet) : (gzStage gz h p).isPanic = false := by
  unfold gzStage
  split
  · rcases decompress_cases gz p.body with ⟨c, _, hc⟩ | hc <;> rw [hc] <;> rfl
  · rfl

theorem cons_of_le {α} {l : List α} {n : Nat} (h : n + 1 ≤ l.length) : ∃ a t, l = a :: t ∧ n ≤ t.length := by
  cases l with
  | nil => simp at h
  | cons a t => exact ⟨a, t, rfl, by simpa using h⟩

/-- the verify stage on data with a complete trailer -/
theorem verifyStage_ok (h : Header) (pre : Bytes) (a b c d e f g i : UInt8) (s : Bytes) (p : Packet)
    (hv : (h.verify == 1) = true) (hs : 16 ≤ s.length) :
    verifyStage h (pre ++ a :: b :: c :: d :: e :: f :: g :: i :: s) pre.length p =
      .ok { p with nonce := rd64 a b c d e f g i, signature := s } := by
  have e8 : Gen.v1_NonceLength = 8 := rfl
  have e24 : trailerLen = 24 := rfl
  have hl : ¬ ((pre ++ a :: b :: c :: d :: e :: f :: g :: i :: s).length < pre.length + 24) := by
    simp only [List.length_append, List.length_cons]; omega
  unfold verifyStage
  simp only [hv, ↓reduceIte, e8, e24, hl]
  have h1 : Bytes.slice (pre ++ a :: b :: c :: d :: e :: f :: g :: i :: s) pre.length (pre.length + 8) =
      .ok [a, b, c, d, e, f, g, i] := by
    rw [Bytes.slice_ok _ _ _ (by omega) (by simp only [List.length_append, List.length_cons]; omega)]
    simp [List.take_append, List.drop_append]
  have h2 : Bytes.sliceFrom (pre ++ a :: b :: c :: d :: e :: f :: g :: i :: s) (pre.length + 8) = .ok s := by
    rw [Bytes.sliceFrom_ok _ _ (by simp only [List.length_append, List.length_cons]; omega)]
    simp [List.drop_append]
  rw [h1, h2]
  rfl

theorem verifyStage_short (h : Header) (data : Bytes) (idx : Nat) (p : Packet)
    (hv : (h.verify == 1) = true) (hs : data.length < idx + 24) :
    verifyStage h data idx p = .err "invalid frame" := by
  have e24 : trailerLen = 24 := rfl
  unfold verifyStage
  simp only [hv, ↓reduceIte, e24, hs]

theorem verifyStage_off (h : Header) (data : Bytes) (idx : Nat) (p : Packet)
    (hv : (h.verify == 1) = false) : verifyStage h data idx p = .ok p := by
  unfold verifyStage
  simp [hv]

theorem verifyStage_noPanic (h : Header) (data : Bytes) (idx : Nat) (p : Packet) (hidx : idx ≤ data.length) :
    (verifyStage h data idx p).isPanic = false := by
  cases hv : (h.verify == 1) with
  | false => rw [verifyStage_off h data idx p hv]; rfl
  | true =>
    by_cases hs : data.length < idx + 24
    · rw [verifyStage_short h data idx p hv hs]; rfl
    · have hd : data = data.take idx ++ data.drop idx := (List.take_append_drop idx data).symm
      have hl : (data.take idx).length = idx := by rw [List.length_take]; omega
      have h0 : 23 + 1 ≤ (data.drop idx).length := by rw [List.length_drop]; omega
      obtain ⟨a, t1, et, h1⟩ := cons_of_le h0
      obtain ⟨b, t2, rfl, h2⟩ := cons_of_le h1
      obtain ⟨c, t3, rfl, h3⟩ := cons_of_le h2
      obtain ⟨d, t4, rfl, h4⟩ := cons_of_le h3
      obtain ⟨e, t5, rfl, h5⟩ := cons_of_le h4
      obtain ⟨f, t6, rfl, h6⟩ := cons_of_le h5
      obtain ⟨g, t7, rfl, h7⟩ := cons_of_le h6
      obtain ⟨i, t8, rfl, h8⟩ := cons_of_le h7
      rw [et] at hd
      have := verifyStage_ok h (data.take idx) a b c d e f g i t8 p hv h8
      rw [hl, ← hd] at this
      rw [this]; rfl

theorem unpackBody_guard (v : Ver) (gz : GzOracle) (codec : UInt8) (h : Header) (data : Bytes)
    (hg : data.length < h.bodyLength.toNat + mdLenOf v h) : oneShotBody v gz codec h data = .err "invalid frame" := by
  unfold oneShotBody; simp only [hg, ↓reduceIte]

/-- past the length guard both slices are in range -/
theorem unpackBody_long (v : Ver) (gz : GzOracle) (codec : UInt8) (h : Header) (data : Bytes)
    (hg : ¬ data.length < h.bodyLength.toNat + mdLenOf v h) :
    oneShotBody v gz codec h data =
      (mdStage v (data.take (mdLenOf v h))
          { Header.toPacket h codec with body := (data.take (h.bodyLength.toNat + mdLenOf v h)).drop (mdLenOf v h) } >>= fun p =>
        verifyStage h data (h.bodyLength.toNat + mdLenOf v h) p >>= fun p => gzStage gz h p) := by
  unfold oneShotBody
  simp only [hg, ↓reduceIte]
  rw [Bytes.slice_ok _ _ _ (by omega) (by omega), Bytes.slice_ok _ _ _ (by omega) (by omega)]
  simp only [Res.ok_bind, List.drop_zero]

theorem unpackBody_noPanic (v : Ver) (gz : GzOracle) (codec : UInt8) (h : Header) (data : Bytes) :
    (oneShotBody v gz codec h data).isPanic = false := by
  by_cases hg : data.length < h.bodyLength.toNat + mdLenOf v h
  · rw [unpackBody_guard v gz codec h data hg]; rfl
  · rw [unpackBody_long v gz codec h data hg]
    apply Res.bind_noPanic _ _ (mdStage_noPanic _ _ _)
    intro p _
    apply Res.bind_noPanic _ _ (verifyStage_noPanic _ _ _ _ (by omega))
    intro p _
    exact gzStage_noPanic _ _ _

/-- a frame is accepted only if everything its header announces is there: metadata block, body and,
when the verify bit is set, the 24-byte trailer -/
theorem unpackBody_short (v : Ver) (gz : GzOracle) (codec : UInt8) (h : Header) (data : Bytes)
    (hs : data.length < h.bodyLength.toNat + mdLenOf v h + (if (h.verify == 1) = true then 24 else 0)) :
    ∃ e, oneShotBody v gz codec h data = .err e := by
  by_cases hg : data.length < h.bodyLength.toNat + mdLenOf v h
  · exact ⟨_, unpackBody_guard v gz codec h data hg⟩
  · rw [unpackBody_long v gz codec h data hg]
    have hm := mdStage_noPanic v (data.take (mdLenOf v h))
      { Header.toPacket h codec with body := (data.take (h.bodyLength.toNat + mdLenOf v h)).drop (mdLenOf v h) }
    cases hmd : mdStage v (data.take (mdLenOf v h))
      { Header.toPacket h codec with body := (data.take (h.bodyLength.toNat + mdLenOf v h)).drop (mdLenOf v h) } with
    | panic w => rw [hmd] at hm; cases hm
    | err e => exact ⟨e, rfl⟩
    | ok p =>
      simp only [Res.ok_bind]
      cases hv : (h.verify == 1) with
      | false => rw [hv] at hs; simp at hs; omega
      | true =>
        rw [hv] at hs; simp only [↓reduceIte] at hs
        rw [verifyStage_short h data _ p hv hs]
        exact ⟨_, rfl⟩

/-! ### `Header.unpackBytes`: complete case analysis -/

theorem isUnknown_false (t : UInt8) (h : isUnknown t = false) : t = tReq ∨ t = tResp ∨ t = tPush := by
  unfold isUnknown at h
  simp only [Bool.not_eq_false', Bool.or_eq_true, beq_iff_eq] at h
  rcases h with (h | h) | h
  · exact .inl h
  · exact .inr (.inl h)
  · exact .inr (.inr h)

theorem hdrLen_vals (v : Ver) :
    hdrLen v tReq = (match v with | .v1 => 11 | .v2 => 13) ∧
    hdrLen v tResp = (match v with | .v1 => 10 | .v2 => 12) ∧
    hdrLen v tPush = (match v with | .v1 => 5 | .v2 => 7) := by
  cases v <;> decide

theorem hdrLen_pos (v : Ver) (t : UInt8) : 5 ≤ hdrLen v t := by
  unfold hdrLen; cases v <;> split <;> (try split) <;> decide

theorem hdr_nil (v : Ver) : Header.unpackBytes v [] = .err "invalid frame" := by
  simp [Header.unpackBytes]

theorem hdr_unknown (v : Ver) (b0 : UInt8) (rest : Bytes) (h : isUnknown (ubType v b0) = true) :
    Header.unpackBytes v (b0 :: rest) = .err "invalid packet type" := by
  simp [Header.unpackBytes, Bytes.idx, h]

theorem hdr_short (v : Ver) (b0 : UInt8) (rest : Bytes) (hk : isUnknown (ubType v b0) = false)
    (hs : (b0 :: rest).length < hdrLen v (ubType v b0)) :
    Header.unpackBytes v (b0 :: rest) = .err "invalid frame" := by
  have := hdrLen_pos v (ubType v b0)
  have e : hdrLen v (ubType v b0) - 1 + 1 = hdrLen v (ubType v b0) := by omega
  unfold Header.unpackBytes
  have hne : ¬ ((b0 :: rest).length = 0) := by simp
  simp only [hne, ↓reduceIte, Bytes.idx, List.getElem?_cons_zero, Res.ok_bind, hk, Bool.false_eq_true, e]
  rw [if_pos hs]

/-- a known type and at least a header's worth of bytes: the header is decoded, the rest handed on -/
theorem hdr_long (v : Ver) (b0 : UInt8) (rest : Bytes) (hk : isUnknown (ubType v b0) = false)
    (hl : hdrLen v (ubType v b0) ≤ (b0 :: rest).length) :
    ∃ H, Header.unpackBytes v (b0 :: rest) = .ok (H, (b0 :: rest).drop (hdrLen v (ubType v b0))) ∧
      H.type = ubType v b0 ∧ H.verify = ubVerify v b0 ∧ H.gzip = ubGzip v b0 := by
  obtain ⟨l1, l2, l3⟩ := hdrLen_vals v
  simp only [List.length_cons] at hl
  rcases isUnknown_false _ hk with ht | ht | ht <;> rw [ht] at hl ⊢ <;> cases v
  · rw [l1] at hl ⊢; simp only at hl ⊢
    have h0 : 9 + 1 ≤ rest.length := by omega
    obtain ⟨c, t1, rfl, h1⟩ := cons_of_le h0
    obtain ⟨a1, t2, rfl, h2⟩ := cons_of_le h1
    obtain ⟨a2, t3, rfl, h3⟩ := cons_of_le h2
    obtain ⟨a3, t4, rfl, h4⟩ := cons_of_le h3
    obtain ⟨a4, t5, rfl, h5⟩ := cons_of_le h4
    obtain ⟨x1, t6, rfl, h6⟩ := cons_of_le h5
    obtain ⟨x2, t7, rfl, h7⟩ := cons_of_le h6
    obtain ⟨x, t8, rfl, h8⟩ := cons_of_le h7
    obtain ⟨y, t9, rfl, h9⟩ := cons_of_le h8
    obtain ⟨z, t10, rfl, h10⟩ := cons_of_le h9
    exact ⟨_, hdr_req_v1 _ _ _ _ _ _ _ _ _ _ _ _ ht, ht, rfl, rfl⟩
  · rw [l1] at hl ⊢; simp only at hl ⊢
    have h0 : 11 + 1 ≤ rest.length := by omega
    obtain ⟨c, t1, rfl, h1⟩ := cons_of_le h0
    obtain ⟨a1, t2, rfl, h2⟩ := cons_of_le h1
    obtain ⟨a2, t3, rfl, h3⟩ := cons_of_le h2
    obtain ⟨a3, t4, rfl, h4⟩ := cons_of_le h3
    obtain ⟨a4, t5, rfl, h5⟩ := cons_of_le h4
    obtain ⟨x1, t6, rfl, h6⟩ := cons_of_le h5
    obtain ⟨x2, t7, rfl, h7⟩ := cons_of_le h6
    obtain ⟨m1, t8, rfl, h8⟩ := cons_of_le h7
    obtain ⟨m2, t9, rfl, h9⟩ := cons_of_le h8
    obtain ⟨x, t10, rfl, h10⟩ := cons_of_le h9
    obtain ⟨y, t11, rfl, h11⟩ := cons_of_le h10
    obtain ⟨z, t12, rfl, h12⟩ := cons_of_le h11
    exact ⟨_, hdr_req_v2 _ _ _ _ _ _ _ _ _ _ _ _ _ _ ht, ht, rfl, rfl⟩
  · rw [l2] at hl ⊢; simp only at hl ⊢
    have h0 : 8 + 1 ≤ rest.length := by omega
    obtain ⟨c, t1, rfl, h1⟩ := cons_of_le h0
    obtain ⟨a1, t2, rfl, h2⟩ := cons_of_le h1
    obtain ⟨a2, t3, rfl, h3⟩ := cons_of_le h2
    obtain ⟨a3, t4, rfl, h4⟩ := cons_of_le h3
    obtain ⟨a4, t5, rfl, h5⟩ := cons_of_le h4
    obtain ⟨x1, t6, rfl, h6⟩ := cons_of_le h5
    obtain ⟨x, t8, rfl, h8⟩ := cons_of_le h6
    obtain ⟨y, t9, rfl, h9⟩ := cons_of_le h8
    obtain ⟨z, t10, rfl, h10⟩ := cons_of_le h9
    exact ⟨_, hdr_resp_v1 _ _ _ _ _ _ _ _ _ _ _ ht, ht, rfl, rfl⟩
  · rw [l2] at hl ⊢; simp only at hl ⊢
    have h0 : 10 + 1 ≤ rest.length := by omega
    obtain ⟨c, t1, rfl, h1⟩ := cons_of_le h0
    obtain ⟨a1, t2, rfl, h2⟩ := cons_of_le h1
    obtain ⟨a2, t3, rfl, h3⟩ := cons_of_le h2
    obtain ⟨a3, t4, rfl, h4⟩ := cons_of_le h3
    obtain ⟨a4, t5, rfl, h5⟩ := cons_of_le h4
    obtain ⟨x1, t6, rfl, h6⟩ := cons_of_le h5
    obtain ⟨m1, t7, rfl, h7⟩ := cons_of_le h6
    obtain ⟨m2, t8, rfl, h8⟩ := cons_of_le h7
    obtain ⟨x, t9, rfl, h9⟩ := cons_of_le h8
    obtain ⟨y, t10, rfl, h10⟩ := cons_of_le h9
    obtain ⟨z, t11, rfl, h11⟩ := cons_of_le h10
    exact ⟨_, hdr_resp_v2 _ _ _ _ _ _ _ _ _ _ _ _ _ ht, ht, rfl, rfl⟩
  · rw [l3] at hl ⊢; simp only at hl ⊢
    have h0 : 3 + 1 ≤ rest.length := by omega
    obtain ⟨c, t1, rfl, h1⟩ := cons_of_le h0
    obtain ⟨x, t9, rfl, h9⟩ := cons_of_le h1
    obtain ⟨y, t10, rfl, h10⟩ := cons_of_le h9
    obtain ⟨z, t11, rfl, h11⟩ := cons_of_le h10
    exact ⟨_, hdr_push_v1 _ _ _ _ _ _ ht, ht, rfl, rfl⟩
  · rw [l3] at hl ⊢; simp only at hl ⊢
    have h0 : 5 + 1 ≤ rest.length := by omega
    obtain ⟨c, t1, rfl, h1⟩ := cons_of_le h0
    obtain ⟨m1, t7, rfl, h7⟩ := cons_of_le h1
    obtain ⟨m2, t8, rfl, h8⟩ := cons_of_le h7
    obtain ⟨x, t9, rfl, h9⟩ := cons_of_le h8
    obtain ⟨y, t10, rfl, h10⟩ := cons_of_le h9
    obtain ⟨z, t11, rfl, h11⟩ := cons_of_le h10
    exact ⟨_, hdr_push_v2 _ _ _ _ _ _ _ _ ht, ht, rfl, rfl⟩

/-- the one-shot decoder never panics, on any input -/
theorem unpackBytes_noPanic (v : Ver) (gz : GzOracle) (codec : UInt8) (bs : Bytes) :
    (unpackBytes v gz codec bs).isPanic = false := by
  rw [unpackBytes_eq]
  cases bs with
  | nil => rw [hdr_nil]; rfl
  | cons b0 rest =>
    cases hk : isUnknown (ubType v b0) with
    | true => rw [hdr_unknown v b0 rest hk]; rfl
    | false =>
      by_cases hs : (b0 :: rest).length < hdrLen v (ubType v b0)
      · rw [hdr_short v b0 rest hk hs]; rfl
      · obtain ⟨H, hH, _⟩ := hdr_long v b0 rest hk (by omega)
        rw [hH]
        exact unpackBody_noPanic _ _ _ _ _

/-- acceptance needs the whole frame: a known type nibble, the full header, and after it at least
the announced metadata block, the announced body and (verify bit set) the 24-byte trailer -/
theorem unpackBytes_ok_length (v : Ver) (gz : GzOracle) (codec : UInt8) (bs : Bytes) (p : Packet)
    (h : unpackBytes v gz codec bs = .ok p) :
    ∃ b0 rest H, bs = b0 :: rest ∧ isUnknown (ubType v b0) = false ∧
      Header.unpackBytes v bs = .ok (H, bs.drop (hdrLen v (ubType v b0))) ∧
      hdrLen v (ubType v b0) + mdLenOf v H + H.bodyLength.toNat + (if (ubVerify v b0 == 1) = true then 24 else 0) ≤ bs.length := by
  rw [unpackBytes_eq] at h
  cases bs with
  | nil => rw [hdr_nil] at h; cases h
  | cons b0 rest =>
    cases hk : isUnknown (ubType v b0) with
    | true => rw [hdr_unknown v b0 rest hk] at h; cases h
    | false =>
      by_cases hs : (b0 :: rest).length < hdrLen v (ubType v b0)
      · rw [hdr_short v b0 rest hk hs] at h; cases h
      · obtain ⟨H, hH, _, hver, _⟩ := hdr_long v b0 rest hk (by omega)
        refine ⟨b0, rest, H, rfl, hk, hH, ?_⟩
        rw [hH] at h
        simp only [Res.ok_bind] at h
        apply Classical.byContradiction
        intro hc
        have hlen : ((b0 :: rest).drop (hdrLen v (ubType v b0))).length = (b0 :: rest).length - hdrLen v (ubType v b0) :=
          List.length_drop
        obtain ⟨e, he⟩ := unpackBody_short v gz codec H _ (by rw [hlen, hver]; omega)
        rw [he] at h; cases h

/-! ### the decoder on a spec-encoded frame -/

theorem be1_eq (n : Nat) : Spec.be n 1 = [UInt8.ofNat (n % 256)] := by simp [Spec.be]
theorem be2_eq (n : Nat) : Spec.be n 2 = [UInt8.ofNat (n / 256 % 256), UInt8.ofNat (n % 256)] := by simp [Spec.be]
theorem be3_eq (n : Nat) : Spec.be n 3 = [UInt8.ofNat (n / 65536 % 256), UInt8.ofNat (n / 256 % 256), UInt8.ofNat (n % 256)] := by
  simp [Spec.be]
theorem be4_eq (n : Nat) : Spec.be n 4 =
    [UInt8.ofNat (n / 16777216 % 256), UInt8.ofNat (n / 65536 % 256), UInt8.ofNat (n / 256 % 256), UInt8.ofNat (n % 256)] := by
  simp [Spec.be]
theorem be8_eq (n : Nat) : Spec.be n 8 =
    [UInt8.ofNat (n / 72057594037927936 % 256), UInt8.ofNat (n / 281474976710656 % 256),
     UInt8.ofNat (n / 1099511627776 % 256), UInt8.ofNat (n / 4294967296 % 256),
     UInt8.ofNat (n / 16777216 % 256), UInt8.ofNat (n / 65536 % 256), UInt8.ofNat (n / 256 % 256), UInt8.ofNat (n % 256)] := by
  simp [Spec.be]

theorem rd16_ofNat (n : Nat) (h : n < 65536) :
    rd16 (UInt8.ofNat (n / 256 % 256)) (UInt8.ofNat (n % 256)) = UInt16.ofNat n := by
  apply UInt16.toNat_inj.mp
  rw [rd16_toNat]
  simp only [UInt8.toNat_ofNat', UInt16.toNat_ofNat']; omega

theorem rd24_ofNat (n : Nat) (h : n < 16777216) :
    rd24 (UInt8.ofNat (n / 65536 % 256)) (UInt8.ofNat (n / 256 % 256)) (UInt8.ofNat (n % 256)) = UInt32.ofNat n := by
  apply UInt32.toNat_inj.mp
  rw [rd24_toNat]
  simp only [UInt8.toNat_ofNat', UInt32.toNat_ofNat']; omega

theorem rd32_ofNat (n : Nat) (h : n < 4294967296) :
    rd32 (UInt8.ofNat (n / 16777216 % 256)) (UInt8.ofNat (n / 65536 % 256)) (UInt8.ofNat (n / 256 % 256))
      (UInt8.ofNat (n % 256)) = UInt32.ofNat n := by
  apply UInt32.toNat_inj.mp
  rw [rd32_toNat]
  simp only [UInt8.toNat_ofNat', UInt32.toNat_ofNat']; omega

theorem rd64_ofNat (n : Nat) (h : n < 18446744073709551616) :
    rd64 (UInt8.ofNat (n / 72057594037927936 % 256)) (UInt8.ofNat (n / 281474976710656 % 256))
     (UInt8.ofNat (n / 1099511627776 % 256)) (UInt8.ofNat (n / 4294967296 % 256))
     (UInt8.ofNat (n / 16777216 % 256)) (UInt8.ofNat (n / 65536 % 256)) (UInt8.ofNat (n / 256 % 256))
     (UInt8.ofNat (n % 256)) = UInt64.ofNat n := by
  apply UInt64.toNat_inj.mp
  rw [rd64_toNat]
  have hm : ∀ x, x % 256 % 2 ^ 8 = x % 256 := by intro x; omega
  have hn : n % 2 ^ 64 = n := Nat.mod_eq_of_lt (by omega)
  simp only [UInt8.toNat_ofNat', UInt64.toNat_ofNat', hm, hn]
  omega

/-- byte 0 of a layout frame decodes to its four fields -/
theorem b0_fields (v : Ver) (t vf g r : Nat) (ht : t < 16) (hvf : vf ≤ 1) (hg : g ≤ 1) (hr : r ≤ 3) :
    ubType v (UInt8.ofNat (t + 16 * vf + 32 * g + 64 * r)) = UInt8.ofNat t ∧
    ubVerify v (UInt8.ofNat (t + 16 * vf + 32 * g + 64 * r)) = UInt8.ofNat vf ∧
    ubGzip v (UInt8.ofNat (t + 16 * vf + 32 * g + 64 * r)) = UInt8.ofNat g ∧
    ubReserve v (UInt8.ofNat (t + 16 * vf + 32 * g + 64 * r)) = UInt8.ofNat r := by
  obtain ⟨e1, e2, e3, e4⟩ := ub_spec v (UInt8.ofNat (t + 16 * vf + 32 * g + 64 * r))
  have e : (UInt8.ofNat (t + 16 * vf + 32 * g + 64 * r)).toNat = t + 16 * vf + 32 * g + 64 * r := by
    rw [UInt8.toNat_ofNat']; omega
  rw [e] at e1 e2 e3 e4
  rw [e1, e2, e3, e4]
  refine ⟨congrArg _ (by omega), congrArg _ (by omega), congrArg _ (by omega), congrArg _ (by omega)⟩

/-- a frame of the published layout that a receiver must accept: known type, every field within its
width, and the variable parts consistent (`ps` = the pairs of the v2 metadata block, `content` = the
body after optional decompression) -/
structure ValidFrame (v : Ver) (gz : GzOracle) (f : Spec.Frame) (content : Bytes) (ps : List Metadata.Pair) : Prop where
  type : f.type = 1 ∨ f.type = 2 ∨ f.type = 3
  verify : f.verify ≤ 1
  gzip : f.gzip ≤ 1
  reserve : f.reserve ≤ 3
  cmd : f.cmd < 256
  rid : f.rid < 4294967296
  timeout : f.timeout < 65536
  status : f.status < 256
  nonce : f.nonce < 18446744073709551616
  sig : f.verify = 1 → f.sig.length = 16
  body : f.body.length < 16777216
  md1 : v = .v1 → f.md = [] ∧ ps = []
  mdlen : f.md.length < 65536
  md2 : v = .v2 → Metadata.rawPairs f.md = .ok ps
  gz1 : f.gzip = 1 → gz.read f.body = some (content, true)
  gz0 : f.gzip = 0 → content = f.body

/-- the packet the layout's field values denote -/
def packetOf (f : Spec.Frame) (codec : UInt8) (content : Bytes) (ps : List Metadata.Pair) : Packet :=
  { type := if f.type = 1 then .request else if f.type = 2 then .response else .push
    cmd := UInt32.ofNat f.cmd, rid := if f.type = 3 then 0 else UInt32.ofNat f.rid
    timeout := if f.type = 1 then UInt16.ofNat f.timeout else 0
    status := if f.type = 2 then UInt8.ofNat f.status else 0
    verify := decide (f.verify = 1), gzip := decide (f.gzip = 1)
    nonce := if f.verify = 1 then UInt64.ofNat f.nonce else 0
    signature := if f.verify = 1 then f.sig else []
    values := ps, codec := codec, body := content }

/-- header part of the layout -/
def hdrBytes (v : Ver) (f : Spec.Frame) : Bytes :=
  [UInt8.ofNat (f.type + 16 * f.verify + 32 * f.gzip + 64 * f.reserve), UInt8.ofNat f.cmd]
  ++ (if f.type = 1 then Spec.be f.rid 4 ++ Spec.be f.timeout 2 else if f.type = 2 then Spec.be f.rid 4 ++ Spec.be f.status 1 else [])
  ++ (match v with | .v1 => [] | .v2 => Spec.be f.md.length 2)
  ++ Spec.be f.body.length 3

def mdOf (v : Ver) (f : Spec.Frame) : Bytes := match v with | .v1 => [] | .v2 => f.md
def trailerOf (f : Spec.Frame) : Bytes := if f.verify = 1 then Spec.be f.nonce 8 ++ f.sig else []

theorem encode_split (v : Ver) (f : Spec.Frame) :
    Spec.encode v f = hdrBytes v f ++ (mdOf v f ++ f.body ++ trailerOf f) := by
  cases v <;> simp [Spec.encode, hdrBytes, mdOf, trailerOf]

/-- the header the layout's field values denote -/
def hdrOf (v : Ver) (f : Spec.Frame) : Header :=
  { type := UInt8.ofNat f.type, verify := UInt8.ofNat f.verify, gzip := UInt8.ofNat f.gzip, reserve := UInt8.ofNat f.reserve
    cmdCode := UInt8.ofNat f.cmd
    requestId := if f.type = 3 then 0 else UInt32.ofNat f.rid
    timeout := if f.type = 1 then UInt16.ofNat f.timeout else 0
    statusCode := if f.type = 2 then UInt8.ofNat f.status else 0
    metadataLength := match v with | .v1 => 0 | .v2 => UInt16.ofNat f.md.length
    bodyLength := UInt32.ofNat f.body.length }

theorem ofNat_mod (n : Nat) : UInt8.ofNat (n % 256) = UInt8.ofNat n := by
  apply UInt8.toNat_inj.mp; simp only [UInt8.toNat_ofNat']; omega

theorem hdr_unpack_spec (v : Ver) (gz : GzOracle) (f : Spec.Frame) (content : Bytes) (ps : List Metadata.Pair)
    (hv : ValidFrame v gz f content ps) (rest : Bytes) :
    Header.unpackBytes v (hdrBytes v f ++ rest) = .ok (hdrOf v f, rest) := by
  obtain ⟨e1, e2, e3, e4⟩ := b0_fields v f.type f.verify f.gzip f.reserve
    (by rcases hv.type with h | h | h <;> omega) hv.verify hv.gzip hv.reserve
  have hbl := rd24_ofNat f.body.length hv.body
  have hml := rd16_ofNat f.md.length hv.mdlen
  have hrid := rd32_ofNat f.rid hv.rid
  have hto := rd16_ofNat f.timeout hv.timeout
  have hub := (ub_eq v).2.2.2.2
  rcases hv.type with ht | ht | ht <;> rw [ht] at e1 e2 e3 e4 <;> cases v
  · simp only [hdrBytes, ht, be4_eq, be2_eq, be3_eq, ↓reduceIte, List.cons_append, List.nil_append, List.append_assoc, List.append_nil]
    rw [hdr_req_v1 _ _ _ _ _ _ _ _ _ _ _ _ e1]
    simp only [hdr0, e1, e2, e3, e4, hbl, hrid, hto, hub]
    simp [hdrOf, ht]
  · simp only [hdrBytes, ht, be4_eq, be2_eq, be3_eq, ↓reduceIte, List.cons_append, List.nil_append, List.append_assoc, List.append_nil]
    rw [hdr_req_v2 _ _ _ _ _ _ _ _ _ _ _ _ _ _ e1]
    simp only [hdr0, e1, e2, e3, e4, hbl, hrid, hto, hml, hub]
    simp [hdrOf, ht]
  · simp only [hdrBytes, ht, be4_eq, be1_eq, be3_eq, ↓reduceIte, List.cons_append, List.nil_append, List.append_assoc, List.append_nil,
      show ¬ (2 = 1) by decide]
    rw [hdr_resp_v1 _ _ _ _ _ _ _ _ _ _ _ e1]
    simp only [hdr0, e1, e2, e3, e4, hbl, hrid, hub, ofNat_mod f.status]
    simp [hdrOf, ht]
  · simp only [hdrBytes, ht, be4_eq, be1_eq, be2_eq, be3_eq, ↓reduceIte, List.cons_append, List.nil_append, List.append_assoc, List.append_nil,
      show ¬ (2 = 1) by decide]
    rw [hdr_resp_v2 _ _ _ _ _ _ _ _ _ _ _ _ _ e1]
    simp only [hdr0, e1, e2, e3, e4, hbl, hrid, hml, hub, ofNat_mod f.status]
    simp [hdrOf, ht]
  · simp only [hdrBytes, ht, be3_eq, ↓reduceIte, List.cons_append, List.nil_append, List.append_assoc, List.append_nil,
      show ¬ (3 = 1) by decide, show ¬ (3 = 2) by decide]
    rw [hdr_push_v1 _ _ _ _ _ _ e1]
    simp only [hdr0, e1, e2, e3, e4, hbl, hub]
    simp [hdrOf, ht]
  · simp only [hdrBytes, ht, be2_eq, be3_eq, ↓reduceIte, List.cons_append, List.nil_append, List.append_assoc, List.append_nil,
      show ¬ (3 = 1) by decide, show ¬ (3 = 2) by decide]
    rw [hdr_push_v2 _ _ _ _ _ _ _ _ e1]
    simp only [hdr0, e1, e2, e3, e4, hbl, hml, hub]
    simp [hdrOf, ht]

theorem u8_ofNat_beq_one (n : Nat) (h : n ≤ 1) : (UInt8.ofNat n == 1) = decide (n = 1) := by
  have : n = 0 ∨ n = 1 := by omega
  rcases this with rfl | rfl <;> decide

theorem hdrOf_facts (v : Ver) (gz : GzOracle) (f : Spec.Frame) (content : Bytes) (ps : List Metadata.Pair)
    (hv : ValidFrame v gz f content ps) :
    (hdrOf v f).bodyLength.toNat = f.body.length ∧ mdLenOf v (hdrOf v f) = (mdOf v f).length ∧
    ((hdrOf v f).verify == 1) = decide (f.verify = 1) ∧ ((hdrOf v f).gzip == 1) = decide (f.gzip = 1) := by
  have hb := hv.body
  have hm := hv.mdlen
  refine ⟨?_, ?_, u8_ofNat_beq_one _ hv.verify, u8_ofNat_beq_one _ hv.gzip⟩
  · simp only [hdrOf, UInt32.toNat_ofNat']; omega
  · cases v
    · rfl
    · simp only [hdrOf, mdLenOf, mdOf, UInt16.toNat_ofNat']; omega

theorem trailerOf_length (v : Ver) (gz : GzOracle) (f : Spec.Frame) (content : Bytes) (ps : List Metadata.Pair)
    (hv : ValidFrame v gz f content ps) : (trailerOf f).length = if f.verify = 1 then 24 else 0 := by
  unfold trailerOf
  split
  · rename_i h; simp [be8_eq, hv.sig h]
  · rfl

/-- the packet as the header alone determines it -/
theorem toPacket_hdrOf (v : Ver) (gz : GzOracle) (f : Spec.Frame) (content : Bytes) (ps : List Metadata.Pair)
    (hv : ValidFrame v gz f content ps) (codec : UInt8) :
    Header.toPacket (hdrOf v f) codec =
      { packetOf f codec [] [] with nonce := 0, signature := [] } := by
  have hc : (UInt8.ofNat f.cmd).toUInt32 = UInt32.ofNat f.cmd := by
    apply UInt32.toNat_inj.mp
    have := hv.cmd
    simp only [UInt8.toNat_toUInt32, UInt8.toNat_ofNat', UInt32.toNat_ofNat']; omega
  have h1 := u8_ofNat_beq_one _ hv.verify
  have h2 := u8_ofNat_beq_one _ hv.gzip
  have hk : (tReq == tReq) = true ∧ (tResp == tReq) = false ∧ (tResp == tResp) = true ∧ (tPush == tReq) = false ∧
      (tPush == tResp) = false ∧ (tPush == tPush) = true := by decide
  obtain ⟨k1, k2, k3, k4, k5, k6⟩ := hk
  unfold Header.toPacket packetOf
  rcases hv.type with ht | ht | ht
  · simp only [hdrOf, ht, hc, h1, h2, show UInt8.ofNat 1 = tReq from rfl, k1]
    simp
  · simp only [hdrOf, ht, hc, h1, h2, show UInt8.ofNat 2 = tResp from rfl, k2, k3]
    simp
  · simp only [hdrOf, ht, hc, h1, h2, show UInt8.ofNat 3 = tPush from rfl, k4, k5, k6]
    simp

theorem mdStage_spec (v : Ver) (gz : GzOracle) (f : Spec.Frame) (content : Bytes) (ps : List Metadata.Pair)
    (hv : ValidFrame v gz f content ps) (p : Packet) (hp : p.values = []) :
    mdStage v (mdOf v f) p = .ok { p with values := ps } := by
  cases v with
  | v1 =>
    obtain ⟨_, rfl⟩ := hv.md1 rfl
    simp only [mdStage]
    rw [← hp]
  | v2 =>
    simp only [mdStage, mdOf, hv.md2 rfl]

theorem verifyStage_spec (v : Ver) (gz : GzOracle) (f : Spec.Frame) (content : Bytes) (ps : List Metadata.Pair)
    (hv : ValidFrame v gz f content ps) (pre : Bytes) (p : Packet) (hp : p.nonce = 0 ∧ p.signature = []) :
    verifyStage (hdrOf v f) (pre ++ trailerOf f) pre.length p =
      .ok { p with nonce := if f.verify = 1 then UInt64.ofNat f.nonce else 0
                   signature := if f.verify = 1 then f.sig else [] } := by
  obtain ⟨_, _, hver, _⟩ := hdrOf_facts v gz f content ps hv
  by_cases h1 : f.verify = 1
  · have hs := hv.sig h1
    simp only [trailerOf, h1, ↓reduceIte, be8_eq, List.cons_append, List.nil_append]
    rw [verifyStage_ok _ _ _ _ _ _ _ _ _ _ _ _ (by rw [hver]; simp [h1]) (by omega), rd64_ofNat _ hv.nonce]
  · rw [verifyStage_off _ _ _ _ (by rw [hver]; simp [h1])]
    simp only [h1, ↓reduceIte]
    obtain ⟨h2, h3⟩ := hp
    rw [← h2, ← h3]

theorem gzStage_spec (v : Ver) (gz : GzOracle) (f : Spec.Frame) (content : Bytes) (ps : List Metadata.Pair)
    (hv : ValidFrame v gz f content ps) (p : Packet) (hp : p.body = f.body) :
    gzStage gz (hdrOf v f) p = .ok { p with body := content } := by
  obtain ⟨_, _, _, hgz⟩ := hdrOf_facts v gz f content ps hv
  unfold gzStage
  by_cases h1 : f.gzip = 1
  · have := hv.gz1 h1
    simp only [hgz, h1, decide_true, ↓reduceIte, Gzip.decompress, hp, this]
  · have h0 : f.gzip = 0 := by have := hv.gzip; omega
    have := hv.gz0 h0
    simp only [hgz, h1, decide_false, Bool.false_eq_true, ↓reduceIte]
    rw [this, ← hp]

/-- DECODER DIRECTION, helper form -/
theorem unpackBytes_spec (v : Ver) (gz : GzOracle) (codec : UInt8) (f : Spec.Frame) (content : Bytes)
    (ps : List Metadata.Pair) (hv : ValidFrame v gz f content ps) :
    unpackBytes v gz codec (Spec.encode v f) = .ok (packetOf f codec content ps) := by
  obtain ⟨hbl, hml, hver, hgz⟩ := hdrOf_facts v gz f content ps hv
  rw [unpackBytes_eq, encode_split, hdr_unpack_spec v gz f content ps hv]
  simp only [Res.ok_bind]
  rw [unpackBody_long _ _ _ _ _ (by rw [hbl, hml]; simp only [List.length_append]; omega)]
  rw [hbl, hml]
  have t1 : (mdOf v f ++ f.body ++ trailerOf f).take (mdOf v f).length = mdOf v f := by
    simp [List.append_assoc, List.take_append]
  have t2 : ((mdOf v f ++ f.body ++ trailerOf f).take (f.body.length + (mdOf v f).length)).drop (mdOf v f).length = f.body := by
    have : f.body.length + (mdOf v f).length = (mdOf v f ++ f.body).length := by simp; omega
    rw [this, List.take_left']
    · simp
    · rfl
  rw [t1, t2, toPacket_hdrOf v gz f content ps hv, mdStage_spec v gz f content ps hv _ rfl]
  simp only [Res.ok_bind]
  have : f.body.length + (mdOf v f).length = (mdOf v f ++ f.body).length := by simp; omega
  rw [this, verifyStage_spec v gz f content ps hv _ _ ⟨rfl, rfl⟩]
  simp only [Res.ok_bind]
  rw [gzStage_spec v gz f content ps hv _ rfl]
  rfl

/-! ### strict prefixes of a valid frame are rejected -/

theorem hdrBytes_length (v : Ver) (gz : GzOracle) (f : Spec.Frame) (content : Bytes) (ps : List Metadata.Pair)
    (hv : ValidFrame v gz f content ps) :
    (hdrBytes v f).length = hdrLen v (UInt8.ofNat f.type) ∧ isUnknown (UInt8.ofNat f.type) = false := by
  obtain ⟨l1, l2, l3⟩ := hdrLen_vals v
  obtain ⟨k1, k2, k3, _⟩ := tconsts
  rcases hv.type with ht | ht | ht <;> rw [ht]
  · refine ⟨?_, k1⟩
    rw [show UInt8.ofNat 1 = tReq from rfl, l1]
    cases v <;> simp [hdrBytes, ht, be4_eq, be2_eq, be3_eq]
  · refine ⟨?_, k2⟩
    rw [show UInt8.ofNat 2 = tResp from rfl, l2]
    cases v <;> simp [hdrBytes, ht, be4_eq, be1_eq, be2_eq, be3_eq]
  · refine ⟨?_, k3⟩
    rw [show UInt8.ofNat 3 = tPush from rfl, l3]
    cases v <;> simp [hdrBytes, ht, be2_eq, be3_eq]

theorem hdrBytes_cons (v : Ver) (f : Spec.Frame) :
    ∃ t, hdrBytes v f = UInt8.ofNat (f.type + 16 * f.verify + 32 * f.gzip + 64 * f.reserve) :: t := by
  exact ⟨_, by simp only [hdrBytes, List.cons_append, List.append_assoc]; rfl⟩

/-- byte 0 of the frame `pack` emits: type nibble (1, 2 or 3), verify in bit 4, gzip in bit 5 — the
flags of the packet as handed on by the first phase —, reserve bits clear -/
theorem pack_byte0 (v : Ver) (gz : GzOracle) (p p' : Packet) (thr : Int) (bs : Bytes)
    (h : pack v gz p thr = .ok (bs, p')) :
    ∃ t rest, (t = 1 ∨ t = 2 ∨ t = 3) ∧
      bs = UInt8.ofNat (t + 16 * (if p'.verify then 1 else 0) + 32 * (if p'.gzip then 1 else 0) + 64 * 0) :: rest := by
  obtain ⟨_, ht, _, hbs⟩ := pack_ok_inv v gz p p' thr bs h
  obtain ⟨t, e⟩ := hdrBytes_cons v (specOf v p')
  refine ⟨(specOf v p').type, t ++ (mdOf v (specOf v p') ++ (specOf v p').body ++ trailerOf (specOf v p')), ?_, ?_⟩
  · simp only [specOf]
    cases hp : p'.type
    · exact .inl rfl
    · exact .inr (.inl rfl)
    · exact .inr (.inr rfl)
    · exact absurd hp ht
  · rw [hbs, encode_split, e]; rfl

theorem encode_length (v : Ver) (gz : GzOracle) (f : Spec.Frame) (content : Bytes) (ps : List Metadata.Pair)
    (hv : ValidFrame v gz f content ps) :
    (Spec.encode v f).length =
      (hdrBytes v f).length + (mdOf v f).length + f.body.length + (if f.verify = 1 then 24 else 0) := by
  rw [encode_split]
  simp only [List.length_append, trailerOf_length v gz f content ps hv]; omega

theorem unpackBytes_prefix (v : Ver) (gz : GzOracle) (codec : UInt8) (f : Spec.Frame) (content : Bytes)
    (ps : List Metadata.Pair) (hv : ValidFrame v gz f content ps) (k : Nat) (hk : k < (Spec.encode v f).length) :
    ∃ e, unpackBytes v gz codec ((Spec.encode v f).take k) = .err e := by
  obtain ⟨hbl, hml, hver, hgz⟩ := hdrOf_facts v gz f content ps hv
  obtain ⟨hlen, hkn⟩ := hdrBytes_length v gz f content ps hv
  obtain ⟨e1, _, _, _⟩ := b0_fields v f.type f.verify f.gzip f.reserve
    (by rcases hv.type with h | h | h <;> omega) hv.verify hv.gzip hv.reserve
  rw [encode_length v gz f content ps hv] at hk
  have htl := trailerOf_length v gz f content ps hv
  rw [unpackBytes_eq, encode_split]
  by_cases hlt : k < (hdrBytes v f).length
  · obtain ⟨t, ht⟩ := hdrBytes_cons v f
    cases k with
    | zero => rw [List.take_zero, hdr_nil]; exact ⟨_, rfl⟩
    | succ k' =>
      rw [ht, List.cons_append, List.take_succ_cons]
      rw [hdr_short v _ _ (by rw [e1]; exact hkn) (by
        rw [e1, ← hlen]
        have := List.length_take_le k' (t ++ (mdOf v f ++ f.body ++ trailerOf f))
        simp only [List.length_cons]; omega)]
      exact ⟨_, rfl⟩
  · rw [List.take_append, List.take_of_length_le (by omega), hdr_unpack_spec v gz f content ps hv]
    simp only [Res.ok_bind]
    apply unpackBody_short
    rw [hbl, hml, hver, List.length_take]
    simp only [List.length_append, htl]
    by_cases h1 : f.verify = 1
    · simp only [h1, decide_true, ↓reduceIte] at hk ⊢
      rw [Nat.min_eq_left (by omega)]; omega
    · simp only [h1, decide_false, ↓reduceIte, Bool.false_eq_true] at hk ⊢
      rw [Nat.min_eq_left (by omega)]; omega

/-! ### what `pack` emits is a valid frame (for the round trip) -/

/-- the metadata pairs the decoder returns for a packed packet -/
def psOf (v : Ver) (vals : List Metadata.Pair) : List Metadata.Pair :=
  match v with | .v1 => [] | .v2 => Metadata.sortPairs vals

/-- `pack` changes at most the body and the gzip flag -/
def SameMeta (p p' : Packet) : Prop :=
  p'.type = p.type ∧ p'.cmd = p.cmd ∧ p'.rid = p.rid ∧ p'.timeout = p.timeout ∧ p'.status = p.status ∧
  p'.verify = p.verify ∧ p'.nonce = p.nonce ∧ p'.signature = p.signature ∧ p'.values = p.values ∧ p'.codec = p.codec

/-- whatever the incoming gzip flag of `p` (no hypothesis on it: the first phase of `pack` sets the
flag of the packet handed on to the engagement of the threshold rule, so a stale `gzip = true` on a
relayed packet cannot make the emitted frame claim a compressed body it does not have) -/
theorem specOf_valid (v : Ver) (gz : GzOracle) (p p' : Packet) (thr : Int)
    (ht : p.type ≠ .other) (hs : gz.Sound)
    (hpre : packPre v gz p thr = .ok p') (hlen : p'.body.length ≤ 16777215)
    (hmd : v = .v2 → Metadata.rawPairs (Metadata.marshalMap p.values 65535) = .ok (Metadata.sortPairs p.values)) :
    ValidFrame v gz (specOf v p') p.body (psOf v p.values) ∧ SameMeta p p' := by
  have hcases : (p' = { p with gzip := false }) ∨
      (∃ c, gz.read c = some (p.body, true) ∧ p' = { p with body := c, gzip := true }) := by
    rcases packPre_ok v gz p p' thr hpre with ⟨_, h⟩ | ⟨_, c, hc, h⟩
    · exact .inl h
    · obtain ⟨c', h1, h2⟩ := hs p.body
      rw [h1] at hc
      have hcc : c' = c := by injection hc
      subst hcc
      exact .inr ⟨c', h2, h⟩
  have hsame : SameMeta p p' := by
    rcases hcases with h | ⟨c, _, h⟩ <;> rw [h] <;> exact ⟨rfl, rfl, rfl, rfl, rfl, rfl, rfl, rfl, rfl, rfl⟩
  have hvals : p'.values = p.values ∧ p'.type = p.type := ⟨hsame.2.2.2.2.2.2.2.2.1, hsame.1⟩
  have hmdl := md_length_le p'.values
  refine ⟨?_, hsame⟩
  constructor
  · simp only [specOf, hvals.2]
    cases hp : p.type <;> simp_all
  · simp only [specOf]; split <;> omega
  · simp only [specOf]; split <;> omega
  · simp [specOf]
  · simp only [specOf]; omega
  · simp only [specOf]; exact p'.rid.toNat_lt
  · simp only [specOf]; exact p'.timeout.toNat_lt
  · simp only [specOf]; exact p'.status.toNat_lt
  · simp only [specOf]; exact p'.nonce.toNat_lt
  · intro _; simp only [specOf]; exact sigWindow_length _
  · simp only [specOf]; omega
  · intro h; subst h; exact ⟨rfl, rfl⟩
  · simp only [specOf]; cases v
    · simp
    · simp only; omega
  · intro h; subst h
    simp only [specOf, hvals.1, psOf]
    exact hmd rfl
  · intro h
    rcases hcases with h' | ⟨c, hc, h'⟩
    · rw [h'] at h; simp [specOf] at h
    · rw [h']; simp only [specOf]; exact hc
  · intro h
    rcases hcases with h' | ⟨c, hc, h'⟩
    · rw [h']; rfl
    · rw [h'] at h; simp [specOf] at h

/-! ### exactly when `pack` fails -/

/-- the body as it goes on the wire: compressed iff the threshold condition holds -/
def wireBody (v : Ver) (gz : GzOracle) (p : Packet) (thr : Int) : Res Bytes :=
  if gzipCond v thr p.body.length then gz.compress p.body else .ok p.body

theorem packPre_wireBody (v : Ver) (gz : GzOracle) (p : Packet) (thr : Int) (b : Bytes)
    (hb : wireBody v gz p thr = .ok b) :
    ∃ p1, packPre v gz p thr = .ok p1 ∧ p1.body = b ∧ p1.type = p.type := by
  unfold wireBody at hb
  unfold packPre
  split at hb
  · rename_i hc
    simp only [hc, ↓reduceIte, hb]
    exact ⟨_, rfl, rfl, rfl⟩
  · rename_i hc
    simp only [hc, ↓reduceIte]
    cases hb
    exact ⟨_, rfl, rfl, rfl⟩

theorem wireBody_sound (v : Ver) (gz : GzOracle) (p : Packet) (thr : Int) (hs : gz.Sound) :
    ∃ b, wireBody v gz p thr = .ok b := by
  unfold wireBody
  split
  · obtain ⟨c, h1, _⟩ := hs p.body; exact ⟨c, h1⟩
  · exact ⟨_, rfl⟩

theorem pack_isOk_iff (v : Ver) (gz : GzOracle) (p : Packet) (thr : Int) (b : Bytes)
    (hb : wireBody v gz p thr = .ok b) :
    (pack v gz p thr).isOk = true ↔ (p.type ≠ .other ∧ b.length ≤ 16777215) := by
  obtain ⟨p1, h1, h2, h3⟩ := packPre_wireBody v gz p thr b hb
  rw [pack_eq, h1, Res.ok_bind, packTail_isOk, h2, h3]

theorem pack_noPanic (v : Ver) (gz : GzOracle) (p : Packet) (thr : Int)
    (hg : ∀ x, (gz.compress x).isPanic = false) : (pack v gz p thr).isPanic = false := by
  rw [pack_eq]
  apply Res.bind_noPanic
  · unfold packPre
    split
    · have := hg p.body
      cases hc : gz.compress p.body with
      | ok c => rfl
      | err e => rfl
      | panic w => rw [hc] at this; cases this
    · rfl
  · intro a _; exact packTail_no_panic v a

theorem Res.not_ok_not_panic {α} (r : Res α) (h1 : r.isOk = false) (h2 : r.isPanic = false) : ∃ e, r = .err e := by
  cases r with
  | ok a => cases h1
  | err e => exact ⟨e, rfl⟩
  | panic w => cases h2

end OAP.Frame
