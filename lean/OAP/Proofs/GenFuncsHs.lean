/-
Handshake.Pack / Handshake.Unpack (go/protocol.go) = Handshake.pack / Handshake.unpack.
Part of the function-level T2 tie: the GENERATED translations in `OAP/Gen/Funcs.lean` (rewritten from the Go source by
`extract/funcs.go` on every run) are proved equal to the hand-written model functions the property theorems are about.
-/
import OAP.Gen.Funcs
import OAP.Model.Handshake
set_option linter.unusedSimpArgs false
namespace OAP.GenFuncs
open OAP OAP.Gen.Fn

def hsG (h : Handshake) : GHandshake := ⟨h.version, h.codec, h.platform, h.reserve⟩
def hsM (g : GHandshake) : Handshake := ⟨g.version, g.codec, g.platform, g.reserve⟩

theorem handshake_pack_gen (h : Handshake) : protocol_Handshake_Pack (hsG h) = .ok (Handshake.pack h) := by
  rfl

theorem handshake_unpack_gen (g0 : GHandshake) (data : Bytes) :
    (protocol_Handshake_Unpack g0 data).map hsM = Handshake.unpack data := by
  unfold protocol_Handshake_Unpack Handshake.unpack
  match data with
  | [] => rfl
  | [_] => rfl
  | [b0, b1] => rfl
  | _ :: _ :: _ :: _ => simp [Res.map]

end OAP.GenFuncs
