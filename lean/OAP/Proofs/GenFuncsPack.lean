/-
protocolV1.Pack / protocolV2.Pack (go/v1/v1.go, go/v2/v2.go) and the two headerFromMetadata (go/v1/header.go, go/v2/v2_header.go)
= Frame.pack / Frame.headerFromMetadata.
Part of the function-level T2 tie: the GENERATED translations in `OAP/Gen/Funcs.lean` (rewritten from the Go source by
`extract/funcs.go` on every run) are proved equal to the hand-written model functions the property theorems are about.
`Header.Pack` is not unfolded again: `v1_header_pack_gen` / `v2_header_pack_gen` (GenFuncsHdr.lean) are used.
The generated `Pack` carries the code after the optional compression twice (the translator inlines the continuation of an `if` that
contains a `return` into both branches); the tactic `pack_tail1` / `pack_tail2` proves that part against the model's second phase
(`packTail`) for whichever packet stands there. No text of the generated definition is repeated here.
Outcome: NO difference between model and code was found — the equalities hold without any hypothesis (any signature length: `copy` into
the last sixteen zero bytes is `sigWindow`; any body and metadata size; any threshold, negative ones included; the limit check before the
header error in both).
-/
import OAP.Gen.Funcs
import OAP.Model.Frame
import OAP.Proofs.Frame
import OAP.Proofs.GenFuncsHdr
import OAP.Proofs.GenFuncsProto
set_option linter.unusedSimpArgs false
set_option linter.unusedVariables false
namespace OAP.GenFuncs
open OAP OAP.Gen.Fn OAP.Frame

/-- the model's `PType` as the generated enum (`other` ↦ "": the only value outside the declared constants the enum has) -/
def toGPType : PType → GPacketType
  | .request => .requestPacket | .response => .responsePacket | .push => .pushPacket | .other => .zero

/-- the model's flat `Packet` as the generated `protocol.Packet` with its `*Metadata` -/
def toG (p : Packet) : GPacket :=
  { metadata := { type := toGPType p.type, cmdCode := p.cmd, requestId := p.rid, timeout := p.timeout, statusCode := p.status,
                  verify := p.verify, gzip := p.gzip, nonce := p.nonce, signature := p.signature, values := p.values, codec := p.codec }
    body := p.body }

theorem toModel_toG (p : Packet) : toModelPacket (toG p) = p := by
  cases p with
  | mk t c r to s v g n sg vals co b => cases t <;> rfl

theorem toG_toModel (g : GPacket) : toG (toModelPacket g) = g := by
  cases g with
  | mk m b =>
    cases m with
    | mk n r c v gz to co s t sg vals => cases t <;> rfl

/-! ### headerFromMetadata -/

def hfm1 (m : GMetadata) : V1Header :=
  { gzip := if m.gzip then 1 else 0, verify := if m.verify then 1 else 0
    type := match m.type with | .requestPacket => 1 | .responsePacket => 2 | .pushPacket => 3 | .zero => 0
    requestId := m.requestId, cmdCode := (m.cmdCode &&& 255).toUInt8, timeout := m.timeout, statusCode := m.statusCode }

def hfm2 (m : GMetadata) : V2Header :=
  { gzip := if m.gzip then 1 else 0, verify := if m.verify then 1 else 0
    type := match m.type with | .requestPacket => 1 | .responsePacket => 2 | .pushPacket => 3 | .zero => 0
    requestId := m.requestId, cmdCode := (m.cmdCode &&& 255).toUInt8, timeout := m.timeout, statusCode := m.statusCode }

theorem v1_hfm_eq (m : GMetadata) : v1_headerFromMetadata m = .ok (hfm1 m) := by
  cases m with
  | mk n r c v gz to co s t sg vals => cases v <;> cases gz <;> cases t <;> rfl

theorem v2_hfm_eq (m : GMetadata) : v2_headerFromMetadata m = .ok (hfm2 m) := by
  cases m with
  | mk n r c v gz to co s t sg vals => cases v <;> cases gz <;> cases t <;> rfl

/-- the generated v1 `headerFromMetadata` is the model's -/
theorem v1_headerFromMetadata_gen (g : GPacket) :
    (v1_headerFromMetadata g.metadata).map v1M = .ok (headerFromMetadata .v1 (toModelPacket g)) := by
  rw [v1_hfm_eq]
  cases g with
  | mk m b =>
    cases m with
    | mk n r c v gz to co s t sg vals => cases t <;> rfl

/-- the generated v2 `headerFromMetadata` is the model's -/
theorem v2_headerFromMetadata_gen (g : GPacket) :
    (v2_headerFromMetadata g.metadata).map v2M = .ok (headerFromMetadata .v2 (toModelPacket g)) := by
  rw [v2_hfm_eq]
  cases g with
  | mk m b =>
    cases m with
    | mk n r c v gz to co s t sg vals => cases t <;> rfl

theorem v1G_v1M (g : V1Header) : v1G (v1M g) = g := by cases g; rfl
theorem v2G_v2M (g : V2Header) : v2G (v2M g) = g := by cases g; rfl

theorem v1_pack_of_gen (g : V1Header) : v1_Header_Pack g = Header.pack .v1 (v1M g) := by
  rw [← v1_header_pack_gen, v1G_v1M]
theorem v2_pack_of_gen (g : V2Header) : v2_Header_Pack g = Header.pack .v2 (v2M g) := by
  rw [← v2_header_pack_gen, v2G_v2M]

/-! ### `copy` and `PutUint64` into a zeroed buffer -/

theorem copyAt_zeros (a : Bytes) (n off : Nat) (src : Bytes) (ho : off = a.length) (h : src.length ≤ n) :
    Bytes.copyAt (a ++ List.replicate n 0) off src = .ok (a ++ src ++ List.replicate (n - src.length) 0) := by
  subst ho
  have hmin : min n src.length = src.length := Nat.min_eq_right h
  have hd : List.drop (a.length + src.length) a = [] := List.drop_eq_nil_of_le (by omega)
  simp [Bytes.copyAt, hmin, hd, List.take_of_length_le, List.drop_append]

theorem copyAt_zeros0 (n : Nat) (src : Bytes) (h : src.length ≤ n) :
    Bytes.copyAt (List.replicate n 0) 0 src = .ok (src ++ List.replicate (n - src.length) 0) := by
  have := copyAt_zeros [] n 0 src rfl h
  simpa using this

theorem copyAt_trunc (a : Bytes) (n off : Nat) (src : Bytes) (ho : off = a.length) (h : n ≤ src.length) :
    Bytes.copyAt (a ++ List.replicate n 0) off src = .ok (a ++ src.take n) := by
  subst ho
  have hmin : min n src.length = n := Nat.min_eq_left h
  have hd : List.drop (a.length + n) a = [] := List.drop_eq_nil_of_le (by omega)
  simp [Bytes.copyAt, hmin, hd, List.drop_append]

theorem putBE64_zeros (a : Bytes) (n lo hi : Nat) (v : UInt64) (hlo : lo = a.length) (hhi : hi = a.length + 8) (h : 8 ≤ n) :
    Bytes.putBE64 (a ++ List.replicate n 0) lo hi v = .ok (a ++ be64 v ++ List.replicate (n - 8) 0) := by
  subst hlo; subst hhi
  have h1 : ¬ (a.length + 8 - a.length < 8) := by omega
  have h2 : a.length + 8 ≤ a.length + n := by omega
  have hd : List.drop (a.length + 8) a = [] := List.drop_eq_nil_of_le (by omega)
  simp [Bytes.putBE64, h1, h2, hd, List.drop_append]

/-- `copy(data[off+8:], signature)` into the last sixteen (zero) bytes is the model's `sigWindow`, for a signature of ANY length -/
theorem copyAt_sig (a : Bytes) (n off : Nat) (src : Bytes) (ho : off = a.length) (hn : n = 16) :
    Bytes.copyAt (a ++ List.replicate n 0) off src = .ok (a ++ sigWindow src) := by
  have e : Gen.v1_SignatureLength = n := by rw [hn]; rfl
  by_cases hs : src.length ≤ n
  · rw [copyAt_zeros a n off src ho hs]
    simp [sigWindow, e, List.take_of_length_le hs]
  · have hz : n - src.length = 0 := by omega
    rw [copyAt_trunc a n off src ho (by omega)]
    simp [sigWindow, e, hz]

/-- a packed header has the length the encoder's `switch` assumes for its type -/
theorem pack_ok_len (v : Ver) (H : Header) (hd : Bytes) (h : Header.pack v H = .ok hd) :
    (H.type = 1 ∧ hd.length = reqLen v) ∨ (H.type = 2 ∧ hd.length = respLen v) ∨ (H.type = 3 ∧ hd.length = pushLen v) := by
  unfold Header.pack at h
  split at h
  · cases h
  · rename_i hk
    split at h
    · cases h
    · cases h
      simp only [isUnknown, tReq, tResp, tPush, Gen.v1_RequestPacket, Gen.v1_ResponsePacket, Gen.v1_PushPacket] at hk ⊢
      by_cases h1 : H.type = 1
      · left; refine ⟨h1, ?_⟩
        cases v <;> simp [h1, packLen, be32, be16, reqLen, Gen.v1_RequestHeaderLen, Gen.v2_RequestHeaderLen]
      · by_cases h2 : H.type = 2
        · right; left; refine ⟨h2, ?_⟩
          cases v <;> simp [h2, packLen, be32, be16, respLen, Gen.v1_ResponseHeaderLen, Gen.v2_ResponseHeaderLen]
        · by_cases h3 : H.type = 3
          · right; right; refine ⟨h3, ?_⟩
            cases v <;> simp [h3, packLen, be32, be16, pushLen, Gen.v1_PushHeaderLen, Gen.v2_PushHeaderLen]
          · simp [h1, h2, h3] at hk

/-- the model's second phase with the header spelled out -/
def H1 (v : Ver) (P : Packet) (md : Bytes) : Header :=
  { headerFromMetadata v P with bodyLength := UInt32.ofNat P.body.length, metadataLength := UInt16.ofNat md.length }

theorem packTail_v1 (P : Packet) :
    packTail .v1 P = if P.body.length > 16777215 then .err "body length hit limit" else
      match Header.pack .v1 (H1 .v1 P []) with
      | .ok hd => .ok (hd ++ P.body ++ (if P.verify then be64 P.nonce ++ sigWindow P.signature else []), P)
      | .err e => .err e
      | .panic w => .panic w := by
  unfold packTail H1
  have eM : Gen.v1_MaxBodyLength = 16777215 := rfl
  simp only [eM]
  split
  · rfl
  · cases Header.pack .v1 _ <;> simp [Bind.bind, Res.bind]

theorem hdr1_eq (m : GMetadata) (b : Bytes) :
    v1M { hfm1 m with bodyLength := UInt32.ofNat b.length } = H1 .v1 (toModelPacket { metadata := m, body := b }) [] := by
  cases m with
  | mk n r c v gz to co s t sg vals => cases t <;> rfl

theorem Res.bind_ok_right {α} (r : Res α) : r.bind (fun a => Res.ok a) = r := by cases r <;> rfl
theorem Res.bind_ok' {α β} (a : α) (f : α → Res β) : Res.bind (Res.ok a) f = f a := rfl

theorem hfm1_type (m : GMetadata) (b : Bytes) : (hfm1 m).type = (H1 .v1 (toModelPacket { metadata := m, body := b }) []).type := by
  cases m with
  | mk n r c v gz to co s t sg vals => cases t <;> rfl

/-- the four writes into the zeroed buffer, with the trailer -/
theorem fill_verify (hd md b sig : Bytes) (nonce : UInt64) (off l : Nat) (ho : off = hd.length + md.length + b.length) (hl : l = off + 8 + 16) :
    ∃ d1 d2 d3, Bytes.copyAt (List.replicate l 0) 0 hd = .ok d1 ∧ Bytes.copyAt d1 hd.length md = .ok d2 ∧
      Bytes.copyAt d2 (hd.length + md.length) b = .ok d3 ∧
      (Bytes.putBE64 d3 off (off + 8) nonce).bind (fun d => Bytes.copyAt d (off + 8) sig) =
        .ok (hd ++ md ++ b ++ (be64 nonce ++ sigWindow sig)) := by
  subst hl; subst ho
  have s1 := copyAt_zeros0 (hd.length + md.length + b.length + 8 + 16) hd (by omega)
  have s2 := copyAt_zeros hd (hd.length + md.length + b.length + 8 + 16 - hd.length) hd.length md rfl (by omega)
  have s3 := copyAt_zeros (hd ++ md) (hd.length + md.length + b.length + 8 + 16 - hd.length - md.length) (hd.length + md.length) b
    (by simp only [List.length_append]) (by omega)
  have hn : hd.length + md.length + b.length + 8 + 16 - hd.length - md.length - b.length = 24 := by omega
  rw [hn] at s3
  have s4 := putBE64_zeros (hd ++ md ++ b) 24 (hd.length + md.length + b.length) (hd.length + md.length + b.length + 8) nonce
    (by simp only [List.length_append]) (by simp only [List.length_append]) (by omega)
  have s5 := copyAt_sig (hd ++ md ++ b ++ be64 nonce) (24 - 8) (hd.length + md.length + b.length + 8) sig
    (by simp only [List.length_append, be64, List.length_cons, List.length_nil]) rfl
  refine ⟨_, _, _, s1, s2, s3, ?_⟩
  rw [s4, Res.bind_ok', s5]
  simp

theorem fill_plain (hd md b : Bytes) (l : Nat) (hl : l = hd.length + md.length + b.length) :
    ∃ d1 d2, Bytes.copyAt (List.replicate l 0) 0 hd = .ok d1 ∧ Bytes.copyAt d1 hd.length md = .ok d2 ∧
      Bytes.copyAt d2 (hd.length + md.length) b = .ok (hd ++ md ++ b) := by
  subst hl
  have s1 := copyAt_zeros0 (hd.length + md.length + b.length) hd (by omega)
  have s2 := copyAt_zeros hd (hd.length + md.length + b.length - hd.length) hd.length md rfl (by omega)
  have s3 := copyAt_zeros (hd ++ md) (hd.length + md.length + b.length - hd.length - md.length) (hd.length + md.length) b
    (by simp only [List.length_append]) (by omega)
  have hn : hd.length + md.length + b.length - hd.length - md.length - b.length = 0 := by omega
  rw [hn] at s3
  refine ⟨_, _, s1, s2, ?_⟩
  rw [s3]; simp

theorem fill_verify1 (hd b sig : Bytes) (nonce : UInt64) (off l : Nat) (ho : off = hd.length + b.length) (hl : l = off + 8 + 16) :
    ∃ d1 d2, Bytes.copyAt (List.replicate l 0) 0 hd = .ok d1 ∧ Bytes.copyAt d1 hd.length b = .ok d2 ∧
      (Bytes.putBE64 d2 off (off + 8) nonce).bind (fun d => Bytes.copyAt d (off + 8) sig) =
        .ok (hd ++ b ++ (be64 nonce ++ sigWindow sig)) := by
  subst hl; subst ho
  have s1 := copyAt_zeros0 (hd.length + b.length + 8 + 16) hd (by omega)
  have s2 := copyAt_zeros hd (hd.length + b.length + 8 + 16 - hd.length) hd.length b rfl (by omega)
  have hn : hd.length + b.length + 8 + 16 - hd.length - b.length = 24 := by omega
  rw [hn] at s2
  have s4 := putBE64_zeros (hd ++ b) 24 (hd.length + b.length) (hd.length + b.length + 8) nonce
    (by simp only [List.length_append]) (by simp only [List.length_append]) (by omega)
  have s5 := copyAt_sig (hd ++ b ++ be64 nonce) (24 - 8) (hd.length + b.length + 8) sig
    (by simp only [List.length_append, be64, List.length_cons, List.length_nil]) rfl
  refine ⟨_, _, s1, s2, ?_⟩
  rw [s4, Res.bind_ok', s5]
  simp

theorem fill_plain1 (hd b : Bytes) (l : Nat) (hl : l = hd.length + b.length) :
    ∃ d1, Bytes.copyAt (List.replicate l 0) 0 hd = .ok d1 ∧ Bytes.copyAt d1 hd.length b = .ok (hd ++ b) := by
  subst hl
  have s1 := copyAt_zeros0 (hd.length + b.length) hd (by omega)
  have s2 := copyAt_zeros hd (hd.length + b.length - hd.length) hd.length b rfl (by omega)
  have hn : hd.length + b.length - hd.length - b.length = 0 := by omega
  rw [hn] at s2
  refine ⟨_, s1, ?_⟩
  rw [s2]; simp

/-- the part of the generated v1 `Pack` after the optional compression (it stands in both branches of the `if`), for the packet
`{ metadata := M, body := B }` at that point, against the model's second phase -/
macro "pack_tail1 " M:term ", " B:term : tactic => `(tactic| (
  show Res.map _ _ = packTail Ver.v1 (toModelPacket { metadata := $M, body := $B })
  rw [packTail_v1]
  simp only [hfm1_type $M $B]
  have e1 : (toModelPacket { metadata := $M, body := $B }).body = $B := rfl
  have e2 : (toModelPacket { metadata := $M, body := $B }).verify = ($M).verify := rfl
  have e3 : (toModelPacket { metadata := $M, body := $B }).nonce = ($M).nonce := rfl
  have e4 : (toModelPacket { metadata := $M, body := $B }).signature = ($M).signature := rfl
  simp only [e1, e2, e3, e4]
  by_cases hlen : List.length $B > 16777215
  · simp [hlen, Res.map]
  · simp only [hlen, decide_false, Bool.false_eq_true, if_false]
    cases hp : Header.pack Ver.v1 (H1 Ver.v1 (toModelPacket { metadata := $M, body := $B }) []) with
    | err e => rfl
    | panic w => rfl
    | ok hd =>
      simp only [Res.bind_ok']
      rcases pack_ok_len Ver.v1 _ hd hp with ⟨ht, hl⟩ | ⟨ht, hl⟩ | ⟨ht, hl⟩
      all_goals
        simp only [reqLen, respLen, pushLen, Gen.v1_RequestHeaderLen, Gen.v1_ResponseHeaderLen, Gen.v1_PushHeaderLen] at hl
        simp [ht, Res.bind_ok']
        rw [← hl]
        first
        | (obtain ⟨d1, q1, q2⟩ := fill_plain1 hd $B (hd.length + List.length $B) rfl
           simp [q1, q2, Res.bind_ok', Res.map]
           done)
        | (obtain ⟨d1, d2, q1, q2, q3⟩ := fill_verify1 hd $B ($M).signature ($M).nonce (hd.length + List.length $B)
             (hd.length + List.length $B + 8 + 16) rfl rfl
           simp [q1, q2, q3, Res.bind_ok', Res.bind_ok_right, Res.map])))

theorem v1_pack_gen_g (gz : GzOracle) (g : GPacket) (thr : Int) :
    (v1_protocolV1_Pack gz g thr).map (fun r => (r.1, toModelPacket r.2)) = Frame.pack .v1 gz (toModelPacket g) thr := by
  rw [pack_eq]
  cases g with
  | mk m b =>
  cases m with
  | mk n r c v gzf to co s t sg vals =>
  unfold v1_protocolV1_Pack packPre
  simp only [v1_hfm_eq, v1_pack_of_gen, Res.bind_ok']
  simp only [hdr1_eq]
  have hc : gzipCond .v1 thr ↑(toModelPacket { metadata := ⟨n, r, c, v, gzf, to, co, s, t, sg, vals⟩, body := b }).body.length =
      (thr != 0 && decide (Int.ofNat b.length ≥ thr)) := rfl
  rw [hc]
  have hb : (toModelPacket { metadata := ⟨n, r, c, v, gzf, to, co, s, t, sg, vals⟩, body := b }).body = b := rfl
  rw [hb]
  cases v <;> by_cases hcond : (thr != 0 && decide (Int.ofNat b.length ≥ thr)) = true
  all_goals simp only [hcond, if_true, if_false, Bool.false_eq_true]
  · cases hz : gz.compress b with
    | err e => rfl
    | panic w => rfl
    | ok a =>
      simp only [Res.bind_ok', ok_bind']
      pack_tail1 (⟨n, r, c, false, true, to, co, s, t, sg, vals⟩ : GMetadata), a
  · pack_tail1 (⟨n, r, c, false, false, to, co, s, t, sg, vals⟩ : GMetadata), b
  · cases hz : gz.compress b with
    | err e => rfl
    | panic w => rfl
    | ok a =>
      simp only [Res.bind_ok', ok_bind']
      pack_tail1 (⟨n, r, c, true, true, to, co, s, t, sg, vals⟩ : GMetadata), a
  · pack_tail1 (⟨n, r, c, true, false, to, co, s, t, sg, vals⟩ : GMetadata), b

/-! ### v2 -/

theorem packTail_v2 (P : Packet) :
    packTail .v2 P = if P.body.length > 16777215 then .err "body length hit limit" else
      match Header.pack .v2 (H1 .v2 P (Metadata.marshalMap P.values (Int.ofNat (65535 : Nat)))) with
      | .ok hd => .ok (hd ++ Metadata.marshalMap P.values (Int.ofNat (65535 : Nat)) ++ P.body ++
          (if P.verify then be64 P.nonce ++ sigWindow P.signature else []), P)
      | .err e => .err e
      | .panic w => .panic w := by
  unfold packTail H1
  have eM : Gen.v1_MaxBodyLength = 16777215 := rfl
  have eD : ((Gen.v2_MaxMetadataLength : Nat) : Int) = Int.ofNat (65535 : Nat) := rfl
  simp only [eM, eD]
  split
  · rfl
  · cases Header.pack .v2 _ <;> simp [Bind.bind, Res.bind]

theorem hdr2_eq (m : GMetadata) (b md : Bytes) :
    v2M { metadataLength := UInt16.ofNat md.length, requestId := (hfm2 m).requestId, bodyLength := UInt32.ofNat b.length,
          timeout := (hfm2 m).timeout, type := (hfm2 m).type, verify := (hfm2 m).verify, gzip := (hfm2 m).gzip,
          reserve := (hfm2 m).reserve, cmdCode := (hfm2 m).cmdCode, statusCode := (hfm2 m).statusCode,
          beginUnpack := (hfm2 m).beginUnpack, isUnpacked := (hfm2 m).isUnpacked } =
      H1 .v2 (toModelPacket { metadata := m, body := b }) md := by
  cases m with
  | mk n r c v gz to co s t sg vals => cases t <;> rfl

theorem hfm2_type (m : GMetadata) (b md : Bytes) : (hfm2 m).type = (H1 .v2 (toModelPacket { metadata := m, body := b }) md).type := by
  cases m with
  | mk n r c v gz to co s t sg vals => cases t <;> rfl

/-- the part of the generated v2 `Pack` after the optional compression, for the packet `{ metadata := M, body := B }` at that point
(`V` its `Values`), against the model's second phase -/
macro "pack_tail2 " M:term ", " B:term ", " V:term : tactic => `(tactic| (
  show Res.map _ _ = packTail Ver.v2 (toModelPacket { metadata := $M, body := $B })
  rw [packTail_v2]
  simp only [hfm2_type $M $B (Metadata.marshalMap $V (Int.ofNat (65535 : Nat)))]
  have e1 : (toModelPacket { metadata := $M, body := $B }).body = $B := rfl
  have e2 : (toModelPacket { metadata := $M, body := $B }).verify = ($M).verify := rfl
  have e3 : (toModelPacket { metadata := $M, body := $B }).nonce = ($M).nonce := rfl
  have e4 : (toModelPacket { metadata := $M, body := $B }).signature = ($M).signature := rfl
  have e5 : (toModelPacket { metadata := $M, body := $B }).values = $V := rfl
  simp only [e1, e2, e3, e4, e5]
  generalize hmd : Metadata.marshalMap $V (Int.ofNat (65535 : Nat)) = md
  by_cases hlen : List.length $B > 16777215
  · simp [hlen, Res.map]
  · simp only [hlen, decide_false, Bool.false_eq_true, if_false]
    cases hp : Header.pack Ver.v2 (H1 Ver.v2 (toModelPacket { metadata := $M, body := $B }) md) with
    | err e => rfl
    | panic w => rfl
    | ok hd =>
      simp only [Res.bind_ok']
      rcases pack_ok_len Ver.v2 _ hd hp with ⟨ht, hl⟩ | ⟨ht, hl⟩ | ⟨ht, hl⟩
      all_goals
        simp only [reqLen, respLen, pushLen, Gen.v2_RequestHeaderLen, Gen.v2_ResponseHeaderLen, Gen.v2_PushHeaderLen] at hl
        simp [ht, Res.bind_ok']
        rw [← hl]
        first
        | (obtain ⟨d1, d2, q1, q2, q3⟩ := fill_plain hd md $B (hd.length + List.length $B + md.length) (by omega)
           simp [q1, q2, q3, Res.bind_ok', Res.map]
           done)
        | (obtain ⟨d1, d2, d3, q1, q2, q3, q4⟩ := fill_verify hd md $B ($M).signature ($M).nonce (hd.length + md.length + List.length $B)
             (hd.length + List.length $B + md.length + 8 + 16) rfl (by omega)
           simp [q1, q2, q3, q4, Res.bind_ok', Res.bind_ok_right, Res.map])))

theorem v2_pack_gen_g (gz : GzOracle) (g : GPacket) (thr : Int) :
    (v2_protocolV2_Pack gz g thr).map (fun r => (r.1, toModelPacket r.2)) = Frame.pack .v2 gz (toModelPacket g) thr := by
  rw [pack_eq]
  cases g with
  | mk m b =>
  cases m with
  | mk n r c v gzf to co s t sg vals =>
  unfold v2_protocolV2_Pack packPre
  simp only [v2_hfm_eq, v2_pack_of_gen, Res.bind_ok']
  simp only [hdr2_eq]
  have hc : gzipCond .v2 thr ↑(toModelPacket { metadata := ⟨n, r, c, v, gzf, to, co, s, t, sg, vals⟩, body := b }).body.length =
      (thr != 0 && decide (Int.ofNat b.length ≥ thr)) := rfl
  rw [hc]
  have hb : (toModelPacket { metadata := ⟨n, r, c, v, gzf, to, co, s, t, sg, vals⟩, body := b }).body = b := rfl
  rw [hb]
  cases v <;> by_cases hcond : (thr != 0 && decide (Int.ofNat b.length ≥ thr)) = true
  all_goals simp only [hcond, if_true, if_false, Bool.false_eq_true]
  · cases hz : gz.compress b with
    | err e => rfl
    | panic w => rfl
    | ok a =>
      simp only [Res.bind_ok', ok_bind']
      pack_tail2 (⟨n, r, c, false, true, to, co, s, t, sg, vals⟩ : GMetadata), a, vals
  · pack_tail2 (⟨n, r, c, false, false, to, co, s, t, sg, vals⟩ : GMetadata), b, vals
  · cases hz : gz.compress b with
    | err e => rfl
    | panic w => rfl
    | ok a =>
      simp only [Res.bind_ok', ok_bind']
      pack_tail2 (⟨n, r, c, true, true, to, co, s, t, sg, vals⟩ : GMetadata), a, vals
  · pack_tail2 (⟨n, r, c, true, false, to, co, s, t, sg, vals⟩ : GMetadata), b, vals

/-! ### the statements over the model's packets -/

/-- the generated `(*protocolV1).Pack` is the model's encoder (v1): the same frame, the same mutated packet, the same errors, no panic the
model does not have — for every oracle, packet and threshold (signatures of any length, bodies of any length, any type) -/
theorem v1_pack_gen (gz : GzOracle) (p : Packet) (thr : Int) :
    (v1_protocolV1_Pack gz (toG p) thr).map (fun r => (r.1, toModelPacket r.2)) = Frame.pack .v1 gz p thr := by
  rw [v1_pack_gen_g, toModel_toG]

/-- the generated `(*protocolV2).Pack` is the model's encoder (v2) -/
theorem v2_pack_gen (gz : GzOracle) (p : Packet) (thr : Int) :
    (v2_protocolV2_Pack gz (toG p) thr).map (fun r => (r.1, toModelPacket r.2)) = Frame.pack .v2 gz p thr := by
  rw [v2_pack_gen_g, toModel_toG]

end OAP.GenFuncs
