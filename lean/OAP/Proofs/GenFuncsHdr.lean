/-
v1/v2 Header.Pack and Header.UnpackBytes (go/v1/header.go, go/v2/v2_header.go) = Frame.Header.pack / Frame.Header.unpackBytes.
Part of the function-level T2 tie: the GENERATED translations in `OAP/Gen/Funcs.lean` (rewritten from the Go source by
`extract/funcs.go` on every run) are proved equal to the hand-written model functions the property theorems are about.
-/
import OAP.Gen.Funcs
import OAP.Model.Frame
set_option linter.unusedSimpArgs false
namespace OAP.GenFuncs
open OAP OAP.Gen.Fn

def v1G (h : Header) : V1Header :=
  { requestId := h.requestId, bodyLength := h.bodyLength, timeout := h.timeout, type := h.type, verify := h.verify, gzip := h.gzip,
    reserve := h.reserve, cmdCode := h.cmdCode, statusCode := h.statusCode, beginUnpack := h.beginUnpack, isUnpacked := h.isUnpacked }
def v2G (h : Header) : V2Header :=
  { metadataLength := h.metadataLength, requestId := h.requestId, bodyLength := h.bodyLength, timeout := h.timeout, type := h.type, verify := h.verify, gzip := h.gzip,
    reserve := h.reserve, cmdCode := h.cmdCode, statusCode := h.statusCode, beginUnpack := h.beginUnpack, isUnpacked := h.isUnpacked }
def v1M (g : V1Header) : Header :=
  { requestId := g.requestId, bodyLength := g.bodyLength, timeout := g.timeout, type := g.type, verify := g.verify, gzip := g.gzip,
    reserve := g.reserve, cmdCode := g.cmdCode, statusCode := g.statusCode, beginUnpack := g.beginUnpack, isUnpacked := g.isUnpacked }
def v2M (g : V2Header) : Header :=
  { metadataLength := g.metadataLength, requestId := g.requestId, bodyLength := g.bodyLength, timeout := g.timeout, type := g.type, verify := g.verify, gzip := g.gzip,
    reserve := g.reserve, cmdCode := g.cmdCode, statusCode := g.statusCode, beginUnpack := g.beginUnpack, isUnpacked := g.isUnpacked }

theorem gt_iff (a : UInt32) (n : Nat) (hn : n < 4294967296) : (a > UInt32.ofNat n) ↔ a.toNat > n := by
  rw [gt_iff_lt, UInt32.lt_iff_toNat_lt]; simp [Nat.mod_eq_of_lt hn]

theorem v1_header_pack_gen (h : Header) : v1_Header_Pack (v1G h) = Frame.Header.pack .v1 h := by
  unfold v1_Header_Pack Frame.Header.pack
  simp only [v1_Header_IsUnknownPacket, v1_Header_length, v1G, Frame.isUnknown, Frame.tReq, Frame.tResp, Frame.tPush,
    Gen.v1_RequestPacket, Gen.v1_ResponsePacket, Gen.v1_PushPacket, Gen.v1_MaxBodyLength, Frame.packB0, Frame.packLen,
    Gen.v1PackB0, Gen.v1PackLen0, Gen.v1PackLen1, Gen.v1PackLen2]
  have hb : (h.bodyLength > (16777215 : UInt32)) ↔ h.bodyLength.toNat > 16777215 := gt_iff h.bodyLength 16777215 (by omega)
  by_cases hl : h.bodyLength.toNat > 16777215
  · by_cases h1 : h.type = 1
    · simp [h1, hl, hb, Res.bind]
    · by_cases h2 : h.type = 2
      · simp [h2, hl, hb, Res.bind]
      · by_cases h3 : h.type = 3 <;> simp [h1, h2, h3, hl, hb, Res.bind]
  · by_cases h1 : h.type = 1
    · simp [h1, hl, hb, Res.bind, Bytes.set, Bytes.putBE32, Bytes.putBE16, be32, be16, List.replicate]
    · by_cases h2 : h.type = 2
      · simp [h2, hl, hb, Res.bind, Bytes.set, Bytes.putBE32, Bytes.putBE16, be32, be16, List.replicate]
      · by_cases h3 : h.type = 3
        · simp [h1, h2, h3, hl, hb, Res.bind, Bytes.set, Bytes.putBE32, Bytes.putBE16, be32, be16, List.replicate]
        · simp [h1, h2, h3, hl, hb, Res.bind]
theorem v2_header_pack_gen (h : Header) : v2_Header_Pack (v2G h) = Frame.Header.pack .v2 h := by
  unfold v2_Header_Pack Frame.Header.pack
  simp only [v1_Header_IsUnknownPacket, v2_Header_length, v2G, V2Header.toV1Header, Frame.isUnknown, Frame.tReq, Frame.tResp, Frame.tPush,
    Gen.v1_RequestPacket, Gen.v1_ResponsePacket, Gen.v1_PushPacket, Gen.v1_MaxBodyLength, Frame.packB0, Frame.packLen,
    Gen.v2PackB0, Gen.v2PackLen0, Gen.v2PackLen1, Gen.v2PackLen2]
  have hb : (h.bodyLength > (16777215 : UInt32)) ↔ h.bodyLength.toNat > 16777215 := gt_iff h.bodyLength 16777215 (by omega)
  by_cases hl : h.bodyLength.toNat > 16777215
  · by_cases h1 : h.type = 1
    · simp [h1, hl, hb, Res.bind]
    · by_cases h2 : h.type = 2
      · simp [h2, hl, hb, Res.bind]
      · by_cases h3 : h.type = 3 <;> simp [h1, h2, h3, hl, hb, Res.bind]
  · by_cases h1 : h.type = 1
    · simp [h1, hl, hb, Res.bind, Bytes.set, Bytes.putBE32, Bytes.putBE16, be32, be16, List.replicate]
    · by_cases h2 : h.type = 2
      · simp [h2, hl, hb, Res.bind, Bytes.set, Bytes.putBE32, Bytes.putBE16, be32, be16, List.replicate]
      · by_cases h3 : h.type = 3
        · simp [h1, h2, h3, hl, hb, Res.bind, Bytes.set, Bytes.putBE32, Bytes.putBE16, be32, be16, List.replicate]
        · simp [h1, h2, h3, hl, hb, Res.bind]

theorem excons (n : Nat) (w : Bytes) (h : n + 1 ≤ w.length) : ∃ a t, w = a :: t ∧ n ≤ t.length := by
  cases w with
  | nil => simp at h
  | cons a t => exact ⟨a, t, rfl, by simpa using h⟩
macro "decons" h:ident : tactic =>
  `(tactic| (obtain ⟨_, _, he, h'⟩ := excons _ _ $h; subst he; clear $h; have $h := h'; clear h'))

theorem v1_unpack_short1 (b : UInt8) (rest : Bytes) (h1 : (15 : UInt8) &&& b = 1) (hl : rest.length + 1 < 11) :
    (v1_Header_UnpackBytes {} (b :: rest)).map (fun p => (v1M p.1, p.2)) = Frame.Header.unpackBytes .v1 (b :: rest) := by
  unfold v1_Header_UnpackBytes Frame.Header.unpackBytes
  simp only [v1_Header_IsUnknownPacket, Frame.isUnknown, Frame.tReq, Frame.tResp, Frame.tPush, Frame.hdrLen, Frame.reqLen, Frame.respLen, Frame.pushLen,
    Gen.v1_RequestPacket, Gen.v1_ResponsePacket, Gen.v1_PushPacket, Gen.v1_RequestHeaderLen, Gen.v1_ResponseHeaderLen, Gen.v1_PushHeaderLen,
    Frame.ubType, Frame.ubVerify, Frame.ubGzip, Frame.ubReserve, Frame.ubBodyLen, Gen.v1UbType, Gen.v1UbVerify, Gen.v1UbGzip, Gen.v1UbReserve, Gen.v1UbBodyLen,
    List.length_cons]
  have h2 : ¬ ((15 : UInt8) &&& b = 2) := by rw [h1]; decide
  have h3 : ¬ ((15 : UInt8) &&& b = 3) := by rw [h1]; decide
  have hl2 : rest.length < 10 := by omega
  simp [h1, h2, h3, hl, hl2, Res.bind, Res.map, Bytes.idx]

theorem v1_unpack_long1 (b : UInt8) (rest : Bytes) (h1 : (15 : UInt8) &&& b = 1) (hl : ¬ rest.length + 1 < 11) :
    (v1_Header_UnpackBytes {} (b :: rest)).map (fun p => (v1M p.1, p.2)) = Frame.Header.unpackBytes .v1 (b :: rest) := by
  unfold v1_Header_UnpackBytes Frame.Header.unpackBytes
  simp only [v1_Header_IsUnknownPacket, Frame.isUnknown, Frame.tReq, Frame.tResp, Frame.tPush, Frame.hdrLen, Frame.reqLen, Frame.respLen, Frame.pushLen,
    Gen.v1_RequestPacket, Gen.v1_ResponsePacket, Gen.v1_PushPacket, Gen.v1_RequestHeaderLen, Gen.v1_ResponseHeaderLen, Gen.v1_PushHeaderLen,
    Frame.ubType, Frame.ubVerify, Frame.ubGzip, Frame.ubReserve, Frame.ubBodyLen, Gen.v1UbType, Gen.v1UbVerify, Gen.v1UbGzip, Gen.v1UbReserve, Gen.v1UbBodyLen,
    List.length_cons]
  have h2 : ¬ ((15 : UInt8) &&& b = 2) := by rw [h1]; decide
  have h3 : ¬ ((15 : UInt8) &&& b = 3) := by rw [h1]; decide
  have hl' : 10 ≤ rest.length := by omega
  iterate 10 decons hl'
  simp [h1, h2, h3, Res.bind, Res.map, Bytes.idx, Bytes.rdBE32, Bytes.rdBE16, Bytes.slice, Bytes.sliceFrom, v1M]
  rw [if_neg (by omega), if_neg (by omega)]

theorem v1_unpack_short2 (b : UInt8) (rest : Bytes) (h2 : (15 : UInt8) &&& b = 2) (hl : rest.length + 1 < 10) :
    (v1_Header_UnpackBytes {} (b :: rest)).map (fun p => (v1M p.1, p.2)) = Frame.Header.unpackBytes .v1 (b :: rest) := by
  unfold v1_Header_UnpackBytes Frame.Header.unpackBytes
  simp only [v1_Header_IsUnknownPacket, Frame.isUnknown, Frame.tReq, Frame.tResp, Frame.tPush, Frame.hdrLen, Frame.reqLen, Frame.respLen, Frame.pushLen,
    Gen.v1_RequestPacket, Gen.v1_ResponsePacket, Gen.v1_PushPacket, Gen.v1_RequestHeaderLen, Gen.v1_ResponseHeaderLen, Gen.v1_PushHeaderLen,
    Frame.ubType, Frame.ubVerify, Frame.ubGzip, Frame.ubReserve, Frame.ubBodyLen, Gen.v1UbType, Gen.v1UbVerify, Gen.v1UbGzip, Gen.v1UbReserve, Gen.v1UbBodyLen,
    List.length_cons]
  have h1 : ¬ ((15 : UInt8) &&& b = 1) := by rw [h2]; decide
  have h3 : ¬ ((15 : UInt8) &&& b = 3) := by rw [h2]; decide
  have hl2 : rest.length < 9 := by omega
  simp [h1, h2, h3, hl, hl2, Res.bind, Res.map, Bytes.idx]

theorem v1_unpack_long2 (b : UInt8) (rest : Bytes) (h2 : (15 : UInt8) &&& b = 2) (hl : ¬ rest.length + 1 < 10) :
    (v1_Header_UnpackBytes {} (b :: rest)).map (fun p => (v1M p.1, p.2)) = Frame.Header.unpackBytes .v1 (b :: rest) := by
  unfold v1_Header_UnpackBytes Frame.Header.unpackBytes
  simp only [v1_Header_IsUnknownPacket, Frame.isUnknown, Frame.tReq, Frame.tResp, Frame.tPush, Frame.hdrLen, Frame.reqLen, Frame.respLen, Frame.pushLen,
    Gen.v1_RequestPacket, Gen.v1_ResponsePacket, Gen.v1_PushPacket, Gen.v1_RequestHeaderLen, Gen.v1_ResponseHeaderLen, Gen.v1_PushHeaderLen,
    Frame.ubType, Frame.ubVerify, Frame.ubGzip, Frame.ubReserve, Frame.ubBodyLen, Gen.v1UbType, Gen.v1UbVerify, Gen.v1UbGzip, Gen.v1UbReserve, Gen.v1UbBodyLen,
    List.length_cons]
  have h1 : ¬ ((15 : UInt8) &&& b = 1) := by rw [h2]; decide
  have h3 : ¬ ((15 : UInt8) &&& b = 3) := by rw [h2]; decide
  have hl' : 9 ≤ rest.length := by omega
  iterate 9 decons hl'
  simp [h1, h2, h3, Res.bind, Res.map, Bytes.idx, Bytes.rdBE32, Bytes.rdBE16, Bytes.slice, Bytes.sliceFrom, v1M]
  rw [if_neg (by omega), if_neg (by omega)]

theorem v1_unpack_short3 (b : UInt8) (rest : Bytes) (h3 : (15 : UInt8) &&& b = 3) (hl : rest.length + 1 < 5) :
    (v1_Header_UnpackBytes {} (b :: rest)).map (fun p => (v1M p.1, p.2)) = Frame.Header.unpackBytes .v1 (b :: rest) := by
  unfold v1_Header_UnpackBytes Frame.Header.unpackBytes
  simp only [v1_Header_IsUnknownPacket, Frame.isUnknown, Frame.tReq, Frame.tResp, Frame.tPush, Frame.hdrLen, Frame.reqLen, Frame.respLen, Frame.pushLen,
    Gen.v1_RequestPacket, Gen.v1_ResponsePacket, Gen.v1_PushPacket, Gen.v1_RequestHeaderLen, Gen.v1_ResponseHeaderLen, Gen.v1_PushHeaderLen,
    Frame.ubType, Frame.ubVerify, Frame.ubGzip, Frame.ubReserve, Frame.ubBodyLen, Gen.v1UbType, Gen.v1UbVerify, Gen.v1UbGzip, Gen.v1UbReserve, Gen.v1UbBodyLen,
    List.length_cons]
  have h1 : ¬ ((15 : UInt8) &&& b = 1) := by rw [h3]; decide
  have h2 : ¬ ((15 : UInt8) &&& b = 2) := by rw [h3]; decide
  have hl2 : rest.length < 4 := by omega
  simp [h1, h2, h3, hl, hl2, Res.bind, Res.map, Bytes.idx]

theorem v1_unpack_long3 (b : UInt8) (rest : Bytes) (h3 : (15 : UInt8) &&& b = 3) (hl : ¬ rest.length + 1 < 5) :
    (v1_Header_UnpackBytes {} (b :: rest)).map (fun p => (v1M p.1, p.2)) = Frame.Header.unpackBytes .v1 (b :: rest) := by
  unfold v1_Header_UnpackBytes Frame.Header.unpackBytes
  simp only [v1_Header_IsUnknownPacket, Frame.isUnknown, Frame.tReq, Frame.tResp, Frame.tPush, Frame.hdrLen, Frame.reqLen, Frame.respLen, Frame.pushLen,
    Gen.v1_RequestPacket, Gen.v1_ResponsePacket, Gen.v1_PushPacket, Gen.v1_RequestHeaderLen, Gen.v1_ResponseHeaderLen, Gen.v1_PushHeaderLen,
    Frame.ubType, Frame.ubVerify, Frame.ubGzip, Frame.ubReserve, Frame.ubBodyLen, Gen.v1UbType, Gen.v1UbVerify, Gen.v1UbGzip, Gen.v1UbReserve, Gen.v1UbBodyLen,
    List.length_cons]
  have h1 : ¬ ((15 : UInt8) &&& b = 1) := by rw [h3]; decide
  have h2 : ¬ ((15 : UInt8) &&& b = 2) := by rw [h3]; decide
  have hl' : 4 ≤ rest.length := by omega
  iterate 4 decons hl'
  simp [h1, h2, h3, Res.bind, Res.map, Bytes.idx, Bytes.rdBE32, Bytes.rdBE16, Bytes.slice, Bytes.sliceFrom, v1M]
  rw [if_neg (by omega), if_neg (by omega)]

theorem v1_unpack_unknown (b : UInt8) (rest : Bytes) (h1 : ¬ (15 : UInt8) &&& b = 1) (h2 : ¬ (15 : UInt8) &&& b = 2) (h3 : ¬ (15 : UInt8) &&& b = 3) :
    (v1_Header_UnpackBytes {} (b :: rest)).map (fun p => (v1M p.1, p.2)) = Frame.Header.unpackBytes .v1 (b :: rest) := by
  unfold v1_Header_UnpackBytes Frame.Header.unpackBytes
  simp only [v1_Header_IsUnknownPacket, Frame.isUnknown, Frame.tReq, Frame.tResp, Frame.tPush, Frame.hdrLen, Frame.reqLen, Frame.respLen, Frame.pushLen,
    Gen.v1_RequestPacket, Gen.v1_ResponsePacket, Gen.v1_PushPacket, Gen.v1_RequestHeaderLen, Gen.v1_ResponseHeaderLen, Gen.v1_PushHeaderLen,
    Frame.ubType, Frame.ubVerify, Frame.ubGzip, Frame.ubReserve, Frame.ubBodyLen, Gen.v1UbType, Gen.v1UbVerify, Gen.v1UbGzip, Gen.v1UbReserve, Gen.v1UbBodyLen,
    List.length_cons]
  simp [h1, h2, h3, Res.bind, Res.map, Bytes.idx]

/-- the generated translation of `(*Header).UnpackBytes` (v1) on a fresh header is the model's `Header.unpackBytes` -/
theorem v1_header_unpackBytes_gen (frame : Bytes) :
    (v1_Header_UnpackBytes {} frame).map (fun p => (v1M p.1, p.2)) = Frame.Header.unpackBytes .v1 frame := by
  match frame with
  | [] => rfl
  | b :: rest =>
    by_cases h1 : (15 : UInt8) &&& b = 1
    · by_cases hl : rest.length + 1 < 11
      · exact v1_unpack_short1 b rest h1 hl
      · exact v1_unpack_long1 b rest h1 hl
    · by_cases h2 : (15 : UInt8) &&& b = 2
      · by_cases hl : rest.length + 1 < 10
        · exact v1_unpack_short2 b rest h2 hl
        · exact v1_unpack_long2 b rest h2 hl
      · by_cases h3 : (15 : UInt8) &&& b = 3
        · by_cases hl : rest.length + 1 < 5
          · exact v1_unpack_short3 b rest h3 hl
          · exact v1_unpack_long3 b rest h3 hl
        · exact v1_unpack_unknown b rest h1 h2 h3

theorem v2_unpack_short1 (b : UInt8) (rest : Bytes) (h1 : (15 : UInt8) &&& b = 1) (hl : rest.length + 1 < 13) :
    (v2_Header_UnpackBytes {} (b :: rest)).map (fun p => (v2M p.1, p.2)) = Frame.Header.unpackBytes .v2 (b :: rest) := by
  unfold v2_Header_UnpackBytes Frame.Header.unpackBytes
  simp only [v1_Header_IsUnknownPacket, V2Header.toV1Header, Frame.isUnknown, Frame.tReq, Frame.tResp, Frame.tPush, Frame.hdrLen, Frame.reqLen, Frame.respLen, Frame.pushLen,
    Gen.v1_RequestPacket, Gen.v1_ResponsePacket, Gen.v1_PushPacket, Gen.v2_RequestHeaderLen, Gen.v2_ResponseHeaderLen, Gen.v2_PushHeaderLen,
    Frame.ubType, Frame.ubVerify, Frame.ubGzip, Frame.ubReserve, Frame.ubBodyLen, Gen.v2UbType, Gen.v2UbVerify, Gen.v2UbGzip, Gen.v2UbReserve, Gen.v2UbBodyLen,
    List.length_cons]
  have h2 : ¬ ((15 : UInt8) &&& b = 2) := by rw [h1]; decide
  have h3 : ¬ ((15 : UInt8) &&& b = 3) := by rw [h1]; decide
  have hl2 : rest.length < 12 := by omega
  simp [h1, h2, h3, hl, hl2, Res.bind, Res.map, Bytes.idx]

theorem v2_unpack_long1 (b : UInt8) (rest : Bytes) (h1 : (15 : UInt8) &&& b = 1) (hl : ¬ rest.length + 1 < 13) :
    (v2_Header_UnpackBytes {} (b :: rest)).map (fun p => (v2M p.1, p.2)) = Frame.Header.unpackBytes .v2 (b :: rest) := by
  unfold v2_Header_UnpackBytes Frame.Header.unpackBytes
  simp only [v1_Header_IsUnknownPacket, V2Header.toV1Header, Frame.isUnknown, Frame.tReq, Frame.tResp, Frame.tPush, Frame.hdrLen, Frame.reqLen, Frame.respLen, Frame.pushLen,
    Gen.v1_RequestPacket, Gen.v1_ResponsePacket, Gen.v1_PushPacket, Gen.v2_RequestHeaderLen, Gen.v2_ResponseHeaderLen, Gen.v2_PushHeaderLen,
    Frame.ubType, Frame.ubVerify, Frame.ubGzip, Frame.ubReserve, Frame.ubBodyLen, Gen.v2UbType, Gen.v2UbVerify, Gen.v2UbGzip, Gen.v2UbReserve, Gen.v2UbBodyLen,
    List.length_cons]
  have h2 : ¬ ((15 : UInt8) &&& b = 2) := by rw [h1]; decide
  have h3 : ¬ ((15 : UInt8) &&& b = 3) := by rw [h1]; decide
  have hl' : 12 ≤ rest.length := by omega
  iterate 12 decons hl'
  simp [h1, h2, h3, Res.bind, Res.map, Bytes.idx, Bytes.rdBE32, Bytes.rdBE16, Bytes.slice, Bytes.sliceFrom, v2M]
  rw [if_neg (by omega), if_neg (by omega)]

theorem v2_unpack_short2 (b : UInt8) (rest : Bytes) (h2 : (15 : UInt8) &&& b = 2) (hl : rest.length + 1 < 12) :
    (v2_Header_UnpackBytes {} (b :: rest)).map (fun p => (v2M p.1, p.2)) = Frame.Header.unpackBytes .v2 (b :: rest) := by
  unfold v2_Header_UnpackBytes Frame.Header.unpackBytes
  simp only [v1_Header_IsUnknownPacket, V2Header.toV1Header, Frame.isUnknown, Frame.tReq, Frame.tResp, Frame.tPush, Frame.hdrLen, Frame.reqLen, Frame.respLen, Frame.pushLen,
    Gen.v1_RequestPacket, Gen.v1_ResponsePacket, Gen.v1_PushPacket, Gen.v2_RequestHeaderLen, Gen.v2_ResponseHeaderLen, Gen.v2_PushHeaderLen,
    Frame.ubType, Frame.ubVerify, Frame.ubGzip, Frame.ubReserve, Frame.ubBodyLen, Gen.v2UbType, Gen.v2UbVerify, Gen.v2UbGzip, Gen.v2UbReserve, Gen.v2UbBodyLen,
    List.length_cons]
  have h1 : ¬ ((15 : UInt8) &&& b = 1) := by rw [h2]; decide
  have h3 : ¬ ((15 : UInt8) &&& b = 3) := by rw [h2]; decide
  have hl2 : rest.length < 11 := by omega
  simp [h1, h2, h3, hl, hl2, Res.bind, Res.map, Bytes.idx]

theorem v2_unpack_long2 (b : UInt8) (rest : Bytes) (h2 : (15 : UInt8) &&& b = 2) (hl : ¬ rest.length + 1 < 12) :
    (v2_Header_UnpackBytes {} (b :: rest)).map (fun p => (v2M p.1, p.2)) = Frame.Header.unpackBytes .v2 (b :: rest) := by
  unfold v2_Header_UnpackBytes Frame.Header.unpackBytes
  simp only [v1_Header_IsUnknownPacket, V2Header.toV1Header, Frame.isUnknown, Frame.tReq, Frame.tResp, Frame.tPush, Frame.hdrLen, Frame.reqLen, Frame.respLen, Frame.pushLen,
    Gen.v1_RequestPacket, Gen.v1_ResponsePacket, Gen.v1_PushPacket, Gen.v2_RequestHeaderLen, Gen.v2_ResponseHeaderLen, Gen.v2_PushHeaderLen,
    Frame.ubType, Frame.ubVerify, Frame.ubGzip, Frame.ubReserve, Frame.ubBodyLen, Gen.v2UbType, Gen.v2UbVerify, Gen.v2UbGzip, Gen.v2UbReserve, Gen.v2UbBodyLen,
    List.length_cons]
  have h1 : ¬ ((15 : UInt8) &&& b = 1) := by rw [h2]; decide
  have h3 : ¬ ((15 : UInt8) &&& b = 3) := by rw [h2]; decide
  have hl' : 11 ≤ rest.length := by omega
  iterate 11 decons hl'
  simp [h1, h2, h3, Res.bind, Res.map, Bytes.idx, Bytes.rdBE32, Bytes.rdBE16, Bytes.slice, Bytes.sliceFrom, v2M]
  rw [if_neg (by omega), if_neg (by omega)]

theorem v2_unpack_short3 (b : UInt8) (rest : Bytes) (h3 : (15 : UInt8) &&& b = 3) (hl : rest.length + 1 < 7) :
    (v2_Header_UnpackBytes {} (b :: rest)).map (fun p => (v2M p.1, p.2)) = Frame.Header.unpackBytes .v2 (b :: rest) := by
  unfold v2_Header_UnpackBytes Frame.Header.unpackBytes
  simp only [v1_Header_IsUnknownPacket, V2Header.toV1Header, Frame.isUnknown, Frame.tReq, Frame.tResp, Frame.tPush, Frame.hdrLen, Frame.reqLen, Frame.respLen, Frame.pushLen,
    Gen.v1_RequestPacket, Gen.v1_ResponsePacket, Gen.v1_PushPacket, Gen.v2_RequestHeaderLen, Gen.v2_ResponseHeaderLen, Gen.v2_PushHeaderLen,
    Frame.ubType, Frame.ubVerify, Frame.ubGzip, Frame.ubReserve, Frame.ubBodyLen, Gen.v2UbType, Gen.v2UbVerify, Gen.v2UbGzip, Gen.v2UbReserve, Gen.v2UbBodyLen,
    List.length_cons]
  have h1 : ¬ ((15 : UInt8) &&& b = 1) := by rw [h3]; decide
  have h2 : ¬ ((15 : UInt8) &&& b = 2) := by rw [h3]; decide
  have hl2 : rest.length < 6 := by omega
  simp [h1, h2, h3, hl, hl2, Res.bind, Res.map, Bytes.idx]

theorem v2_unpack_long3 (b : UInt8) (rest : Bytes) (h3 : (15 : UInt8) &&& b = 3) (hl : ¬ rest.length + 1 < 7) :
    (v2_Header_UnpackBytes {} (b :: rest)).map (fun p => (v2M p.1, p.2)) = Frame.Header.unpackBytes .v2 (b :: rest) := by
  unfold v2_Header_UnpackBytes Frame.Header.unpackBytes
  simp only [v1_Header_IsUnknownPacket, V2Header.toV1Header, Frame.isUnknown, Frame.tReq, Frame.tResp, Frame.tPush, Frame.hdrLen, Frame.reqLen, Frame.respLen, Frame.pushLen,
    Gen.v1_RequestPacket, Gen.v1_ResponsePacket, Gen.v1_PushPacket, Gen.v2_RequestHeaderLen, Gen.v2_ResponseHeaderLen, Gen.v2_PushHeaderLen,
    Frame.ubType, Frame.ubVerify, Frame.ubGzip, Frame.ubReserve, Frame.ubBodyLen, Gen.v2UbType, Gen.v2UbVerify, Gen.v2UbGzip, Gen.v2UbReserve, Gen.v2UbBodyLen,
    List.length_cons]
  have h1 : ¬ ((15 : UInt8) &&& b = 1) := by rw [h3]; decide
  have h2 : ¬ ((15 : UInt8) &&& b = 2) := by rw [h3]; decide
  have hl' : 6 ≤ rest.length := by omega
  iterate 6 decons hl'
  simp [h1, h2, h3, Res.bind, Res.map, Bytes.idx, Bytes.rdBE32, Bytes.rdBE16, Bytes.slice, Bytes.sliceFrom, v2M]
  rw [if_neg (by omega), if_neg (by omega)]

theorem v2_unpack_unknown (b : UInt8) (rest : Bytes) (h1 : ¬ (15 : UInt8) &&& b = 1) (h2 : ¬ (15 : UInt8) &&& b = 2) (h3 : ¬ (15 : UInt8) &&& b = 3) :
    (v2_Header_UnpackBytes {} (b :: rest)).map (fun p => (v2M p.1, p.2)) = Frame.Header.unpackBytes .v2 (b :: rest) := by
  unfold v2_Header_UnpackBytes Frame.Header.unpackBytes
  simp only [v1_Header_IsUnknownPacket, V2Header.toV1Header, Frame.isUnknown, Frame.tReq, Frame.tResp, Frame.tPush, Frame.hdrLen, Frame.reqLen, Frame.respLen, Frame.pushLen,
    Gen.v1_RequestPacket, Gen.v1_ResponsePacket, Gen.v1_PushPacket, Gen.v2_RequestHeaderLen, Gen.v2_ResponseHeaderLen, Gen.v2_PushHeaderLen,
    Frame.ubType, Frame.ubVerify, Frame.ubGzip, Frame.ubReserve, Frame.ubBodyLen, Gen.v2UbType, Gen.v2UbVerify, Gen.v2UbGzip, Gen.v2UbReserve, Gen.v2UbBodyLen,
    List.length_cons]
  simp [h1, h2, h3, Res.bind, Res.map, Bytes.idx]

/-- the generated translation of `(*Header).UnpackBytes` (v2) on a fresh header is the model's `Header.unpackBytes` -/
theorem v2_header_unpackBytes_gen (frame : Bytes) :
    (v2_Header_UnpackBytes {} frame).map (fun p => (v2M p.1, p.2)) = Frame.Header.unpackBytes .v2 frame := by
  match frame with
  | [] => rfl
  | b :: rest =>
    by_cases h1 : (15 : UInt8) &&& b = 1
    · by_cases hl : rest.length + 1 < 13
      · exact v2_unpack_short1 b rest h1 hl
      · exact v2_unpack_long1 b rest h1 hl
    · by_cases h2 : (15 : UInt8) &&& b = 2
      · by_cases hl : rest.length + 1 < 12
        · exact v2_unpack_short2 b rest h2 hl
        · exact v2_unpack_long2 b rest h2 hl
      · by_cases h3 : (15 : UInt8) &&& b = 3
        · by_cases hl : rest.length + 1 < 7
          · exact v2_unpack_short3 b rest h3 hl
          · exact v2_unpack_long3 b rest h3 hl
        · exact v2_unpack_unknown b rest h1 h2 h3

end OAP.GenFuncs
